/-
Line-protocol driver for the hand-written models (T3 correspondence).
One request per input line, one reply line per request.  Built as the native
executable `dassh_model` (everything it imports is Mathlib-free).
-/
import Dassh.Model.AxialMesh
import Dassh.Model.Mesh
import Dassh.Model.Peaks
import Dassh.Model.Pressure
import Dassh.Model.Power
import Dassh.Model.Orifice
import Dassh.Model.Accept
import Dassh.Model.Pin
import Dassh.Model.Regions
import Dassh.Model.HotspotSort
import Dassh.Model.FlowSplit
import Dassh.Model.AcceptRegions
import Dassh.Model.PowerRows
import Dassh.Model.AcceptFuel
import Dassh.Model.Assignment
import Dassh.Model.PowerIntegral

open Dassh.Model

def natList (ws : List String) : Option (List Nat) := ws.mapM String.toNat?

def showNats (xs : List Nat) : String := " ".intercalate (xs.map toString)

/-- doubles cross the protocol as their 64-bit patterns (decimal Nat) -/
def floatList (ws : List String) : Option (List Float) :=
  ws.mapM fun w => w.toNat?.map fun n => Float.ofBits n.toUInt64

def showFloats (xs : List Float) : String := " ".intercalate (xs.map fun x => toString x.toBits.toNat)

def showMatrix (m : List (List Float)) : String :=
  toString m.length ++ " " ++ toString (m.head?.map List.length |>.getD 0) ++ " "
    ++ showFloats m.flatten

def splitBar (ws : List String) : List String × List String :=
  (ws.takeWhile (· ≠ "|"), (ws.dropWhile (· ≠ "|")).drop 1)

instance : NatCast Float := ⟨Float.ofNat⟩

def floatPairs : List Float → List (Float × Float)
  | a :: b :: t => (a, b) :: floatPairs t
  | _ => []

def handle (line : String) : String :=
  match (line.trimAscii.toString.splitOn " ").filter (· ≠ "") with
  | "planes" :: req :: L :: fuel :: bs =>
    match req.toNat?, L.toNat?, fuel.toNat?, natList bs with
    | some r, some l, some f, some b =>
      let ps := AxialMesh.planes b r l f
      -- the fuel bound is reported so that the caller can tell "ran out of fuel" from "reached L"
      (if ps.getLast? == some l || (ps.getLast?.getD 0) ≥ l then "ok " else "fuel ") ++ showNats ps
    | _, _, _, _ => "bad-op"
  | "merge" :: bs =>
    match natList bs with
    | some b => "ok " ++ showNats (AxialMesh.mergeBnds b)
    | none => "bad-op"
  | ["reqdz", m, u] =>
    match m.toNat? with
    | some mm =>
      if u == "none" then "ok " ++ toString (AxialMesh.reqDz mm none)
      else match u.toNat? with
        | some uu => "ok " ++ toString (AxialMesh.reqDz mm (some uu))
        | none => "bad-op"
    | none => "bad-op"
  | "f2c" :: rest =>
    let (a, b) := splitBar rest
    match floatList a, floatList b with
    | some xr, some xc => "ok " ++ showMatrix (Mesh.f2c xr xc)
    | _, _ => "bad-op"
  | "c2f" :: rest =>
    let (a, b) := splitBar rest
    match floatList a, floatList b with
    | some xr, some xc => "ok " ++ showMatrix (Mesh.c2f xr xc)
    | _, _ => "bad-op"
  | "peak" :: rest =>
    match floatList rest with
    | some vs =>
      let r := Peaks.run ((0.0 : Float), (0.0 : Float)) (floatPairs vs)
      "ok " ++ showFloats [r.1, r.2]
    | none => "bad-op"
  | "pinrows" :: rest =>
    -- pinrows 0/1 ...   (Peaks.pinRowLabels: labels of the rows of a peak pin table)
    match natList rest with
    | some bs => "ok " ++ showNats (Peaks.pinRowLabels (bs.map (· != 0)))
    | none => "bad-op"
  | "dp" :: strict :: rest =>
    -- dp <0|1> cf cg kloss | grids... | z dz z dz ...
    let (coef, r1) := splitBar rest
    let (gs, st) := splitBar r1
    match floatList coef, floatList gs, floatList st with
    | some [cf, cg, kl], some grids, some vs =>
      let r := Pressure.sweep (strict == "1") grids cf cg kl (floatPairs vs)
      "ok " ++ showFloats [r.1, r.2.1, r.2.2]
    | _, _, _ => "bad-op"
  | "dpp" :: rest =>
    -- dpp grids... | planes...   (number of grid losses accumulated over the plane list: comparisons only)
    let (gs, ps) := splitBar rest
    match floatList gs, floatList ps with
    | some grids, some planes => "ok " ++ toString (Pressure.gridLosses grids planes)
    | _, _ => "bad-op"
  | "power" :: fixed :: rest =>
    -- power <0|1> avg cellLen | dz p inBundle(0/1 as float) ...
    let (hd, st) := splitBar rest
    match floatList hd, floatList st with
    | some [avg, cl], some vs =>
      let rec triples : List Float → List (Power.Step Float)
        | a :: b :: c :: t => ⟨a, b, c != 0.0⟩ :: triples t
        | _ => []
      let steps := triples vs
      "ok " ++ showFloats [Power.renorm (fixed == "1") avg cl steps, Power.delivered (fixed == "1") avg cl steps]
    | _, _ => "bad-op"
  | "group" :: strict :: ng :: rest =>
    -- group <0|1> nGroups cutoff delta | params (descending)
    let (hd, ps) := splitBar rest
    match ng.toNat?, floatList hd, floatList ps with
    | some n, some [c0, dl], some params =>
      let sizes (g : List (List Float)) : String :=
        " ".intercalate (g.map fun grp => toString grp.length)
      match Orifice.group (strict == "1") n c0 dl params with
      | Orifice.Outcome.ok g => "ok " ++ sizes g
      | Orifice.Outcome.notConverged g => "error " ++ sizes g
    | _, _, _ => "bad-op"
  | "pin" :: rest =>
    -- pin Tcool C h ro lnOuter lnFull kc gapDrop qdens | d k d k ...   (fuel shells from the surface inwards)
    let (hd, sh) := splitBar rest
    match floatList hd, floatList sh with
    | some [tc, c, h, ro, lo, lf, kc, gap, qd], some vs =>
      let cl : Pin.Clad Float := ⟨tc, c, h, ro, lo, lf, kc⟩
      let tid := Pin.cladID cl
      let ts := tid + gap
      let fuel := Pin.fuelShells qd ts (floatPairs vs)
      "ok " ++ showFloats ([Pin.cladOD cl, Pin.cladMW cl, tid, ts] ++ fuel)
    | _, _ => "bad-op"
  | "fsiter" :: rest =>
    -- fsiter re deb lam kgrid len | x de reL reT cfL cfT s | (edge) | (corner)
    let (hd, r1) := splitBar rest
    let (a, r2) := splitBar r1
    let (b, c) := splitBar r2
    match floatList hd, floatList a, floatList b, floatList c with
    | some [re, deb, lam, kg, len], some t0, some t1, some t2 =>
      match FlowSplit.updateFloat re deb lam kg len t0 t1 t2 with
      | some (x0, x1, x2) => "ok " ++ showFloats [x0, x1, x2]
      | none => "bad-op"
    | _, _, _, _ => "bad-op"
  | "hssort" :: rest =>
    -- hssort id id ...   (HotspotSort.sortById: pairs id:rowindex)
    match natList rest with
    | some ids => "ok " ++ " ".intercalate ((HotspotSort.sortById ids).map fun p => toString p.1 ++ ":" ++ toString p.2)
    | none => "bad-op"
  | "region" :: rest =>
    -- region bnds... | z...   (Regions.activeRegion for every z)
    let (bs, zs) := splitBar rest
    match natList bs, natList zs with
    | some b, some z => "ok " ++ showNats (z.map (Regions.activeRegion b))
    | _, _ => "bad-op"
  | "regions" :: rest =>
    -- regions L | lo hi lo hi ...   (AcceptRegions.checkRegions / roddedBnds on the user's pairs, in the user's order)
    let (hd, ps) := splitBar rest
    let rec pairUp : List Float → Option (List (Float × Float))
      | [] => some []
      | a :: b :: t => (pairUp t).map ((a, b) :: ·)
      | _ => none
    match floatList hd, (floatList ps).bind pairUp with
    | some [len], some regs =>
      (match AcceptRegions.checkRegions len regs with
       | .ok () => let b := AcceptRegions.roddedBnds len regs; "ok " ++ showFloats [b.1, b.2]
       | .error e => "err " ++ (match e with
          | .nonPositiveHeight => "height" | .overlap => "overlap" | .multipleRodded => "multiple" | .noRodded => "norods"))
    | _, _ => "bad-op"
  | "regionsf" :: rest =>
    -- regionsf L | lo hi vf known(0/1) ...   (AcceptRegions.checkRegionsFull: attributes first, then the bounds)
    let (hd, ps) := splitBar rest
    let rec quads : List Float → Option (List ((Float × Float) × (Float × Bool)))
      | [] => some []
      | a :: b :: c :: d :: t => (quads t).map (((a, b), (c, d != 0.0)) :: ·)
      | _ => none
    match floatList hd, (floatList ps).bind quads with
    | some [len], some qs =>
      let regs := qs.map (·.1)
      (match AcceptRegions.checkRegionsFull len regs (qs.map (·.2)) with
       | .ok () => let b := AcceptRegions.roddedBnds len regs; "ok " ++ showFloats [b.1, b.2]
       | .error e => "err " ++ (match e with
          | .noCoolant => "nocoolant" | .unknownModel => "model"
          | .bounds .nonPositiveHeight => "height" | .bounds .overlap => "overlap"
          | .bounds .multipleRodded => "multiple" | .bounds .noRodded => "norods"))
    | _, _ => "bad-op"
  | "prows" :: rest =>
    -- prows nItems nTerms | zlo idx c_1 .. c_nTerms  zlo idx c_1 ..   (PowerRows.table; rows in file order)
    let (hd, body) := splitBar rest
    match natList hd, natList body with
    | some [nItems, nTerms], some toks =>
      let rec rowsOf (fuel : Nat) (ts : List Nat) : Option (List (PowerRows.Row Float)) :=
        match fuel, ts with
        | _, [] => some []
        | 0, _ => none
        | fuel + 1, z :: i :: t =>
          if t.length < nTerms then none
          else (rowsOf fuel (t.drop nTerms)).map
            ({ zlo := Float.ofBits z.toUInt64, idx := i, coeffs := (t.take nTerms).map fun n => Float.ofBits n.toUInt64 } :: ·)
        | _, _ => none
      (match rowsOf toks.length toks with
       | some rows =>
         "ok " ++ " | ".intercalate ((PowerRows.table nItems rows).map fun cell =>
           " ; ".intercalate (cell.map showFloats))
       | none => "bad-op")
    | _, _ => "bad-op"
  | "fuel" :: rest =>
    -- fuel puLimit inner gap fcgap hasClad(0/1) hasGapMaterial(0/1) | r_frac.. | pu_frac.. | zr_frac.. | porosity..
    let rec parts (ws : List String) (cur : List String) (acc : List (List String)) : List (List String) :=
      match ws with
      | [] => (cur.reverse :: acc).reverse
      | "|" :: t => parts t [] (cur.reverse :: acc)
      | w :: t => parts t (w :: cur) acc
    match parts rest [] [] with
    | [hd, r, pu, zr, po] =>
      (match hd, floatList r, floatList pu, floatList zr, floatList po with
       | [lim, inner, gap, fcgap, hc, hg], some r, some pu, some zr, some po =>
         (match floatList [lim, inner, gap, fcgap] with
          | some [lim, inner, gap, fcgap] =>
            (match AcceptFuel.checkFuel lim { innerRadius := inner, gap := gap, fcgap := fcgap, rFrac := r, puFrac := pu, zrFrac := zr,
                                              porosity := po, hasClad := hc == "1", hasGapMaterial := hg == "1" } with
             | .ok () => "ok"
             | .error e => "err " ++ (match e with
                | .gapTooThick => "gap" | .notIncreasing => "increasing" | .rFracRange => "rfrac" | .empty => "empty"
                | .lengthMismatch => "length" | .noClad => "noclad" | .noGapMaterial => "nogapmat" | .fractionRange => "fraction"
                | .puTooHigh => "pu"))
          | _ => "bad-op")
       | _, _, _, _, _ => "bad-op")
    | _ => "bad-op"
  | ["assign", r, p0, p1] =>
    -- assign ring first last   (Assignment.lineIndices; signed integers)
    (match r.toInt?, p0.toInt?, p1.toInt? with
     | some r, some p0, some p1 =>
       (match Assignment.lineIndices r p0 p1 with
        | some idx => "ok " ++ showNats idx
        | none => "err")
     | _, _, _ => "bad-op")
  | "pint" :: rest =>
    -- pint nTerms | c c c ...   (PowerIntegral.cellAverage; items of nTerms coefficients each)
    let (hd, body) := splitBar rest
    match natList hd, floatList body with
    | some [nTerms], some cs =>
      if nTerms = 0 then "bad-op" else
      let rec chunks (fuel : Nat) (l : List Float) : List (List Float) :=
        match fuel with
        | 0 => []
        | fuel + 1 => if l.isEmpty then [] else l.take nTerms :: chunks fuel (l.drop nTerms)
      "ok " ++ showFloats [PowerIntegral.cellAverage (chunks cs.length cs)]
    | _, _ => "bad-op"
  | "clamp" :: rest =>
    -- clamp m | lims...   (Orifice.clampGroup)
    let (hd, ls) := splitBar rest
    match floatList hd, floatList ls with
    | some [m], some lims => "ok " ++ showFloats [Orifice.clampGroup m lims]
    | _, _ => "bad-op"
  | "orif" :: rest =>
    -- orif present(0/1)... | id flow id flow ...   (Orifice.writeFlows on positions holding 0.0 when present; prints per
    -- position "n" for empty or the bits of the flow)
    let (ps, ws) := splitBar rest
    let rec pairsOf : List String → Option (List (Nat × Float))
      | [] => some []
      | a :: b :: t => do
        let i ← a.toNat?
        let n ← b.toNat?
        let r ← pairsOf t
        pure ((i, Float.ofBits n.toUInt64) :: r)
      | _ => none
    match natList ps, pairsOf ws with
    | some present, some prs =>
      let pos : List (Option Float) := present.map fun b => if b = 0 then none else some 0.0
      let out := Orifice.writeFlows pos prs
      "ok " ++ " ".intercalate (out.map fun o => match o with | none => "n" | some x => toString x.toBits.toNat)
    | _, _ => "bad-op"
  | "accept" :: rest =>
    -- accept length asmPitch flowGap(0/1) bypass | nRing pitch diam clad wire lowFid(0/1) ducts... | ... || bc bc ...
    -- (assemblies separated by "|", boundary conditions after "||"; a missing bc is the token "none")
    let toks := rest
    let bcPart := (toks.dropWhile (· ≠ "||")).drop 1
    let front := toks.takeWhile (· ≠ "||")
    let rec groups (ws : List String) (cur : List String) (acc : List (List String)) : List (List String) :=
      match ws with
      | [] => (cur.reverse :: acc).reverse
      | "|" :: t => groups t [] (cur.reverse :: acc)
      | w :: t => groups t (w :: cur) acc
    match groups front [] [] with
    | coreW :: asmWs =>
      let fl (w : String) : Float := match w.toNat? with | some n => Float.ofBits n.toUInt64 | none => 0.0
      match coreW with
      | [l, p, fg, bf] =>
        let core : Accept.CoreIn Float := ⟨fl l, fl p, fg == "1", fl bf⟩
        let asms : List (Accept.Asm Float) := asmWs.filterMap fun ws =>
          match ws with
          | nr :: pp :: dd :: cl :: wi :: lf :: ducts =>
            some ⟨nr.toNat?.getD 0, fl pp, fl dd, fl cl, fl wi, ducts.map fl, lf == "1"⟩
          | _ => none
        let bcs : List (Option Float) := bcPart.map fun w => if w == "none" then none else some (fl w)
        match Accept.accepts (Float.sqrt 3.0) core asms bcs with
        | .ok () => "accepted"
        | .error e => "rejected " ++ toString (repr e)
      | _ => "bad-op"
    | [] => "bad-op"
  | _ => "bad-op"

partial def loop (h : IO.FS.Stream) : IO Unit := do
  let line ← h.getLine
  if line.isEmpty then return ()
  IO.println (handle line)
  loop h

def main : IO Unit := do loop (← IO.getStdin)
