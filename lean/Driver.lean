/-
Line-protocol driver for the hand-written models (T3 correspondence).
One request per input line, one reply line per request.  Built as the native
executable `dassh_model` (everything it imports is Mathlib-free).
-/
import Dassh.Model.AxialMesh

open Dassh.Model

def natList (ws : List String) : Option (List Nat) := ws.mapM String.toNat?

def showNats (xs : List Nat) : String := " ".intercalate (xs.map toString)

def handle (line : String) : String :=
  match (line.trimAscii.toString.splitOn " ").filter (· ≠ "") with
  | "planes" :: req :: L :: fuel :: bs =>
    match req.toNat?, L.toNat?, fuel.toNat?, natList bs with
    | some r, some l, some f, some b =>
      let ps := AxialMesh.planes b r l f
      -- the fuel bound is reported so that the caller can tell "ran out of fuel" from "reached L"
      (if ps.getLast? == some l || (ps.getLast?.getD 0) ≥ l then "ok " else "fuel ") ++ showNats ps
    | _, _, _, _ => "bad-op"
  | "merge" :: bs =>
    match natList bs with
    | some b => "ok " ++ showNats (AxialMesh.mergeBnds b)
    | none => "bad-op"
  | ["reqdz", m, u] =>
    match m.toNat? with
    | some mm =>
      if u == "none" then "ok " ++ toString (AxialMesh.reqDz mm none)
      else match u.toNat? with
        | some uu => "ok " ++ toString (AxialMesh.reqDz mm (some uu))
        | none => "bad-op"
    | none => "bad-op"
  | _ => "bad-op"

partial def loop (h : IO.FS.Stream) : IO Unit := do
  let line ← h.getLine
  if line.isEmpty then return ()
  IO.println (handle line)
  loop h

def main : IO Unit := do loop (← IO.getStdin)
