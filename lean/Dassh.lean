-- Root of the `Dassh` library.  Individual property modules are built on demand
-- (`lake build Dassh.Props.Cxx`); this root only pulls in everything for `bin/setup`.
import Dassh.All
