/-
Hand-written executable model of the numeric / semantic acceptance layer of the input
reader (`check_pin`, `check_duct`, `check_core_specifications`,
`check_assignment_boundary_conditions`): which assembly / core descriptions are rejected.
Generic in the scalar type; `s3` stands for √3.
-/
namespace Dassh.Model.Accept

inductive Err where
  | nonPositive | pitchLtDiameter | cladGtRadius | wireTooThick | pinsDoNotFit
  | ductOdd | ductEqual | ductGePitch | outerDuctsDiffer | flowModelNoBypass | bypassNotBelowOne | bcMissing | bcNonPositive
  deriving DecidableEq, Repr

variable {α : Type} [Add α] [Sub α] [Mul α] [Div α] [OfNat α 0] [OfNat α 1] [OfNat α 2] [NatCast α] [LT α] [LE α]
  [DecidableRel (α := α) (· < ·)] [DecidableRel (α := α) (· ≤ ·)] [DecidableEq α]

structure Asm (α : Type) where
  nRing : Nat
  pitch : α
  diam : α
  clad : α
  wire : α
  ducts : List α
  lowFidelity : Bool

structure CoreIn (α : Type) where
  length : α
  asmPitch : α
  flowGap : Bool
  bypassFraction : α

def minList (x : α) (xs : List α) : α := xs.foldl (fun m v => if v < m then v else m) x

/-- `check_pin` for one assembly type -/
def checkPin (s3 : α) (a : Asm α) : Except Err Unit :=
  if a.nRing = 0 ∨ a.pitch ≤ 0 ∨ a.diam ≤ 0 ∨ a.clad ≤ 0 then .error Err.nonPositive
  else if a.pitch ≤ a.diam then .error Err.pitchLtDiameter
  else if a.diam / 2 < a.clad then .error Err.cladGtRadius
  else if a.pitch - a.diam < a.wire then .error Err.wireTooThick
  else if a.lowFidelity then .ok ()
  else match a.ducts with
    | [] => .ok ()
    | d :: ds =>
      if minList d ds - (s3 * ((a.nRing - 1 : Nat) : α) * a.pitch + a.diam + 2 * a.wire) < 0 then .error Err.pinsDoNotFit
      else .ok ()

def pairs : List α → List (α × α)
  | a :: b :: t => (a, b) :: pairs t
  | _ => []

/-- `check_duct` for one assembly type (the first failing condition in the code's order may differ
between pairs; the set of rejected inputs is the same) -/
def checkDuct (asmPitch : α) (a : Asm α) : Except Err Unit :=
  if a.ducts.length % 2 ≠ 0 then .error Err.ductOdd
  else if (pairs a.ducts).any (fun p => decide (p.1 ≤ 0) || decide (p.2 ≤ 0)) then .error Err.nonPositive
  else if (pairs a.ducts).any (fun p => decide (p.1 = p.2)) then .error Err.ductEqual
  else if a.ducts.any (fun f => decide (asmPitch ≤ f)) then .error Err.ductGePitch
  else .ok ()

def firstErr : List (Except Err Unit) → Except Err Unit
  | [] => .ok ()
  | (.error e) :: _ => .error e
  | (.ok ()) :: t => firstErr t

/-- `check_core_specifications` -/
def coreCheck (core : CoreIn α) : Except Err Unit :=
  if core.length ≤ 0 ∨ core.asmPitch ≤ 0 then .error Err.nonPositive
  else if 1 ≤ core.bypassFraction then .error Err.bypassNotBelowOne
  else if core.flowGap ∧ core.bypassFraction = 0 then .error Err.flowModelNoBypass
  else .ok ()

/-- the reader's verdict on the numeric layer -/
def accepts (s3 : α) (core : CoreIn α) (asms : List (Asm α)) (bcs : List (Option α)) : Except Err Unit :=
  firstErr (
    (asms.map (checkPin s3)) ++ (asms.map (checkDuct core.asmPitch))
    ++ [match asms.map (fun a => a.ducts.getLast?) with
        | [] => .ok ()
        | o :: os => if os.any (fun x => x != o) then .error Err.outerDuctsDiffer else .ok ()]
    ++ (bcs.map fun b => match b with
        | none => .error Err.bcMissing
        | some v => if v ≤ 0 then .error Err.bcNonPositive else .ok ())
    ++ [coreCheck core])

end Dassh.Model.Accept
