/-
Hand-written executable model of the orifice grouping (`Orificing._group`,
`_check_new_group`) and of one flow-redistribution update of `Orificing.distribute`.
Generic in the scalar type (Float in the driver, an ordered field in the proofs).
-/
namespace Dassh.Model.Orifice

variable {α : Type} [Add α] [Sub α] [Mul α] [Div α] [OfNat α 0] [NatCast α] [LT α] [Max α] [Min α]
  [DecidableRel (α := α) (· < ·)]

/-- `_check_new_group`: does `next` start a new group, given the members of the active group? -/
def startsNew (grp : List α) (next cutoff : α) : Bool :=
  let upd := grp ++ [next]
  match upd with
  | [] => false
  | x :: xs =>
    let mn := xs.foldl min x
    let mx := xs.foldl max x
    let avg := (upd.foldl (· + ·) 0) / (upd.length : α)
    decide (cutoff < (mx - mn) / avg)

/-- one pass over the (descending) parameter list at a fixed cutoff.
State: finished groups (reversed), active group. -/
def sweepGroups (cutoff : α) : List α → List (List α)
  | [] => []
  | x :: xs =>
    let r := xs.foldl (fun (acc : List (List α) × List α) v =>
      if startsNew acc.2 v cutoff then (acc.2 :: acc.1, [v]) else (acc.1, acc.2 ++ [v])) ([], [x])
    (r.2 :: r.1).reverse

inductive Outcome (α : Type) where
  | ok : List (List α) → Outcome α
  | notConverged : List (List α) → Outcome α

/-- `_group`: adaptive loop on the cutoff.  `strictCheck = false` mirrors the original final test
(`n_grp != n_groups - 1` raises), `true` the corrected one (`n_grp != n_groups` raises). -/
def group (strictCheck : Bool) (nGroups : Nat) (cutoff0 delta : α) [OfNat α 10] (params : List α) : Outcome α :=
  let rec loop (fuel : Nat) (cutoff : α) (last : List (List α)) (started : Bool) : List (List α) × Nat :=
    match fuel with
    | 0 => (last, 0)
    | fuel + 1 =>
      if started && last.length == nGroups then (last, fuel + 1)
      else
        let g := sweepGroups cutoff params
        let n := g.length
        let c1 := if n > nGroups - 1 then cutoff + delta else cutoff
        let c2 := if n < nGroups then c1 / 10 else c1
        loop fuel c2 g true
  let (g, left) := loop 1000 cutoff0 [] false
  -- the while loop runs while n_grp != n_groups and iter < 1000
  let n := g.length
  if left == 0 then
    (if strictCheck then (if n != nGroups then Outcome.notConverged g else Outcome.ok g)
     else (if n != nGroups - 1 then Outcome.notConverged g else Outcome.ok g))
  else Outcome.ok g

/-- flows after one redistribution update: every group but the last gets its members' previous
flow times the group factor, clipped (all members) at the limit if any member would exceed it;
the last group shares the remainder equally. `groups` holds (previous member flow, member count, factor). -/
def distributeStep (mTotal : α) (limit : Option α) (groups : List (α × Nat × α)) (nLast : Nat) : List α × α :=
  let flows := groups.map fun g =>
    let m := g.1 * g.2.2
    match limit with
    | some l => if l < m then l else m
    | none => m
  let used := (List.zipWith (fun f (g : α × Nat × α) => f * (g.2.1 : α)) flows groups).foldl (· + ·) 0
  (flows, (mTotal - used) / (nLast : α))

/-- the clamp of one group in `distribute`: members of several assembly types have their own flow limits `lims` (the flow at
which that type reaches the pressure-drop limit); if the wanted flow `m` exceeds ANY member's limit, every member gets the
smallest limit (`np.min(m_lim_grp)`), so the group stays uniform -/
def clampGroup (m : α) (lims : List α) : α :=
  match lims with
  | [] => m
  | l :: ls => if lims.any (fun x => decide (x < m)) then ls.foldl min l else m

/-- the variant that two seeded changes introduced: clamp to the FIRST member's limit -/
def clampGroupFirst (m : α) (lims : List α) : α :=
  match lims with
  | [] => m
  | l :: _ => if lims.any (fun x => decide (x < m)) then l else m

/-- `_setup_input_orifice`: the distributed flows are written into the assignment of the orificed sweep by ASSEMBLY ID
(`ByPosition[asm_id[i]] := flowrate m_asm[i]`); a position is `none` (empty, or not written yet) or carries a flow -/
def writeFlows (pos : List (Option α)) : List (Nat × α) → List (Option α)
  | [] => pos
  | (i, m) :: t => writeFlows (pos.set i (some m)) t

/-- the variant of a seeded change: the flows are paired with the assigned (non-empty) positions in order -/
def writeFlowsByOrder : List (Option α) → List α → List (Option α)
  | [], _ => []
  | none :: ps, ms => none :: writeFlowsByOrder ps ms
  | some x :: ps, [] => some x :: writeFlowsByOrder ps []
  | some _ :: ps, m :: ms => some m :: writeFlowsByOrder ps ms

end Dassh.Model.Orifice
