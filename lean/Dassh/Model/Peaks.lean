/-
Hand-written executable model of the running-maximum bookkeeping in
`Assembly._update_peak_coolant_temps / _update_peak_duct_temps /
_update_peak_pin_temps`: a stored (value, tag) pair is replaced by a new pair
exactly when the new value is strictly larger.  `tag` is the height (or the
height plus the radial profile of the pin).  Generic in the ordered value type.
-/
namespace Dassh.Model.Peaks

variable {α β : Type} [LT α] [DecidableRel (α := α) (· < ·)]

/-- one update: `if new > stored: stored = (new, tag)` -/
def upd (s x : α × β) : α × β := if s.1 < x.1 then x else s

/-- the whole sweep: fold over the per-plane (plane maximum, tag) pairs -/
def run (init : α × β) (xs : List (α × β)) : α × β := xs.foldl upd init

/-- maximum of a non-empty list of cell values, as `np.max` -/
def listMax [Max α] (x : α) (xs : List α) : α := xs.foldl max x

/-- first index attaining the maximum, as `np.argmax` -/
def argMax (x : α) (xs : List α) : Nat :=
  (xs.foldl (fun (acc : α × Nat × Nat) v => if acc.1 < v then (v, acc.2.2, acc.2.2 + 1) else (acc.1, acc.2.1, acc.2.2 + 1))
    (x, 0, 1)).2.1

/-- rows of the peak pin tables: one row per assembly that has pin temperatures, labelled with the assembly's own number
(`_fmt_idx(i) = i + 1`), in core order.  `hasPin[i]` says whether assembly `i` tracks pin peaks. -/
def pinRowLabels (hasPin : List Bool) : List Nat :=
  (List.range hasPin.length).filterMap fun i => if hasPin.getD i false then some (i + 1) else none

/-- the labelling of a seeded change: running number among the assemblies WITH pins -/
def pinRowLabelsRunning (hasPin : List Bool) : List Nat :=
  (List.range (hasPin.filter id).length).map (· + 1)

end Dassh.Model.Peaks
