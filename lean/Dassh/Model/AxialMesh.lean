/-
Hand-written executable model of the axial mesh construction
(`Reactor._setup_axial_region_bnds`, `_check_dz`, `_setup_zpts`,
`_setup_overall_axial_mesh_req`), on integers: every length is a number of
units of 1e-12 m, which is the grid the code rounds to (`np.around(·, 12)`).
Core Lean only; the correspondence check (harness/checks/c05.py) runs these
definitions and the real methods on the same inputs.
-/
namespace Dassh.Model.AxialMesh

/-- first boundary strictly inside `(z, z + req)`, as `_check_dz` finds it
(`np.where(cross_boundary)[0][0]` on the sorted boundary array) -/
def crossed (bnds : List Nat) (req z : Nat) : Option Nat :=
  bnds.find? fun b => decide (z < b) && decide (b < z + req)

/-- one iteration of `_setup_zpts`: the next plane -/
def next (bnds : List Nat) (req z : Nat) : Nat :=
  match crossed bnds req z with
  | some b => b
  | none => z + req

/-- planes produced from `z` (exclusive) until the core length `L` is reached;
`fuel` bounds the number of iterations (the code's `while` has no bound) -/
def planesFrom (bnds : List Nat) (req L : Nat) : Nat → Nat → List Nat
  | 0, _ => []
  | fuel + 1, z => if z < L then
      let z' := next bnds req z
      z' :: planesFrom bnds req L fuel z'
    else []

/-- `Reactor.z` -/
def planes (bnds : List Nat) (req L fuel : Nat) : List Nat := 0 :: planesFrom bnds req L fuel 0

/-- merge of all boundary sources: rounding already done by the caller (units), here sort + unique -/
def insertSorted (x : Nat) : List Nat → List Nat
  | [] => [x]
  | y :: ys => if x < y then x :: y :: ys else if x = y then y :: ys else y :: insertSorted x ys

def mergeBnds (xs : List Nat) : List Nat := xs.foldr insertSorted []

/-- `_setup_overall_axial_mesh_req` with lengths in micrometres for the floor
(`floor(min·1e6)/1e6`): `minUm` = ⌊min_dz · 1e6⌋ is computed by the caller;
result in units of 1e-12 m.  `user = none` when no axial_mesh_size is given. -/
def reqDz (minUm : Nat) (user : Option Nat) : Nat :=
  let req := minUm * 1000000
  match user with
  | some u => if u ≤ req then u else (if req > 10000000000 then 10000000000 else req)
  | none => if req > 10000000000 then 10000000000 else req

end Dassh.Model.AxialMesh
