/-
Hand-written model of one successive-approximation update of the Cheng-Todreas flow split
(`flowsplit_ctd._iterate`): generic update (`iterStep`, reasoned about in Props/C12.lean) and the
transition friction law on IEEE doubles (`lossFloat`, `updateFloat`: what the driver runs against the
real correlation code; real powers and logarithms are not available over an abstract field).
-/
namespace Dassh.Model.FlowSplit

section generic
variable {α : Type} [Add α] [Mul α] [Div α] [OfNat α 1]

/-- the update: `q0 = √(t1/t0)`, `q2 = √(t1/t2)`, `x2 = 1/(s1 + s0 q0 + s2 q2)`, `x1 = q0 x2`, `x3 = q2 x2` -/
def iterStep (s0 s1 s2 q0 q2 : α) : α × α × α :=
  let x2 := 1 / (s1 + s0 * q0 + s2 * q2)
  (q0 * x2, x2, q2 * x2)
end generic

/-- per-type loss term `t_i = f_i L / De_i + K_grid` with the transition friction factor of the Cheng-Todreas (1986, `lam = 0`)
or upgraded (2018, `lam = 7`) correlation: intermittency `y = clip(log10(Re_i/Re_iL) / log10(Re_iT/Re_iL), 0, 1)`,
`f = (Cf_L/Re_i) (1-y)^(1/3) (1 - y^lam) + (Cf_T/Re_i^0.18) y^(1/3)` -/
def lossFloat (re x de deb reL reT cfL cfT lam kgrid len : Float) : Float :=
  let rei := re * x * de / deb
  let y0 := Float.log10 (rei / reL) / Float.log10 (reT / reL)
  let y := if y0 > 1.0 then 1.0 else if y0 < 0.0 then 0.0 else y0
  let lamFac := if lam == 0.0 then 1.0 else 1.0 - Float.pow y lam
  let f := (cfL / rei) * Float.pow (1.0 - y) (1.0 / 3.0) * lamFac + (cfT / Float.pow rei 0.18) * Float.pow y (1.0 / 3.0)
  f * len / de + kgrid

/-- one update on doubles: the three types' data as lists `[x, de, reL, reT, cfL, cfT, s]` -/
def updateFloat (re deb lam kgrid len : Float) (ty0 ty1 ty2 : List Float) : Option (Float × Float × Float) :=
  match ty0, ty1, ty2 with
  | [x0, d0, l0, t0, a0, b0, s0], [x1, d1, l1, t1, a1, b1, s1], [x2, d2, l2, t2, a2, b2, s2] =>
    let u0 := lossFloat re x0 d0 deb l0 t0 a0 b0 lam kgrid len
    let u1 := lossFloat re x1 d1 deb l1 t1 a1 b1 lam kgrid len
    let u2 := lossFloat re x2 d2 deb l2 t2 a2 b2 lam kgrid len
    some (iterStep s0 s1 s2 (Float.sqrt (u1 / u0)) (Float.sqrt (u1 / u2)))
  | _, _, _ => none

end Dassh.Model.FlowSplit
