/-
Hand-written executable model of how `power._from_file` turns the labelled rows of a user power file into
the table `params[component][axial cell][item]`: every row of the CSV carries its own labels (lower bound of
its axial cell, item index counted from 1) and its polynomial coefficients.  The reader orders the rows of one
assembly and component by (lower bound, item index) and cuts the ordered list into one chunk per axial cell.
Generic in the scalar type: run with `Float` by the driver (correspondence), reasoned about in Props/C03Rows.lean.
Core Lean only.
-/
namespace Dassh.Model.PowerRows

structure Row (α : Type) where
  zlo : α
  idx : Nat
  coeffs : List α

variable {α : Type} [LT α] [DecidableRel (α := α) (· < ·)] [DecidableEq α]

/-- lexicographic order on the labels (lower bound, item index) -/
def rowLe (r s : Row α) : Bool := decide (r.zlo < s.zlo) || (decide (r.zlo = s.zlo) && decide (r.idx ≤ s.idx))

def insertRow (r : Row α) : List (Row α) → List (Row α)
  | [] => [r]
  | s :: t => if rowLe r s then r :: s :: t else s :: insertRow r t

/-- rows ordered by their labels (`np.lexsort((idx, z_lo))`) -/
def sortRows : List (Row α) → List (Row α)
  | [] => []
  | r :: t => insertRow r (sortRows t)

/-- cut a list into consecutive chunks of `n` (`reshape(dim1, dim2, ...)`); `fuel` bounds the recursion -/
def chunk (n : Nat) : Nat → List β → List (List β)
  | 0, _ => []
  | fuel + 1, l => if l.isEmpty then [] else l.take n :: chunk n fuel (l.drop n)

/-- the table the reader builds: `table[k][i]` = coefficients for axial cell `k`, item `i` -/
def table (nItems : Nat) (rows : List (Row α)) : List (List (List α)) :=
  chunk nItems rows.length ((sortRows rows).map (·.coeffs))

/-- the original reader: the rows are taken in file order -/
def tableFileOrder (nItems : Nat) (rows : List (Row α)) : List (List (List α)) :=
  chunk nItems rows.length (rows.map (·.coeffs))

end Dassh.Model.PowerRows
