/-
Hand-written executable model of `power._integrate`: the average linear power of one axial cell of a user power profile.
Every item (pin, duct cell, coolant subchannel) of the cell carries the coefficients `c_0 .. c_{n-1}` of a polynomial in the
cell-relative height `t ∈ [-1/2, 1/2]`; the cell average is the sum over the items of the integral of that polynomial.
Generic in the scalar type: run with `Float` by the driver (correspondence), reasoned about in Props/C03Integral.lean.
-/
namespace Dassh.Model.PowerIntegral

variable {α : Type} [Add α] [Sub α] [Mul α] [Div α] [Neg α] [OfNat α 0] [OfNat α 1] [OfNat α 2] [NatCast α]

def powN (x : α) : Nat → α
  | 0 => 1
  | n + 1 => powN x n * x

/-- weight of the coefficient of `t^j`: `((1/2)^(j+1) - (-1/2)^(j+1)) / (j+1)` -/
def weight (j : Nat) : α := (powN ((1 : α) / 2) (j + 1) - powN (-((1 : α) / 2)) (j + 1)) / ((j + 1 : Nat) : α)

/-- integral of one item's polynomial over the cell -/
def itemIntegral (coeffs : List α) : α :=
  (coeffs.zipIdx.map fun cj => cj.1 * weight cj.2).foldl (· + ·) 0

/-- average linear power of the cell: all items of all components -/
def cellAverage (items : List (List α)) : α := (items.map itemIntegral).foldl (· + ·) 0

end Dassh.Model.PowerIntegral
