/-
Hand-written executable model of how the input reader numbers the positions of the hexagonal core
(`DASSH_Assignment.parse_assignment_section`): an assignment line names a ring (1 = centre) and a run of positions
`first .. last` on that ring (1 .. 6 (ring - 1)); every position gets the index the rest of DASSH uses for it
(assembly id, row of the power file, neighbour tables).  Core Lean only.
-/
namespace Dassh.Model.Assignment

/-- number of positions on ring `r` (1-based) -/
def ringSize (r : Nat) : Nat := if r = 1 then 1 else 6 * (r - 1)

/-- index of position `p` (1-based) on ring `r` (1-based) -/
def posIndex (r p : Nat) : Nat := if r = 1 then 0 else 3 * (r - 2) * (r - 1) + p

/-- number of positions of a core with `n` rings -/
def coreSize (n : Nat) : Nat := 3 * (n - 1) * n + 1

/-- a position that exists -/
def validPos (r p : Nat) : Bool := decide (1 ≤ r) && decide (1 ≤ p) && decide (p ≤ ringSize r)

/-- the reader's verdict on one line `type = ring, first, last, ...` (signed integers as they are parsed) -/
def lineOk (r p0 p1 : Int) : Bool :=
  decide (1 ≤ r) && decide (1 ≤ p0) && decide (p0 ≤ p1) && decide (p1 ≤ (ringSize r.toNat : Int))

/-- the indices one accepted line writes, in order -/
def lineIndices (r p0 p1 : Int) : Option (List Nat) :=
  if lineOk r p0 p1 then some ((List.range (p1 - p0 + 1).toNat).map fun k => posIndex r.toNat (p0.toNat + k)) else none

end Dassh.Model.Assignment
