/-
Abstract model of "runs are repeatable".  Building a model from an input is a function
that may also modify the input (state-passing semantics of Python's in-place mutation);
executing a time point is a function of (input, time point).  A scheduler assigns the time
points to workers in some order; every task writes only the slot of its own time point.
-/
namespace Dassh.Model.Repeat

variable {ι μ ο : Type}

/-- `n` successive constructions from one input object: the list of models built -/
def buildMany (build : ι → μ × ι) : Nat → ι → List μ
  | 0, _ => []
  | n + 1, i => let r := build i; r.1 :: buildMany build n r.2

/-- outputs stored per time point; a task overwrites only its own slot -/
def runTask (run : ι → Nat → ο) (inp : ι) (out : Nat → Option ο) (t : Nat) : Nat → Option ο :=
  fun k => if k = t then some (run inp t) else out k

/-- a schedule is the order in which the time points are executed (any interleaving of workers
executing whole tasks yields some order) -/
def runSchedule (run : ι → Nat → ο) (inp : ι) (order : List Nat) : Nat → Option ο :=
  order.foldl (runTask run inp) (fun _ => none)

/-- a serial multi-time-point run: every time point is built, swept and post-processed from the SAME input object, one after the
other; whatever a time point does to that object is what the next one starts from (state passing) -/
def serialRun (step : ι → Nat → ο × ι) : ι → List Nat → List ο
  | _, [] => []
  | i, t :: ts => let r := step i t; r.1 :: serialRun step r.2 ts

/-- a parallel run: every worker gets its own copy of the input as it was parsed -/
def parallelRun (step : ι → Nat → ο × ι) (i : ι) (ts : List Nat) : List ο := ts.map fun t => (step i t).1

end Dassh.Model.Repeat
