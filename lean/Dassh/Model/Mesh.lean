/-
Hand-written executable model of `mesh_functions._map_asm2gap` (duct mesh of an
axial region <-> inter-assembly gap mesh around the assembly).  Generic in the
scalar type: run with `Float` by the driver (correspondence), reasoned about
over an ordered field in Props/C10.lean.  Core Lean only.

`xr`, `xc`: cell boundaries walked around the duct perimeter, first entry 0 (centre
of the top corner cell), last entry the perimeter; the top corner cell is split
into the first and the last interval.
-/
namespace Dassh.Model.Mesh

variable {α : Type} [Add α] [Sub α] [Mul α] [Div α] [Max α] [Min α] [OfNat α 0] [OfNat α 2]

/-- length of the overlap of intervals `[a,b]` and `[c,d]` -/
def ovl (a b c d : α) : α := max 0 (min b d - max a c)

/-- consecutive pairs of a boundary list -/
def intervals : List α → List (α × α)
  | a :: b :: t => (a, b) :: intervals (b :: t)
  | _ => []

/-- raw overlap matrix: one row per region interval, one column per gap interval -/
def rawOverlap (xr xc : List α) : List (List α) :=
  (intervals xr).map fun r => (intervals xc).map fun c => ovl r.1 r.2 c.1 c.2

/-- gap (fine) -> region (coarse): rows normalised by the region interval length -/
def f2cRaw (xr xc : List α) : List (List α) :=
  (intervals xr).map fun r => (intervals xc).map fun c => ovl r.1 r.2 c.1 c.2 / (r.2 - r.1)

/-- region (coarse) -> gap (fine): rows normalised by the gap interval length -/
def c2fRaw (xr xc : List α) : List (List α) :=
  (intervals xc).map fun c => (intervals xr).map fun r => ovl r.1 r.2 c.1 c.2 / (c.2 - c.1)

def addRows (a b : List α) : List α := List.zipWith (· + ·) a b

/-- merge the two halves of the split top corner of a raw overlap matrix, as the code does:
`m[-1,:] += m[0,:]; m[:,-1] += m[:,0]; m = m[1:,1:]` (lengths are merged, not averaged) -/
def foldCorner (m : List (List α)) : List (List α) :=
  match m with
  | [] => []
  | first :: rest =>
    match rest.reverse with
    | [] => []
    | last :: midRev =>
      let last' := addRows last first
      let rows := (first :: midRev.reverse) ++ [last']
      let rows := rows.map fun row =>
        match row with
        | [] => []
        | c0 :: cs =>
          match cs.reverse with
          | [] => []
          | cl :: cmRev => (c0 :: cmRev.reverse) ++ [cl + c0]
      (rows.drop 1).map fun row => row.drop 1

/-- cell lengths with the two halves of the top corner merged into the last cell -/
def mergedLengths (xb : List α) : List α :=
  let d := (intervals xb).map fun r => r.2 - r.1
  match d with
  | [] => []
  | d0 :: rest =>
    match rest.reverse with
    | [] => []
    | dl :: midRev => midRev.reverse ++ [dl + d0]

/-- gap (fine) -> region (coarse): merged overlap rows divided by the merged region cell length -/
def f2c (xr xc : List α) : List (List α) :=
  List.zipWith (fun row d => row.map (fun v => v / d)) (foldCorner (rawOverlap xr xc)) (mergedLengths xr)

/-- region (coarse) -> gap (fine): transposed merged overlap divided by the merged gap cell length -/
def c2f (xr xc : List α) : List (List α) :=
  let ovT := (intervals xc).map fun c => (intervals xr).map fun r => ovl r.1 r.2 c.1 c.2
  List.zipWith (fun row d => row.map (fun v => v / d)) (foldCorner ovT) (mergedLengths xc)

/-- matrix–vector product -/
def apply (m : List (List α)) (x : List α) : List α :=
  m.map fun row => (List.zipWith (· * ·) row x).foldl (· + ·) 0

end Dassh.Model.Mesh
