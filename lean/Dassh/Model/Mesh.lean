/-
Hand-written executable model of `mesh_functions._map_asm2gap` (duct mesh of an
axial region <-> inter-assembly gap mesh around the assembly).  Generic in the
scalar type: run with `Float` by the driver (correspondence), reasoned about
over an ordered field in Props/C10.lean.  Core Lean only.

`xr`, `xc`: cell boundaries walked around the duct perimeter, first entry 0 (centre
of the top corner cell), last entry the perimeter; the top corner cell is split
into the first and the last interval.
-/
namespace Dassh.Model.Mesh

variable {α : Type} [Add α] [Sub α] [Mul α] [Div α] [Max α] [Min α] [OfNat α 0] [OfNat α 2]

/-- length of the overlap of intervals `[a,b]` and `[c,d]` -/
def ovl (a b c d : α) : α := max 0 (min b d - max a c)

/-- consecutive pairs of a boundary list -/
def intervals : List α → List (α × α)
  | a :: b :: t => (a, b) :: intervals (b :: t)
  | _ => []

/-- raw overlap matrix: one row per region interval, one column per gap interval -/
def rawOverlap (xr xc : List α) : List (List α) :=
  (intervals xr).map fun r => (intervals xc).map fun c => ovl r.1 r.2 c.1 c.2

/-- gap (fine) -> region (coarse): rows normalised by the region interval length -/
def f2cRaw (xr xc : List α) : List (List α) :=
  (intervals xr).map fun r => (intervals xc).map fun c => ovl r.1 r.2 c.1 c.2 / (r.2 - r.1)

/-- region (coarse) -> gap (fine): rows normalised by the gap interval length -/
def c2fRaw (xr xc : List α) : List (List α) :=
  (intervals xc).map fun c => (intervals xr).map fun r => ovl r.1 r.2 c.1 c.2 / (c.2 - c.1)

def addRows (a b : List α) : List α := List.zipWith (· + ·) a b

/-- fold the first entry of a row onto the last one: `c0 :: (cm ++ [cl])  ↦  cm ++ [cl + c0]` -/
def foldRow : List α → List α
  | [] => []
  | c0 :: cs =>
    match cs.getLast? with
    | none => []
    | some cl => cs.dropLast ++ [cl + c0]

/-- merge the two halves of the split top corner of a raw overlap matrix, as the code does:
`m[-1,:] += m[0,:]; m[:,-1] += m[:,0]; m = m[1:,1:]` (lengths are merged, not averaged) -/
def foldCorner (m : List (List α)) : List (List α) :=
  match m with
  | [] => []
  | first :: rest =>
    match rest.getLast? with
    | none => []
    | some last => (rest.dropLast ++ [addRows last first]).map foldRow

/-- lengths of cells given as intervals, with the two halves of the top corner merged into the last cell -/
def mergedLengthsI (iv : List (α × α)) : List α :=
  match iv with
  | [] => []
  | f :: rest =>
    match rest.getLast? with
    | none => []
    | some l => (rest.dropLast.map fun r => r.2 - r.1) ++ [(l.2 - l.1) + (f.2 - f.1)]

def mergedLengths (xb : List α) : List α := mergedLengthsI (intervals xb)

/-- raw overlaps of interval lists: one row per `R` interval, one column per `C` interval -/
def rawI (R C : List (α × α)) : List (List α) := R.map fun r => C.map fun c => ovl r.1 r.2 c.1 c.2

/-- merged, row-normalised map from the cells `C` to the cells `R` (both with split top corner) -/
def mapI (R C : List (α × α)) : List (List α) :=
  List.zipWith (fun row d => row.map (fun v => v / d)) (foldCorner (rawI R C)) (mergedLengthsI R)

/-- gap (fine) -> region (coarse): merged overlap rows divided by the merged region cell length -/
def f2c (xr xc : List α) : List (List α) := mapI (intervals xr) (intervals xc)

/-- region (coarse) -> gap (fine): the same construction with the roles of the meshes exchanged -/
def c2f (xr xc : List α) : List (List α) :=
  List.zipWith (fun row d => row.map (fun v => v / d))
    (foldCorner ((intervals xc).map fun c => (intervals xr).map fun r => ovl r.1 r.2 c.1 c.2)) (mergedLengthsI (intervals xc))

/-- matrix–vector product -/
def apply (m : List (List α)) (x : List α) : List α :=
  m.map fun row => (List.zipWith (· * ·) row x).foldl (· + ·) 0

end Dassh.Model.Mesh
