/-
Hand-written executable model of the axial-region acceptance of the input reader
(`DASSH_Input.check_unrodded_regions` with `_find_rodded_regs`, `_check_reg_bnds`,
`_get_rodded_reg_bnds`): which lists of user regions `(z_lo, z_hi)` of one assembly are
accepted for a core of length `L`, and where the single rodded region is placed.
Generic in the scalar type: run with `Float` by the driver (correspondence), reasoned
about over a linearly ordered field in Props/C18Regions.lean.  Core Lean only.

The reader sorts the lower and the upper bounds SEPARATELY ("can sort them because they're
supposed to agree like that"); the model does the same, so that the theorems have to show
that this re-pairing is harmless for every accepted input.
-/
namespace Dassh.Model.AcceptRegions

inductive RErr where
  | nonPositiveHeight | overlap | multipleRodded | noRodded
  deriving DecidableEq, Repr

variable {α : Type} [Sub α] [OfNat α 0] [LT α] [LE α]
  [DecidableRel (α := α) (· < ·)] [DecidableRel (α := α) (· ≤ ·)] [DecidableEq α]

/-- insertion into an ascending list -/
def insertSorted (x : α) : List α → List α
  | [] => [x]
  | y :: t => if x ≤ y then x :: y :: t else y :: insertSorted x t

/-- ascending sort (what Python's `sorted` yields on numbers) -/
def sortL : List α → List α
  | [] => []
  | x :: t => insertSorted x (sortL t)

/-- `_find_rodded_regs`: the lengths of the `n + 1` spaces left between the sorted regions,
from 0 to the first lower bound, between consecutive regions, from the last upper bound to `L` -/
def gaps (L : α) (lo hi : List α) : List α := List.zipWith (· - ·) (lo ++ [L]) (0 :: hi)

/-- the reader's verdict on the regions of one assembly (errors in the order the code raises them) -/
def checkRegions (L : α) (regs : List (α × α)) : Except RErr Unit :=
  let lo := sortL (regs.map (·.1))
  let hi := sortL (regs.map (·.2))
  let g := gaps L lo hi
  if regs.any (fun r => decide (r.2 ≤ r.1)) then .error RErr.nonPositiveHeight
  else if g.any (fun v => decide (v < 0)) then .error RErr.overlap
  else if 1 < (g.filter (fun v => decide (v ≠ 0))).length then .error RErr.multipleRodded
  else if g.all (fun v => decide (v = 0)) then .error RErr.noRodded
  else .ok ()

/-- index of the first non-zero entry -/
def firstNonzero : List α → Nat
  | [] => 0
  | v :: t => if v ≠ 0 then 0 else firstNonzero t + 1

/-- `_get_rodded_reg_bnds`: bounds of the rodded region = the first non-zero space -/
def roddedBnds (L : α) (regs : List (α × α)) : α × α :=
  let lo := sortL (regs.map (·.1))
  let hi := sortL (regs.map (·.2))
  let idx := firstNonzero (gaps L lo hi)
  ((0 :: hi).getD idx 0, (lo ++ [L]).getD idx L)

/-- the complete verdict: attribute errors come first (they are raised inside the loop over the user's regions, before the
bounds are looked at), then the bound errors of `checkRegions` -/
inductive RErrF where
  | noCoolant | unknownModel | bounds (e : RErr)
  deriving DecidableEq, Repr

/-- per region, in the user's order: `vf_coolant` must be positive, then the model name must be one of the two that exist -/
def checkAttrs : List (α × Bool) → Except RErrF Unit
  | [] => .ok ()
  | (vf, known) :: t =>
    if vf ≤ 0 then .error RErrF.noCoolant
    else if !known then .error RErrF.unknownModel
    else checkAttrs t

/-- `check_unrodded_regions` for the regions `(z_lo, z_hi)` with their attributes `(vf_coolant, model name known)` -/
def checkRegionsFull (L : α) (regs : List (α × α)) (attrs : List (α × Bool)) : Except RErrF Unit :=
  match checkAttrs attrs with
  | .error e => .error e
  | .ok () => match checkRegions L regs with
    | .error e => .error (RErrF.bounds e)
    | .ok () => .ok ()

end Dassh.Model.AcceptRegions
