/-
Hand-written executable model of the pressure-drop accumulation of one axial region
(`calculate_pressure_drop` of the rodded / low-fidelity regions): per step a friction
increment proportional to dz, a gravity increment proportional to dz, and one
spacer-grid loss for every grid that the step is deemed to cross.
`strict := true` is the test of the original code (`z - dz < z_g < z`),
`strict := false` the half-open test (`z - dz < z_g ≤ z`).
-/
namespace Dassh.Model.Pressure

variable {α : Type} [Add α] [Sub α] [Mul α] [OfNat α 0] [LT α] [LE α] [NatCast α]
  [DecidableRel (α := α) (· < ·)] [DecidableRel (α := α) (· ≤ ·)]

/-- does the step ending at `z` (length `dz`) count the grid at `zg`? -/
def hits (strict : Bool) (z dz zg : α) : Bool :=
  decide (z - dz < zg) && (if strict then decide (zg < z) else decide (zg ≤ z))

/-- number of grids the step counts -/
def nCrossed (strict : Bool) (grids : List α) (z dz : α) : Nat := (grids.filter (hits strict z dz)).length

/-- every grid crossed in the step contributes its own loss (`n_crossed * K * rho v^2 / 2`) -/
def gridStep (strict : Bool) (grids : List α) (kloss : α) (z dz : α) : α :=
  (nCrossed strict grids z dz : α) * kloss

/-- accumulation over the steps `(z, dz)`; `cf` is friction per unit length, `cg` gravity per unit length -/
def sweep (strict : Bool) (grids : List α) (cf cg kloss : α) (steps : List (α × α)) : α × α × α :=
  steps.foldl (fun acc s => (acc.1 + cf * s.2, acc.2.1 + gridStep strict grids kloss s.1 s.2, acc.2.2 + cg * s.2))
    (0, 0, 0)

/-- number of steps that count the grid at `zg` -/
def countHits (strict : Bool) (zg : α) (steps : List (α × α)) : Nat :=
  (steps.filter fun s => hits strict s.1 s.2 zg).length

/-- the rule of the corrected code, comparisons only: the step from plane `a` to plane `b` counts the grid at `zg`
iff `a < zg ≤ b` (`a` is the position the previous step ended at, not `b - dz`) -/
def hitsP (a b zg : α) : Bool := decide (a < zg) && decide (zg ≤ b)

/-- number of steps of the plane list that count the grid at `zg` -/
def countHitsP (zg : α) : List α → Nat
  | a :: b :: t => (if hitsP a b zg then 1 else 0) + countHitsP zg (b :: t)
  | _ => 0

/-- total number of grid losses accumulated over a plane list -/
def gridLosses (grids : List α) (planes : List α) : Nat := (grids.map fun g => countHitsP g planes).sum

end Dassh.Model.Pressure
