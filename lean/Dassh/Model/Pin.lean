/-
Hand-written model of the radial pin temperature calculation
(`PinModel.calculate_temperatures`): the conductivities the code ends up using (the
node-averaged values of its last iterate) are parameters, so the model is the chain
of closed-form conduction steps the code evaluates once the iteration has stopped.

  C      = q' / (2π)                       (linear power per radian)
  T_od   = T_cool + C / (h · r_o)          film
  T_mw   = T_od + C · ln(r_o/r_m) / k_c    outer half of the clad
  T_id   = T_od + C · ln(r_o/r_i) / k_c    whole clad
  T_fs   = T_id + gapDrop                  fuel-clad gap (0 when there is no gap)
  T_k    = T_{k+1} + q''' · Δ(r²)_k / (4 k_k)   fuel shells from the surface inwards
-/
namespace Dassh.Model.Pin

variable {α : Type} [Add α] [Mul α] [Div α]

structure Clad (α : Type) where
  Tcool : α
  C : α          -- q'/(2π)
  h : α          -- film coefficient
  ro : α         -- clad outer radius
  lnOuter : α    -- ln(r_o / r_m)
  lnFull : α     -- ln(r_o / r_i)
  kc : α         -- node-averaged clad conductivity of the last iterate

def cladOD (c : Clad α) : α := c.Tcool + c.C / c.h / c.ro
def cladMW (c : Clad α) : α := cladOD c + c.C * c.lnOuter / c.kc
def cladID (c : Clad α) : α := cladOD c + c.C * c.lnFull / c.kc

/-- fuel shells from the surface inwards: each `(drsqOver4, k)`; returns the temperatures at the
inner face of every shell, outermost first (the last entry is the centre-line temperature) -/
def fuelShells (qdens Tsurf : α) : List (α × α) → List α
  | [] => []
  | (d, k) :: t => let Tin := Tsurf + d * qdens / k
                   Tin :: fuelShells qdens Tin t

end Dassh.Model.Pin
