/-
Abstract model of "assemblies interact only through the gap": the core state is a
family of per-assembly states plus a shared gap state.  One plane consists of the
assemblies' steps (each reads its own state and the gap, writes only its own state)
followed by the gap update.  `sharedStep` adds ONE mutable cell shared by all assemblies
that a step first reads and then overwrites (the shared `Material` object of cloned
regions): this is the variant that breaks isolation.
-/
namespace Dassh.Model.Heap

variable {σ γ : Type}

/-- state: per-assembly component and the gap -/
structure Core (σ γ : Type) where
  asm : Nat → σ
  gap : γ

/-- step of assembly `a`: a function of its own state and the gap only -/
def stepAsm (f : Nat → σ → γ → σ) (a : Nat) (s : Core σ γ) : Core σ γ :=
  { s with asm := fun b => if b = a then f a (s.asm a) s.gap else s.asm b }

/-- all assemblies of the list, in the given order -/
def stepAll (f : Nat → σ → γ → σ) (order : List Nat) (s : Core σ γ) : Core σ γ :=
  order.foldl (fun st a => stepAsm f a st) s

/-- stand-alone run of assembly `a` over `n` planes with a fixed gap (adiabatic: the gap is inert) -/
def standAlone (f : Nat → σ → γ → σ) (a : Nat) (g : γ) : Nat → σ → σ
  | 0, x => x
  | n + 1, x => standAlone f a g n (f a x g)

/-- `n` planes of the whole core with an inert gap -/
def runCore (f : Nat → σ → γ → σ) (order : List Nat) : Nat → Core σ γ → Core σ γ
  | 0, s => s
  | n + 1, s => runCore f order n (stepAll f order s)

/-- the broken variant: a cell `m` shared by all assemblies is read by a step (as left by whoever
wrote it last) and then overwritten from the stepping assembly's own state -/
structure SharedCore (σ μ : Type) where
  asm : Nat → σ
  cell : μ

def sharedStep {μ : Type} (f : Nat → σ → μ → σ) (w : σ → μ) (a : Nat) (s : SharedCore σ μ) : SharedCore σ μ :=
  let x := f a (s.asm a) s.cell
  { asm := fun b => if b = a then x else s.asm b, cell := w x }

end Dassh.Model.Heap
