/-
Hand-written executable model of the per-cell power renormalisation
(`AssemblyPower.presweep_setup` + `get_power_sweep`) and of the core
normalisation / scaling (`Reactor._setup_scale_asm_power`).

One axial power cell: average linear power `avg`; the sweep crosses it in steps.
Each step is `(dz, p, inBundle)`: its length, the summed profile value sampled at
its midpoint, and whether the step lies inside the pin bundle.  Steps outside the
bundle deliver `avg · dz`; steps inside deliver `renorm · p · dz`.
`fixed := false` is the original renormalisation (target = avg · whole cell length,
midpoint sum over ALL steps of the cell), `fixed := true` the corrected one (target
and sum restricted to the in-bundle steps).
-/
namespace Dassh.Model.Power

variable {α : Type} [Add α] [Mul α] [Div α] [OfNat α 0] [OfNat α 1] [DecidableEq α]

structure Step (α : Type) where
  dz : α
  p : α
  inBundle : Bool

def sumBy (f : Step α → α) (steps : List (Step α)) : α := steps.foldl (fun acc s => acc + f s) 0

/-- renormalisation factor of one power cell -/
def renorm (fixed : Bool) (avg cellLen : α) (steps : List (Step α)) : α :=
  let sel := if fixed then steps.filter (·.inBundle) else steps
  let total := sumBy (fun s => s.p * s.dz) sel
  let target := if fixed then avg * sumBy (·.dz) sel else avg * cellLen
  if total = 0 then 1 else target / total

/-- power deposited in the cell during the sweep -/
def delivered (fixed : Bool) (avg cellLen : α) (steps : List (Step α)) : α :=
  let r := renorm fixed avg cellLen steps
  sumBy (fun s => if s.inBundle then r * s.p * s.dz else avg * s.dz) steps

/-- `_setup_scale_asm_power`: factor applied to every assembly's profiles and totals -/
def scaleFactor (pcalc : α) (ptotUser : Option α) (pscalar : α) : α :=
  let rn := match ptotUser with
    | none => 1
    | some pu => if pu = 0 then 0 else if pcalc = 0 then 0 else pu / pcalc
  rn * pscalar

end Dassh.Model.Power
