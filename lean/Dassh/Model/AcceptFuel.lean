/-
Hand-written executable model of the fuel-pellet acceptance of the input reader
(`DASSH_Input.check_fuel_model`): which radial pellet descriptions of one assembly type are accepted.
Generic in the scalar type: run with `Float` by the driver (correspondence), reasoned about over a
linearly ordered field in Props/C18Fuel.lean.  Core Lean only.

`innerRadius` = pin_diameter / 2 - clad_thickness.  `gap` is the standard key `gap_thickness`, `fcgap` the
legacy key `fcgap_thickness` that is used when `gap` is zero.
-/
namespace Dassh.Model.AcceptFuel

inductive FErr where
  | gapTooThick | notIncreasing | rFracRange | empty | lengthMismatch | noClad | noGapMaterial
  | fractionRange | puTooHigh
  deriving DecidableEq, Repr

structure Fuel (α : Type) where
  innerRadius : α
  gap : α
  fcgap : α
  rFrac : List α
  puFrac : List α
  zrFrac : List α
  porosity : List α
  hasClad : Bool
  hasGapMaterial : Bool

variable {α : Type} [OfNat α 0] [OfNat α 1] [LT α] [LE α]
  [DecidableRel (α := α) (· < ·)] [DecidableRel (α := α) (· ≤ ·)] [DecidableEq α]

/-- the gap thickness the pin model is built with: the legacy key stands in when the standard one is zero -/
def effGap (f : Fuel α) : α := if f.gap = 0 then (if 0 < f.fcgap then f.fcgap else f.gap) else f.gap

/-- consecutive entries not strictly increasing somewhere -/
def notIncreasing : List α → Bool
  | a :: b :: t => decide (b ≤ a) || notIncreasing (b :: t)
  | _ => false

/-- the reader's verdict (errors in the order the code raises them; `puLimit` is 0.37037) -/
def checkFuel (puLimit : α) (f : Fuel α) : Except FErr Unit :=
  if f.innerRadius < effGap f then .error FErr.gapTooThick
  else if notIncreasing f.rFrac then .error FErr.notIncreasing
  else if f.rFrac.any (fun x => !(decide (0 ≤ x) && decide (x < 1))) then .error FErr.rFracRange
  else if f.rFrac.isEmpty || f.puFrac.isEmpty || f.zrFrac.isEmpty || f.porosity.isEmpty then .error FErr.empty
  else if f.puFrac.length ≠ f.rFrac.length ∨ f.zrFrac.length ≠ f.rFrac.length ∨ f.porosity.length ≠ f.rFrac.length then
    .error FErr.lengthMismatch
  else if !f.hasClad then .error FErr.noClad
  else if decide (0 < effGap f) && !f.hasGapMaterial then .error FErr.noGapMaterial
  else if f.porosity.any (fun x => !(decide (0 ≤ x) && decide (x < 1))) || f.puFrac.any (fun x => decide (x < 0))
      || f.zrFrac.any (fun x => decide (x < 0)) then .error FErr.fractionRange
  else if f.puFrac.any (fun x => decide (puLimit < x)) then .error FErr.puTooHigh
  else .ok ()

end Dassh.Model.AcceptFuel
