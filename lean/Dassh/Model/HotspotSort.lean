/-
Hand-written model of the bookkeeping at the end of `hotspot.analyze`: the per-type results are
concatenated (assembly ids, one temperature row per assembly) and then sorted by assembly id.
The model keeps id and row together: zip, sort by id.  Rows are represented by an index into the
concatenated result (the correspondence check compares which row ends up next to which id).
-/
namespace Dassh.Model.HotspotSort

/-- ids in concatenation order ↦ (id, index of its row in concatenation order), sorted by id -/
def sortById (ids : List Nat) : List (Nat × Nat) :=
  (ids.zip (List.range ids.length)).mergeSort (fun a b => decide (a.1 ≤ b.1))

end Dassh.Model.HotspotSort
