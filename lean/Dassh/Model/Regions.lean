/-
Hand-written model of which axial region a step belongs to (`Assembly._identify_active_region`,
called by `check_region_update` with the plane the NEXT step ends on): region bounds are the
sorted lower bounds `b0 = 0 < b1 < ...` (integers: units of 1e-12 m, the grid to which both the
planes and - since fix e364802 - the region bounds are rounded); the region of the step ending
at plane `z` is `bisect_left(bnds, z) - 1`, and 0 for `z = 0`.
-/
namespace Dassh.Model.Regions

/-- `bisect.bisect_left`: number of entries strictly below `z` (for a sorted list) -/
def bisectLeft (bnds : List Nat) (z : Nat) : Nat := (bnds.takeWhile (· < z)).length

/-- index of the region in which the step ending at plane `z` is computed -/
def activeRegion (bnds : List Nat) (z : Nat) : Nat := if z = 0 then 0 else bisectLeft bnds z - 1

end Dassh.Model.Regions
