/-
C12 — the flow split conserves mass and equalises subchannel pressure gradients.
-/
import Dassh.Gen.C12
import Dassh.Gen.C12Geo
import Dassh.Model.FlowSplit
import Mathlib.Algebra.Order.Field.Basic
import Mathlib.Analysis.SpecialFunctions.Pow.Real
import Mathlib.Analysis.Real.Sqrt
import Mathlib.Tactic.FieldSimp
import Mathlib.Tactic.Ring
import Mathlib.Tactic.Linarith
import Mathlib.Tactic.Positivity

namespace Dassh.Props.C12
open Dassh.Gen.C12 Dassh.Model.FlowSplit

variable {K : Type} [Field K] [LinearOrder K] [IsStrictOrderedRing K]

/-- **Mass conservation of the constant (laminar / turbulent) split**, for all ratio constants:
`Σ N_i A_i x_i = A_b`, i.e. the flow-area-weighted mean of the split factors is one. -/
theorem c12_mass_const (Ab na0 na1 na2 r1 r3 : K) (hd : na1 + r1 * na0 + r3 * na2 ≠ 0) :
    na0 * const_split_0 Ab na0 na1 na2 r1 r3 + na1 * const_split_1 Ab na0 na1 na2 r1 r3
      + na2 * const_split_2 Ab na0 na1 na2 r1 r3 = Ab := by
  simp only [gen_defs]
  have hd' : na1 + na0 * r1 + r3 * na2 ≠ 0 := by
    have : na1 + na0 * r1 + r3 * na2 = na1 + r1 * na0 + r3 * na2 := by ring
    rw [this]; exact hd
  field_simp
  ring

/-- the split factors are positive for positive areas and ratio constants, and the interior /
corner factors are the ratio constants times the edge factor -/
theorem c12_positive_const (Ab na0 na1 na2 r1 r3 : K) (hA : 0 < Ab) (h0 : 0 < na0) (h1 : 0 < na1) (h2 : 0 < na2)
    (hr1 : 0 < r1) (hr3 : 0 < r3) :
    0 < const_split_0 Ab na0 na1 na2 r1 r3 ∧ 0 < const_split_1 Ab na0 na1 na2 r1 r3
      ∧ 0 < const_split_2 Ab na0 na1 na2 r1 r3
      ∧ const_split_0 Ab na0 na1 na2 r1 r3 = r1 * const_split_1 Ab na0 na1 na2 r1 r3
      ∧ const_split_2 Ab na0 na1 na2 r1 r3 = r3 * const_split_1 Ab na0 na1 na2 r1 r3 := by
  simp only [gen_defs]
  refine ⟨by positivity, by positivity, by positivity, ?_, ?_⟩ <;> trivial

/-! ### one update of the successive approximation (`_iterate`, last lines)

Given the three per-type loss terms `t_i > 0` evaluated at the previous iterate,
`x2 = 1 / (s1 + s0 √(t1/t0) + s2 √(t1/t2))`, `x1 = √(t1/t0) x2`, `x3 = √(t1/t2) x2`. -/

/-- every iterate (hence the returned triple) conserves mass: `Σ s_i x_i = 1` -/
theorem c12_mass_iter (s0 s1 s2 q0 q2 : K) (hd : s1 + s0 * q0 + s2 * q2 ≠ 0) :
    s0 * (iterStep s0 s1 s2 q0 q2).1 + s1 * (iterStep s0 s1 s2 q0 q2).2.1 + s2 * (iterStep s0 s1 s2 q0 q2).2.2 = 1 := by
  simp only [iterStep]
  field_simp
  ring

/-- and equalises the pressure gradients `t_i x_i²` of the three types (with the loss terms of the
previous iterate; exactly at a fixed point) -/
theorem c12_gradient_iter (s0 s1 s2 t0 t1 t2 q0 q2 : K) (ht0 : t0 ≠ 0) (ht2 : t2 ≠ 0)
    (hq0 : q0 * q0 = t1 / t0) (hq2 : q2 * q2 = t1 / t2) :
    t0 * (iterStep s0 s1 s2 q0 q2).1 ^ 2 = t1 * (iterStep s0 s1 s2 q0 q2).2.1 ^ 2
    ∧ t2 * (iterStep s0 s1 s2 q0 q2).2.2 ^ 2 = t1 * (iterStep s0 s1 s2 q0 q2).2.1 ^ 2 := by
  simp only [iterStep]
  constructor
  · have : t0 * (q0 * q0) = t1 := by rw [hq0]; field_simp
    calc t0 * (q0 * (1 / (s1 + s0 * q0 + s2 * q2))) ^ 2
        = (t0 * (q0 * q0)) * (1 / (s1 + s0 * q0 + s2 * q2)) ^ 2 := by ring
      _ = t1 * (1 / (s1 + s0 * q0 + s2 * q2)) ^ 2 := by rw [this]
  · have : t2 * (q2 * q2) = t1 := by rw [hq2]; field_simp
    calc t2 * (q2 * (1 / (s1 + s0 * q0 + s2 * q2))) ^ 2
        = (t2 * (q2 * q2)) * (1 / (s1 + s0 * q0 + s2 * q2)) ^ 2 := by ring
      _ = t1 * (1 / (s1 + s0 * q0 + s2 * q2)) ^ 2 := by rw [this]

/-! ### the constant split equalises the friction pressure gradient (real powers) -/

/-- With `f_i = Cf_i / Re_i^m`, `Re_i ∝ x_i De_i`, the friction gradient of type `i` is proportional
to `Cf_i · x_i^(2−m) · De_i^(−(1+m))`.  The ratio constant the code uses,
`r = (De_a/De_b)^((1+m)/(2−m)) · (Cf_b/Cf_a)^(1/(2−m))`, makes the gradients of two types equal. -/
theorem c12_gradient_const (m Cfa Cfb Dea Deb xb : ℝ) (hm : m < 2) (hCa : 0 < Cfa) (hCb : 0 < Cfb)
    (hDa : 0 < Dea) (hDb : 0 < Deb) (hx : 0 < xb) :
    let r := (Dea / Deb) ^ ((1 + m) / (2 - m)) * (Cfb / Cfa) ^ (1 / (2 - m))
    Cfa * (r * xb) ^ (2 - m) * Dea ^ (-(1 + m)) = Cfb * xb ^ (2 - m) * Deb ^ (-(1 + m)) := by
  intro r
  have h2 : (2 - m) ≠ 0 := by linarith
  have hr1 : 0 < (Dea / Deb) ^ ((1 + m) / (2 - m)) := Real.rpow_pos_of_pos (div_pos hDa hDb) _
  have hr2 : 0 < (Cfb / Cfa) ^ (1 / (2 - m)) := Real.rpow_pos_of_pos (div_pos hCb hCa) _
  have hrpow : r ^ (2 - m) = (Dea / Deb) ^ (1 + m) * (Cfb / Cfa) := by
    show ((Dea / Deb) ^ ((1 + m) / (2 - m)) * (Cfb / Cfa) ^ (1 / (2 - m))) ^ (2 - m) = _
    rw [Real.mul_rpow hr1.le hr2.le, ← Real.rpow_mul (div_pos hDa hDb).le, ← Real.rpow_mul (div_pos hCb hCa).le]
    have e1 : (1 + m) / (2 - m) * (2 - m) = 1 + m := by field_simp
    have e2 : 1 / (2 - m) * (2 - m) = 1 := by field_simp
    rw [e1, e2, Real.rpow_one]
  have hr : 0 < r := mul_pos hr1 hr2
  rw [Real.mul_rpow hr.le hx.le, hrpow, Real.div_rpow hDa.le hDb.le, Real.rpow_neg hDa.le, Real.rpow_neg hDb.le]
  have pa : 0 < Dea ^ (1 + m) := Real.rpow_pos_of_pos hDa _
  have pb : 0 < Deb ^ (1 + m) := Real.rpow_pos_of_pos hDb _
  field_simp

/-- the algebraic facts assumed of the square root in `c12_gradient_iter` hold for the real one -/
example (t0 t1 : ℝ) (h0 : 0 < t0) (h1 : 0 ≤ t1) : Real.sqrt (t1 / t0) * Real.sqrt (t1 / t0) = t1 / t0 :=
  Real.mul_self_sqrt (div_nonneg h1 h0.le)

/-! ### Geometric splits (SE2, MIT, Novendstern)

`Dassh.Gen.C12Geo` (regenerated from the `calculate_flow_split` functions of `flowsplit_se2`, `flowsplit_mit`, `flowsplit_nov` on every
run) holds the traced split factors with every real power replaced by a variable, and `mass_se2` / `mass_mit` / `mass_nov`: the split
conserves mass under the relations between those powers that the translator found in the traced code and checked on its values -
a power of a quotient of two variables is the quotient of their powers; other powers come in pairs `x^e`, `x^(-e)`.  Below: the
two laws of the real power that make those relations true, and the three statements with `Real.rpow` put back. -/

theorem c12_rpow_pair_neg (x e : ℝ) (hx : 0 < x) : x ^ e * x ^ (-e) = 1 := by
  rw [← Real.rpow_add hx]; simp

theorem c12_rpow_quot (a b e : ℝ) (ha : 0 < a) (hb : 0 < b) : (a / b) ^ e = a ^ e / b ^ e :=
  Real.div_rpow ha.le hb.le e

/-- SE2 split over the reals: `lam` is the (positive) geometric group the code raises to `0.571` / `-0.571`, `de0`, `de1` the
hydraulic diameters whose ratio it raises to `0.714`; for ALL exponents `e1`, `e2`. -/
theorem c12_mass_se2 (A0 A1 A2 N0 N1 N2 lam de0 de1 e1 e2 : ℝ) (hA0 : 0 < A0) (hA1 : 0 < A1) (hA2 : 0 < A2)
    (hN0 : 0 < N0) (hN1 : 0 < N1) (hN2 : 0 < N2) (hl : 0 < lam) (h0 : 0 < de0) (h1 : 0 < de1) :
    N0 * A0 * Dassh.Gen.C12Geo.se2_x0 A0 A1 A2 N0 N1 N2 (lam ^ e1) ((de1 / de0) ^ e2) (lam ^ (-e1)) ((de0 / de1) ^ e2)
      + N1 * A1 * Dassh.Gen.C12Geo.se2_x1 A0 A1 A2 N0 N1 N2 (lam ^ e1) ((de1 / de0) ^ e2) (lam ^ (-e1)) ((de0 / de1) ^ e2)
      + N2 * A2 * Dassh.Gen.C12Geo.se2_x2 A0 A1 A2 N0 N1 N2 (lam ^ e1) ((de1 / de0) ^ e2) (lam ^ (-e1)) ((de0 / de1) ^ e2)
      = N0 * A0 + N1 * A1 + N2 * A2 :=
  Dassh.Gen.C12Geo.mass_se2 A0 A1 A2 N0 N1 N2 _ _ _ _ (de0 ^ e2) (de1 ^ e2) hA0 hA1 hA2 hN0 hN1 hN2
    (Real.rpow_pos_of_pos hl _) (Real.rpow_pos_of_pos (div_pos h1 h0) _) (Real.rpow_pos_of_pos hl _)
    (Real.rpow_pos_of_pos (div_pos h0 h1) _) (Real.rpow_pos_of_pos h0 _) (Real.rpow_pos_of_pos h1 _)
    (c12_rpow_pair_neg lam e1 hl) (c12_rpow_quot de1 de0 e2 h1 h0) (c12_rpow_quot de0 de1 e2 h0 h1)

/-- the same for the MIT (Chiu-Rohsenow-Todreas) split -/
theorem c12_mass_mit (A0 A1 A2 N0 N1 N2 lam de0 de1 e1 e2 : ℝ) (hA0 : 0 < A0) (hA1 : 0 < A1) (hA2 : 0 < A2)
    (hN0 : 0 < N0) (hN1 : 0 < N1) (hN2 : 0 < N2) (hl : 0 < lam) (h0 : 0 < de0) (h1 : 0 < de1) :
    N0 * A0 * Dassh.Gen.C12Geo.mit_x0 A0 A1 A2 N0 N1 N2 (lam ^ e1) ((de1 / de0) ^ e2) (lam ^ (-e1)) ((de0 / de1) ^ e2)
      + N1 * A1 * Dassh.Gen.C12Geo.mit_x1 A0 A1 A2 N0 N1 N2 (lam ^ e1) ((de1 / de0) ^ e2) (lam ^ (-e1)) ((de0 / de1) ^ e2)
      + N2 * A2 * Dassh.Gen.C12Geo.mit_x2 A0 A1 A2 N0 N1 N2 (lam ^ e1) ((de1 / de0) ^ e2) (lam ^ (-e1)) ((de0 / de1) ^ e2)
      = N0 * A0 + N1 * A1 + N2 * A2 :=
  Dassh.Gen.C12Geo.mass_mit A0 A1 A2 N0 N1 N2 _ _ _ _ (de0 ^ e2) (de1 ^ e2) hA0 hA1 hA2 hN0 hN1 hN2
    (Real.rpow_pos_of_pos hl _) (Real.rpow_pos_of_pos (div_pos h1 h0) _) (Real.rpow_pos_of_pos hl _)
    (Real.rpow_pos_of_pos (div_pos h0 h1) _) (Real.rpow_pos_of_pos h0 _) (Real.rpow_pos_of_pos h1 _)
    (c12_rpow_pair_neg lam e1 hl) (c12_rpow_quot de1 de0 e2 h1 h0) (c12_rpow_quot de0 de1 e2 h0 h1)

/-- Novendstern split over the reals, for every exponent `e` (the code uses 0.714): the area-weighted split factors sum to the
bundle area the split is normalised with. -/
theorem c12_mass_nov (A0 A1 A2 Ab N0 N1 N2 de0 de1 de2 e : ℝ) (hA0 : 0 < A0) (hA1 : 0 < A1) (hA2 : 0 < A2) (hAb : 0 < Ab)
    (hN0 : 0 < N0) (hN1 : 0 < N1) (hN2 : 0 < N2) (h0 : 0 < de0) (h1 : 0 < de1) (h2 : 0 < de2) :
    N0 * A0 * Dassh.Gen.C12Geo.nov_x0 A0 A1 A2 Ab N0 N1 N2 ((de1 / de0) ^ e) ((de2 / de0) ^ e) ((de0 / de1) ^ e) ((de2 / de1) ^ e)
        ((de0 / de2) ^ e) ((de1 / de2) ^ e)
      + N1 * A1 * Dassh.Gen.C12Geo.nov_x1 A0 A1 A2 Ab N0 N1 N2 ((de1 / de0) ^ e) ((de2 / de0) ^ e) ((de0 / de1) ^ e) ((de2 / de1) ^ e)
        ((de0 / de2) ^ e) ((de1 / de2) ^ e)
      + N2 * A2 * Dassh.Gen.C12Geo.nov_x2 A0 A1 A2 Ab N0 N1 N2 ((de1 / de0) ^ e) ((de2 / de0) ^ e) ((de0 / de1) ^ e) ((de2 / de1) ^ e)
        ((de0 / de2) ^ e) ((de1 / de2) ^ e)
      = Ab :=
  Dassh.Gen.C12Geo.mass_nov A0 A1 A2 Ab N0 N1 N2 _ _ _ _ _ _ (de0 ^ e) (de1 ^ e) (de2 ^ e) hA0 hA1 hA2 hAb hN0 hN1 hN2
    (Real.rpow_pos_of_pos (div_pos h1 h0) _) (Real.rpow_pos_of_pos (div_pos h2 h0) _) (Real.rpow_pos_of_pos (div_pos h0 h1) _)
    (Real.rpow_pos_of_pos (div_pos h2 h1) _) (Real.rpow_pos_of_pos (div_pos h0 h2) _) (Real.rpow_pos_of_pos (div_pos h1 h2) _)
    (Real.rpow_pos_of_pos h0 _) (Real.rpow_pos_of_pos h1 _) (Real.rpow_pos_of_pos h2 _)
    (c12_rpow_quot de1 de0 e h1 h0) (c12_rpow_quot de2 de0 e h2 h0) (c12_rpow_quot de0 de1 e h0 h1)
    (c12_rpow_quot de2 de1 e h2 h1) (c12_rpow_quot de0 de2 e h0 h2) (c12_rpow_quot de1 de2 e h1 h2)

end Dassh.Props.C12
