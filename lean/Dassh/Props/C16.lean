/-
C16 — runs are repeatable: set-up never mutates the input, serial = parallel.
Theorems about `Dassh.Model.Repeat`; their hypotheses (set-up returns the input unchanged;
a time point's output is a function of the input and the time point; a task writes only its
own directory) are established on the real code by the harness.
-/
import Dassh.Model.Repeat
import Mathlib.Data.List.Perm.Basic
import Mathlib.Data.List.Basic

namespace Dassh.Props.C16
open Dassh.Model.Repeat

variable {ι μ ο : Type}

/-- **Idempotent construction**: if building leaves the input unchanged, every one of any number of
successive constructions from the same input object yields the same model as the first. -/
theorem c16_idempotent (build : ι → μ × ι) (i : ι) (h : (build i).2 = i) :
    ∀ n, ∀ m ∈ buildMany build n i, m = (build i).1 := by
  intro n
  induction n with
  | zero => intro m hm; simp [buildMany] at hm
  | succ k ih =>
    intro m hm
    simp only [buildMany, List.mem_cons] at hm
    rcases hm with rfl | hm
    · rfl
    · rw [h] at hm; exact ih m hm

/-- **Counter-example when set-up mutates its input**: the second construction differs. -/
theorem c16_mutation_counter :
    let build : Nat → Nat × Nat := fun i => (i, i + 1)
    buildMany build 2 0 = [0, 1] := by decide

/-- the slot of time point `t` after a schedule that contains `t`: the output of `t` -/
theorem runSchedule_slot (run : ι → Nat → ο) (inp : ι) (order : List Nat) (out : Nat → Option ο) (t : Nat) :
    (order.foldl (runTask run inp) out) t = if t ∈ order then some (run inp t) else out t := by
  induction order generalizing out with
  | nil => simp
  | cons a rest ih =>
    simp only [List.foldl_cons]
    rw [ih]
    by_cases hta : t = a
    · subst hta; simp [runTask]
    · by_cases htr : t ∈ rest
      · simp [htr]
      · simp [htr, hta, runTask]

/-- **Schedule independence**: serial execution, any parallel schedule (any order of the time
points, any worker count) and one-at-a-time execution produce the same output for every time point. -/
theorem c16_schedule_independent (run : ι → Nat → ο) (inp : ι) (o1 o2 : List Nat) (hp : o1.Perm o2) :
    runSchedule run inp o1 = runSchedule run inp o2 := by
  funext t
  unfold runSchedule
  rw [runSchedule_slot, runSchedule_slot]
  have : t ∈ o1 ↔ t ∈ o2 := hp.mem_iff
  by_cases h : t ∈ o1
  · simp [h, this.mp h]
  · have h2 : t ∉ o2 := fun x => h (this.mpr x)
    simp [h, h2]

/-- running a single time point alone gives the same output as within any schedule containing it -/
theorem c16_one_at_a_time (run : ι → Nat → ο) (inp : ι) (order : List Nat) (t : Nat) (ht : t ∈ order) :
    runSchedule run inp order t = runSchedule run inp [t] t := by
  unfold runSchedule
  rw [runSchedule_slot, runSchedule_slot]
  simp [ht]

/-- **Serial = parallel** when no time point changes the input object: the state-passing serial run produces, time point by time
point, what the workers of a parallel run produce from their own copies -/
theorem c16_serial_eq_parallel (step : ι → Nat → ο × ι) (i : ι) (ts : List Nat) (h : ∀ t ∈ ts, (step i t).2 = i) :
    serialRun step i ts = parallelRun step i ts := by
  induction ts with
  | nil => rfl
  | cons t rest ih =>
    have ht : (step i t).2 = i := h t (by simp)
    simp only [serialRun, parallelRun, List.map_cons, ht]
    congr 1
    exact ih (fun u hu => h u (List.mem_cons_of_mem _ hu))

/-- a time point that writes into the input object (a snapped table height, a material left at its last temperature) makes the
later time points of a serial run differ from the parallel ones -/
theorem c16_run_mutation_counter :
    let step : Nat → Nat → Nat × Nat := fun i t => (i + t, i + 1)
    serialRun step 0 [1, 2] = [1, 3] ∧ parallelRun step 0 [1, 2] = [1, 2] := by decide

end Dassh.Props.C16
