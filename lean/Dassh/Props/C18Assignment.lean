/-
C18 / the numbering every other property relies on: theorems about `Dassh.Model.Assignment` (the reader's
`parse_assignment_section`, tied to the real method by the correspondence check of C18).  The position index is a bijection
between the positions of an `n`-ring hexagonal core and `0 .. 3 n (n - 1)`: two different positions never share an index
(an assignment can only overwrite the position it names) and every index below the core size is a position.  A line is
accepted only if every position it names exists.
-/
import Dassh.Model.Assignment
import Mathlib.Tactic.Linarith
import Mathlib.Tactic.Ring
import Mathlib.Tactic.IntervalCases
import Mathlib.Data.Nat.Basic

namespace Dassh.Props.C18Assignment
open Dassh.Model.Assignment

/-- indices of ring `r ≥ 2` start right after the last index of ring `r - 1` -/
theorem ring_block (r : Nat) (hr : 2 ≤ r) : 3 * (r - 2) * (r - 1) + 6 * (r - 1) = 3 * (r - 1) * r := by
  obtain ⟨k, rfl⟩ : ∃ k, r = k + 2 := ⟨r - 2, by omega⟩
  simp only [Nat.add_sub_cancel, show k + 2 - 1 = k + 1 by omega]
  ring

/-- the last index of ring `r` is `3 (r - 1) r`, which grows with the ring -/
theorem block_mono {r s : Nat} (h : r ≤ s) : 3 * (r - 1) * r ≤ 3 * (s - 1) * s := by
  have h1 : r - 1 ≤ s - 1 := Nat.sub_le_sub_right h 1
  exact Nat.mul_le_mul (Nat.mul_le_mul_left 3 h1) h

/-- the indices of a valid position of ring `r ≥ 2` lie in the block `(3 (r-2)(r-1), 3 (r-1) r]` -/
theorem index_in_block (r p : Nat) (hr : 2 ≤ r) (hp1 : 1 ≤ p) (hp : p ≤ 6 * (r - 1)) :
    3 * (r - 2) * (r - 1) < posIndex r p ∧ posIndex r p ≤ 3 * (r - 1) * r := by
  have hne : r ≠ 1 := by omega
  simp only [posIndex, if_neg hne]
  have := ring_block r hr
  omega

/-- **Different positions have different indices** -/
theorem c18_index_injective (r p s q : Nat) (h1 : validPos r p = true) (h2 : validPos s q = true)
    (h : posIndex r p = posIndex s q) : r = s ∧ p = q := by
  simp only [validPos, Bool.and_eq_true, decide_eq_true_eq] at h1 h2
  obtain ⟨⟨hr, hp1⟩, hp⟩ := h1
  obtain ⟨⟨hs, hq1⟩, hq⟩ := h2
  -- same ring
  have hrs : r = s := by
    by_contra hne
    rcases Nat.lt_or_gt_of_ne hne with hlt | hlt
    · -- r < s: index of (r,p) ≤ 3 (r-1) r ≤ 3 (s-2)(s-1) < index of (s,q)
      have hs2 : 2 ≤ s := by omega
      have hq' : q ≤ 6 * (s - 1) := by simpa [ringSize, show s ≠ 1 by omega] using hq
      have hb := (index_in_block s q hs2 hq1 hq').1
      have hle : posIndex r p ≤ 3 * (r - 1) * r := by
        by_cases hr1 : r = 1
        · simp [posIndex, hr1]
        · have hp' : p ≤ 6 * (r - 1) := by simpa [ringSize, hr1] using hp
          exact (index_in_block r p (by omega) hp1 hp').2
      have hm : 3 * (r - 1) * r ≤ 3 * (s - 1 - 1) * (s - 1) := block_mono (show r ≤ s - 1 by omega)
      have : s - 1 - 1 = s - 2 := by omega
      rw [this] at hm
      omega
    · have hr2 : 2 ≤ r := by omega
      have hp' : p ≤ 6 * (r - 1) := by simpa [ringSize, show r ≠ 1 by omega] using hp
      have hb := (index_in_block r p hr2 hp1 hp').1
      have hle : posIndex s q ≤ 3 * (s - 1) * s := by
        by_cases hs1 : s = 1
        · simp [posIndex, hs1]
        · have hq' : q ≤ 6 * (s - 1) := by simpa [ringSize, hs1] using hq
          exact (index_in_block s q (by omega) hq1 hq').2
      have hm : 3 * (s - 1) * s ≤ 3 * (r - 1 - 1) * (r - 1) := block_mono (show s ≤ r - 1 by omega)
      have : r - 1 - 1 = r - 2 := by omega
      rw [this] at hm
      omega
  subst hrs
  refine ⟨rfl, ?_⟩
  by_cases hr1 : r = 1
  · subst hr1
    simp [ringSize] at hp hq
    omega
  · simp only [posIndex, if_neg hr1] at h
    omega

/-- **Every valid position of an `n`-ring core has an index below the core size** -/
theorem c18_index_in_core (n r p : Nat) (hrn : r ≤ n) (h : validPos r p = true) : posIndex r p < coreSize n := by
  simp only [validPos, Bool.and_eq_true, decide_eq_true_eq] at h
  obtain ⟨⟨hr, hp1⟩, hp⟩ := h
  unfold coreSize
  by_cases hr1 : r = 1
  · simp [posIndex, hr1]
  · have hp' : p ≤ 6 * (r - 1) := by simpa [ringSize, hr1] using hp
    have := (index_in_block r p (by omega) hp1 hp').2
    have hm := block_mono hrn
    omega

/-- **Every index below the core size is the index of a valid position** (the numbering has no holes) -/
theorem c18_index_surjective (n : Nat) (hn : 1 ≤ n) (i : Nat) (hi : i < coreSize n) :
    ∃ r p, r ≤ n ∧ validPos r p = true ∧ posIndex r p = i := by
  induction n with
  | zero => omega
  | succ m ih =>
    by_cases hm : m = 0
    · subst hm
      refine ⟨1, 1, by omega, by simp [validPos, ringSize], ?_⟩
      simp [coreSize] at hi
      simp [posIndex, hi]
    · by_cases hlt : i < coreSize m
      · obtain ⟨r, p, hr, hv, hidx⟩ := ih (by omega) hlt
        exact ⟨r, p, by omega, hv, hidx⟩
      · -- on the outermost ring
        have hm2 : 2 ≤ m + 1 := by omega
        have hblk := ring_block (m + 1) hm2
        simp only [Nat.add_sub_cancel] at hblk
        have h21 : m + 1 - 2 = m - 1 := by omega
        rw [h21] at hblk
        unfold coreSize at hi hlt
        simp only [Nat.add_sub_cancel] at hi
        refine ⟨m + 1, i - 3 * (m - 1) * m, le_refl _, ?_, ?_⟩
        · simp only [validPos, Bool.and_eq_true, decide_eq_true_eq, ringSize, show m + 1 ≠ 1 by omega, if_false,
            Nat.add_sub_cancel]
          omega
        · simp only [posIndex, show m + 1 ≠ 1 by omega, if_false, Nat.add_sub_cancel, h21]
          omega

/-- an accepted line names existing positions only -/
theorem c18_line_positions (r p0 p1 : Int) (h : lineOk r p0 p1 = true) :
    ∀ k : Nat, k < (p1 - p0 + 1).toNat → validPos r.toNat (p0.toNat + k) = true := by
  simp only [lineOk, Bool.and_eq_true, decide_eq_true_eq] at h
  obtain ⟨⟨⟨hr, hp0⟩, hle⟩, hp1⟩ := h
  intro k hk
  simp only [validPos, Bool.and_eq_true, decide_eq_true_eq]
  refine ⟨⟨by omega, by omega⟩, ?_⟩
  have : ((p0.toNat + k : Nat) : Int) ≤ p1 := by omega
  have h2 : ((p0.toNat + k : Nat) : Int) ≤ (ringSize r.toNat : Int) := le_trans this hp1
  exact_mod_cast h2

/-- lines the original reader let through: a position 0 on ring 2 landed on the index of the centre assembly; a run whose last
position precedes its first one vanished; both are refused by the model -/
theorem c18_line_rejects : lineOk 2 0 0 = false ∧ lineOk 2 2 1 = false ∧ lineOk 0 1 1 = false ∧ lineOk 2 (-1) (-1) = false
    ∧ lineOk 2 7 7 = false ∧ lineIndices 2 1 6 = some [1, 2, 3, 4, 5, 6] ∧ lineIndices 1 1 1 = some [0] := by
  decide

end Dassh.Props.C18Assignment
