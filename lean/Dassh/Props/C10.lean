/-
C10 — the duct <-> gap mesh mapping is positive, exact on constants and conservative.

Theorems about `Dassh.Model.Mesh` (the executable model of `_map_asm2gap`, tied to
the code by the correspondence check), over any linearly ordered field.
-/
import Dassh.Model.Mesh
import Dassh.Gen.C10X
import Mathlib.Algebra.Order.Field.Basic
import Mathlib.Algebra.BigOperators.Group.List.Basic
import Mathlib.Tactic.Linarith
import Mathlib.Tactic.FieldSimp
import Mathlib.Tactic.Ring
import Mathlib.Order.Lattice

namespace Dassh.Props.C10
open Dassh.Model.Mesh

variable {K : Type} [Field K] [LinearOrder K] [IsStrictOrderedRing K]

/-- every weight is non-negative -/
theorem c10_ovl_nonneg (a b c d : K) : 0 ≤ ovl a b c d := by
  unfold ovl; exact le_max_left _ _

/-- overlaps with adjacent intervals add up -/
theorem ovl_add (a b c m d : K) (h1 : c ≤ m) (h2 : m ≤ d) :
    ovl a b c m + ovl a b m d = ovl a b c d := by
  simp only [ovl, max_def, min_def]
  split_ifs <;> linarith

/-- an interval inside `[c,d]` overlaps it in its whole length -/
theorem ovl_inside (a b c d : K) (h0 : a ≤ b) (h1 : c ≤ a) (h2 : b ≤ d) : ovl a b c d = b - a := by
  simp only [ovl, max_def, min_def]
  split_ifs <;> linarith

/-- monotone boundary list -/
def Mono : List K → Prop
  | a :: b :: t => a ≤ b ∧ Mono (b :: t)
  | _ => True

/-- the overlaps of `[a,b]` with the cells of a partition telescope to the overlap with its hull -/
theorem ovl_tiling (a b : K) : ∀ (x0 : K) (xs : List K), Mono (x0 :: xs) →
    ((intervals (x0 :: xs)).map fun c => ovl a b c.1 c.2).sum = ovl a b x0 ((x0 :: xs).getLast (by simp)) ∧
    x0 ≤ (x0 :: xs).getLast (by simp) := by
  intro x0 xs
  induction xs generalizing x0 with
  | nil =>
    intro _
    simp only [intervals, List.map_nil, List.sum_nil, List.getLast_singleton, le_refl, and_true]
    simp only [ovl, max_def, min_def]
    split_ifs <;> linarith
  | cons x1 t ih =>
    intro hm
    obtain ⟨h01, hm'⟩ := hm
    obtain ⟨hs, hle⟩ := ih x1 hm'
    have hlast : (x0 :: x1 :: t).getLast (by simp) = (x1 :: t).getLast (by simp) := by
      simp [List.getLast_cons]
    refine ⟨?_, ?_⟩
    · simp only [intervals, List.map_cons, List.sum_cons]
      rw [hs, hlast]
      exact ovl_add a b x0 x1 _ h01 hle
    · rw [hlast]; exact le_trans h01 hle

/-- **Rows of the gap→region map sum to one** (a uniform field is reproduced exactly):
for a region cell `[a,b]` of positive length inside the perimeter walked by the gap mesh. -/
theorem c10_row_sum_one (a b x0 : K) (xs : List K) (hab : a < b) (hm : Mono (x0 :: xs))
    (h0 : x0 ≤ a) (hL : b ≤ (x0 :: xs).getLast (by simp)) :
    ((intervals (x0 :: xs)).map fun c => ovl a b c.1 c.2 / (b - a)).sum = 1 := by
  have hpos : 0 < b - a := sub_pos.mpr hab
  have hdiv : ((intervals (x0 :: xs)).map fun c => ovl a b c.1 c.2 / (b - a)).sum
      = ((intervals (x0 :: xs)).map fun c => ovl a b c.1 c.2).sum / (b - a) := by
    generalize intervals (x0 :: xs) = l
    induction l with
    | nil => simp
    | cons c t ih => simp only [List.map_cons, List.sum_cons, ih]; ring
  rw [hdiv, (ovl_tiling a b x0 xs hm).1, ovl_inside a b x0 _ hab.le h0 hL]
  exact div_self hpos.ne'

/-- overlap is symmetric in the two intervals, so the same statement holds for the
region→gap direction (`c2fRaw` normalises the same overlaps by the gap cell length) -/
theorem ovl_comm (a b c d : K) : ovl a b c d = ovl c d a b := by
  simp only [ovl, max_def, min_def]
  split_ifs <;> linarith

/-- when the two meshes coincide the overlap matrix is diagonal: a cell overlaps
itself fully and any cell at or beyond its ends not at all -/
theorem c10_identity_when_equal (a b c d : K) (hab : a ≤ b) (hcd : c ≤ d) :
    ovl a b a b = b - a ∧ (b ≤ c → ovl a b c d = 0) ∧ (d ≤ a → ovl a b c d = 0) := by
  refine ⟨ovl_inside a b a b hab le_rfl le_rfl, ?_, ?_⟩ <;>
  · intro h
    simp only [ovl, max_def, min_def]
    split_ifs <;> linarith


/-- every gap cell inside the perimeter is covered exactly once by the region cells
(column sums of the raw overlap matrix) -/
theorem c10_col_sum (c d r0 : K) (rs : List K) (hcd : c ≤ d) (hm : Mono (r0 :: rs))
    (h0 : r0 ≤ c) (hL : d ≤ (r0 :: rs).getLast (by simp)) :
    ((intervals (r0 :: rs)).map fun r => ovl r.1 r.2 c d).sum = d - c := by
  have : ((intervals (r0 :: rs)).map fun r => ovl r.1 r.2 c d)
      = ((intervals (r0 :: rs)).map fun r => ovl c d r.1 r.2) := by
    apply List.map_congr_left; intro r _; exact ovl_comm _ _ _ _
  rw [this, (ovl_tiling c d r0 rs hm).1, ovl_inside c d r0 _ hcd h0 hL]

theorem sum_map_add {B : Type} (l : List B) (g h : B → K) :
    (l.map fun b => g b + h b).sum = (l.map g).sum + (l.map h).sum := by
  induction l with
  | nil => simp
  | cons b u ih => simp only [List.map_cons, List.sum_cons, ih]; ring

theorem sum_map_sub_k {B : Type} (l : List B) (g h : B → K) :
    (l.map g).sum - (l.map h).sum = (l.map fun b => g b - h b).sum := by
  induction l with
  | nil => simp
  | cons b u ih => simp only [List.map_cons, List.sum_cons, ← ih]; ring

theorem sum_map_mul_left_k {B : Type} (l : List B) (k : K) (g : B → K) :
    k * (l.map g).sum = (l.map fun b => k * g b).sum := by
  induction l with
  | nil => simp
  | cons b u ih => simp only [List.map_cons, List.sum_cons, ← ih]; ring

theorem sum_map_mul_right_k {B : Type} (l : List B) (k : K) (g : B → K) :
    (l.map fun b => g b * k).sum = (l.map g).sum * k := by
  induction l with
  | nil => simp
  | cons b u ih => simp only [List.map_cons, List.sum_cons, ih]; ring

/-- swapping a double sum over two lists -/
theorem sum_swap {A B : Type} (la : List A) (lb : List B) (f : A → B → K) :
    (la.map fun a => (lb.map fun b => f a b).sum).sum = (lb.map fun b => (la.map fun a => f a b).sum).sum := by
  induction la with
  | nil => simp
  | cons a t ih =>
    simp only [List.map_cons, List.sum_cons, ih]
    rw [sum_map_add]

/-- **Conservation.**  Whatever values `x` sit on the gap cells, mapping them to the region
mesh with the row-normalised overlap weights and integrating over the region cells gives
the integral over the gap cells: `Σ_r Δx_r (F2C x)_r = Σ_c Δx_c x_c`.  (The transposed
statement follows from `ovl_comm`.) -/
theorem c10_conservative (r0 c0 : K) (rs cs : List K) (x : K × K → K)
    (hmr : Mono (r0 :: rs)) (hmc : Mono (c0 :: cs))
    (hpos : ∀ r ∈ intervals (r0 :: rs), r.1 < r.2)
    (hcell : ∀ c ∈ intervals (c0 :: cs), c.1 ≤ c.2 ∧ r0 ≤ c.1 ∧ c.2 ≤ (r0 :: rs).getLast (by simp)) :
    ((intervals (r0 :: rs)).map fun r =>
        (r.2 - r.1) * ((intervals (c0 :: cs)).map fun c => ovl r.1 r.2 c.1 c.2 / (r.2 - r.1) * x c).sum).sum
      = ((intervals (c0 :: cs)).map fun c => (c.2 - c.1) * x c).sum := by
  have h1 : ((intervals (r0 :: rs)).map fun r =>
        (r.2 - r.1) * ((intervals (c0 :: cs)).map fun c => ovl r.1 r.2 c.1 c.2 / (r.2 - r.1) * x c).sum)
      = ((intervals (r0 :: rs)).map fun r =>
        ((intervals (c0 :: cs)).map fun c => ovl r.1 r.2 c.1 c.2 * x c).sum) := by
    apply List.map_congr_left
    intro r hr
    have hp : r.2 - r.1 ≠ 0 := (sub_pos.mpr (hpos r hr)).ne'
    rw [sum_map_mul_left_k]
    congr 1
    apply List.map_congr_left
    intro c _
    field_simp
  rw [h1, sum_swap]
  congr 1
  apply List.map_congr_left
  intro c hc
  obtain ⟨hcd, hlo, hhi⟩ := hcell c hc
  rw [sum_map_mul_right_k, c10_col_sum c.1 c.2 r0 rs hcd hmr hlo hhi]

/-! ### the split top corner: theorems about the executable fold (`foldRow`, `foldCorner`, `mapI`) -/

theorem foldRow_concat (c0 : K) (cm : List K) (cl : K) : foldRow (c0 :: (cm ++ [cl])) = cm ++ [cl + c0] := by
  simp [foldRow, List.getLast?_concat, List.dropLast_concat]

/-- folding the first entry onto the last one keeps the row sum -/
theorem sum_foldRow (c0 : K) (cm : List K) (cl : K) :
    (foldRow (c0 :: (cm ++ [cl]))).sum = (c0 :: (cm ++ [cl])).sum := by
  rw [foldRow_concat]
  simp only [List.sum_append, List.sum_cons, List.sum_nil]
  ring

theorem foldCorner_concat (first : List K) (mid : List (List K)) (last : List K) :
    foldCorner (first :: (mid ++ [last])) = (mid ++ [addRows last first]).map foldRow := by
  simp [foldCorner, List.getLast?_concat, List.dropLast_concat]

theorem mergedLengthsI_concat (f : K × K) (mid : List (K × K)) (l : K × K) :
    mergedLengthsI (f :: (mid ++ [l])) = (mid.map fun r => r.2 - r.1) ++ [(l.2 - l.1) + (f.2 - f.1)] := by
  simp [mergedLengthsI, List.getLast?_concat, List.dropLast_concat]

theorem zipWith_map_map {A B C D : Type} (f : B → C → D) (g : A → B) (h : A → C) (l : List A) :
    List.zipWith f (l.map g) (l.map h) = l.map fun a => f (g a) (h a) := by
  induction l with
  | nil => rfl
  | cons a t ih => simp [ih]

theorem sum_map_div (l : List K) (d : K) : (l.map fun v => v / d).sum = l.sum / d := by
  induction l with
  | nil => simp
  | cons a t ih => simp only [List.map_cons, List.sum_cons, ih]; ring

/-- **Rows of the merged map sum to one.**  `R`, `C`: the cells of the two meshes as intervals, first and last interval being
the two halves of the top corner cell.  If every `R` interval is tiled by the `C` intervals (`ovl_tiling` / `c10_row_sum_one`
give this for meshes walking the same perimeter) and has positive length, every row of the executable merged map - the halves
of the top corner added up, rows divided by the merged cell length - sums to one: a uniform field is reproduced exactly,
whatever the two corner halves are. -/
theorem c10_fold_row_sum_one (rf rl : K × K) (rmid : List (K × K)) (cf cl : K × K) (cmid : List (K × K))
    (hcov : ∀ r ∈ rf :: (rmid ++ [rl]),
      ((cf :: (cmid ++ [cl])).map fun c => ovl r.1 r.2 c.1 c.2).sum = r.2 - r.1)
    (hpos : ∀ r ∈ rf :: (rmid ++ [rl]), r.1 < r.2) :
    ∀ row ∈ mapI (rf :: (rmid ++ [rl])) (cf :: (cmid ++ [cl])), row.sum = 1 := by
  intro row hrow
  -- shape of one raw row
  have hshape : ∀ r : K × K, ((cf :: (cmid ++ [cl])).map fun c => ovl r.1 r.2 c.1 c.2)
      = ovl r.1 r.2 cf.1 cf.2 :: ((cmid.map fun c => ovl r.1 r.2 c.1 c.2) ++ [ovl r.1 r.2 cl.1 cl.2]) := by
    intro r; simp
  have hfold : ∀ r : K × K, (foldRow ((cf :: (cmid ++ [cl])).map fun c => ovl r.1 r.2 c.1 c.2)).sum
      = ((cf :: (cmid ++ [cl])).map fun c => ovl r.1 r.2 c.1 c.2).sum := by
    intro r; rw [hshape, sum_foldRow]
  unfold mapI rawI at hrow
  rw [List.map_cons, List.map_append, List.map_singleton, foldCorner_concat, mergedLengthsI_concat,
    List.map_append, List.map_singleton, List.map_map] at hrow
  rw [List.zipWith_append (by simp)] at hrow
  rcases List.mem_append.mp hrow with hmid | hlast
  · -- a cell that is not the top corner
    rw [zipWith_map_map] at hmid
    obtain ⟨r, hr, rfl⟩ := List.mem_map.mp hmid
    have hrm : r ∈ rf :: (rmid ++ [rl]) := by simp [hr]
    have hp : r.2 - r.1 ≠ 0 := (sub_pos.mpr (hpos r hrm)).ne'
    simp only [Function.comp]
    rw [sum_map_div, hfold, hcov r hrm, div_self hp]
  · -- the merged top corner
    simp only [List.zipWith_cons_cons, List.zipWith_nil_right, List.mem_singleton] at hlast
    subst hlast
    have hl : rl ∈ rf :: (rmid ++ [rl]) := by simp
    have hf : rf ∈ rf :: (rmid ++ [rl]) := by simp
    have hadd : addRows ((cf :: (cmid ++ [cl])).map fun c => ovl rl.1 rl.2 c.1 c.2)
        ((cf :: (cmid ++ [cl])).map fun c => ovl rf.1 rf.2 c.1 c.2)
        = (cf :: (cmid ++ [cl])).map fun c => ovl rl.1 rl.2 c.1 c.2 + ovl rf.1 rf.2 c.1 c.2 := by
      unfold addRows; rw [zipWith_map_map]
    have hshape2 : ((cf :: (cmid ++ [cl])).map fun c => ovl rl.1 rl.2 c.1 c.2 + ovl rf.1 rf.2 c.1 c.2)
        = (ovl rl.1 rl.2 cf.1 cf.2 + ovl rf.1 rf.2 cf.1 cf.2)
          :: ((cmid.map fun c => ovl rl.1 rl.2 c.1 c.2 + ovl rf.1 rf.2 c.1 c.2)
              ++ [ovl rl.1 rl.2 cl.1 cl.2 + ovl rf.1 rf.2 cl.1 cl.2]) := by simp
    have hpl : 0 < (rl.2 - rl.1) + (rf.2 - rf.1) := by
      have := hpos rl hl; have := hpos rf hf; linarith
    rw [sum_map_div, hadd, hshape2, sum_foldRow, ← hshape2, sum_map_add, hcov rl hl, hcov rf hf, div_self hpl.ne']

/-- the same for boundary lists: region mesh `xr` and gap mesh `xc = c0 :: cs` (monotone) walk the same perimeter -/
theorem c10_f2c_rows_sum_one (xr : List K) (c0 : K) (cs : List K)
    (rf rl : K × K) (rmid : List (K × K)) (cf cl : K × K) (cmid : List (K × K))
    (hR : intervals xr = rf :: (rmid ++ [rl])) (hC : intervals (c0 :: cs) = cf :: (cmid ++ [cl]))
    (hm : Mono (c0 :: cs))
    (hin : ∀ r ∈ intervals xr, r.1 < r.2 ∧ c0 ≤ r.1 ∧ r.2 ≤ (c0 :: cs).getLast (by simp)) :
    ∀ row ∈ f2c xr (c0 :: cs), row.sum = 1 := by
  unfold f2c
  rw [hR, hC]
  apply c10_fold_row_sum_one
  · intro r hr
    rw [← hC]
    have h := hin r (by rw [hR]; exact hr)
    rw [(ovl_tiling r.1 r.2 c0 cs hm).1, ovl_inside r.1 r.2 c0 _ h.1.le h.2.1 h.2.2]
  · intro r hr
    exact (hin r (by rw [hR]; exact hr)).1

/-- non-vacuity on ℚ: unequal halves of the top corner on both meshes (1 vs 1/2 and 1/2 vs 2); rows still sum to one -/
example : (f2c [(0 : ℚ), 1, 3, 7 / 2] [0, 1 / 2, 3 / 2, 7 / 2]).map List.sum = [1, 1] := by
  norm_num [f2c, mapI, rawI, intervals, foldCorner, foldRow, mergedLengthsI, addRows, ovl, List.getLast?, List.dropLast]

/-! ### conservation through the fold -/

theorem mapI_concat (rf rl : K × K) (rmid : List (K × K)) (C : List (K × K)) :
    mapI (rf :: (rmid ++ [rl])) C
      = (rmid.map fun r => (foldRow (C.map fun c => ovl r.1 r.2 c.1 c.2)).map fun v => v / (r.2 - r.1))
        ++ [(foldRow (addRows (C.map fun c => ovl rl.1 rl.2 c.1 c.2) (C.map fun c => ovl rf.1 rf.2 c.1 c.2))).map
              fun v => v / ((rl.2 - rl.1) + (rf.2 - rf.1))] := by
  unfold mapI rawI
  rw [List.map_cons, List.map_append, List.map_singleton, foldCorner_concat, mergedLengthsI_concat,
    List.map_append, List.map_singleton, List.map_map, List.zipWith_append (by simp), zipWith_map_map]
  simp [Function.comp]

def dotL (a b : List K) : K := (List.zipWith (· * ·) a b).sum

theorem dotL_append (a : List K) (u : K) (c : List K) (v : K) (h : a.length = c.length) :
    dotL (a ++ [u]) (c ++ [v]) = dotL a c + u * v := by
  unfold dotL
  rw [List.zipWith_append h]
  simp

theorem dotL_map_map {A : Type} (l : List A) (f g : A → K) : dotL (l.map f) (l.map g) = (l.map fun a => f a * g a).sum := by
  unfold dotL; rw [zipWith_map_map]

theorem dotL_div (row : List K) (d : K) (x : List K) : dotL (row.map fun v => v / d) x = dotL row x / d := by
  unfold dotL
  induction row generalizing x with
  | nil => simp
  | cons a t ih =>
    cases x with
    | nil => simp
    | cons b u =>
      simp only [List.map_cons, List.zipWith_cons_cons, List.sum_cons]
      rw [ih u]; ring

theorem dotL_foldRow {A : Type} (cf cl : A) (cmid : List A) (w x : A → K) (hx : x cf = x cl) :
    dotL (foldRow ((cf :: (cmid ++ [cl])).map w)) ((cmid.map x) ++ [x cl])
      = ((cf :: (cmid ++ [cl])).map fun c => w c * x c).sum := by
  have hs : (cf :: (cmid ++ [cl])).map w = w cf :: ((cmid.map w) ++ [w cl]) := by simp
  rw [hs, foldRow_concat, dotL_append _ _ _ _ (by simp), dotL_map_map]
  simp only [List.map_cons, List.map_append, List.map_nil, List.sum_cons, List.sum_append, List.sum_nil]
  rw [hx]; ring

/-- **Conservation through the fold.**  Values `x` on the merged gap cells (one value for the top-corner cell, i.e.
`x cf = x cl`) are mapped to the merged region cells by the executable `mapI`; the integral over the merged region cells
(weights `mergedLengthsI R`) equals the integral over the merged gap cells (weights `mergedLengthsI C`) - provided every gap
interval is tiled by the region intervals (`c10_col_sum` gives this for meshes walking the same perimeter).  The two halves of
the top corner may differ on either mesh. -/
theorem c10_fold_conservative (rf rl : K × K) (rmid : List (K × K)) (cf cl : K × K) (cmid : List (K × K))
    (x : K × K → K) (hx : x cf = x cl)
    (hcol : ∀ c ∈ cf :: (cmid ++ [cl]),
      ((rf :: (rmid ++ [rl])).map fun r => ovl r.1 r.2 c.1 c.2).sum = c.2 - c.1)
    (hpos : ∀ r ∈ rf :: (rmid ++ [rl]), r.1 < r.2) :
    dotL (mergedLengthsI (rf :: (rmid ++ [rl])))
        ((mapI (rf :: (rmid ++ [rl])) (cf :: (cmid ++ [cl]))).map fun row => dotL row ((cmid.map x) ++ [x cl]))
      = dotL (mergedLengthsI (cf :: (cmid ++ [cl]))) ((cmid.map x) ++ [x cl]) := by
  have hl : rl ∈ rf :: (rmid ++ [rl]) := by simp
  have hf : rf ∈ rf :: (rmid ++ [rl]) := by simp
  have hpl : (rl.2 - rl.1) + (rf.2 - rf.1) ≠ 0 := by
    have h1 := hpos rl hl; have h2 := hpos rf hf
    exact (by linarith : (0 : K) < (rl.2 - rl.1) + (rf.2 - rf.1)).ne'
  have hadd : addRows ((cf :: (cmid ++ [cl])).map fun c => ovl rl.1 rl.2 c.1 c.2) ((cf :: (cmid ++ [cl])).map fun c => ovl rf.1 rf.2 c.1 c.2)
      = (cf :: (cmid ++ [cl])).map fun c => ovl rl.1 rl.2 c.1 c.2 + ovl rf.1 rf.2 c.1 c.2 := by
    unfold addRows; rw [zipWith_map_map]
  rw [mapI_concat, mergedLengthsI_concat, List.map_append, List.map_singleton, List.map_map,
    dotL_append _ _ _ _ (by simp), dotL_map_map]
  -- middle rows
  have hmid : (rmid.map fun r => (r.2 - r.1) * ((fun row => dotL row ((cmid.map x) ++ [x cl])) ∘
        fun r => (foldRow ((cf :: (cmid ++ [cl])).map fun c => ovl r.1 r.2 c.1 c.2)).map fun v => v / (r.2 - r.1)) r)
      = rmid.map fun r => ((cf :: (cmid ++ [cl])).map fun c => ovl r.1 r.2 c.1 c.2 * x c).sum := by
    apply List.map_congr_left
    intro r hr
    have hp : r.2 - r.1 ≠ 0 := (sub_pos.mpr (hpos r (by simp [hr]))).ne'
    simp only [Function.comp]
    rw [dotL_div, dotL_foldRow cf cl cmid (fun c => ovl r.1 r.2 c.1 c.2) x hx]
    field_simp
  rw [hmid, dotL_div, hadd, dotL_foldRow cf cl cmid (fun c => ovl rl.1 rl.2 c.1 c.2 + ovl rf.1 rf.2 c.1 c.2) x hx]
  rw [mul_div_cancel₀ _ hpl]
  have hsplit : ((cf :: (cmid ++ [cl])).map fun c => (ovl rl.1 rl.2 c.1 c.2 + ovl rf.1 rf.2 c.1 c.2) * x c).sum
      = ((cf :: (cmid ++ [cl])).map fun c => ovl rl.1 rl.2 c.1 c.2 * x c).sum
        + ((cf :: (cmid ++ [cl])).map fun c => ovl rf.1 rf.2 c.1 c.2 * x c).sum := by
    rw [← sum_map_add]
    congr 1
    apply List.map_congr_left
    intro c _
    ring
  have hall : (rmid.map fun r => ((cf :: (cmid ++ [cl])).map fun c => ovl r.1 r.2 c.1 c.2 * x c).sum).sum
        + (((cf :: (cmid ++ [cl])).map fun c => ovl rl.1 rl.2 c.1 c.2 * x c).sum
          + ((cf :: (cmid ++ [cl])).map fun c => ovl rf.1 rf.2 c.1 c.2 * x c).sum)
      = ((rf :: (rmid ++ [rl])).map fun r => ((cf :: (cmid ++ [cl])).map fun c => ovl r.1 r.2 c.1 c.2 * x c).sum).sum := by
    simp only [List.map_cons, List.map_append, List.map_nil, List.sum_cons, List.sum_append, List.sum_nil]
    ring
  rw [hsplit, hall, sum_swap]
  have hcols : ((cf :: (cmid ++ [cl])).map fun c => ((rf :: (rmid ++ [rl])).map fun r => ovl r.1 r.2 c.1 c.2 * x c).sum)
      = (cf :: (cmid ++ [cl])).map fun c => (c.2 - c.1) * x c := by
    apply List.map_congr_left
    intro c hc
    rw [sum_map_mul_right_k, hcol c hc]
  rw [hcols, mergedLengthsI_concat, dotL_append _ _ _ _ (by simp), dotL_map_map]
  simp only [List.map_cons, List.map_append, List.map_nil, List.sum_cons, List.sum_append, List.sum_nil]
  rw [hx]; ring

/-- non-vacuity on ℚ: the example meshes of above (unequal corner halves), values 5 and 11 on the two merged gap cells -/
example : dotL (mergedLengthsI (intervals [(0 : ℚ), 1, 3, 7 / 2]))
      ((f2c [(0 : ℚ), 1, 3, 7 / 2] [0, 1 / 2, 3 / 2, 7 / 2]).map fun row => dotL row [5, 11])
    = dotL (mergedLengthsI (intervals [(0 : ℚ), 1 / 2, 3 / 2, 7 / 2])) [5, 11] := by
  norm_num [dotL, f2c, mapI, rawI, intervals, foldCorner, foldRow, mergedLengthsI, addRows, ovl, List.getLast?, List.dropLast]

/-- Non-vacuity / sanity on ℚ. -/
example : ((intervals [(0 : ℚ), 1, 3, 4]).map fun c => ovl (1 / 2) (7 / 2) c.1 c.2 / (7 / 2 - 1 / 2)).sum = 1 := by
  simp only [intervals, ovl, List.map, List.sum_cons, List.sum_nil]
  norm_num

end Dassh.Props.C10
