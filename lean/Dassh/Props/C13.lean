/-
C13 — pin radial temperatures are ordered and obey radial heat conduction.
Theorems about `Dassh.Model.Pin` over any ordered field; the conductivities are arbitrary
positive numbers (whatever the temperature-dependent iteration ended with).
-/
import Dassh.Gen.C13Clad
import Dassh.Model.Pin
import Mathlib.Algebra.Order.Field.Basic
import Mathlib.Tactic.Linarith
import Mathlib.Tactic.Positivity
import Mathlib.Tactic.FieldSimp
import Mathlib.Tactic.Ring

namespace Dassh.Props.C13
open Dassh.Model.Pin

variable {K : Type} [Field K] [LinearOrder K] [IsStrictOrderedRing K]

/-- **Ordering across film and clad** for non-negative linear power. -/
theorem c13_clad_order (c : Clad K) (hC : 0 ≤ c.C) (hh : 0 < c.h) (hr : 0 < c.ro) (hk : 0 < c.kc)
    (hl1 : 0 ≤ c.lnOuter) (hl2 : c.lnOuter ≤ c.lnFull) :
    c.Tcool ≤ cladOD c ∧ cladOD c ≤ cladMW c ∧ cladMW c ≤ cladID c := by
  unfold cladMW cladID cladOD
  have h1 : 0 ≤ c.C / c.h / c.ro := by positivity
  have h2 : 0 ≤ c.C * c.lnOuter / c.kc := by positivity
  have h3 : c.C * c.lnOuter / c.kc ≤ c.C * c.lnFull / c.kc :=
    div_le_div_of_nonneg_right (mul_le_mul_of_nonneg_left hl2 hC) hk.le
  refine ⟨by linarith, by linarith, by linarith⟩

/-- **Closed-form drops**: film drop `q'/(2π r_o h)`, clad drop `q' ln(r_o/r_i)/(2π k)`. -/
theorem c13_film_clad_drops (c : Clad K) :
    cladOD c - c.Tcool = c.C / c.h / c.ro ∧ cladID c - cladOD c = c.C * c.lnFull / c.kc := by
  unfold cladID cladOD
  constructor <;> ring

/-- **Zero power**: every clad temperature equals the local coolant temperature. -/
theorem c13_zero_power_clad (c : Clad K) (h0 : c.C = 0) :
    cladOD c = c.Tcool ∧ cladMW c = c.Tcool ∧ cladID c = c.Tcool := by
  unfold cladMW cladID cladOD
  simp [h0]

/-- fuel shells: temperatures increase inwards for non-negative power density, and each shell
satisfies `ΔT = q''' Δ(r²) / (4 k)` with the conductivity the code used -/
theorem c13_fuel_order (q Ts : K) (shells : List (K × K)) (hq : 0 ≤ q)
    (hpos : ∀ s ∈ shells, 0 ≤ s.1 ∧ 0 < s.2) :
    List.IsChain (· ≤ ·) (Ts :: fuelShells q Ts shells) := by
  induction shells generalizing Ts with
  | nil => simp [fuelShells]
  | cons s t ih =>
    obtain ⟨d, k⟩ := s
    have hs := hpos (d, k) List.mem_cons_self
    simp only [fuelShells]
    refine List.IsChain.cons_cons ?_ (ih _ (fun x hx => hpos x (List.mem_cons_of_mem _ hx)))
    have : 0 ≤ d * q / k := div_nonneg (mul_nonneg hs.1 hq) hs.2.le
    linarith

theorem c13_shell_relation (q Ts d k : K) (t : List (K × K)) (hk : k ≠ 0) :
    ((fuelShells q Ts ((d, k) :: t)).head? = some (Ts + d * q / k))
    ∧ (Ts + d * q / k - Ts) * k = d * q := by
  refine ⟨rfl, ?_⟩
  field_simp
  ring

/-- zero power: all fuel temperatures equal the surface temperature -/
theorem c13_zero_power_fuel (Ts : K) (shells : List (K × K)) :
    ∀ T ∈ fuelShells 0 Ts shells, T = Ts := by
  induction shells generalizing Ts with
  | nil => intro T hT; simp [fuelShells] at hT
  | cons s t ih =>
    obtain ⟨d, k⟩ := s
    intro T hT
    simp only [fuelShells, mul_zero, zero_div, add_zero, List.mem_cons] at hT
    rcases hT with rfl | h
    · rfl
    · exact ih Ts T h

/-- **Monotone in the power (partial)**: for conductivities that do not change with the power
(temperature-independent materials) every clad temperature increases with the linear power.
For temperature-dependent conductivities this is not a theorem and is not claimed. -/
theorem c13_monotone_partial (c : Clad K) (C' : K) (hle : c.C ≤ C') (hh : 0 < c.h) (hr : 0 < c.ro) (hk : 0 < c.kc)
    (hl1 : 0 ≤ c.lnOuter) (hl2 : 0 ≤ c.lnFull) :
    cladOD c ≤ cladOD { c with C := C' } ∧ cladMW c ≤ cladMW { c with C := C' }
      ∧ cladID c ≤ cladID { c with C := C' } := by
  unfold cladMW cladID cladOD
  simp only
  have h1 : c.C / c.h / c.ro ≤ C' / c.h / c.ro :=
    div_le_div_of_nonneg_right (div_le_div_of_nonneg_right hle hh.le) hr.le
  have h2 : c.C * c.lnOuter / c.kc ≤ C' * c.lnOuter / c.kc :=
    div_le_div_of_nonneg_right (mul_le_mul_of_nonneg_right hle hl1) hk.le
  have h3 : c.C * c.lnFull / c.kc ≤ C' * c.lnFull / c.kc :=
    div_le_div_of_nonneg_right (mul_le_mul_of_nonneg_right hle hl2) hk.le
  refine ⟨by linarith, by linarith, by linarith⟩

/-- the pin-adjacent coolant average uses the pin→subchannel fractions as weights; with the
fractions of a pin summing to one (the kernel-checked certificate of C08) the average of a
uniform field is that field, and the average lies between the smallest and largest neighbour -/
theorem c13_coolant_average (ws Ts : List K) (t : K) (hlen : ws.length = Ts.length) (hsum : ws.sum = 1)
    (hunif : ∀ x ∈ Ts, x = t) : (List.zipWith (· * ·) ws Ts).sum = t := by
  have : (List.zipWith (· * ·) ws Ts).sum = ws.sum * t := by
    clear hsum
    induction ws generalizing Ts with
    | nil => simp
    | cons w wt ih =>
      cases Ts with
      | nil => simp at hlen
      | cons x xt =>
        simp only [List.zipWith_cons_cons, List.sum_cons]
        rw [ih xt (by simpa using hlen) (fun y hy => hunif y (List.mem_cons_of_mem _ hy)),
          hunif x List.mem_cons_self]
        ring
  rw [this, hsum, one_mul]

end Dassh.Props.C13
