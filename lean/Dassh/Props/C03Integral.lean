/-
C03, "the integral of its input power profile": the closed form `power._integrate` evaluates (Model/PowerIntegral.lean, tied
to the real function by the correspondence check of C03) IS the integral of the item polynomials over the axial cell:
for every coefficient list, `∫_{-1/2}^{1/2} Σ_j c_j t^j dt = Σ_j c_j w_j` with the weights of the model; odd powers do not
contribute, even powers contribute `c_j / (2^j (j+1))`.
-/
import Dassh.Model.PowerIntegral
import Mathlib.Analysis.SpecialFunctions.Integrals.Basic
import Mathlib.Tactic.Linarith
import Mathlib.Tactic.FieldSimp
import Mathlib.Tactic.Ring

namespace Dassh.Props.C03Integral
open Dassh.Model.PowerIntegral

theorem powN_eq (x : ℝ) (n : Nat) : powN x n = x ^ n := by
  induction n with
  | zero => simp [powN]
  | succ k ih => simp [powN, ih, pow_succ]

/-- the weight of `t^j` is the integral of `t^j` over the cell -/
theorem weight_eq_integral (j : Nat) : (weight j : ℝ) = ∫ t in (-(1 / 2 : ℝ))..(1 / 2), t ^ j := by
  rw [integral_pow]
  unfold weight
  rw [powN_eq, powN_eq]
  push_cast
  ring

/-- odd powers integrate to zero over the symmetric cell -/
theorem weight_odd (j : Nat) (h : j % 2 = 1) : (weight j : ℝ) = 0 := by
  unfold weight
  rw [powN_eq, powN_eq]
  have he : Even (j + 1) := by
    rw [Nat.even_iff]; omega
  rw [he.neg_pow]
  simp

/-- even powers: `1 / (2^j (j+1))` -/
theorem weight_even (j : Nat) (h : j % 2 = 0) : (weight j : ℝ) = 1 / (2 ^ j * ((j : ℝ) + 1)) := by
  unfold weight
  rw [powN_eq, powN_eq]
  have ho : Odd (j + 1) := by
    rw [Nat.odd_iff]; omega
  rw [ho.neg_pow]
  have hj : ((j + 1 : Nat) : ℝ) = (j : ℝ) + 1 := by push_cast; ring
  rw [hj]
  have hpos : (j : ℝ) + 1 ≠ 0 := by positivity
  have h2 : ((1 : ℝ) / 2) ^ j * 2 ^ j = 1 := by rw [← mul_pow]; norm_num
  have hexp : ((1 : ℝ) / 2) ^ (j + 1) = (1 / 2) ^ j / 2 := by rw [pow_succ]; ring
  rw [hexp]
  field_simp
  linarith [h2]

theorem foldl_add_eq_sum (l : List ℝ) (a : ℝ) : l.foldl (· + ·) a = a + l.sum := by
  induction l generalizing a with
  | nil => simp
  | cons x t ih => simp only [List.foldl_cons, List.sum_cons, ih]; ring

/-- polynomial with coefficients `c_j` for the powers `t^(j+k)` (the index offset of `zipIdx`) -/
noncomputable def polyFrom (k : Nat) : List ℝ → ℝ → ℝ
  | [], _ => 0
  | c :: t, x => c * x ^ k + polyFrom (k + 1) t x

theorem polyFrom_continuous (k : Nat) (cs : List ℝ) : Continuous (polyFrom k cs) := by
  induction cs generalizing k with
  | nil => exact continuous_const
  | cons c t ih =>
    have : polyFrom k (c :: t) = fun x => c * x ^ k + polyFrom (k + 1) t x := rfl
    rw [this]
    exact (continuous_const.mul (continuous_pow k)).add (ih (k + 1))

theorem sum_zipIdx_from (k : Nat) (cs : List ℝ) :
    ((cs.zipIdx k).map fun cj => cj.1 * (weight cj.2 : ℝ)).sum = ∫ t in (-(1 / 2 : ℝ))..(1 / 2), polyFrom k cs t := by
  induction cs generalizing k with
  | nil => simp [polyFrom]
  | cons c t ih =>
    rw [List.zipIdx_cons, List.map_cons, List.sum_cons, ih (k + 1)]
    have hsplit : (∫ x in (-(1 / 2 : ℝ))..(1 / 2), polyFrom k (c :: t) x)
        = (∫ x in (-(1 / 2 : ℝ))..(1 / 2), c * x ^ k) + ∫ x in (-(1 / 2 : ℝ))..(1 / 2), polyFrom (k + 1) t x := by
      have : polyFrom k (c :: t) = fun x => c * x ^ k + polyFrom (k + 1) t x := rfl
      rw [this]
      exact intervalIntegral.integral_add ((continuous_const.mul (continuous_pow k)).intervalIntegrable _ _)
        ((polyFrom_continuous (k + 1) t).intervalIntegrable _ _)
    rw [hsplit, intervalIntegral.integral_const_mul, weight_eq_integral]

/-- **The closed form is the integral**: what `_integrate` adds up for one item is the integral of the item's polynomial over
the axial cell (cell-relative height from -1/2 to 1/2) -/
theorem c03_item_integral (cs : List ℝ) :
    itemIntegral cs = ∫ t in (-(1 / 2 : ℝ))..(1 / 2), polyFrom 0 cs t := by
  unfold itemIntegral
  rw [foldl_add_eq_sum, zero_add]
  exact sum_zipIdx_from 0 cs

/-- the cell average is the sum of the item integrals -/
theorem c03_cell_average (items : List (List ℝ)) :
    cellAverage items = (items.map fun cs => ∫ t in (-(1 / 2 : ℝ))..(1 / 2), polyFrom 0 cs t).sum := by
  unfold cellAverage
  rw [foldl_add_eq_sum, zero_add]
  congr 1
  exact List.map_congr_left (fun cs _ => c03_item_integral cs)

end Dassh.Props.C03Integral
