/-
C15 — reported peak temperatures are the maxima over the whole sweep.

Theorems about `Dassh.Model.Peaks.run` (the running-maximum fold the assembly
applies after every step), for any linearly ordered value type and any history.
-/
import Dassh.Model.Peaks
import Mathlib.Order.Basic
import Mathlib.Order.Lattice
import Mathlib.Data.List.Basic

namespace Dassh.Props.C15
open Dassh.Model.Peaks

variable {α β : Type} [LinearOrder α]

theorem upd_ge_left (s x : α × β) : s.1 ≤ (upd s x).1 := by
  unfold upd; split_ifs with h
  · exact le_of_lt h
  · exact le_rfl

theorem upd_ge_right (s x : α × β) : x.1 ≤ (upd s x).1 := by
  unfold upd; split_ifs with h
  · exact le_rfl
  · exact not_lt.mp h

/-- the stored value never decreases during the sweep -/
theorem run_ge_init (init : α × β) (xs : List (α × β)) : init.1 ≤ (run init xs).1 := by
  induction xs generalizing init with
  | nil => exact le_rfl
  | cons x t ih =>
    show init.1 ≤ (run (upd init x) t).1
    exact le_trans (upd_ge_left init x) (ih _)

/-- **Upper bound**: after any history the stored value dominates every plane maximum. -/
theorem c15_peak_ge_all (init : α × β) (xs : List (α × β)) : ∀ x ∈ xs, x.1 ≤ (run init xs).1 := by
  induction xs generalizing init with
  | nil => intro x hx; cases hx
  | cons y t ih =>
    intro x hx
    show x.1 ≤ (run (upd init y) t).1
    rcases List.mem_cons.mp hx with rfl | hxt
    · exact le_trans (upd_ge_right init x) (run_ge_init _ t)
    · exact ih _ x hxt

/-- **Attained**: the stored pair is the initial pair or one of the recorded planes
(so the stored height / profile is the height / profile of a plane where the stored
value occurred). -/
theorem c15_peak_attained (init : α × β) (xs : List (α × β)) : run init xs = init ∨ run init xs ∈ xs := by
  induction xs generalizing init with
  | nil => left; rfl
  | cons y t ih =>
    show run (upd init y) t = init ∨ run (upd init y) t ∈ y :: t
    rcases ih (upd init y) with h | h
    · rw [h]; unfold upd; split_ifs
      · right; exact List.mem_cons_self
      · left; rfl
    · right; exact List.mem_cons_of_mem _ h

/-- **Exactly the maximum**: if some plane exceeds the initial value, the stored value is the
maximum over the history: it is attained and dominates everything. -/
theorem c15_peak_is_max (init : α × β) (xs : List (α × β)) (hex : ∃ x ∈ xs, init.1 < x.1) :
    run init xs ∈ xs ∧ ∀ x ∈ xs, x.1 ≤ (run init xs).1 := by
  refine ⟨?_, c15_peak_ge_all init xs⟩
  rcases c15_peak_attained init xs with h | h
  · obtain ⟨x, hx, hlt⟩ := hex
    have := c15_peak_ge_all init xs x hx
    rw [h] at this
    exact absurd (lt_of_lt_of_le hlt this) (lt_irrefl _)
  · exact h

/-- **First occurrence**: the stored pair comes from the first plane that attains the maximum
(later planes with an equal value do not replace it).  Stated by splitting the history at any
point: planes after the split that are not strictly larger leave the stored pair unchanged. -/
theorem c15_first_occurrence (init : α × β) (xs ys : List (α × β))
    (h : ∀ y ∈ ys, y.1 ≤ (run init xs).1) : run init (xs ++ ys) = run init xs := by
  unfold run at h ⊢
  rw [List.foldl_append]
  generalize List.foldl upd init xs = s at h ⊢
  induction ys with
  | nil => rfl
  | cons y t ih =>
    have hy : y.1 ≤ s.1 := h y List.mem_cons_self
    have : upd s y = s := by unfold upd; rw [if_neg (not_lt.mpr hy)]
    show List.foldl upd (upd s y) t = s
    rw [this]
    exact ih (fun z hz => h z (List.mem_cons_of_mem _ hz))

/-- a plane maximum dominates every cell of the plane -/
theorem listMax_ge (x : α) (xs : List α) : x ≤ listMax x xs ∧ ∀ v ∈ xs, v ≤ listMax x xs := by
  unfold listMax
  induction xs generalizing x with
  | nil => exact ⟨le_rfl, fun v hv => by cases hv⟩
  | cons y t ih =>
    obtain ⟨h1, h2⟩ := ih (max x y)
    refine ⟨le_trans (le_max_left x y) h1, ?_⟩
    intro v hv
    rcases List.mem_cons.mp hv with rfl | hvt
    · exact le_trans (le_max_right x v) h1
    · exact h2 v hvt

/-- **Whole field**: every cell of every plane is at most the reported peak. -/
theorem c15_peak_ge_every_cell (init : α × β) (planes : List ((α × List α) × β)) :
    ∀ p ∈ planes, (p.1.1 ≤ (run init (planes.map fun q => (listMax q.1.1 q.1.2, q.2))).1)
      ∧ ∀ v ∈ p.1.2, v ≤ (run init (planes.map fun q => (listMax q.1.1 q.1.2, q.2))).1 := by
  intro p hp
  have hmem : (listMax p.1.1 p.1.2, p.2) ∈ planes.map fun q => (listMax q.1.1 q.1.2, q.2) :=
    List.mem_map.mpr ⟨p, hp, rfl⟩
  have hge := c15_peak_ge_all init _ _ hmem
  obtain ⟨h1, h2⟩ := listMax_ge p.1.1 p.1.2
  exact ⟨le_trans h1 hge, fun v hv => le_trans (h2 v hv) hge⟩

/-- Non-vacuity: a history with two equal maxima keeps the first height. -/
example : run ((0 : Nat), (0 : Nat)) [(5, 1), (9, 2), (9, 3), (4, 4)] = (9, 2) := by decide

/-! ### rows of the peak pin tables

A label `j` appears iff assembly `j - 1` exists and tracks pin peaks: the row labelled with an assembly is that assembly's, and an
assembly without pin temperatures has none.  The running-number labelling of a seeded change provably does not have this property
as soon as an assembly without pins comes first. -/

theorem c15_pin_rows_labels (hasPin : List Bool) (j : Nat) :
    j ∈ pinRowLabels hasPin ↔ ∃ i, i < hasPin.length ∧ hasPin.getD i false = true ∧ j = i + 1 := by
  unfold pinRowLabels
  simp only [List.mem_filterMap, List.mem_range]
  constructor
  · rintro ⟨i, hi, h⟩
    by_cases hp : hasPin.getD i false = true
    · rw [if_pos hp] at h
      exact ⟨i, hi, hp, by simpa using h.symm⟩
    · rw [if_neg hp] at h; simp at h
  · rintro ⟨i, hi, hp, rfl⟩
    exact ⟨i, hi, by rw [if_pos hp]⟩

/-- counter-model: the first assembly has no pins, the second has - its row must be labelled 2, the running number gives 1 -/
theorem c15_pin_rows_running_counter :
    pinRowLabels [false, true] = [2] ∧ pinRowLabelsRunning [false, true] = [1] := by decide

end Dassh.Props.C15
