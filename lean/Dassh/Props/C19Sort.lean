/-
C19, the clause "for any number of assemblies per type the reported hot-spot is THAT assembly's": the sorting step of
`hotspot.analyze` must keep every assembly id next to its own row.
-/
import Dassh.Model.HotspotSort
import Mathlib.Data.List.Sort
import Mathlib.Data.List.Perm.Basic

namespace Dassh.Props.C19Sort
open Dassh.Model.HotspotSort

/-- every (id, row) pair of the concatenated results is in the output, and nothing else: the output is a permutation of the
zipped input -/
theorem c19_sort_keeps_pairs (ids : List Nat) : (sortById ids).Perm (ids.zip (List.range ids.length)) := by
  unfold sortById
  exact List.mergeSort_perm _ _

/-- the output is ordered by assembly id -/
theorem c19_sort_sorted (ids : List Nat) : (sortById ids).Pairwise (fun a b => a.1 ≤ b.1) := by
  unfold sortById
  have h := List.pairwise_mergeSort (le := fun (a b : Nat × Nat) => decide (a.1 ≤ b.1))
    (fun a b c hab hbc => by simp only [decide_eq_true_eq] at *; omega)
    (fun a b => by simp only [Bool.or_eq_true, decide_eq_true_eq]; omega)
    (ids.zip (List.range ids.length))
  exact h.imp (by intro a b hab; simpa using hab)

/-- in particular: the row reported for an id is the row that was computed for it (k-th id ↦ k-th row) -/
theorem c19_own_row (ids : List Nat) (p : Nat × Nat) (hp : p ∈ sortById ids) :
    p ∈ ids.zip (List.range ids.length) :=
  (c19_sort_keeps_pairs ids).subset hp

/-- ids interleaved between two types: outer type first (ids 1,2,4), inner type second (ids 0,3): assembly 3 keeps row 4
(its own), it does not get row 3 (which belongs to assembly 0) -/
example : (3, 4) ∈ sortById [1, 2, 4, 0, 3] ∧ (3, 3) ∉ sortById [1, 2, 4, 0, 3] := by
  constructor
  · exact (c19_sort_keeps_pairs _).mem_iff.mpr (by decide)
  · intro h
    exact absurd ((c19_sort_keeps_pairs _).mem_iff.mp h) (by decide)

end Dassh.Props.C19Sort
