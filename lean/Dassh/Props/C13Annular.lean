/-
C13, annular pellets: the shell relation the pin model uses since fix #54,
  k (T(r_i) - T(r_o)) = q [ (r_o² - r_i²) / 4 - r_0² ln(r_o / r_i) / 2 ],
is the steady radial conduction solution for heat generated uniformly outside a central hole of radius r_0:
the profile T(r) = T_s + q/(4k) (R² - r²) - q r_0²/(2k) ln(R / r) satisfies  -k T'(r) · 2π r = q π (r² - r_0²)
(the heat crossing radius r is what is generated between the hole and r), its shell differences are the relation above,
the shell constant is non-negative (so the ordering theorem `c13_fuel_order` applies) and reduces to the solid-cylinder
form when there is no hole.
-/
import Mathlib.Analysis.SpecialFunctions.Log.Deriv
import Mathlib.Analysis.SpecialFunctions.Log.Basic
import Mathlib.Tactic.Linarith
import Mathlib.Tactic.FieldSimp
import Mathlib.Tactic.Ring

namespace Dassh.Props.C13Annular

/-- shell constant of the pin model (`fuel['drsq_over_4']`) for a shell `[ri, ro]` of a pellet with central hole `r0` -/
noncomputable def shellConst (r0 ri ro : ℝ) : ℝ := (ro ^ 2 - ri ^ 2) / 4 - r0 ^ 2 * Real.log (ro / ri) / 2

/-- temperature profile of a pellet of outer radius `R`, surface temperature `Ts`, power density `q`, conductivity `k`
(`ln(R / r)` written as `ln R - ln r`) -/
noncomputable def profile (q k r0 R Ts r : ℝ) : ℝ :=
  Ts + q / (4 * k) * (R ^ 2 - r ^ 2) - q * r0 ^ 2 / (2 * k) * (Real.log R - Real.log r)

/-- **The profile solves steady radial conduction**: the heat conducted through the cylinder of radius `r` (per unit length and per
`π`: `-k T' · 2 r`) equals the heat generated between the hole and `r` (`q (r² - r0²)`) -/
theorem c13_annular_profile (q k r0 R Ts r : ℝ) (hk : k ≠ 0) (hr : 0 < r) :
    ∃ T' : ℝ, HasDerivAt (profile q k r0 R Ts) T' r ∧ -k * T' * (2 * r) = q * (r ^ 2 - r0 ^ 2) := by
  have hlog : HasDerivAt (fun x : ℝ => Real.log R - Real.log x) (-(r⁻¹)) r := by
    have := (Real.hasDerivAt_log (ne_of_gt hr)).const_sub (Real.log R)
    simpa using this
  have hsq : HasDerivAt (fun x : ℝ => R ^ 2 - x ^ 2) (-(2 * r)) r := by
    have := ((hasDerivAt_id r).pow 2).const_sub (R ^ 2)
    simpa using this
  have hT : HasDerivAt (profile q k r0 R Ts) (q / (4 * k) * (-(2 * r)) - q * r0 ^ 2 / (2 * k) * (-(r⁻¹))) r := by
    unfold profile
    exact ((hsq.const_mul (q / (4 * k))).const_add Ts).sub (hlog.const_mul (q * r0 ^ 2 / (2 * k)))
  refine ⟨_, hT, ?_⟩
  have hr' : r ≠ 0 := ne_of_gt hr
  field_simp
  ring

/-- the difference of the profile over a shell is the relation the pin model evaluates -/
theorem c13_annular_shell (q k r0 R Ts ri ro : ℝ) (hk : k ≠ 0) (hri : 0 < ri) (hro : 0 < ro) :
    k * (profile q k r0 R Ts ri - profile q k r0 R Ts ro) = q * shellConst r0 ri ro := by
  unfold profile shellConst
  rw [Real.log_div (ne_of_gt hro) (ne_of_gt hri)]
  field_simp
  ring

/-- the shell constant is non-negative for shells outside the hole: temperatures rise towards the centre -/
theorem c13_annular_const_nonneg (r0 ri ro : ℝ) (h0 : 0 ≤ r0) (h0i : r0 ≤ ri) (hri : 0 < ri) (hio : ri ≤ ro) :
    0 ≤ shellConst r0 ri ro := by
  unfold shellConst
  have hx : 0 < ro / ri := div_pos (lt_of_lt_of_le hri hio) hri
  -- ln x ≤ (x² - 1) / 2 from ln(x²) ≤ x² - 1
  have hl : 2 * Real.log (ro / ri) ≤ (ro / ri) ^ 2 - 1 := by
    have := Real.log_le_sub_one_of_pos (pow_pos hx 2)
    rwa [Real.log_pow] at this
  have hlog0 : 0 ≤ Real.log (ro / ri) := Real.log_nonneg (by rw [le_div_iff₀ hri]; linarith)
  have hsq : r0 ^ 2 ≤ ri ^ 2 := pow_le_pow_left₀ h0 h0i 2
  have h2 : r0 ^ 2 * Real.log (ro / ri) ≤ ri ^ 2 * Real.log (ro / ri) := mul_le_mul_of_nonneg_right hsq hlog0
  have h3 : ri ^ 2 * ((ro / ri) ^ 2 - 1) = ro ^ 2 - ri ^ 2 := by field_simp
  nlinarith [sq_nonneg ri]

/-- without a hole the relation is the solid-cylinder one -/
theorem c13_annular_solid (ri ro : ℝ) : shellConst 0 ri ro = (ro ^ 2 - ri ^ 2) / 4 := by
  unfold shellConst; ring

end Dassh.Props.C13Annular
