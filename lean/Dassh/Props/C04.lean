import Dassh.Gen.C04
import Dassh.Gen.C04Gap
import Dassh.Gen.C04GapAvg
import Dassh.Gen.C04Ur
import Mathlib.Algebra.Order.Field.Basic
import Mathlib.Tactic.FieldSimp
import Mathlib.Tactic.Ring
import Mathlib.Tactic.Linarith
import Mathlib.Tactic.Positivity
import Mathlib.Tactic.NormNum
import Mathlib.Algebra.Order.Field.Rat

namespace Dassh.Props.C04
open Dassh.Gen.C04

variable {K : Type} [Field K] [LinearOrder K] [IsStrictOrderedRing K]

/-- Physical admissibility of the symbols of a bundle. -/
structure Pos (e : Env K) : Prop where
  L00 : 0 < e.L00
  L01 : 0 < e.L01
  P : 0 < e.P
  L12 : 0 < e.L12
  L22 : 0 < e.L22
  dpp : 0 < e.dpp
  dpw : 0 < e.dpw
  wc_0_0 : 0 < e.wc_0_0
  wc_0_1 : 0 < e.wc_0_1
  wc_1_0 : 0 < e.wc_1_0
  wc_1_1 : 0 < e.wc_1_1
  dwall_0 : 0 < e.dwall_0
  dwall_1 : 0 < e.dwall_1
  dbyp_0 : 0 < e.dbyp_0
  Lb56_0 : 0 < e.Lb56_0
  Lb66_0 : 0 < e.Lb66_0
  A_0 : 0 < e.A_0
  A_1 : 0 < e.A_1
  A_2 : 0 < e.A_2
  Ab : 0 < e.Ab
  Abyp_0_0 : 0 < e.Abyp_0_0
  Abyp_0_1 : 0 < e.Abyp_0_1
  Abtot_0 : 0 < e.Abtot_0
  mdot : 0 < e.mdot
  mbyp_0 : 0 < e.mbyp_0
  fs_0 : 0 < e.fs_0
  fs_1 : 0 < e.fs_1
  fs_2 : 0 < e.fs_2
  h_1 : 0 < e.h_1
  h_2 : 0 < e.h_2
  hb_0_0 : 0 < e.hb_0_0
  hb_0_1 : 0 < e.hb_0_1
  eddy : 0 ≤ e.eddy
  sw_1 : 0 ≤ e.sw_1
  sw_2 : 0 ≤ e.sw_2
  rho : 0 < e.rho
  cp : 0 < e.cp
  k : 0 < e.k
  sf : 0 < e.sf
  kw : 0 < e.kw
  sixth : 0 < e.sixth
  dz : 0 < e.dz


/-- One explicit step of one cell, written as what C04 requires: an affine
combination of the coupled previous-level temperatures with the listed weights,
which are non-negative and sum to one, plus a heating term that is non-negative
for non-negative sources and does not depend on any temperature. -/
def ConvexStep (Tnew B : Cell K → K) (ws wn0 wn1 wn2 wn3 wn4 ww ww2 : K) : Prop :=
  (∀ c : Cell K, Tnew c = ws * c.Ts + wn0 * c.Tn0 + wn1 * c.Tn1 + wn2 * c.Tn2 + wn3 * c.Tn3
      + wn4 * c.Tn4 + ww * c.Tw + ww2 * c.Tw2 + B c)
  ∧ ws + wn0 + wn1 + wn2 + wn3 + wn4 + ww + ww2 = 1
  ∧ 0 ≤ ws ∧ 0 ≤ wn0 ∧ 0 ≤ wn1 ∧ 0 ≤ wn2 ∧ 0 ≤ wn3 ∧ 0 ≤ wn4 ∧ 0 ≤ ww ∧ 0 ≤ ww2
  ∧ (∀ c : Cell K, 0 ≤ c.qa → 0 ≤ c.qb → 0 ≤ c.qc → 0 ≤ c.qcool → 0 ≤ B c)
  ∧ (∀ c c' : Cell K, c.qa = c'.qa → c.qb = c'.qb → c.qc = c'.qc → c.qcool = c'.qcool → B c = B c')

theorem selfweight (ws cons dz : K) (hc : 0 < cons) (hw : ws = 1 - dz / cons) (hdz : dz ≤ cons) :
    0 ≤ ws := by
  rw [hw]
  have : dz / cons ≤ 1 := (div_le_one hc).mpr hdz
  linarith

/-- Consequences used by the property statement: without heating a uniform
field is reproduced; with non-negative heating the new value is not below the
smallest coupled value; without heating it is not above the largest. -/
theorem ConvexStep.uniform {Tnew B : Cell K → K} {ws wn0 wn1 wn2 wn3 wn4 ww ww2 : K}
    (h : ConvexStep Tnew B ws wn0 wn1 wn2 wn3 wn4 ww ww2) (c : Cell K) (t : K)
    (h0 : c.Ts = t) (h1 : c.Tn0 = t) (h2 : c.Tn1 = t) (h3 : c.Tn2 = t) (h4 : c.Tn3 = t)
    (h5 : c.Tn4 = t) (h6 : c.Tw = t) (h7 : c.Tw2 = t) : Tnew c = t + B c := by
  obtain ⟨ha, hs, -⟩ := h
  rw [ha c, h0, h1, h2, h3, h4, h5, h6, h7]
  have : ws * t + wn0 * t + wn1 * t + wn2 * t + wn3 * t + wn4 * t + ww * t + ww2 * t
      = (ws + wn0 + wn1 + wn2 + wn3 + wn4 + ww + ww2) * t := by ring
  rw [this, hs, one_mul]

theorem ConvexStep.lower {Tnew B : Cell K → K} {ws wn0 wn1 wn2 wn3 wn4 ww ww2 : K}
    (h : ConvexStep Tnew B ws wn0 wn1 wn2 wn3 wn4 ww ww2) (c : Cell K) (m : K)
    (h0 : m ≤ c.Ts) (h1 : m ≤ c.Tn0) (h2 : m ≤ c.Tn1) (h3 : m ≤ c.Tn2) (h4 : m ≤ c.Tn3)
    (h5 : m ≤ c.Tn4) (h6 : m ≤ c.Tw) (h7 : m ≤ c.Tw2)
    (hq : 0 ≤ c.qa ∧ 0 ≤ c.qb ∧ 0 ≤ c.qc ∧ 0 ≤ c.qcool) : m ≤ Tnew c := by
  obtain ⟨ha, hs, p0, p1, p2, p3, p4, p5, p6, p7, hB, -⟩ := h
  have hb := hB c hq.1 hq.2.1 hq.2.2.1 hq.2.2.2
  rw [ha c]
  have e : m = ws * m + wn0 * m + wn1 * m + wn2 * m + wn3 * m + wn4 * m + ww * m + ww2 * m := by
    have : ws * m + wn0 * m + wn1 * m + wn2 * m + wn3 * m + wn4 * m + ww * m + ww2 * m
        = (ws + wn0 + wn1 + wn2 + wn3 + wn4 + ww + ww2) * m := by ring
    rw [this, hs, one_mul]
  have := mul_le_mul_of_nonneg_left h0 p0
  have := mul_le_mul_of_nonneg_left h1 p1
  have := mul_le_mul_of_nonneg_left h2 p2
  have := mul_le_mul_of_nonneg_left h3 p3
  have := mul_le_mul_of_nonneg_left h4 p4
  have := mul_le_mul_of_nonneg_left h5 p5
  have := mul_le_mul_of_nonneg_left h6 p6
  have := mul_le_mul_of_nonneg_left h7 p7
  linarith

theorem ConvexStep.upper {Tnew B : Cell K → K} {ws wn0 wn1 wn2 wn3 wn4 ww ww2 : K}
    (h : ConvexStep Tnew B ws wn0 wn1 wn2 wn3 wn4 ww ww2) (c : Cell K) (M : K)
    (h0 : c.Ts ≤ M) (h1 : c.Tn0 ≤ M) (h2 : c.Tn1 ≤ M) (h3 : c.Tn2 ≤ M) (h4 : c.Tn3 ≤ M)
    (h5 : c.Tn4 ≤ M) (h6 : c.Tw ≤ M) (h7 : c.Tw2 ≤ M) : Tnew c - B c ≤ M := by
  obtain ⟨ha, hs, p0, p1, p2, p3, p4, p5, p6, p7, -, -⟩ := h
  rw [ha c]
  have e : M = ws * M + wn0 * M + wn1 * M + wn2 * M + wn3 * M + wn4 * M + ww * M + ww2 * M := by
    have : ws * M + wn0 * M + wn1 * M + wn2 * M + wn3 * M + wn4 * M + ww * M + ww2 * M
        = (ws + wn0 + wn1 + wn2 + wn3 + wn4 + ww + ww2) * M := by ring
    rw [this, hs, one_mul]
  have := mul_le_mul_of_nonneg_left h0 p0
  have := mul_le_mul_of_nonneg_left h1 p1
  have := mul_le_mul_of_nonneg_left h2 p2
  have := mul_le_mul_of_nonneg_left h3 p3
  have := mul_le_mul_of_nonneg_left h4 p4
  have := mul_le_mul_of_nonneg_left h5 p5
  have := mul_le_mul_of_nonneg_left h6 p6
  have := mul_le_mul_of_nonneg_left h7 p7
  linarith

-- Proof script shared by all classes (the statement differs only in which
-- generated definitions it mentions).
set_option hygiene false in
macro "c04_tac" : tactic => `(tactic| (
  obtain ⟨h1,h2,h3,h4,h5,h6,h7,h8,h9,h10,h11,h12,h13,h14,h15,h16,h17,h18,h19,h20,h21,h22,h23,h24,h25,h26,h27,h28,h29,h30,h31,h32,h33,h34,h35,h36,h37,h38,h39,h40,h41,h42⟩ := hp
  refine ⟨?aff, ?sum, ?self, ?n0, ?n1, ?n2, ?n3, ?n4, ?w, ?w2, ?heat, ?indep⟩
  case aff => intro c; simp only [gen_defs]; field_simp; ring
  case sum => simp only [gen_defs]; field_simp; ring
  case self =>
    exact selfweight _ _ _ (by simp only [gen_defs]; positivity)
      (by simp only [gen_defs]; field_simp; ring) hdz
  case n0 => simp only [gen_defs]; positivity
  case n1 => simp only [gen_defs]; positivity
  case n2 => simp only [gen_defs]; positivity
  case n3 => simp only [gen_defs]; positivity
  case n4 => simp only [gen_defs]; positivity
  case w => simp only [gen_defs]; positivity
  case w2 => simp only [gen_defs]; positivity
  case heat => intro c q1 q2 q3 q4; simp only [gen_defs]; positivity
  case indep => intro c c' q1 q2 q3 q4; simp only [gen_defs, q1, q2, q3, q4]))

-- `c04_class X` states and proves, for the class-variant `X` emitted by the
-- translator, that `dz ≤` (the traced step limit of that class) makes the traced
-- update of that class a `ConvexStep`.
set_option hygiene false in
open Lean in
macro "c04_class " x:ident : command => do
  let s := x.getId.toString
  let mk (p : String) : Ident := mkIdent (Name.mkSimple (p ++ s))
  `(theorem $(mk "c04_") (e : Env K) (hp : Pos e) (hdz : e.dz ≤ $(mk "cons_") e) :
      ConvexStep ($(mk "Tnew_") e) ($(mk "B_") e) ($(mk "WTs_") e) ($(mk "WTn0_") e) ($(mk "WTn1_") e)
        ($(mk "WTn2_") e) ($(mk "WTn3_") e) ($(mk "WTn4_") e) ($(mk "WTw_") e) ($(mk "WTw2_") e) := by
    c04_tac)

c04_class byp_6_66_ca
c04_class byp_6_66_std
c04_class byp_6_67_ca
c04_class byp_6_67_std
c04_class byp_7_66_std
c04_class int_1_111_ca
c04_class int_1_111_std
c04_class int_1_112_ca
c04_class int_1_112_std
c04_class int_2_122_ca_d1
c04_class int_2_122_ca_d2
c04_class int_2_122_std_d1
c04_class int_2_122_std_d2
c04_class int_2_123_ca_d1
c04_class int_2_123_ca_d2
c04_class int_2_123_std_d1
c04_class int_2_123_std_d2
c04_class int_2_133_ca_d1
c04_class int_2_133_ca_d2
c04_class int_2_133_std_d1
c04_class int_2_133_std_d2
c04_class int_3_22_ca_d0
c04_class int_3_22_ca_d1
c04_class int_3_22_std_d0
c04_class int_3_22_std_d1

/-- Conservative variant: the self-weight is `1 - dz * S` and the limit satisfies `S * cons ≤ 1`. -/
theorem selfweight_le (ws cons dz S : K) (hw : ws = 1 - dz * S) (hS : 0 ≤ S) (hle : S * cons ≤ 1)
    (hdz : dz ≤ cons) : 0 ≤ ws := by
  rw [hw]
  have : dz * S ≤ cons * S := mul_le_mul_of_nonneg_right hdz hS
  nlinarith

-- Bypass corner cell with the low-flow approximation.  Before defect 57 was repaired the update coupled the cell to the
-- outer wall over the *inner* corner length while the limit used the outer one, and this theorem needed `wc_0_1 ≤ wc_1_1`;
-- update and limit now use the same length and the class is proved like every other one.
c04_class byp_7_66_ca

/-- Non-vacuity: an admissible bundle exists (all symbols 1, `sixth = 1/6`). -/
example : ∃ e : Env ℚ, Pos e := by
  refine ⟨⟨1,1,1,1,1,1,1,1,1,1,1,1,1,1,1,1,1,1,1,1,1,1,1,1,1,1,1,1,1,1,1,1,1,1,1,1,1,1,1,1,1/6,1/100⟩, ?_⟩
  constructor <;> norm_num

/-! ### No-flow and duct-average gap models (last clause of C04)

`Dassh.Gen.C04GapAvg` (regenerated from the real `Core._noflow_model` / `_duct_average_model` on every run) holds, for every gap
cell of the traced two- and three-assembly cores, `gapnf_*` / `gapda_*`: the new gap temperature is the combination of the
adjacent duct-wall and neighbouring gap temperatures with the traced weights, every weight is non-negative, the weights sum to
one; and `*_bounds`: it lies between any bounds of those temperatures.  The generic step is `Dassh.Convex.bounds<k>`. -/

/-- a convex combination of values that are all equal returns that value (uniform field reproduced) -/
theorem c04_convex_uniform (w1 w2 w3 t : K) (h1 : 0 ≤ w1) (h2 : 0 ≤ w2) (h3 : 0 ≤ w3) (hs : w1 + w2 + w3 = 1) :
    w1 * t + w2 * t + w3 * t = t := by
  have := Dassh.Convex.bounds3 w1 w2 w3 t t t t t h1 h2 h3 hs ⟨le_refl _, le_refl _⟩ ⟨le_refl _, le_refl _⟩ ⟨le_refl _, le_refl _⟩
  exact le_antisymm this.2 this.1

/-- **Duct-average model, any number of adjacent ducts.**  The mean of the duct-wall temperatures a gap cell touches lies between
any bounds of them (general form of the `gapda_*_bounds` corollaries, which are stated on the traced cells). -/
theorem c04_duct_average_bounds (walls : List K) (hne : walls ≠ []) (lo hi : K) (h : ∀ t ∈ walls, lo ≤ t ∧ t ≤ hi) :
    lo ≤ walls.sum / (walls.length : K) ∧ walls.sum / (walls.length : K) ≤ hi :=
  Dassh.Convex.mean_bounds walls hne lo hi h

end Dassh.Props.C04
