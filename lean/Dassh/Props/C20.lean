/-
C20 — orifice grouping partitions the assemblies; flow distribution conserves flow.
Theorems about `Dassh.Model.Orifice` (tied to `Orificing._group/_check_new_group/distribute`
by the correspondence check).
-/
import Dassh.Model.Orifice
import Mathlib.Algebra.Order.Field.Basic
import Mathlib.Algebra.Order.Field.Rat
import Mathlib.Algebra.BigOperators.Group.List.Basic
import Mathlib.Data.List.Basic
import Mathlib.Tactic.Linarith
import Mathlib.Tactic.FieldSimp
import Mathlib.Tactic.Ring

namespace Dassh.Props.C20
open Dassh.Model.Orifice

variable {K : Type} [Field K] [LinearOrder K] [IsStrictOrderedRing K]

/-- invariant of the grouping pass: finished groups followed by the active group
concatenate to what has been consumed; no group is empty -/
theorem sweep_fold (cutoff : K) (vs : List K) (fin : List (List K)) (act : List K) (hact : act ≠ [])
    (hfin : ∀ g ∈ fin, g ≠ []) :
    let r := vs.foldl (fun (acc : List (List K) × List K) v =>
      if startsNew acc.2 v cutoff then (acc.2 :: acc.1, [v]) else (acc.1, acc.2 ++ [v])) (fin, act)
    (r.2 :: r.1).reverse.flatten = (act :: fin).reverse.flatten ++ vs
      ∧ r.2 ≠ [] ∧ ∀ g ∈ r.1, g ≠ [] := by
  induction vs generalizing fin act with
  | nil => exact ⟨by simp, hact, hfin⟩
  | cons v t ih =>
    simp only [List.foldl_cons]
    by_cases hnew : startsNew act v cutoff = true
    · simp only [hnew, if_true]
      have := ih (act :: fin) [v] (by simp) (by
        intro g hg
        rcases List.mem_cons.mp hg with rfl | h
        · exact hact
        · exact hfin g h)
      simp only at this
      refine ⟨?_, this.2.1, this.2.2⟩
      rw [this.1]
      simp [List.reverse_cons, List.flatten_append]
    · have hnew' : startsNew act v cutoff = false := by
        cases h : startsNew act v cutoff
        · rfl
        · exact absurd h hnew
      simp only [hnew', Bool.false_eq_true, if_false]
      have := ih fin (act ++ [v]) (by simp) hfin
      simp only at this
      refine ⟨?_, this.2.1, this.2.2⟩
      rw [this.1]
      simp [List.reverse_cons, List.flatten_append]

/-- **Partition.**  At any cutoff the groups concatenate to the (sorted) parameter list:
every assembly is in exactly one group, groups are contiguous in the sorted order
(so no assembly of a later group exceeds one of an earlier group), and no group is empty. -/
theorem c20_partition (cutoff : K) (xs : List K) :
    (sweepGroups cutoff xs).flatten = xs ∧ ∀ g ∈ sweepGroups cutoff xs, g ≠ [] := by
  cases xs with
  | nil => simp [sweepGroups]
  | cons x t =>
    have := sweep_fold cutoff t [] [x] (by simp) (by simp)
    simp only at this
    unfold sweepGroups
    simp only
    refine ⟨by simpa using this.1, ?_⟩
    intro g hg
    rw [List.mem_reverse] at hg
    rcases List.mem_cons.mp hg with rfl | h
    · exact this.2.1
    · exact this.2.2 g h

/-- the number of groups is at most the number of assemblies -/
theorem c20_groups_le (cutoff : K) (xs : List K) : (sweepGroups cutoff xs).length ≤ xs.length := by
  have h := c20_partition cutoff xs
  have : ∀ (gs : List (List K)), (∀ g ∈ gs, g ≠ []) → gs.length ≤ gs.flatten.length := by
    intro gs
    induction gs with
    | nil => intro _; simp
    | cons g t ih =>
      intro hne
      have hg : g ≠ [] := hne g List.mem_cons_self
      have : 1 ≤ g.length := List.length_pos_iff.mpr hg
      have := ih (fun x hx => hne x (List.mem_cons_of_mem _ hx))
      simp only [List.length_cons, List.flatten_cons, List.length_append]
      omega
  have := this _ h.2
  rw [h.1] at this
  exact this


/-- the adaptive loop leaves early only with exactly the requested number of groups -/
theorem loop_early_exit (nGroups : Nat) (delta : K) (params : List K) :
    ∀ (fuel : Nat) (cutoff : K) (last : List (List K)) (started : Bool),
      (group.loop nGroups delta params fuel cutoff last started).2 ≠ 0 →
      (group.loop nGroups delta params fuel cutoff last started).1.length = nGroups := by
  intro fuel
  induction fuel with
  | zero => intro c l s h; simp [group.loop] at h
  | succ f ih =>
    intro c l s h
    unfold group.loop at h ⊢
    by_cases hx : (s && l.length == nGroups) = true
    · simp only [hx, if_true] at h ⊢
      simp only [Bool.and_eq_true, beq_iff_eq] at hx
      exact hx.2
    · simp only [hx] at h ⊢
      exact ih _ _ _ h

/-- **Exactly the requested number of groups or an error** (corrected final test): whenever the
grouping returns normally it returns exactly `nGroups` groups. -/
theorem c20_count_fixed (nGroups : Nat) (cutoff0 delta : K) (params : List K) (g : List (List K))
    (h : group true nGroups cutoff0 delta params = Outcome.ok g) : g.length = nGroups := by
  unfold group at h
  simp only at h
  by_cases hl : (group.loop nGroups delta params 1000 cutoff0 [] false).2 = 0
  · simp only [hl, beq_self_eq_true, if_true] at h
    by_cases hn : (group.loop nGroups delta params 1000 cutoff0 [] false).1.length = nGroups
    · simp only [hn, bne_self_eq_false, Bool.false_eq_true, if_false, Outcome.ok.injEq] at h
      rw [← h]; exact hn
    · have : ((group.loop nGroups delta params 1000 cutoff0 [] false).1.length != nGroups) = true := by
        simpa [bne_iff_ne] using hn
      simp [this] at h
  · have hne : ((group.loop nGroups delta params 1000 cutoff0 [] false).2 == 0) = false := by
      simpa using hl
    simp only [hne, Bool.false_eq_true, if_false, Outcome.ok.injEq] at h
    rw [← h]
    exact loop_early_exit nGroups delta params 1000 cutoff0 [] false hl

/-- **Flow distribution conserves mass**: whatever the group factors and the limit, the flows of
one update sum (member flow × member count, plus the last group's members) to the total. -/
theorem c20_mass_conserved (mTotal : K) (limit : Option K) (groups : List (K × Nat × K)) (nLast : Nat)
    (hn : nLast ≠ 0) :
    let r := distributeStep mTotal limit groups nLast
    (List.zipWith (fun f (g : K × Nat × K) => f * (g.2.1 : K)) r.1 groups).foldl (· + ·) 0 + r.2 * (nLast : K)
      = mTotal := by
  simp only [distributeStep]
  have : (nLast : K) ≠ 0 := Nat.cast_ne_zero.mpr hn
  field_simp
  ring

/-- **Pressure-drop limit (partial)**: every group but the last is at or below the limit.
The last group receives the remainder and is not clipped — see `c20_last_group_can_exceed`. -/
theorem c20_dp_limit_partial (mTotal l : K) (groups : List (K × Nat × K)) (nLast : Nat) :
    ∀ f ∈ (distributeStep mTotal (some l) groups nLast).1, f ≤ l := by
  intro f hf
  simp only [distributeStep, List.mem_map] at hf
  obtain ⟨g, _, rfl⟩ := hf
  split_ifs with h
  · exact le_rfl
  · exact not_lt.mp h

theorem foldl_min_le_init (ls : List K) (l : K) : ls.foldl min l ≤ l := by
  induction ls generalizing l with
  | nil => exact le_rfl
  | cons a t ih => exact le_trans (ih (min l a)) (min_le_left l a)

theorem foldl_min_le_mem (ls : List K) (l : K) : ∀ x ∈ ls, ls.foldl min l ≤ x := by
  induction ls generalizing l with
  | nil => intro x hx; cases hx
  | cons a t ih =>
    intro x hx
    rcases List.mem_cons.mp hx with rfl | hx
    · exact le_trans (foldl_min_le_init t (min l x)) (min_le_right l x)
    · exact ih (min l a) x hx

/-- **Pressure-drop limit, member by member.**  After the clamp of a group, no member - whatever its assembly type -
is above its own flow limit, and all members still receive the same flow. -/
theorem c20_clamp_members (m : K) (lims : List K) : ∀ x ∈ lims, clampGroup m lims ≤ x := by
  intro x hx
  cases lims with
  | nil => cases hx
  | cons l ls =>
    simp only [clampGroup]
    split_ifs with h
    · rcases List.mem_cons.mp hx with rfl | hx
      · exact foldl_min_le_init ls x
      · exact foldl_min_le_mem ls l x hx
    · simp only [List.any_eq_true, decide_eq_true_eq, not_exists, not_and, not_lt] at h
      exact h x hx

/-- clamping to the first member's limit is wrong as soon as another member has a smaller limit -/
theorem c20_clamp_first_counter : ¬ (∀ x ∈ [(3 : ℚ), 2], clampGroupFirst (5 : ℚ) [3, 2] ≤ x) := by
  simp [clampGroupFirst]; norm_num

/-- counter-example for the full claim: the remainder given to the last group can exceed the limit -/
theorem c20_last_group_can_exceed :
    (distributeStep (10 : ℚ) (some 2) [((3 : ℚ), 1, (1 : ℚ))] 1).2 = 8 := by
  simp [distributeStep]; norm_num

/-! ### iteration history: the previous sweep feeds the next distribution -/

/-- mixed-mean outlet temperature of a sweep: flows `m`, outlet temperatures `T` (all assemblies, all time steps) -/
def mixedMean (rows : List (K × K)) : K := (rows.map fun r => r.1 * r.2).sum / (rows.map fun r => r.1).sum

/-- heat carried off by a sweep relative to the inlet temperature, per unit heat capacity -/
theorem mixedMean_heat (rows : List (K × K)) (Tin : K) (hm : (rows.map fun r => r.1).sum ≠ 0) :
    (rows.map fun r => r.1).sum * (mixedMean rows - Tin) = (rows.map fun r => r.1 * (r.2 - Tin)).sum := by
  unfold mixedMean
  have h1 : ∀ l : List (K × K), (l.map fun r => r.1 * (r.2 - Tin)).sum
      = (l.map fun r => r.1 * r.2).sum - (l.map fun r => r.1).sum * Tin := by
    intro l
    induction l with
    | nil => simp
    | cons r t ih => simp only [List.map_cons, List.sum_cons, ih]; ring
  rw [h1 rows]
  field_simp

/-- **The rescaled total is the flow the target needs**: with the mixed-mean outlet temperature of the previous sweep (over
ALL its rows), the total `M₁ (T_prev - T_in) / (T_target - T_in)` carries the same heat to the target temperature -/
theorem c20_history_total (rows : List (K × K)) (Tin Ttgt : K) (hm : (rows.map fun r => r.1).sum ≠ 0) (ht : Ttgt ≠ Tin) :
    ((rows.map fun r => r.1).sum * (mixedMean rows - Tin) / (Ttgt - Tin)) * (Ttgt - Tin)
      = (rows.map fun r => r.1 * (r.2 - Tin)).sum := by
  rw [← mixedMean_heat rows Tin hm]
  have : Ttgt - Tin ≠ 0 := sub_ne_zero.mpr ht
  field_simp

/-- taking the mean over the rows of the LAST time step only gives another total as soon as the time steps differ -/
theorem c20_history_last_step_counter :
    mixedMean [((1 : ℚ), 700), (1, 800)] ≠ mixedMean [((1 : ℚ), 800)] := by
  unfold mixedMean; norm_num

/-- Non-vacuity / the silent loss of a group in the original `_group`: four equal parameters,
two groups requested: the original final test accepts one group, the corrected test reports failure. -/
example : sweepGroups ((1 : ℚ) / 20) [5, 5, 5, 5] = [[5, 5, 5, 5]] := by
  simp [sweepGroups, startsNew]; norm_num

/-! ### the flows that are used (input of the orificed sweep)

`writeFlows` writes the distributed flows by assembly id.  With distinct ids inside the core every grouped position carries exactly
the flow distributed to it and no other position is touched; pairing the flows with the assigned positions in order (a seeded
change) provably does not, as soon as an assembly that is not grouped sits before a grouped one. -/

theorem writeFlows_length {A : Type} (pos : List (Option A)) (prs : List (Nat × A)) :
    (writeFlows pos prs).length = pos.length := by
  induction prs generalizing pos with
  | nil => rfl
  | cons p t ih => obtain ⟨i, m⟩ := p; simp [writeFlows, ih]

theorem writeFlows_untouched {A : Type} (pos : List (Option A)) (prs : List (Nat × A)) (j : Nat)
    (hj : ∀ p ∈ prs, p.1 ≠ j) : (writeFlows pos prs)[j]? = pos[j]? := by
  induction prs generalizing pos with
  | nil => rfl
  | cons p t ih =>
    obtain ⟨i, m⟩ := p
    have hij : i ≠ j := hj (i, m) List.mem_cons_self
    rw [writeFlows, ih _ (fun q hq => hj q (List.mem_cons_of_mem _ hq))]
    exact List.getElem?_set_ne hij

/-- every grouped assembly gets the flow distributed to it (ids distinct and inside the core) -/
theorem c20_flows_written {A : Type} (pos : List (Option A)) (prs : List (Nat × A))
    (hnd : (prs.map Prod.fst).Nodup) (hin : ∀ p ∈ prs, p.1 < pos.length) :
    ∀ p ∈ prs, (writeFlows pos prs)[p.1]? = some (some p.2) := by
  induction prs generalizing pos with
  | nil => intro p hp; simp at hp
  | cons q t ih =>
    obtain ⟨i, m⟩ := q
    simp only [List.map_cons, List.nodup_cons] at hnd
    intro p hp
    rw [writeFlows]
    rcases List.mem_cons.mp hp with rfl | hp'
    · -- written first, not touched by the rest
      rw [writeFlows_untouched _ t i (fun r hr hri => hnd.1 (by rw [← hri]; exact List.mem_map_of_mem hr))]
      simp [List.getElem?_set_self (hin (i, m) List.mem_cons_self)]
    · exact ih (pos.set i (some m)) hnd.2 (fun r hr => by simpa using hin r (List.mem_cons_of_mem _ hr)) p hp'

/-- a position that is not grouped keeps what it had (empty stays empty) -/
theorem c20_flows_others_untouched {A : Type} (pos : List (Option A)) (prs : List (Nat × A)) (j : Nat)
    (hj : j ∉ prs.map Prod.fst) : (writeFlows pos prs)[j]? = pos[j]? :=
  writeFlows_untouched pos prs j (fun p hp hpj => hj (by rw [← hpj]; exact List.mem_map_of_mem hp))

/-- counter-model of the seeded change: position 0 holds an assembly that is not grouped, position 1 the only grouped one -/
theorem c20_flows_by_order_counter :
    (writeFlows [some (0 : Nat), some 0] [(1, 7)])[1]? = some (some 7)
    ∧ (writeFlowsByOrder [some (0 : Nat), some 0] [7])[1]? = some (some 0) := by decide

end Dassh.Props.C20
