/-
C05 (boundaries are hit exactly) / C01 (region hand-over) / C17 (unit independence) share one fact about the driver:
a step that ENDS on a region boundary is computed in the region below the boundary, the next one in the region above,
and nothing depends on sub-grid noise because bounds and planes live on the same integer grid.
-/
import Dassh.Model.Regions
import Mathlib.Data.List.Basic
import Mathlib.Tactic.Linarith

namespace Dassh.Props.C05Regions
open Dassh.Model.Regions

/-- strictly increasing list -/
def Incr : List Nat → Prop
  | a :: b :: t => a < b ∧ Incr (b :: t)
  | _ => True

theorem bisect_prefix (pre : List Nat) (b : Nat) (post : List Nat) (z : Nat)
    (hpre : ∀ x ∈ pre, x < z) (hb : ¬ b < z) :
    bisectLeft (pre ++ b :: post) z = pre.length := by
  unfold bisectLeft
  rw [List.takeWhile_append_of_pos (by simpa using hpre)]
  simp [List.takeWhile_cons, hb]

theorem bisect_all (bnds : List Nat) (z : Nat) (h : ∀ x ∈ bnds, x < z) : bisectLeft bnds z = bnds.length := by
  unfold bisectLeft
  induction bnds with
  | nil => rfl
  | cons a t ih =>
    have ha : a < z := h a (by simp)
    simp only [List.takeWhile_cons, ha, decide_true, if_true, List.length_cons]
    rw [ih (fun x hx => h x (by simp [hx]))]

/-- all entries of an increasing list before position `i` are below the entry at `i` -/
theorem incr_lt (l : List Nat) (h : Incr l) : ∀ (pre : List Nat) (b : Nat) (post : List Nat), l = pre ++ b :: post →
    ∀ x ∈ pre, x < b := by
  induction l with
  | nil => intro pre b post he; simp at he
  | cons a t ih =>
    intro pre b post he x hx
    cases pre with
    | nil => cases hx
    | cons p pre' =>
      simp only [List.cons_append, List.cons.injEq] at he
      obtain ⟨rfl, ht⟩ := he
      have hIt : Incr t := by
        cases t with
        | nil => trivial
        | cons c u => exact h.2
      rcases List.mem_cons.mp hx with rfl | hx'
      · -- x = a is below the head of t, which is below-or-equal b
        cases pre' with
        | nil =>
          simp only [List.nil_append] at ht
          subst ht
          exact h.1
        | cons c pre'' =>
          simp only [List.cons_append] at ht
          subst ht
          have h1 : x < c := h.1
          have h2 := ih hIt (c :: pre'') b post rfl c (by simp)
          exact lt_trans h1 h2
      · exact ih hIt pre' b post ht x hx'

/-- **A step ending inside or on the upper bound of region `i` is computed in region `i`.**
`bnds = pre ++ lo :: hi :: post` increasing, `i = pre.length`, `lo < z ≤ hi`. -/
theorem c05_region_of_step (pre : List Nat) (lo hi : Nat) (post : List Nat) (z : Nat)
    (hinc : Incr (pre ++ lo :: hi :: post)) (h1 : lo < z) (h2 : z ≤ hi) :
    activeRegion (pre ++ lo :: hi :: post) z = pre.length := by
  have hz : z ≠ 0 := by omega
  unfold activeRegion
  rw [if_neg hz]
  have hpre : ∀ x ∈ pre ++ [lo], x < z := by
    intro x hx
    rcases List.mem_append.mp hx with hx | hx
    · exact lt_trans (incr_lt _ hinc pre lo (hi :: post) rfl x hx) h1
    · simp at hx; subst hx; exact h1
  have := bisect_prefix (pre ++ [lo]) hi post z hpre (by omega)
  rw [List.append_assoc, List.singleton_append] at this
  rw [this]
  simp

/-- the last region: every plane above its lower bound -/
theorem c05_last_region (pre : List Nat) (lo : Nat) (z : Nat) (hinc : Incr (pre ++ [lo])) (h1 : lo < z) :
    activeRegion (pre ++ [lo]) z = pre.length := by
  have hz : z ≠ 0 := by omega
  unfold activeRegion
  rw [if_neg hz, bisect_all]
  · simp
  · intro x hx
    rcases List.mem_append.mp hx with hx | hx
    · exact lt_trans (incr_lt _ hinc pre lo [] rfl x hx) h1
    · simp at hx; subst hx; exact h1

/-- consequence: the step that ends ON a boundary still belongs to the lower region and the very next plane to the upper one -
a bound that is one grid unit lower (what an unrounded bound amounts to) moves the switch one step early -/
example : activeRegion [0, 104400000000, 300000000000] 104400000000 = 0
    ∧ activeRegion [0, 104400000000, 300000000000] 104400000001 = 1
    ∧ activeRegion [0, 104399999999, 300000000000] 104400000000 = 1 := by decide

end Dassh.Props.C05Regions
