/-
C11 — duct-wall temperatures solve steady 1-D conduction with the stated BCs.

All theorems are about the definitions in `Dassh.Gen.C11`, which are regenerated
on every run by tracing the real `_calc_duct_temp` methods (rodded and
low-fidelity) on symbolic inputs.  `q := p / qa` is the volumetric heating the
code uses; the slab is `-th/2 ≤ x ≤ th/2`, `T(x) = -q x²/(2 kw) + c₁ x + c₂`,
and the three reported values are `T(-th/2)`, `T(0)`, `T(th/2)`.
The identities below characterise that solution completely:
  * Fourier's law at the inner face  : h_in (t_in − T_si) = −kw T'(−th/2)
  * Fourier's law at the outer face  : h_out (T_so − t_out) = −kw T'(th/2)
  * mid-wall value                   : T(0) = (T_si + T_so)/2 + q th²/(8 kw)
with T'(∓th/2) = (T_so − T_si)/th ± q th/(2 kw).
-/
import Dassh.Gen.C11
import Mathlib.Algebra.Order.Field.Basic
import Mathlib.Tactic.FieldSimp
import Mathlib.Tactic.Ring
import Mathlib.Tactic.Linarith
import Mathlib.Tactic.Positivity

namespace Dassh.Props.C11
open Dassh.Gen.C11

variable {K : Type} [Field K] [LinearOrder K] [IsStrictOrderedRing K]

section rodded
variable (t_in t_out h_in h_out p qa L2 L28 th kw : K)

/-- Heat entering from the inner coolant plus heat generated in the wall equals
the heat leaving to the outer coolant (coupled boundary). -/
theorem c11_rod_flux_balance (hi : 0 < h_in) (ho : 0 < h_out) (hk : 0 < kw) (ht : 0 < th)
    (hL2 : L2 = th / 2) (hL28 : L28 = th ^ 2 / 8) :
    h_in * (t_in - rod_sin_coupled t_in t_out h_in h_out p qa L2 L28 th kw) + (p / qa) * th
      = h_out * (rod_sout_coupled t_in t_out h_in h_out p qa L2 L28 th kw - t_out) := by
  subst hL2 hL28
  have hd : h_in * th + kw * (1 + h_in / h_out) ≠ 0 := by positivity
  simp only [rod_sin_coupled, rod_sout_coupled]
  field_simp
  ring

/-- Fourier's law at the inner face. -/
theorem c11_rod_inner_fourier (hi : 0 < h_in) (ho : 0 < h_out) (hk : 0 < kw) (ht : 0 < th)
    (hL2 : L2 = th / 2) (hL28 : L28 = th ^ 2 / 8) :
    h_in * (t_in - rod_sin_coupled t_in t_out h_in h_out p qa L2 L28 th kw)
      = -kw * ((rod_sout_coupled t_in t_out h_in h_out p qa L2 L28 th kw
                - rod_sin_coupled t_in t_out h_in h_out p qa L2 L28 th kw) / th) - (p / qa) * th / 2 := by
  subst hL2 hL28
  have hd : h_in * th + kw * (1 + h_in / h_out) ≠ 0 := by positivity
  simp only [rod_sin_coupled, rod_sout_coupled]
  field_simp
  ring

/-- Fourier's law at the outer face. -/
theorem c11_rod_outer_fourier (hi : 0 < h_in) (ho : 0 < h_out) (hk : 0 < kw) (ht : 0 < th)
    (hL2 : L2 = th / 2) (hL28 : L28 = th ^ 2 / 8) :
    h_out * (rod_sout_coupled t_in t_out h_in h_out p qa L2 L28 th kw - t_out)
      = -kw * ((rod_sout_coupled t_in t_out h_in h_out p qa L2 L28 th kw
                - rod_sin_coupled t_in t_out h_in h_out p qa L2 L28 th kw) / th) + (p / qa) * th / 2 := by
  subst hL2 hL28
  have hd : h_in * th + kw * (1 + h_in / h_out) ≠ 0 := by positivity
  simp only [rod_sin_coupled, rod_sout_coupled]
  field_simp
  ring

/-- The reported mid-wall value is the parabola's value at the wall centre. -/
theorem c11_rod_midwall (hi : 0 < h_in) (ho : 0 < h_out) (hk : 0 < kw) (ht : 0 < th)
    (hL2 : L2 = th / 2) (hL28 : L28 = th ^ 2 / 8) :
    rod_mw_coupled t_in t_out h_in h_out p qa L2 L28 th kw
      = (rod_sin_coupled t_in t_out h_in h_out p qa L2 L28 th kw
         + rod_sout_coupled t_in t_out h_in h_out p qa L2 L28 th kw) / 2
        + (p / qa) * th ^ 2 / (8 * kw) := by
  subst hL2 hL28
  have hd : h_in * th + kw * (1 + h_in / h_out) ≠ 0 := by positivity
  simp only [rod_mw_coupled, rod_sin_coupled, rod_sout_coupled]
  field_simp
  ring

/-- Adiabatic outer boundary: the conductive flux at the outer face is zero. -/
theorem c11_rod_adiabatic_outer_flux_zero (hi : 0 < h_in) (hk : 0 < kw) (ht : 0 < th)
    (hL2 : L2 = th / 2) (hL28 : L28 = th ^ 2 / 8) :
    -kw * ((rod_sout_adiab t_in t_out h_in h_out p qa L2 L28 th kw
            - rod_sin_adiab t_in t_out h_in h_out p qa L2 L28 th kw) / th) + (p / qa) * th / 2 = 0 := by
  subst hL2 hL28
  simp only [rod_sin_adiab, rod_sout_adiab]
  field_simp
  ring

/-- Adiabatic outer boundary: all heat generated in the wall goes to the inner coolant. -/
theorem c11_rod_adiabatic_inner_flux (hi : 0 < h_in) (hk : 0 < kw) (ht : 0 < th)
    (hL2 : L2 = th / 2) (hL28 : L28 = th ^ 2 / 8) :
    h_in * (rod_sin_adiab t_in t_out h_in h_out p qa L2 L28 th kw - t_in) = (p / qa) * th := by
  subst hL2 hL28
  simp only [rod_sin_adiab]
  field_simp
  ring

theorem c11_rod_adiabatic_midwall (hi : 0 < h_in) (hk : 0 < kw) (ht : 0 < th)
    (hL2 : L2 = th / 2) (hL28 : L28 = th ^ 2 / 8) :
    rod_mw_adiab t_in t_out h_in h_out p qa L2 L28 th kw
      = (rod_sin_adiab t_in t_out h_in h_out p qa L2 L28 th kw
         + rod_sout_adiab t_in t_out h_in h_out p qa L2 L28 th kw) / 2
        + (p / qa) * th ^ 2 / (8 * kw) := by
  subst hL2 hL28
  simp only [rod_mw_adiab, rod_sin_adiab, rod_sout_adiab]
  field_simp
  ring

/-- Without wall heating the three wall temperatures lie in order between the
two coolant temperatures (rising case). -/
theorem c11_rod_order_up (hi : 0 < h_in) (ho : 0 < h_out) (hk : 0 < kw) (ht : 0 < th)
    (hL2 : L2 = th / 2) (hL28 : L28 = th ^ 2 / 8) (hT : t_in ≤ t_out) :
    t_in ≤ rod_sin_coupled t_in t_out h_in h_out 0 qa L2 L28 th kw ∧
    rod_sin_coupled t_in t_out h_in h_out 0 qa L2 L28 th kw
      ≤ rod_mw_coupled t_in t_out h_in h_out 0 qa L2 L28 th kw ∧
    rod_mw_coupled t_in t_out h_in h_out 0 qa L2 L28 th kw
      ≤ rod_sout_coupled t_in t_out h_in h_out 0 qa L2 L28 th kw ∧
    rod_sout_coupled t_in t_out h_in h_out 0 qa L2 L28 th kw ≤ t_out := by
  subst hL2 hL28
  have hd : 0 < h_in * th + kw * (1 + h_in / h_out) := by positivity
  set c1 := h_in * (t_out - t_in) / (h_in * th + kw * (1 + h_in / h_out)) with hc1
  have hc1nn : 0 ≤ c1 := by
    rw [hc1]; apply div_nonneg _ hd.le; exact mul_nonneg hi.le (by linarith)
  have e_sin : rod_sin_coupled t_in t_out h_in h_out 0 qa (th / 2) (th ^ 2 / 8) th kw
      = t_out - c1 * th - kw * c1 / h_out := by
    simp only [rod_sin_coupled, hc1]; field_simp; ring
  have e_mw : rod_mw_coupled t_in t_out h_in h_out 0 qa (th / 2) (th ^ 2 / 8) th kw
      = t_out - c1 * th / 2 - kw * c1 / h_out := by
    simp only [rod_mw_coupled, hc1]; field_simp; ring
  have e_sout : rod_sout_coupled t_in t_out h_in h_out 0 qa (th / 2) (th ^ 2 / 8) th kw
      = t_out - kw * c1 / h_out := by
    simp only [rod_sout_coupled, hc1]; field_simp; ring
  have e_in : t_out - c1 * th - kw * c1 / h_out - t_in = kw * c1 / h_in := by
    rw [hc1]; field_simp; ring
  have h1 : 0 ≤ c1 * th := mul_nonneg hc1nn ht.le
  have h2 : 0 ≤ kw * c1 / h_out := div_nonneg (mul_nonneg hk.le hc1nn) ho.le
  have h3 : 0 ≤ kw * c1 / h_in := div_nonneg (mul_nonneg hk.le hc1nn) hi.le
  rw [e_sin, e_mw, e_sout]
  refine ⟨by linarith, by linarith, by linarith, by linarith⟩

/-- Falling case of the ordering. -/
theorem c11_rod_order_down (hi : 0 < h_in) (ho : 0 < h_out) (hk : 0 < kw) (ht : 0 < th)
    (hL2 : L2 = th / 2) (hL28 : L28 = th ^ 2 / 8) (hT : t_out ≤ t_in) :
    rod_sin_coupled t_in t_out h_in h_out 0 qa L2 L28 th kw ≤ t_in ∧
    rod_mw_coupled t_in t_out h_in h_out 0 qa L2 L28 th kw
      ≤ rod_sin_coupled t_in t_out h_in h_out 0 qa L2 L28 th kw ∧
    rod_sout_coupled t_in t_out h_in h_out 0 qa L2 L28 th kw
      ≤ rod_mw_coupled t_in t_out h_in h_out 0 qa L2 L28 th kw ∧
    t_out ≤ rod_sout_coupled t_in t_out h_in h_out 0 qa L2 L28 th kw := by
  subst hL2 hL28
  have hd : 0 < h_in * th + kw * (1 + h_in / h_out) := by positivity
  set c1 := h_in * (t_out - t_in) / (h_in * th + kw * (1 + h_in / h_out)) with hc1
  have hc1np : c1 ≤ 0 := by
    rw [hc1]; apply div_nonpos_of_nonpos_of_nonneg _ hd.le
    exact mul_nonpos_of_nonneg_of_nonpos hi.le (by linarith)
  have e_sin : rod_sin_coupled t_in t_out h_in h_out 0 qa (th / 2) (th ^ 2 / 8) th kw
      = t_out - c1 * th - kw * c1 / h_out := by
    simp only [rod_sin_coupled, hc1]; field_simp; ring
  have e_mw : rod_mw_coupled t_in t_out h_in h_out 0 qa (th / 2) (th ^ 2 / 8) th kw
      = t_out - c1 * th / 2 - kw * c1 / h_out := by
    simp only [rod_mw_coupled, hc1]; field_simp; ring
  have e_sout : rod_sout_coupled t_in t_out h_in h_out 0 qa (th / 2) (th ^ 2 / 8) th kw
      = t_out - kw * c1 / h_out := by
    simp only [rod_sout_coupled, hc1]; field_simp; ring
  have e_in : t_out - c1 * th - kw * c1 / h_out - t_in = kw * c1 / h_in := by
    rw [hc1]; field_simp; ring
  have h1 : c1 * th ≤ 0 := mul_nonpos_of_nonpos_of_nonneg hc1np ht.le
  have h2 : kw * c1 / h_out ≤ 0 :=
    div_nonpos_of_nonpos_of_nonneg (mul_nonpos_of_nonneg_of_nonpos hk.le hc1np) ho.le
  have h3 : kw * c1 / h_in ≤ 0 :=
    div_nonpos_of_nonpos_of_nonneg (mul_nonpos_of_nonneg_of_nonpos hk.le hc1np) hi.le
  rw [e_sin, e_mw, e_sout]
  refine ⟨by linarith, by linarith, by linarith, by linarith⟩

end rodded

section unrodded
variable (t_in t_out h_in h_out th kw : K)

/-- Low-fidelity region (no wall heating): inner film flux = conductive flux = outer film flux. -/
theorem c11_ur_flux (hi : 0 < h_in) (ho : 0 < h_out) (hk : 0 < kw) (ht : 0 < th) :
    h_in * (t_in - ur_sin_coupled t_in t_out h_in h_out th kw)
      = -kw * ((ur_sout_coupled t_in t_out h_in h_out th kw - ur_sin_coupled t_in t_out h_in h_out th kw) / th)
    ∧ h_out * (ur_sout_coupled t_in t_out h_in h_out th kw - t_out)
      = -kw * ((ur_sout_coupled t_in t_out h_in h_out th kw - ur_sin_coupled t_in t_out h_in h_out th kw) / th)
    ∧ ur_mw_coupled t_in t_out h_in h_out th kw
      = (ur_sin_coupled t_in t_out h_in h_out th kw + ur_sout_coupled t_in t_out h_in h_out th kw) / 2 := by
  have hd : h_in * th + kw * (1 + h_in / h_out) ≠ 0 := by positivity
  refine ⟨?_, ?_, ?_⟩ <;>
  · simp only [ur_mw_coupled, ur_sin_coupled, ur_sout_coupled]
    field_simp
    ring

/-- Low-fidelity region, adiabatic: no gradient, so no flux crosses either face. -/
theorem c11_ur_adiabatic :
    ur_sin_adiab t_in t_out h_in h_out th kw = t_in ∧ ur_mw_adiab t_in t_out h_in h_out th kw = t_in ∧
    ur_sout_adiab t_in t_out h_in h_out th kw = t_in := by
  simp only [ur_sin_adiab, ur_mw_adiab, ur_sout_adiab, and_self]

theorem c11_ur_order_up (hi : 0 < h_in) (ho : 0 < h_out) (hk : 0 < kw) (ht : 0 < th) (hT : t_in ≤ t_out) :
    t_in ≤ ur_sin_coupled t_in t_out h_in h_out th kw ∧
    ur_sin_coupled t_in t_out h_in h_out th kw ≤ ur_mw_coupled t_in t_out h_in h_out th kw ∧
    ur_mw_coupled t_in t_out h_in h_out th kw ≤ ur_sout_coupled t_in t_out h_in h_out th kw ∧
    ur_sout_coupled t_in t_out h_in h_out th kw ≤ t_out := by
  have hd : 0 < h_in * th + kw * (1 + h_in / h_out) := by positivity
  set c1 := h_in * (t_out - t_in) / (h_in * th + kw * (1 + h_in / h_out)) with hc1
  have hc1nn : 0 ≤ c1 := by
    rw [hc1]; apply div_nonneg _ hd.le; exact mul_nonneg hi.le (by linarith)
  have e_sin : ur_sin_coupled t_in t_out h_in h_out th kw = t_out - c1 * th - kw * c1 / h_out := by
    simp only [ur_sin_coupled, hc1]; field_simp; ring
  have e_mw : ur_mw_coupled t_in t_out h_in h_out th kw = t_out - c1 * th / 2 - kw * c1 / h_out := by
    simp only [ur_mw_coupled, hc1]; field_simp; ring
  have e_sout : ur_sout_coupled t_in t_out h_in h_out th kw = t_out - kw * c1 / h_out := by
    simp only [ur_sout_coupled, hc1]; field_simp; ring
  have e_in : t_out - c1 * th - kw * c1 / h_out - t_in = kw * c1 / h_in := by
    rw [hc1]; field_simp; ring
  have h1 : 0 ≤ c1 * th := mul_nonneg hc1nn ht.le
  have h2 : 0 ≤ kw * c1 / h_out := div_nonneg (mul_nonneg hk.le hc1nn) ho.le
  have h3 : 0 ≤ kw * c1 / h_in := div_nonneg (mul_nonneg hk.le hc1nn) hi.le
  rw [e_sin, e_mw, e_sout]
  refine ⟨by linarith, by linarith, by linarith, by linarith⟩

end unrodded

/-- Non-vacuity: the hypotheses are satisfiable by ordinary numbers (ℚ), and the
flux identity is a non-trivial statement there (heated wall, different coolants). -/
example : (0 : ℚ) < 5 ∧ (0 : ℚ) < 7 ∧ (0 : ℚ) < 20 ∧ (0 : ℚ) < 3 ∧ ((3 : ℚ) / 2 = 3 / 2) ∧
    rod_sin_coupled (600 : ℚ) 500 5 7 100 2 (3 / 2) (9 / 8) 3 20 ≠ 600 := by
  refine ⟨by norm_num, by norm_num, by norm_num, by norm_num, rfl, ?_⟩
  simp only [rod_sin_coupled]; norm_num

end Dassh.Props.C11
