/-
C02 — inter-assembly heat exchange is conservative; the core balance closes.
-/
import Dassh.Gen.C02
import Dassh.Props.C10
import Mathlib.Algebra.Order.Field.Basic
import Mathlib.Tactic.FieldSimp
import Mathlib.Tactic.Ring
import Mathlib.Tactic.CasesM
import Mathlib.Algebra.BigOperators.Group.List.Basic
import Mathlib.Tactic.Linarith

namespace Dassh.Props.C02
open Dassh.Gen.C02

variable {K : Type} [Field K]

/-- **Gap step (two assemblies).**  For the gap mesh the running code builds around two adjacent
assemblies, for all gap and duct-surface temperatures, film coefficients, cell flows, conduction
constants, properties and step sizes: the enthalpy change of the gap coolant over the step equals
the heat the code tallies from the duct walls; conduction between gap cells cancels. -/
theorem c02_gap_step_two (s : St_two K) (h : Nonzero_two s) : gap_lhs_two s = gap_rhs_two s := by
  simp only [Nonzero_two] at h
  casesm* _ ∧ _
  simp only [gen_defs]
  field_simp
  ring

set_option maxHeartbeats 1000000 in
/-- the same for three mutually adjacent assemblies (includes a gap corner cell touching three ducts) -/
theorem c02_gap_step_three (s : St_three K) (h : Nonzero_three s) : gap_lhs_three s = gap_rhs_three s := by
  simp only [Nonzero_three] at h
  casesm* _ ∧ _
  simp only [gen_defs]
  field_simp
  ring

/-! ### the duct ↔ gap interface

Duct mesh cells `r` (lengths `r.2 − r.1`), gap cells `c`; `O r c` the overlap length.  The code maps
the gap film coefficient `h` and the product `h·T` to the duct mesh with the row-normalised overlap
(`G2D`), solves the wall with `h̃ = G2D h`, `T̃ = G2D(hT)/h̃`, and credits the gap cells with the
duct surface temperature mapped back (`D2G`, normalised by the gap cell length). -/
open Dassh.Model.Mesh Dassh.Props.C10 in
/-- **Interface identity**: the heat leaving the duct, computed on the duct mesh, equals the heat
credited on the gap mesh — for any pair of meshes of the same perimeter, any film coefficients, any
surface and gap temperatures.  (`Ts` lives on duct cells, `h`, `T` on gap cells.) -/
theorem c02_interface {K : Type} [Field K] [LinearOrder K] [IsStrictOrderedRing K]
    (r0 c0 : K) (rs cs : List K) (Ts h T : K × K → K)
    (hmr : Mono (r0 :: rs)) (hmc : Mono (c0 :: cs))
    (hposr : ∀ r ∈ intervals (r0 :: rs), r.1 < r.2)
    (hposc : ∀ c ∈ intervals (c0 :: cs), c.1 < c.2)
    (hcell : ∀ c ∈ intervals (c0 :: cs), r0 ≤ c.1 ∧ c.2 ≤ (r0 :: rs).getLast (by simp)) :
    -- duct side: Σ_r P_r · [ h̃_r · Ts_r − (G2D (h T))_r ]
    ((intervals (r0 :: rs)).map fun r =>
        (r.2 - r.1) * (((intervals (c0 :: cs)).map fun c => ovl r.1 r.2 c.1 c.2 / (r.2 - r.1) * h c).sum * Ts r
          - ((intervals (c0 :: cs)).map fun c => ovl r.1 r.2 c.1 c.2 / (r.2 - r.1) * (h c * T c)).sum)).sum
    -- gap side: Σ_c w_c · h_c · [ (D2G Ts)_c − T_c ]
      = ((intervals (c0 :: cs)).map fun c =>
        (c.2 - c.1) * h c * (((intervals (r0 :: rs)).map fun r => ovl r.1 r.2 c.1 c.2 / (c.2 - c.1) * Ts r).sum - T c)).sum := by
  -- both sides equal Σ_r Σ_c O(r,c) · h_c · (Ts_r − T_c)
  have hL : ∀ r ∈ intervals (r0 :: rs),
      (r.2 - r.1) * (((intervals (c0 :: cs)).map fun c => ovl r.1 r.2 c.1 c.2 / (r.2 - r.1) * h c).sum * Ts r
          - ((intervals (c0 :: cs)).map fun c => ovl r.1 r.2 c.1 c.2 / (r.2 - r.1) * (h c * T c)).sum)
        = ((intervals (c0 :: cs)).map fun c => ovl r.1 r.2 c.1 c.2 * h c * (Ts r - T c)).sum := by
    intro r hr
    have hp : r.2 - r.1 ≠ 0 := (sub_pos.mpr (hposr r hr)).ne'
    rw [mul_sub, ← mul_assoc, sum_map_mul_left_k, ← sum_map_mul_right_k, sum_map_mul_left_k]
    rw [sum_map_sub_k]
    congr 1
    apply List.map_congr_left
    intro c _
    field_simp
  have hR : ∀ c ∈ intervals (c0 :: cs),
      (c.2 - c.1) * h c * (((intervals (r0 :: rs)).map fun r => ovl r.1 r.2 c.1 c.2 / (c.2 - c.1) * Ts r).sum - T c)
        = ((intervals (r0 :: rs)).map fun r => ovl r.1 r.2 c.1 c.2 * h c * (Ts r - T c)).sum := by
    intro c hc
    have hp : c.2 - c.1 ≠ 0 := (sub_pos.mpr (hposc c hc)).ne'
    obtain ⟨hlo, hhi⟩ := hcell c hc
    have hcol := c10_col_sum c.1 c.2 r0 rs (hposc c hc).le hmr hlo hhi
    have e1 : ((intervals (r0 :: rs)).map fun r => ovl r.1 r.2 c.1 c.2 * h c * (Ts r - T c)).sum
        = h c * ((intervals (r0 :: rs)).map fun r => ovl r.1 r.2 c.1 c.2 * Ts r).sum
          - h c * T c * ((intervals (r0 :: rs)).map fun r => ovl r.1 r.2 c.1 c.2).sum := by
      rw [sum_map_mul_left_k, sum_map_mul_left_k, sum_map_sub_k]
      congr 1
      apply List.map_congr_left
      intro r _
      ring
    have e2 : ((intervals (r0 :: rs)).map fun r => ovl r.1 r.2 c.1 c.2 / (c.2 - c.1) * Ts r).sum
        = ((intervals (r0 :: rs)).map fun r => ovl r.1 r.2 c.1 c.2 * Ts r).sum / (c.2 - c.1) := by
      rw [div_eq_mul_inv, ← sum_map_mul_right_k]
      congr 1
      apply List.map_congr_left
      intro r _
      ring
    rw [e1, e2, hcol]
    field_simp
  rw [List.map_congr_left hL, List.map_congr_left hR, sum_swap]

/-! ### summed over the sweep

The per-step statements (`c02_gap_step_*`, `c02_interface`, C01's bundle and low-fidelity balances, C01's region carry-over) say that
over one step the enthalpy flow `H` of all assembly and gap coolant rises by the power `q` delivered in that step.  Over any number
of steps the rises telescope: outlet enthalpy flow = inlet enthalpy flow + total power delivered. -/

/-- every step closes: consecutive plane values `H` differ by the power `q` delivered in the step between them -/
def StepsClose : List K → List K → Prop
  | h0 :: h1 :: hs, q :: qs => h1 - h0 = q ∧ StepsClose (h1 :: hs) qs
  | [_], [] => True
  | _, _ => False

/-- enthalpy flows at the planes `H₀, H₁, …, Hₙ` and the power delivered in each of the `n` steps: if every step closes, the sweep
closes - for any number of steps -/
theorem c02_sweep_telescopes [LinearOrder K] [IsStrictOrderedRing K] (h0 : K) (hs qs : List K)
    (hc : StepsClose (h0 :: hs) qs) : (h0 :: hs).getLast (by simp) - h0 = qs.sum := by
  induction hs generalizing h0 qs with
  | nil =>
    cases qs with
    | nil => simp
    | cons q qs => simp [StepsClose] at hc
  | cons h1 t ih =>
    cases qs with
    | nil => simp [StepsClose] at hc
    | cons q qs' =>
      obtain ⟨h01, hrest⟩ := hc
      have := ih h1 qs' hrest
      rw [List.getLast_cons (by simp)]
      simp only [List.sum_cons]
      linarith

/-- non-vacuity: three planes, two steps -/
example : StepsClose [(1 : ℚ), 3, 6] [2, 3] := by simp [StepsClose]; norm_num

end Dassh.Props.C02
