/-
C03 — the power deposited over the sweep equals the power assigned.
Theorems about `Dassh.Model.Power` over any field (tied to the code by the
correspondence check on real AssemblyPower objects).
-/
import Dassh.Model.Power
import Dassh.Gen.C04
import Mathlib.Algebra.Order.Field.Basic
import Mathlib.Algebra.Order.Field.Rat
import Mathlib.Tactic.Linarith
import Mathlib.Tactic.Ring
import Mathlib.Tactic.FieldSimp
import Mathlib.Tactic.NormNum

namespace Dassh.Props.C03
open Dassh.Model.Power

variable {K : Type} [Field K] [DecidableEq K]

theorem sumBy_eq (f : Step K → K) (steps : List (Step K)) (acc : K) :
    steps.foldl (fun a s => a + f s) acc = acc + (steps.map f).sum := by
  induction steps generalizing acc with
  | nil => simp
  | cons s t ih => simp only [List.foldl_cons, List.map_cons, List.sum_cons, ih]; ring

theorem sumBy_sum (f : Step K → K) (steps : List (Step K)) : sumBy f steps = (steps.map f).sum := by
  unfold sumBy; rw [sumBy_eq]; ring

/-- splitting a sum over the steps into in-bundle and out-of-bundle parts -/
theorem sum_split (f : Step K → K) (steps : List (Step K)) :
    (steps.map f).sum = ((steps.filter (·.inBundle)).map f).sum + ((steps.filter (fun s => !s.inBundle)).map f).sum := by
  induction steps with
  | nil => simp
  | cons s t ih =>
    simp only [List.map_cons, List.sum_cons, List.filter_cons, ih]
    cases s.inBundle <;> simp <;> ring

/-- **Power of one cell is preserved (corrected renormalisation).**  Whatever part of the cell lies
inside the pin bundle, if the steps tile the cell and the in-bundle midpoint sum is non-zero,
the sweep deposits exactly `avg · Δz` in the cell. -/
theorem c03_cell_fixed (avg cellLen : K) (steps : List (Step K))
    (htile : (steps.map (·.dz)).sum = cellLen)
    (hnz : ((steps.filter (·.inBundle)).map fun s => s.p * s.dz).sum ≠ 0) :
    delivered true avg cellLen steps = avg * cellLen := by
  unfold delivered renorm
  simp only [if_true, sumBy_sum]
  rw [if_neg hnz]
  set T := ((steps.filter (·.inBundle)).map fun s => s.p * s.dz).sum with hT
  set Din := ((steps.filter (·.inBundle)).map (·.dz)).sum with hDin
  rw [sum_split]
  have hin : ((steps.filter (·.inBundle)).map fun s =>
      if s.inBundle = true then avg * Din / T * s.p * s.dz else avg * s.dz).sum = avg * Din / T * T := by
    rw [hT]
    generalize avg * Din / T = r
    have : ∀ l : List (Step K), (∀ s ∈ l, s.inBundle = true) →
        (l.map fun s => if s.inBundle = true then r * s.p * s.dz else avg * s.dz).sum = r * (l.map fun s => s.p * s.dz).sum := by
      intro l hl
      induction l with
      | nil => simp
      | cons s t ih =>
        simp only [List.map_cons, List.sum_cons]
        rw [if_pos (hl s List.mem_cons_self), ih (fun x hx => hl x (List.mem_cons_of_mem _ hx))]
        ring
    exact this _ (fun s hs => (List.mem_filter.mp hs).2)
  have hout : ((steps.filter (fun s => !s.inBundle)).map fun s =>
      if s.inBundle = true then avg * Din / T * s.p * s.dz else avg * s.dz).sum
        = avg * ((steps.filter (fun s => !s.inBundle)).map (·.dz)).sum := by
    generalize avg * Din / T = r
    have : ∀ l : List (Step K), (∀ s ∈ l, s.inBundle = false) →
        (l.map fun s => if s.inBundle = true then r * s.p * s.dz else avg * s.dz).sum = avg * (l.map (·.dz)).sum := by
      intro l hl
      induction l with
      | nil => simp
      | cons s t ih =>
        simp only [List.map_cons, List.sum_cons]
        rw [if_neg (by simp [hl s List.mem_cons_self]), ih (fun x hx => hl x (List.mem_cons_of_mem _ hx))]
        ring
    apply this
    intro s hs
    have := (List.mem_filter.mp hs).2
    simpa using this
  rw [hin, hout, ← htile, sum_split (·.dz) steps, ← hDin]
  field_simp

/-- With every step of the cell inside the bundle the original and the corrected renormalisation
coincide and both preserve the power of the cell (the aligned case). -/
theorem c03_cell_aligned (avg cellLen : K) (steps : List (Step K))
    (hall : ∀ s ∈ steps, s.inBundle = true)
    (htile : (steps.map (·.dz)).sum = cellLen)
    (hnz : (steps.map fun s => s.p * s.dz).sum ≠ 0) :
    delivered false avg cellLen steps = avg * cellLen := by
  unfold delivered renorm
  simp only [sumBy_sum, Bool.false_eq_true, if_false]
  rw [if_neg hnz]
  have : ∀ r : K, (steps.map fun s => if s.inBundle = true then r * s.p * s.dz else avg * s.dz).sum
      = r * (steps.map fun s => s.p * s.dz).sum := by
    intro r
    clear hnz htile
    induction steps with
    | nil => simp
    | cons s t ih =>
      simp only [List.map_cons, List.sum_cons]
      rw [if_pos (hall s List.mem_cons_self), ih (fun x hx => hall x (List.mem_cons_of_mem _ hx))]
      ring
  rw [this]
  field_simp

/-- **The defect of the original renormalisation**: when the bundle boundary falls inside a power
cell, the original formula deposits a different power.  Concrete witness over ℚ: a cell of length 2
with average 10, sampled as p = 8 outside the bundle and p = 12 inside (two unit steps):
the original code deposits 22, the assigned power is 20. -/
theorem c03_unaligned_counter :
    delivered false (10 : ℚ) 2 [⟨1, 8, false⟩, ⟨1, 12, true⟩] = 22
    ∧ delivered true (10 : ℚ) 2 [⟨1, 8, false⟩, ⟨1, 12, true⟩] = 20 := by
  constructor <;> (simp [delivered, renorm, sumBy]; norm_num)

/-- **Core normalisation and scaling**: after `_setup_scale_asm_power` the assembly totals sum to
the requested core power times the scaling factor. -/
theorem c03_core_total (totals : List K) (ptotUser pscalar : K) (hcalc : totals.sum ≠ 0) (hu : ptotUser ≠ 0) :
    (totals.map fun t => t * scaleFactor totals.sum (some ptotUser) pscalar).sum = ptotUser * pscalar := by
  unfold scaleFactor
  simp only [if_neg hu, if_neg hcalc]
  have : ∀ (l : List K) (k : K), (l.map fun t => t * k).sum = l.sum * k := by
    intro l k
    induction l with
    | nil => simp
    | cons x t ih => simp only [List.map_cons, List.sum_cons, ih]; ring
  rw [this]
  field_simp

/-- without a requested total the totals are only scaled -/
theorem c03_core_total_unnormalised (totals : List K) (pscalar : K) :
    (totals.map fun t => t * scaleFactor totals.sum none pscalar).sum = totals.sum * pscalar := by
  unfold scaleFactor
  have : ∀ (l : List K) (k : K), (l.map fun t => t * k).sum = l.sum * k := by
    intro l k
    induction l with
    | nil => simp
    | cons x t ih => simp only [List.map_cons, List.sum_cons, ih]; ring
  rw [this]; ring

/-- **Linearity in the power**: scaling every profile sample and the cell average by `s ≠ 0` leaves
the renormalisation factor unchanged, so every deposited step power scales by `s`. -/
theorem c03_renorm_scale_invariant (fixed : Bool) (avg cellLen s : K) (hs : s ≠ 0) (steps : List (Step K)) :
    renorm fixed (s * avg) cellLen (steps.map fun st => { st with p := s * st.p }) = renorm fixed avg cellLen steps := by
  unfold renorm
  simp only [sumBy_sum]
  have hsel : ∀ l : List (Step K),
      ((l.map fun st : Step K => { st with p := s * st.p }).map fun st => st.p * st.dz).sum
        = s * (l.map fun st => st.p * st.dz).sum := by
    intro l
    induction l with
    | nil => simp
    | cons x t ih => simp only [List.map_cons, List.sum_cons, ih]; ring
  have hdz : ∀ l : List (Step K),
      ((l.map fun st : Step K => { st with p := s * st.p }).map (·.dz)).sum = (l.map (·.dz)).sum := by
    intro l
    induction l with
    | nil => simp
    | cons x t ih => simp only [List.map_cons, List.sum_cons, ih]
  have hfilt : (steps.map fun st : Step K => { st with p := s * st.p }).filter (·.inBundle)
      = (steps.filter (·.inBundle)).map fun st => { st with p := s * st.p } := by
    induction steps with
    | nil => simp
    | cons x t ih =>
      simp only [List.map_cons, List.filter_cons]
      by_cases hx : x.inBundle = true
      · simp only [hx, if_true, List.map_cons, ih]
      · simp only [hx, ih]; simp
  cases fixed
  · simp only [Bool.false_eq_true, if_false, hsel]
    by_cases h0 : (steps.map fun st => st.p * st.dz).sum = 0
    · simp [h0]
    · have : s * (steps.map fun st => st.p * st.dz).sum ≠ 0 := mul_ne_zero hs h0
      rw [if_neg this, if_neg h0]
      field_simp
  · simp only [if_true, hfilt, hsel, hdz]
    by_cases h0 : ((steps.filter (·.inBundle)).map fun st => st.p * st.dz).sum = 0
    · simp [h0]
    · have : s * ((steps.filter (·.inBundle)).map fun st => st.p * st.dz).sum ≠ 0 := mul_ne_zero hs h0
      rw [if_neg this, if_neg h0]
      field_simp


/-! ### Temperature rise is linear in the power (constant properties)

For every neighbour-type class of the traced interior update (`Dassh.Gen.C04`), the heating
term is homogeneous in the heat sources: multiplying pin and coolant powers by `s` multiplies
the heating term by `s`, while the weights of the temperatures do not depend on the power
(`ConvexStep` in Props/C04).  By induction over the sweep, every temperature rise above the
inlet scales by `s`. -/
set_option hygiene false in
open Lean in
macro "c03_lin_class " x:ident : command => do
  let s := x.getId.toString
  let mk (p : String) : Ident := mkIdent (Name.mkSimple (p ++ s))
  let mkB : Ident := mkIdent (`Dassh.Gen.C04 ++ Name.mkSimple ("B_" ++ s))
  `(theorem $(mk "c03_lin_") (e : Dassh.Gen.C04.Env K) (c : Dassh.Gen.C04.Cell K) (s : K) :
      $mkB e { c with qa := s * c.qa, qb := s * c.qb, qc := s * c.qc, qcool := s * c.qcool }
        = s * $mkB e c := by
    simp only [gen_defs]
    ring)

c03_lin_class int_1_111_ca
c03_lin_class int_1_111_std
c03_lin_class int_1_112_ca
c03_lin_class int_1_112_std
c03_lin_class int_2_122_ca_d1
c03_lin_class int_2_122_ca_d2
c03_lin_class int_2_122_std_d1
c03_lin_class int_2_122_std_d2
c03_lin_class int_2_123_ca_d1
c03_lin_class int_2_123_ca_d2
c03_lin_class int_2_123_std_d1
c03_lin_class int_2_123_std_d2
c03_lin_class int_2_133_ca_d1
c03_lin_class int_2_133_ca_d2
c03_lin_class int_2_133_std_d1
c03_lin_class int_2_133_std_d2
c03_lin_class int_3_22_ca_d0
c03_lin_class int_3_22_ca_d1
c03_lin_class int_3_22_std_d0
c03_lin_class int_3_22_std_d1

end Dassh.Props.C03
