/-
C08 — bundle topology and geometry are well-formed for every ring count.

Topology: `Dassh.Gen.C08All.wellformed_<n>` (generated; one per dumped ring count)
turns the kernel-decided table certificates into propositions about the tables the
running code builds.  Geometry: the theorems below are about `Dassh.Gen.C08Geo`,
the trace of `calculate_geometry` with a SYMBOLIC ring count, so they hold for
every `n` at once.  `s3` is √3 (hypothesis `s3 * s3 = 3`), `pi` is arbitrary.
-/
import Dassh.Gen.C08Geo
import Dassh.Gen.C08All
import Mathlib.Algebra.Order.Field.Basic
import Mathlib.Tactic.FieldSimp
import Mathlib.Tactic.Ring
import Mathlib.Tactic.Linarith
import Mathlib.Tactic.Positivity
import Mathlib.Tactic.LinearCombination
import Mathlib.Tactic.NormNum
import Mathlib.Algebra.Order.Field.Rat

namespace Dassh.Props.C08
open Dassh.Gen.C08Geo

variable {K : Type} [Field K] [LinearOrder K] [IsStrictOrderedRing K]
variable (sqrtF : K → K) (n P D Pw Dw F0i F0o F1i F1o F2i F2o s3 pi : K)

/-- cos θ of the wire as the code computes it -/
def cosTheta (sqrtF : K → K) (D Pw Dw pi : K) : K := Pw / sqrtF (Pw ^ 2 + (pi * (D + Dw)) ^ 2)

/-- Subchannel flow areas + pin and wire cross-sections tile the inner duct hexagon:
6(n−1)²·A₁ + 6(n−1)·A₂ + 6·A₃ + (3n(n−1)+1)·(πD²/4 + πD_w²/(4 cos θ)) = (√3/2)·F². -/
theorem c08_area_tiling (hs3 : s3 * s3 = 3) (hPw : Pw ≠ 0)
    (hsq : sqrtF (Pw ^ 2 + (pi * (D + Dw)) ^ 2) ≠ 0) :
    bundle_area sqrtF n P D Pw Dw F0i F0o F1i F1o F2i F2o s3 pi
      + (3 * n * (n - 1) + 1) * (pi * D ^ 2 / 4 + pi * Dw ^ 2 / (4 * cosTheta sqrtF D Pw Dw pi))
      = s3 / 2 * F0i ^ 2 := by
  have hs : s3 ≠ 0 := by
    intro h; rw [h] at hs3; norm_num at hs3
  simp only [gen_defs, cosTheta]
  generalize sqrtF (Pw ^ 2 + (pi * (D + Dw)) ^ 2) = sq at *
  field_simp
  have h2 : s3 ^ 2 = 3 := by rw [pow_two]; exact hs3
  ring_nf
  simp only [h2, show s3 ^ 3 = s3 ^ 2 * s3 by ring, show s3 ^ 4 = s3 ^ 2 * s3 ^ 2 by ring]
  ring

/-- The same with the SE2ANL geometry flag (cos θ = 1). -/
theorem c08_area_tiling_se2 (hs3 : s3 * s3 = 3) :
    bundle_area_se2 sqrtF n P D Pw Dw F0i F0o F1i F1o F2i F2o s3 pi
      + (3 * n * (n - 1) + 1) * (pi * D ^ 2 / 4 + pi * Dw ^ 2 / 4)
      = s3 / 2 * F0i ^ 2 := by
  have hs : s3 ≠ 0 := by
    intro h; rw [h] at hs3; norm_num at hs3
  simp only [gen_defs]
  field_simp
  have h2 : s3 ^ 2 = 3 := by rw [pow_two]; exact hs3
  ring_nf
  simp only [h2, show s3 ^ 3 = s3 ^ 2 * s3 by ring, show s3 ^ 4 = s3 ^ 2 * s3 ^ 2 by ring]
  ring

/-- Duct-wall cells tile the wall annulus (each of the three ducts):
6(n−1)·A_edge + 6·A_corner = (√3/2)(F_o² − F_i²). -/
theorem c08_duct_tiling (hs3 : s3 * s3 = 3) :
    6 * (n - 1) * duct_edge_0 sqrtF n P D Pw Dw F0i F0o F1i F1o F2i F2o s3 pi
        + 6 * duct_corner_0 sqrtF n P D Pw Dw F0i F0o F1i F1o F2i F2o s3 pi
      = duct_total_0 sqrtF n P D Pw Dw F0i F0o F1i F1o F2i F2o s3 pi
    ∧ 6 * (n - 1) * duct_edge_1 sqrtF n P D Pw Dw F0i F0o F1i F1o F2i F2o s3 pi
        + 6 * duct_corner_1 sqrtF n P D Pw Dw F0i F0o F1i F1o F2i F2o s3 pi
      = duct_total_1 sqrtF n P D Pw Dw F0i F0o F1i F1o F2i F2o s3 pi
    ∧ 6 * (n - 1) * duct_edge_2 sqrtF n P D Pw Dw F0i F0o F1i F1o F2i F2o s3 pi
        + 6 * duct_corner_2 sqrtF n P D Pw Dw F0i F0o F1i F1o F2i F2o s3 pi
      = duct_total_2 sqrtF n P D Pw Dw F0i F0o F1i F1o F2i F2o s3 pi := by
  have hs : s3 ≠ 0 := by
    intro h; rw [h] at hs3; norm_num at hs3
  have h2 : s3 ^ 2 = 3 := by rw [pow_two]; exact hs3
  refine ⟨?_, ?_, ?_⟩ <;>
  · simp only [gen_defs]
    field_simp
    ring_nf
    simp only [h2, show s3 ^ 3 = s3 ^ 2 * s3 by ring, show s3 ^ 4 = s3 ^ 2 * s3 ^ 2 by ring]
    ring

/-- Bypass cells tile the gap between consecutive ducts. -/
theorem c08_bypass_tiling (hs3 : s3 * s3 = 3) :
    6 * (n - 1) * byp_edge_0 sqrtF n P D Pw Dw F0i F0o F1i F1o F2i F2o s3 pi
        + 6 * byp_corner_0 sqrtF n P D Pw Dw F0i F0o F1i F1o F2i F2o s3 pi
      = byp_total_0 sqrtF n P D Pw Dw F0i F0o F1i F1o F2i F2o s3 pi
    ∧ 6 * (n - 1) * byp_edge_1 sqrtF n P D Pw Dw F0i F0o F1i F1o F2i F2o s3 pi
        + 6 * byp_corner_1 sqrtF n P D Pw Dw F0i F0o F1i F1o F2i F2o s3 pi
      = byp_total_1 sqrtF n P D Pw Dw F0i F0o F1i F1o F2i F2o s3 pi := by
  have hs : s3 ≠ 0 := by
    intro h; rw [h] at hs3; norm_num at hs3
  have h2 : s3 ^ 2 = 3 := by rw [pow_two]; exact hs3
  refine ⟨?_, ?_⟩ <;>
  · simp only [gen_defs]
    field_simp
    ring_nf
    simp only [h2, show s3 ^ 3 = s3 ^ 2 * s3 by ring, show s3 ^ 4 = s3 ^ 2 * s3 ^ 2 by ring]
    ring

/-- Centroid distances are symmetric and the edge-edge distance is the pin pitch
(used as hypotheses by the C01 / C04 theorems). -/
theorem c08_L_symmetric :
    L_1_0 sqrtF n P D Pw Dw F0i F0o F1i F1o F2i F2o s3 pi = L_0_1 sqrtF n P D Pw Dw F0i F0o F1i F1o F2i F2o s3 pi
    ∧ L_2_1 sqrtF n P D Pw Dw F0i F0o F1i F1o F2i F2o s3 pi = L_1_2 sqrtF n P D Pw Dw F0i F0o F1i F1o F2i F2o s3 pi
    ∧ L_1_1 sqrtF n P D Pw Dw F0i F0o F1i F1o F2i F2o s3 pi = P := by
  simp only [gen_defs, and_self]

/-- Slab constants the duct-wall solution uses (hypotheses of the C11 theorems). -/
theorem c08_slab_constants :
    duct_L2_0 sqrtF n P D Pw Dw F0i F0o F1i F1o F2i F2o s3 pi
      = duct_thick_0 sqrtF n P D Pw Dw F0i F0o F1i F1o F2i F2o s3 pi / 2
    ∧ duct_L28_0 sqrtF n P D Pw Dw F0i F0o F1i F1o F2i F2o s3 pi
      = duct_thick_0 sqrtF n P D Pw Dw F0i F0o F1i F1o F2i F2o s3 pi ^ 2 / 8
    ∧ duct_L2_1 sqrtF n P D Pw Dw F0i F0o F1i F1o F2i F2o s3 pi
      = duct_thick_1 sqrtF n P D Pw Dw F0i F0o F1i F1o F2i F2o s3 pi / 2
    ∧ duct_L28_1 sqrtF n P D Pw Dw F0i F0o F1i F1o F2i F2o s3 pi
      = duct_thick_1 sqrtF n P D Pw Dw F0i F0o F1i F1o F2i F2o s3 pi ^ 2 / 8
    ∧ duct_L2_2 sqrtF n P D Pw Dw F0i F0o F1i F1o F2i F2o s3 pi
      = duct_thick_2 sqrtF n P D Pw Dw F0i F0o F1i F1o F2i F2o s3 pi / 2
    ∧ duct_L28_2 sqrtF n P D Pw Dw F0i F0o F1i F1o F2i F2o s3 pi
      = duct_thick_2 sqrtF n P D Pw Dw F0i F0o F1i F1o F2i F2o s3 pi ^ 2 / 8 := by
  refine ⟨?_, ?_, ?_, ?_, ?_, ?_⟩ <;> (simp only [gen_defs]; ring)

/-- Corner wall lengths grow outwards (hypothesis of `c04_byp_7_66_ca`). -/
theorem c08_corner_lengths_monotone (hs3 : 0 < s3) (h1 : F0i ≤ F0o) (h2 : F0o ≤ F1i) (h3 : F1i ≤ F1o) :
    wc_0_0 sqrtF n P D Pw Dw F0i F0o F1i F1o F2i F2o s3 pi ≤ wc_0_1 sqrtF n P D Pw Dw F0i F0o F1i F1o F2i F2o s3 pi
    ∧ wc_0_1 sqrtF n P D Pw Dw F0i F0o F1i F1o F2i F2o s3 pi ≤ wc_1_0 sqrtF n P D Pw Dw F0i F0o F1i F1o F2i F2o s3 pi
    ∧ wc_0_1 sqrtF n P D Pw Dw F0i F0o F1i F1o F2i F2o s3 pi ≤ wc_1_1 sqrtF n P D Pw Dw F0i F0o F1i F1o F2i F2o s3 pi := by
  simp only [gen_defs]
  have a1 : 0 ≤ 1 / 2 * (F0o - F0i) / s3 := by
    apply div_nonneg _ hs3.le; nlinarith
  have a2 : 0 ≤ 1 / 2 * (F1i - F0o) / s3 := by
    apply div_nonneg _ hs3.le; nlinarith
  have a3 : 0 ≤ 1 / 2 * (F1o - F1i) / s3 := by
    apply div_nonneg _ hs3.le; nlinarith
  refine ⟨by linarith, by linarith, by linarith⟩

/-- Non-vacuity: over ℝ-like fields the hypothesis `s3 * s3 = 3` is the definition of √3;
over ℚ the geometry definitions evaluate (sample bundle, s3 replaced by 2 for evaluation only). -/
example : L_1_1 (fun x : ℚ => x) 5 (8/1000) (65/10000) (2/10) (12/10000) (5/100) (54/1000) (58/1000) (62/1000)
    (66/1000) (7/100) 2 3 = 8 / 1000 := by
  simp only [gen_defs]

end Dassh.Props.C08
