/-
C18, the clause "overlapping or inverted axial regions are rejected" and "every input the reader accepts can be set up":
theorems about `Dassh.Model.AcceptRegions` (the reader's `check_unrodded_regions`, tied to the real method by the
correspondence check of C18).

The reader sorts the lower and the upper bounds of the user's regions separately and then reasons about the sorted lists.
`c18_regions_pairing` shows that this is sound exactly because every USER region is first required to have positive height:
for an accepted input the i-th smallest lower bound and the i-th smallest upper bound belong to the same user region.  Without
that per-region test the re-pairing hides a zero-height region nested in another one (`c18_regions_sorted_test_unsound`).
-/
import Dassh.Model.AcceptRegions
import Mathlib.Algebra.Order.Field.Basic
import Mathlib.Algebra.Order.Field.Rat
import Mathlib.Algebra.BigOperators.Group.List.Basic
import Mathlib.Algebra.Order.BigOperators.Group.List
import Mathlib.Data.List.Basic
import Mathlib.Data.List.Perm.Basic
import Mathlib.Tactic.Linarith
import Mathlib.Tactic.NormNum

namespace Dassh.Props.C18Regions
open Dassh.Model.AcceptRegions

set_option linter.unusedSectionVars false

variable {K : Type} [Field K] [LinearOrder K] [IsStrictOrderedRing K]

/-! ### the sort -/

theorem insertSorted_perm (x : K) (l : List K) : (insertSorted x l).Perm (x :: l) := by
  induction l with
  | nil => simp [insertSorted]
  | cons y t ih =>
    unfold insertSorted
    split
    · exact List.Perm.refl _
    · exact (List.Perm.cons y ih).trans (List.Perm.swap x y t)

theorem sortL_perm (l : List K) : (sortL l).Perm l := by
  induction l with
  | nil => simp [sortL]
  | cons x t ih => exact (insertSorted_perm x (sortL t)).trans (List.Perm.cons x ih)

theorem insertSorted_sorted (x : K) (l : List K) (h : l.Pairwise (· ≤ ·)) : (insertSorted x l).Pairwise (· ≤ ·) := by
  induction l with
  | nil => simp [insertSorted]
  | cons y t ih =>
    unfold insertSorted
    have hy := List.pairwise_cons.mp h
    split
    · rename_i hxy
      exact List.pairwise_cons.mpr ⟨fun z hz => by
        rcases List.mem_cons.mp hz with rfl | hz
        · exact hxy
        · exact le_trans hxy (hy.1 z hz), h⟩
    · rename_i hxy
      refine List.pairwise_cons.mpr ⟨fun z hz => ?_, ih hy.2⟩
      rcases List.mem_cons.mp ((insertSorted_perm x t).subset hz) with rfl | hz
      · exact le_of_lt (not_le.mp hxy)
      · exact hy.1 z hz

theorem sortL_sorted (l : List K) : (sortL l).Pairwise (· ≤ ·) := by
  induction l with
  | nil => simp [sortL]
  | cons x t ih => exact insertSorted_sorted x _ ih

/-! ### the spaces between the sorted regions -/

/-- `gaps` with an arbitrary lower end `b` instead of 0 -/
def gapsFrom (b L : K) (lo hi : List K) : List K := List.zipWith (· - ·) (lo ++ [L]) (b :: hi)

theorem gaps_eq (L : K) (lo hi : List K) : gaps L lo hi = gapsFrom 0 L lo hi := rfl

@[simp] theorem gapsFrom_nil (b L : K) : gapsFrom b L [] [] = [L - b] := rfl

@[simp] theorem gapsFrom_cons (b L l h : K) (lo hi : List K) :
    gapsFrom b L (l :: lo) (h :: hi) = (l - b) :: gapsFrom h L lo hi := rfl

/-- the sorted bounds interleave: every upper bound is at most every later lower bound -/
def Inter : List K → List K → Prop
  | [], [] => True
  | _ :: lo, h :: hi => (∀ x ∈ lo, h ≤ x) ∧ Inter lo hi
  | _, _ => False

theorem inter_of_gaps (b L : K) (lo hi : List K) (hlen : lo.length = hi.length) (hs : lo.Pairwise (· ≤ ·))
    (hg : ∀ v ∈ gapsFrom b L lo hi, 0 ≤ v) : Inter lo hi := by
  induction lo generalizing b hi with
  | nil => cases hi with
    | nil => trivial
    | cons _ _ => simp at hlen
  | cons l lo ih =>
    cases hi with
    | nil => simp at hlen
    | cons h hi =>
      rw [gapsFrom_cons] at hg
      have hs' := List.pairwise_cons.mp hs
      refine ⟨fun x hx => ?_, ih h hi (by simpa using hlen) hs'.2 (fun v hv => hg v (List.mem_cons_of_mem _ hv))⟩
      cases lo with
      | nil => simp at hx
      | cons l1 lo1 =>
        cases hi with
        | nil => simp at hlen
        | cons h1 hi1 =>
          have h1' : 0 ≤ l1 - h := hg _ (by simp)
          have : l1 ≤ x := by
            rcases List.mem_cons.mp hx with rfl | hx'
            · exact le_refl _
            · exact (List.pairwise_cons.mp hs'.2).1 x hx'
          linarith

/-- the key step: with positive user regions and interleaving sorted bounds, sorting the lower and the upper bounds
separately re-creates the user's own pairs -/
theorem pairing (regs : List (K × K)) (lo hi : List K)
    (hlo : lo.Perm (regs.map Prod.fst)) (hhi : hi.Perm (regs.map Prod.snd))
    (hpos : ∀ r ∈ regs, r.1 < r.2) (hI : Inter lo hi) : regs.Perm (lo.zip hi) := by
  induction lo generalizing regs hi with
  | nil =>
    have : regs = [] := by
      have := hlo.length_eq
      simpa using this.symm
    subst this; simp
  | cons l lo ih =>
    cases hi with
    | nil => exact absurd hI (by simp [Inter])
    | cons h hi =>
      obtain ⟨hIx, hI'⟩ := hI
      -- the user region owning the smallest lower bound
      have hl : l ∈ regs.map Prod.fst := hlo.subset (by simp)
      obtain ⟨r, hr, hr1⟩ := List.mem_map.mp hl
      have hperm : regs.Perm (r :: regs.erase r) := List.perm_cons_erase hr
      have hlo' : lo.Perm ((regs.erase r).map Prod.fst) := by
        have := hlo.trans (hperm.map Prod.fst)
        simp only [List.map_cons, hr1] at this
        exact this.cons_inv
      -- it also owns the smallest upper bound
      have hr2 : r.2 = h := by
        by_contra hne
        have hh : h ∈ regs.map Prod.snd := hhi.subset (by simp)
        obtain ⟨r', hr', hr'2⟩ := List.mem_map.mp hh
        have hne' : r' ≠ r := fun e => hne (by rw [← e, hr'2])
        have hmem : r' ∈ regs.erase r := (List.mem_erase_of_ne hne').mpr hr'
        have : r'.1 ∈ lo := hlo'.symm.subset (List.mem_map.mpr ⟨r', hmem, rfl⟩)
        have h1 := hIx _ this
        have h2 := hpos r' hr'
        rw [hr'2] at h2
        exact absurd h1 (not_le.mpr h2)
      have hhi' : hi.Perm ((regs.erase r).map Prod.snd) := by
        have := hhi.trans (hperm.map Prod.snd)
        simp only [List.map_cons, hr2] at this
        exact this.cons_inv
      have hrec := ih (regs.erase r) hi hlo' hhi' (fun s hs => hpos s (List.mem_of_mem_erase hs)) hI'
      have : r = (l, h) := Prod.ext hr1 hr2
      rw [List.zip_cons_cons, ← this]
      exact hperm.trans (List.Perm.cons r hrec)

/-- sorted pairs are ordered and disjoint -/
theorem zip_pairwise (lo hi : List K) (hI : Inter lo hi) : (lo.zip hi).Pairwise (fun r s => r.2 ≤ s.1) := by
  induction lo generalizing hi with
  | nil => simp
  | cons l lo ih =>
    cases hi with
    | nil => simp
    | cons h hi =>
      obtain ⟨hIx, hI'⟩ := hI
      rw [List.zip_cons_cons]
      exact List.pairwise_cons.mpr ⟨fun s hs => hIx _ (List.of_mem_zip hs).1, ih hi hI'⟩

/-- the chain `b ≤ lo₀ < hi₀ ≤ lo₁ < … ≤ L` -/
theorem chain_bounds (b L : K) (lo hi : List K) (hlen : lo.length = hi.length)
    (hg : ∀ v ∈ gapsFrom b L lo hi, 0 ≤ v) (hp : ∀ p ∈ lo.zip hi, p.1 < p.2) :
    b ≤ L ∧ (∀ x ∈ lo, b ≤ x) ∧ ∀ y ∈ hi, y ≤ L := by
  induction lo generalizing b hi with
  | nil => cases hi with
    | nil =>
      have := hg (L - b) (by simp)
      exact ⟨by linarith, by simp, by simp⟩
    | cons _ _ => simp at hlen
  | cons l lo ih =>
    cases hi with
    | nil => simp at hlen
    | cons h hi =>
      rw [gapsFrom_cons] at hg
      have h0 : 0 ≤ l - b := hg _ (by simp)
      have hlh : l < h := hp (l, h) (by simp)
      obtain ⟨hL, hx, hy⟩ := ih h hi (by simpa using hlen) (fun v hv => hg v (List.mem_cons_of_mem _ hv))
        (fun p hp' => hp p (by rw [List.zip_cons_cons]; exact List.mem_cons_of_mem _ hp'))
      refine ⟨by linarith, fun x hx' => ?_, fun y hy' => ?_⟩
      · rcases List.mem_cons.mp hx' with rfl | hx'
        · linarith
        · have := hx x hx'; linarith
      · rcases List.mem_cons.mp hy' with rfl | hy'
        · exact hL
        · exact hy y hy'

/-- spaces + region heights tile `[b, L]` -/
theorem telescope (b L : K) (lo hi : List K) (hlen : lo.length = hi.length) :
    (gapsFrom b L lo hi).sum + ((lo.zip hi).map fun p => p.2 - p.1).sum = L - b := by
  induction lo generalizing b hi with
  | nil => cases hi with
    | nil => simp
    | cons _ _ => simp at hlen
  | cons l lo ih =>
    cases hi with
    | nil => simp at hlen
    | cons h hi =>
      have := ih h hi (by simpa using hlen)
      simp only [gapsFrom_cons, List.zip_cons_cons, List.map_cons, List.sum_cons]
      linarith

/-! ### the reader's verdict -/

/-- what acceptance gives, unfolded -/
theorem accept_unfold (L : K) (regs : List (K × K)) (h : checkRegions L regs = .ok ()) :
    (∀ r ∈ regs, r.1 < r.2)
    ∧ (∀ v ∈ gaps L (sortL (regs.map (·.1))) (sortL (regs.map (·.2))), 0 ≤ v)
    ∧ ((gaps L (sortL (regs.map (·.1))) (sortL (regs.map (·.2)))).filter (fun v => decide (v ≠ 0))).length ≤ 1
    ∧ ∃ v ∈ gaps L (sortL (regs.map (·.1))) (sortL (regs.map (·.2))), v ≠ 0 := by
  unfold checkRegions at h
  simp only at h
  split at h
  · cases h
  · rename_i h1
    split at h
    · cases h
    · rename_i h2
      split at h
      · cases h
      · rename_i h3
        split at h
        · cases h
        · rename_i h4
          refine ⟨fun r hr => ?_, fun v hv => ?_, not_lt.mp h3, ?_⟩
          · by_contra hc
            exact h1 (List.any_eq_true.mpr ⟨r, hr, by simpa using not_lt.mp hc⟩)
          · by_contra hc
            exact h2 (List.any_eq_true.mpr ⟨v, hv, by simpa using not_le.mp hc⟩)
          · by_contra hc
            push Not at hc
            exact h4 (List.all_eq_true.mpr fun v hv => by simpa using hc v hv)

/-- **Sorting is harmless for accepted inputs**: the user's regions are exactly the pairs (i-th smallest lower bound,
i-th smallest upper bound) -/
theorem c18_regions_pairing (L : K) (regs : List (K × K)) (h : checkRegions L regs = .ok ()) :
    regs.Perm ((sortL (regs.map (·.1))).zip (sortL (regs.map (·.2)))) := by
  obtain ⟨hpos, hg, _, _⟩ := accept_unfold L regs h
  have hlen : (sortL (regs.map (·.1))).length = (sortL (regs.map (·.2))).length := by
    rw [(sortL_perm _).length_eq, (sortL_perm _).length_eq]; simp
  exact pairing regs _ _ (sortL_perm _) (sortL_perm _) hpos
    (inter_of_gaps 0 L _ _ hlen (sortL_sorted _) (by rw [← gaps_eq]; exact hg))

/-- **Acceptance implies a well-posed axial layout**: every user region has positive height and lies inside the core, any two
user regions are disjoint (they may touch), exactly one of the spaces left by the regions is non-empty (the rodded region),
and the regions leave a positive length for it -/
theorem c18_regions_accept (L : K) (regs : List (K × K)) (h : checkRegions L regs = .ok ()) :
    (∀ r ∈ regs, r.1 < r.2)
    ∧ (∀ r ∈ regs, 0 ≤ r.1 ∧ r.2 ≤ L)
    ∧ regs.Pairwise (fun r s => r.2 ≤ s.1 ∨ s.2 ≤ r.1)
    ∧ ((gaps L (sortL (regs.map (·.1))) (sortL (regs.map (·.2)))).filter (fun v => decide (v ≠ 0))).length = 1
    ∧ (regs.map fun r => r.2 - r.1).sum < L := by
  have hperm := c18_regions_pairing L regs h
  obtain ⟨hpos, hg, hle, v, hv, hv0⟩ := accept_unfold L regs h
  set lo := sortL (regs.map (·.1)) with hlo
  set hi := sortL (regs.map (·.2)) with hhi
  have hlen : lo.length = hi.length := by
    rw [hlo, hhi, (sortL_perm _).length_eq, (sortL_perm _).length_eq]; simp
  have hI : Inter lo hi := inter_of_gaps 0 L _ _ hlen (sortL_sorted _) (by rw [← gaps_eq]; exact hg)
  have hposz : ∀ p ∈ lo.zip hi, p.1 < p.2 := fun p hp => hpos p (hperm.symm.subset hp)
  obtain ⟨_, hlo0, hhiL⟩ := chain_bounds 0 L lo hi hlen (by rw [← gaps_eq]; exact hg) hposz
  refine ⟨hpos, fun r hr => ?_, ?_, ?_, ?_⟩
  · have hz := hperm.subset hr
    obtain ⟨h1, h2⟩ := List.of_mem_zip hz
    exact ⟨hlo0 _ h1, hhiL _ h2⟩
  · have hz : (lo.zip hi).Pairwise (fun r s => r.2 ≤ s.1 ∨ s.2 ≤ r.1) :=
      (zip_pairwise lo hi hI).imp (fun hrs => Or.inl hrs)
    exact (hperm.pairwise_iff (fun {a b} hab => hab.symm)).mpr hz
  · refine le_antisymm hle ?_
    exact List.length_pos_of_mem (List.mem_filter.mpr ⟨hv, by simpa using hv0⟩)
  · have htel := telescope 0 L lo hi hlen
    rw [← gaps_eq] at htel
    have hsum : (regs.map fun r => r.2 - r.1).sum = ((lo.zip hi).map fun p => p.2 - p.1).sum :=
      (hperm.map _).sum_eq
    have hgpos : 0 < (gaps L lo hi).sum := by
      have hnn : 0 ≤ (gaps L lo hi).sum := List.sum_nonneg hg
      rcases lt_or_eq_of_le hnn with hlt | heq
      · exact hlt
      · exfalso
        exact hv0 (List.all_zero_of_le_zero_le_of_sum_eq_zero hg heq.symm hv)
    linarith

/-- every inverted or zero-height user region is rejected, wherever it stands in the list -/
theorem c18_regions_reject_inverted (L : K) (regs : List (K × K)) (h : ∃ r ∈ regs, r.2 ≤ r.1) :
    checkRegions L regs = .error RErr.nonPositiveHeight := by
  obtain ⟨r, hr, hle⟩ := h
  unfold checkRegions
  simp only
  rw [if_pos]
  exact List.any_eq_true.mpr ⟨r, hr, by simpa using hle⟩

/-- overlapping user regions are rejected -/
theorem c18_regions_reject_overlap (L : K) (regs : List (K × K))
    (h : ¬ regs.Pairwise (fun r s => r.2 ≤ s.1 ∨ s.2 ≤ r.1)) : checkRegions L regs ≠ .ok () :=
  fun hok => h (c18_regions_accept L regs hok).2.2.1

/-- a region reaching below the inlet or beyond the core length is rejected -/
theorem c18_regions_reject_outside (L : K) (regs : List (K × K)) (h : ∃ r ∈ regs, r.1 < 0 ∨ L < r.2) :
    checkRegions L regs ≠ .ok () := by
  intro hok
  obtain ⟨r, hr, hout⟩ := h
  have := (c18_regions_accept L regs hok).2.1 r hr
  rcases hout with h1 | h2
  · exact absurd this.1 (not_le.mpr h1)
  · exact absurd this.2 (not_le.mpr h2)

/-- regions that leave no room for the pin bundle are rejected -/
theorem c18_regions_reject_full (L : K) (regs : List (K × K)) (h : L ≤ (regs.map fun r => r.2 - r.1).sum) :
    checkRegions L regs ≠ .ok () :=
  fun hok => absurd (c18_regions_accept L regs hok).2.2.2.2 (not_lt.mpr h)

/-! ### where the pin bundle goes -/

theorem sum_zero_of_filter_nil (g : List K) (h : g.filter (fun v => decide (v ≠ 0)) = []) : g.sum = 0 := by
  induction g with
  | nil => simp
  | cons v t ih =>
    rw [List.filter_cons] at h
    split at h
    · cases h
    · rename_i hv
      have hv0 : v = 0 := by simpa using hv
      simp [hv0, ih h]

/-- the bounds returned for the rodded region enclose exactly the one non-empty space -/
theorem rodded_span (b L : K) (lo hi : List K) (hlen : lo.length = hi.length)
    (h1 : ((gapsFrom b L lo hi).filter (fun v => decide (v ≠ 0))).length = 1) :
    (lo ++ [L]).getD (firstNonzero (gapsFrom b L lo hi)) L - (b :: hi).getD (firstNonzero (gapsFrom b L lo hi)) 0
      = (gapsFrom b L lo hi).sum := by
  induction lo generalizing b hi with
  | nil => cases hi with
    | nil =>
      by_cases hz : L - b ≠ 0
      · simp [firstNonzero, hz]
      · simp [hz] at h1
    | cons _ _ => simp at hlen
  | cons l lo ih =>
    cases hi with
    | nil => simp at hlen
    | cons h hi =>
      rw [gapsFrom_cons] at h1 ⊢
      by_cases hz : l - b ≠ 0
      · rw [List.filter_cons, if_pos (by simpa using hz)] at h1
        have hnil : (gapsFrom h L lo hi).filter (fun v => decide (v ≠ 0)) = [] :=
          List.eq_nil_of_length_eq_zero (by simpa using h1)
        simp [firstNonzero, hz, sum_zero_of_filter_nil _ hnil]
      · rw [List.filter_cons, if_neg (by simpa using hz)] at h1
        have hz0 : l - b = 0 := by simpa using hz
        have := ih h hi (by simpa using hlen) h1
        simp only [firstNonzero, List.cons_append, List.sum_cons, hz0, zero_add, ne_eq, not_true_eq_false, if_false,
          List.getD_cons_succ]
        exact this

/-- **The rodded region is the space the regions leave**: its bounds are ordered and its length plus the heights of the user's
regions is the core length -/
theorem c18_regions_rodded (L : K) (regs : List (K × K)) (h : checkRegions L regs = .ok ()) :
    (roddedBnds L regs).1 < (roddedBnds L regs).2
    ∧ ((roddedBnds L regs).2 - (roddedBnds L regs).1) + (regs.map fun r => r.2 - r.1).sum = L := by
  have hperm := c18_regions_pairing L regs h
  obtain ⟨_, _, _, h1, hlt⟩ := c18_regions_accept L regs h
  have hlen : (sortL (regs.map (·.1))).length = (sortL (regs.map (·.2))).length := by
    rw [(sortL_perm _).length_eq, (sortL_perm _).length_eq]; simp
  have hspan := rodded_span 0 L _ _ hlen (by rw [← gaps_eq]; exact h1)
  have htel := telescope 0 L _ _ hlen
  have hsum : (regs.map fun r => r.2 - r.1).sum
      = (((sortL (regs.map (·.1))).zip (sortL (regs.map (·.2)))).map fun p => p.2 - p.1).sum := (hperm.map _).sum_eq
  have hb : (roddedBnds L regs).2 - (roddedBnds L regs).1
      = (gapsFrom 0 L (sortL (regs.map (·.1))) (sortL (regs.map (·.2)))).sum := by
    rw [← hspan]; rfl
  constructor
  · have : 0 < (roddedBnds L regs).2 - (roddedBnds L regs).1 := by rw [hb]; linarith
    linarith
  · rw [hb, hsum]; linarith

/-! ### why the height test has to look at the user's own pairs -/

/-- the reader's original test (sorted lists, and only from the second entry on) -/
def checkRegionsSortedTest (L : K) (regs : List (K × K)) : Except RErr Unit :=
  let lo := sortL (regs.map (·.1))
  let hi := sortL (regs.map (·.2))
  let g := gaps L lo hi
  if ((lo.zip hi).drop 1).any (fun r => decide (r.2 ≤ r.1)) then .error RErr.nonPositiveHeight
  else if g.any (fun v => decide (v < 0)) then .error RErr.overlap
  else if 1 < (g.filter (fun v => decide (v ≠ 0))).length then .error RErr.multipleRodded
  else if g.all (fun v => decide (v = 0)) then .error RErr.noRodded
  else .ok ()

/-- a zero-height region nested inside another one passes the sorted-list test, and so does a zero-height region at the inlet -/
theorem c18_regions_sorted_test_unsound :
    checkRegionsSortedTest (10 : ℚ) [(0, 4), (2, 2)] = .ok () ∧ checkRegionsSortedTest (10 : ℚ) [(0, 0)] = .ok ()
    ∧ checkRegions (10 : ℚ) [(0, 4), (2, 2)] = .error RErr.nonPositiveHeight
    ∧ checkRegions (10 : ℚ) [(0, 0)] = .error RErr.nonPositiveHeight := by
  refine ⟨?_, ?_, ?_, ?_⟩ <;> decide +kernel

/-- the premises are satisfiable: plenum below and above, in any order -/
example : checkRegions (10 : ℚ) [(8, 10), (0, 2)] = .ok () ∧ roddedBnds (10 : ℚ) [(8, 10), (0, 2)] = (2, 8) := by decide +kernel

/-! ### attributes of the regions (defect 65)

`checkRegionsFull` puts the two attribute tests of the reader in front of the bound tests. -/

theorem checkAttrs_ok (attrs : List (K × Bool)) (h : checkAttrs attrs = .ok ()) :
    ∀ a ∈ attrs, 0 < a.1 ∧ a.2 = true := by
  induction attrs with
  | nil => intro a ha; simp at ha
  | cons x t ih =>
    obtain ⟨vf, known⟩ := x
    unfold checkAttrs at h
    by_cases h1 : vf ≤ 0
    · simp [h1] at h
    · by_cases h2 : known = true
      · simp [h1, h2] at h
        intro a ha
        rcases List.mem_cons.mp ha with rfl | ha'
        · exact ⟨not_le.mp h1, h2⟩
        · exact ih h a ha'
      · simp [h1, h2] at h

/-- **Acceptance (complete).**  An accepted list of regions has a positive coolant fraction and an existing model in every region,
and everything `c18_regions_accept` says about the bounds. -/
theorem c18_regions_full_accept (L : K) (regs : List (K × K)) (attrs : List (K × Bool))
    (h : checkRegionsFull L regs attrs = .ok ()) :
    (∀ a ∈ attrs, 0 < a.1 ∧ a.2 = true) ∧ checkRegions L regs = .ok () := by
  unfold checkRegionsFull at h
  cases ha : checkAttrs attrs with
  | error e => rw [ha] at h; simp at h
  | ok u =>
    rw [ha] at h
    cases hb : checkRegions L regs with
    | error e => rw [hb] at h; simp at h
    | ok v => exact ⟨checkAttrs_ok attrs (by rw [ha]), by cases v; rfl⟩

/-- a region without coolant is refused, wherever it stands, unless an earlier region already fails -/
theorem c18_regions_reject_no_coolant (L : K) (regs : List (K × K)) (attrs : List (K × Bool))
    (h : ∃ a ∈ attrs, a.1 ≤ 0) : checkRegionsFull L regs attrs ≠ .ok () := by
  intro hok
  obtain ⟨a, ha, hle⟩ := h
  have := (c18_regions_full_accept L regs attrs hok).1 a ha
  exact absurd this.1 (not_lt.mpr hle)

/-- a region with an unknown model name is refused -/
theorem c18_regions_reject_unknown_model (L : K) (regs : List (K × K)) (attrs : List (K × Bool))
    (h : ∃ a ∈ attrs, a.2 = false) : checkRegionsFull L regs attrs ≠ .ok () := by
  intro hok
  obtain ⟨a, ha, hf⟩ := h
  have := (c18_regions_full_accept L regs attrs hok).1 a ha
  rw [hf] at this
  exact absurd this.2 (by decide)

/-- non-vacuity: a lower reflector with coolant and the `simple` model is accepted -/
example : checkRegionsFull (1 : ℚ) [(0, 1/4)] [(3/10, true)] = .ok () := by decide +kernel

end Dassh.Props.C18Regions
