/-
C14 — pressure drop is non-negative, additive and step-size independent; every
spacer grid is counted exactly once.

Theorems about `Dassh.Model.Pressure` (tied to the code by the correspondence
check on real regions and by the traced per-step increments in `Dassh.Gen.C14`).
-/
import Dassh.Model.Pressure
import Dassh.Gen.C14
import Mathlib.Algebra.Order.Field.Basic
import Mathlib.Algebra.BigOperators.Group.List.Basic
import Mathlib.Tactic.Linarith
import Mathlib.Tactic.Ring
import Mathlib.Tactic.FieldSimp
import Mathlib.Tactic.Positivity

namespace Dassh.Props.C14
open Dassh.Model.Pressure

variable {K : Type} [Field K] [LinearOrder K] [IsStrictOrderedRing K]

/-- steps `(z_k, z_k − z_{k−1})` of a plane list -/
def stepsOf : List K → List (K × K)
  | a :: b :: t => (b, b - a) :: stepsOf (b :: t)
  | _ => []

/-- total length of the steps telescopes -/
theorem stepsOf_sum (a : K) (t : List K) :
    ((stepsOf (a :: t)).map Prod.snd).sum = (a :: t).getLast (by simp) - a := by
  induction t generalizing a with
  | nil => simp [stepsOf]
  | cons b u ih =>
    simp only [stepsOf, List.map_cons, List.sum_cons, ih b]
    have : (a :: b :: u).getLast (by simp) = (b :: u).getLast (by simp) := by
      simp [List.getLast_cons]
    rw [this]
    ring

/-- friction and gravity parts of the sweep are the per-length coefficients times the summed step
lengths, the three parts accumulate independently (additivity) -/
theorem sweep_parts (strict : Bool) (grids : List K) (cf cg kl : K) (steps : List (K × K)) (acc : K × K × K) :
    (steps.foldl (fun acc s => (acc.1 + cf * s.2, acc.2.1 + gridStep strict grids kl s.1 s.2, acc.2.2 + cg * s.2)) acc).1
        = acc.1 + cf * (steps.map Prod.snd).sum
    ∧ (steps.foldl (fun acc s => (acc.1 + cf * s.2, acc.2.1 + gridStep strict grids kl s.1 s.2, acc.2.2 + cg * s.2)) acc).2.2
        = acc.2.2 + cg * (steps.map Prod.snd).sum := by
  induction steps generalizing acc with
  | nil => simp
  | cons s t ih =>
    simp only [List.foldl_cons, List.map_cons, List.sum_cons]
    obtain ⟨h1, h2⟩ := ih (acc.1 + cf * s.2, acc.2.1 + gridStep strict grids kl s.1 s.2, acc.2.2 + cg * s.2)
    rw [h1, h2]
    constructor <;> ring

/-- **Closed form, step-size independence.**  For constant coefficients the friction part is
`cf · L` and the gravity part `cg · L` for every plane list from 0 to `L`, whatever the steps. -/
theorem c14_closed_form (strict : Bool) (grids : List K) (cf cg kl : K) (t : List K) :
    (sweep strict grids cf cg kl (stepsOf (0 :: t))).1 = cf * ((0 :: t).getLast (by simp))
    ∧ (sweep strict grids cf cg kl (stepsOf (0 :: t))).2.2 = cg * ((0 :: t).getLast (by simp)) := by
  obtain ⟨h1, h2⟩ := sweep_parts strict grids cf cg kl (stepsOf (0 :: t)) (0, 0, 0)
  unfold sweep
  rw [h1, h2, stepsOf_sum]
  constructor <;> ring

/-- each part is non-negative for non-negative coefficients and forward steps -/
theorem c14_nonneg (strict : Bool) (grids : List K) (cf cg kl : K) (hcf : 0 ≤ cf) (hcg : 0 ≤ cg) (hk : 0 ≤ kl)
    (steps : List (K × K)) (hdz : ∀ s ∈ steps, 0 ≤ s.2) :
    0 ≤ (sweep strict grids cf cg kl steps).1 ∧ 0 ≤ (sweep strict grids cf cg kl steps).2.1
      ∧ 0 ≤ (sweep strict grids cf cg kl steps).2.2 := by
  unfold sweep
  have : ∀ (acc : K × K × K), 0 ≤ acc.1 → 0 ≤ acc.2.1 → 0 ≤ acc.2.2 →
      0 ≤ (steps.foldl (fun acc s => (acc.1 + cf * s.2, acc.2.1 + gridStep strict grids kl s.1 s.2, acc.2.2 + cg * s.2)) acc).1
      ∧ 0 ≤ (steps.foldl (fun acc s => (acc.1 + cf * s.2, acc.2.1 + gridStep strict grids kl s.1 s.2, acc.2.2 + cg * s.2)) acc).2.1
      ∧ 0 ≤ (steps.foldl (fun acc s => (acc.1 + cf * s.2, acc.2.1 + gridStep strict grids kl s.1 s.2, acc.2.2 + cg * s.2)) acc).2.2 := by
    induction steps with
    | nil => intro acc h1 h2 h3; exact ⟨h1, h2, h3⟩
    | cons s t ih =>
      intro acc h1 h2 h3
      simp only [List.foldl_cons]
      apply ih (fun x hx => hdz x (List.mem_cons_of_mem _ hx))
      · have := hdz s List.mem_cons_self; positivity
      · have : 0 ≤ gridStep strict grids kl s.1 s.2 := by
          unfold gridStep; positivity
        simpa using add_nonneg h2 this
      · have := hdz s List.mem_cons_self; positivity
  exact this (0, 0, 0) le_rfl le_rfl le_rfl

/-- the step ending at `b` that started at `a` sees `z - dz = a` -/
theorem hits_stepOf (strict : Bool) (a b zg : K) :
    hits strict b (b - a) zg = (decide (a < zg) && (if strict then decide (zg < b) else decide (zg ≤ b))) := by
  unfold hits
  have : b - (b - a) = a := by ring
  rw [this]

/-- **Exactly once.**  With the half-open test `z − dz < z_g ≤ z`, for every strictly increasing
plane list and every grid position in `(first plane, last plane]`, exactly one step counts it. -/
theorem c14_grid_once (a : K) (t : List K) (hinc : (a :: t).Pairwise (· < ·)) (zg : K)
    (hlo : a < zg) (hhi : zg ≤ (a :: t).getLast (by simp)) :
    countHits false zg (stepsOf (a :: t)) = 1 := by
  induction t generalizing a with
  | nil =>
    simp only [List.getLast_singleton] at hhi
    exact absurd (lt_of_lt_of_le hlo hhi) (lt_irrefl _)
  | cons b u ih =>
    have hab : a < b := (List.pairwise_cons.mp hinc).1 b List.mem_cons_self
    have hinc' : (b :: u).Pairwise (· < ·) := (List.pairwise_cons.mp hinc).2
    rw [List.getLast_cons (by simp)] at hhi
    unfold countHits at ih ⊢
    simp only [stepsOf, List.filter_cons, hits_stepOf]
    by_cases hzb : zg ≤ b
    · -- counted by the first step, by no later step (all later steps start at or above b)
      have hlater : (stepsOf (b :: u)).filter (fun s => hits false s.1 s.2 zg) = [] := by
        apply List.filter_eq_nil_iff.mpr
        intro s hs
        -- every later step starts at a plane ≥ b
        have : ∀ (c : K) (v : List K), (c :: v).Pairwise (· < ·) → zg ≤ c →
            ∀ s ∈ stepsOf (c :: v), ¬ (hits false s.1 s.2 zg = true) := by
          intro c v
          induction v generalizing c with
          | nil => intro _ _ s hs; simp [stepsOf] at hs
          | cons d w ihw =>
            intro hp hzc s hs
            simp only [stepsOf, List.mem_cons] at hs
            have hcd : c < d := (List.pairwise_cons.mp hp).1 d List.mem_cons_self
            rcases hs with rfl | hs'
            · rw [hits_stepOf]; simp [not_lt.mpr hzc]
            · exact ihw d (List.pairwise_cons.mp hp).2 (le_trans hzc hcd.le) s hs'
        exact this b u hinc' hzb s hs
      simp [hlo, hzb, hlater]
    · -- not counted by the first step; exactly once by the rest
      have hbz : b < zg := not_le.mp hzb
      have := ih b hinc' hbz hhi
      simp [hlo, hzb, this]

/-- **The defect of the strict test.**  A grid that lies exactly on a plane is counted by no
step at all: the step that ends there requires `z_g < z`, the next one `z − dz < z_g`. -/
theorem c14_grid_on_plane_missed (a : K) (t : List K) (hinc : (a :: t).Pairwise (· < ·)) (zg : K)
    (hon : zg ∈ a :: t) : countHits true zg (stepsOf (a :: t)) = 0 := by
  unfold countHits
  rw [List.length_eq_zero_iff, List.filter_eq_nil_iff]
  induction t generalizing a with
  | nil => intro s hs; simp [stepsOf] at hs
  | cons b u ih =>
    intro s hs
    have hab : a < b := (List.pairwise_cons.mp hinc).1 b List.mem_cons_self
    have hinc' : (b :: u).Pairwise (· < ·) := (List.pairwise_cons.mp hinc).2
    simp only [stepsOf, List.mem_cons] at hs
    rcases hs with rfl | hs'
    · rw [hits_stepOf]
      simp only [if_true, Bool.and_eq_true, decide_eq_true_eq, not_and, not_lt]
      intro haz
      -- zg is a plane above a, hence ≥ b
      rcases List.mem_cons.mp hon with rfl | hmem
      · exact absurd haz (lt_irrefl _)
      · rcases List.mem_cons.mp hmem with rfl | hmem'
        · exact le_rfl
        · exact ((List.pairwise_cons.mp hinc').1 zg hmem').le
    · rcases List.mem_cons.mp hon with rfl | hmem
      · -- zg = a lies below every later step
        have : ∀ (c : K) (v : List K), (c :: v).Pairwise (· < ·) → zg ≤ c →
            ∀ s ∈ stepsOf (c :: v), ¬ (hits true s.1 s.2 zg = true) := by
          intro c v
          induction v generalizing c with
          | nil => intro _ _ s hs; simp [stepsOf] at hs
          | cons d w ihw =>
            intro hp hzc s hs
            simp only [stepsOf, List.mem_cons] at hs
            have hcd : c < d := (List.pairwise_cons.mp hp).1 d List.mem_cons_self
            rcases hs with rfl | hs'
            · rw [hits_stepOf]; simp [not_lt.mpr hzc]
            · exact ihw d (List.pairwise_cons.mp hp).2 (le_trans hzc hcd.le) s hs'
        exact this b u hinc' hab.le s hs'
      · exact ih b hinc' hmem s hs'


/-- the grid part of the sweep is the loss coefficient times the total number of (step, grid) hits -/
theorem sweep_grid_part (strict : Bool) (grids : List K) (cf cg kl : K) (steps : List (K × K)) (acc : K × K × K) :
    (steps.foldl (fun acc s => (acc.1 + cf * s.2, acc.2.1 + gridStep strict grids kl s.1 s.2, acc.2.2 + cg * s.2)) acc).2.1
      = acc.2.1 + (((steps.map fun s => nCrossed strict grids s.1 s.2).sum : Nat) : K) * kl := by
  induction steps generalizing acc with
  | nil => simp
  | cons s t ih =>
    simp only [List.foldl_cons, List.map_cons, List.sum_cons]
    rw [ih]
    unfold gridStep
    push_cast
    ring

theorem countHits_eq_sum (strict : Bool) (g : K) (steps : List (K × K)) :
    countHits strict g steps = (steps.map fun s => if hits strict s.1 s.2 g = true then 1 else 0).sum := by
  unfold countHits
  induction steps with
  | nil => simp
  | cons s t iht =>
    simp only [List.filter_cons, List.map_cons, List.sum_cons]
    by_cases h : hits strict s.1 s.2 g = true
    · simp only [h, if_true, List.length_cons, iht]; omega
    · simp only [h]; simpa using iht

theorem nCrossed_cons (strict : Bool) (g : K) (gs : List K) (z dz : K) :
    nCrossed strict (g :: gs) z dz = (if hits strict z dz g = true then 1 else 0) + nCrossed strict gs z dz := by
  unfold nCrossed
  simp only [List.filter_cons]
  by_cases h : hits strict z dz g = true
  · simp only [h, if_true, List.length_cons]; omega
  · simp only [h]; simp

theorem sum_map_add_nat {A : Type} (l : List A) (f g : A → Nat) :
    (l.map fun x => f x + g x).sum = (l.map f).sum + (l.map g).sum := by
  induction l with
  | nil => simp
  | cons x t ih => simp only [List.map_cons, List.sum_cons, ih]; omega

/-- double counting: hits summed over steps = hits summed over grids -/
theorem hits_double_count (strict : Bool) (grids : List K) (steps : List (K × K)) :
    (steps.map fun s => nCrossed strict grids s.1 s.2).sum = (grids.map fun g => countHits strict g steps).sum := by
  induction grids with
  | nil => simp [nCrossed]
  | cons g gs ih =>
    simp only [List.map_cons, List.sum_cons, nCrossed_cons]
    rw [sum_map_add_nat, ih, countHits_eq_sum]

/-- **Every grid exactly once — total.**  With the half-open test, for a strictly increasing
plane list and grids all lying in (first plane, last plane], the accumulated grid loss is the
loss of one grid times the number of grids, wherever the grids lie relative to the planes
(also when several fall into one step). -/
theorem c14_grid_total (a : K) (t : List K) (hinc : (a :: t).Pairwise (· < ·)) (grids : List K) (cf cg kl : K)
    (hin : ∀ g ∈ grids, a < g ∧ g ≤ (a :: t).getLast (by simp)) :
    (sweep false grids cf cg kl (stepsOf (a :: t))).2.1 = (grids.length : K) * kl := by
  unfold sweep
  rw [sweep_grid_part, hits_double_count]
  have : (grids.map fun g => countHits false g (stepsOf (a :: t))).sum = grids.length := by
    induction grids with
    | nil => simp
    | cons g gs ih =>
      simp only [List.map_cons, List.sum_cons, List.length_cons]
      rw [c14_grid_once a t hinc g (hin g List.mem_cons_self).1 (hin g List.mem_cons_self).2,
        ih (fun x hx => hin x (List.mem_cons_of_mem _ hx))]
      omega
  rw [this]; simp

/-! ### the traced per-step increments are linear in the step length (so the fold model applies) -/
open Dassh.Gen.C14 in
theorem c14_increments_linear (ff dz rho vel de : K) :
    rod_friction_step ff dz rho vel de = (ff * rho * vel ^ 2 / de / 2) * dz
    ∧ rod_gravity_step ff dz rho vel de = (rho * (980665 / 100000)) * dz
    ∧ ur_friction_step ff dz rho vel de = (ff * rho * vel ^ 2 / 2 / de) * dz := by
  refine ⟨?_, ?_, ?_⟩ <;> (simp only [gen_defs]; ring)

/-- Non-vacuity: a dyadic mesh with a grid on a plane. -/
example : countHits true ((1 : ℚ) / 2) (stepsOf [0, 1 / 4, 1 / 2, 3 / 4, 1]) = 0
    ∧ countHits false ((1 : ℚ) / 2) (stepsOf [0, 1 / 4, 1 / 2, 3 / 4, 1]) = 1 := by
  constructor <;> (simp only [countHits, stepsOf, hits]; norm_num)

/-! ### The corrected rule is float-proof

`hitsP a b zg = (a < zg ≤ b)` uses comparisons only, so the statement below holds in EVERY linear order - in particular for
the IEEE doubles of the running code (no NaN among planes and grid positions) - whereas `c14_grid_once` needs the exact
`b - (b - a) = a` of a field, which floating point does not provide (0.03 - 0.01 < 0.02 in doubles: the grid at 0.02 was counted
by the step ending at 0.02 and again by the step ending at 0.03; defect 55). -/

theorem countHitsP_zero_of_le {L : Type} [LinearOrder L] (zg : L) :
    ∀ (c : L) (v : List L), (c :: v).Pairwise (· < ·) → zg ≤ c → countHitsP zg (c :: v) = 0 := by
  intro c v
  induction v generalizing c with
  | nil => intro _ _; rfl
  | cons d w ih =>
    intro hp hzc
    have hcd : c < d := (List.pairwise_cons.mp hp).1 d List.mem_cons_self
    have h0 : hitsP c d zg = false := by
      unfold hitsP; simp [not_lt.mpr hzc]
    simp only [countHitsP, h0]
    simpa using ih d (List.pairwise_cons.mp hp).2 (le_trans hzc hcd.le)

/-- **Exactly once, in any linear order.**  For every strictly increasing plane list and every grid position in
`(first plane, last plane]`, exactly one step counts it. -/
theorem c14_planes_once {L : Type} [LinearOrder L] (a : L) (t : List L) (hinc : (a :: t).Pairwise (· < ·)) (zg : L)
    (hlo : a < zg) (hhi : zg ≤ (a :: t).getLast (by simp)) :
    countHitsP zg (a :: t) = 1 := by
  induction t generalizing a with
  | nil =>
    simp only [List.getLast_singleton] at hhi
    exact absurd (lt_of_lt_of_le hlo hhi) (lt_irrefl _)
  | cons b u ih =>
    have hinc' : (b :: u).Pairwise (· < ·) := (List.pairwise_cons.mp hinc).2
    rw [List.getLast_cons (by simp)] at hhi
    by_cases hzb : zg ≤ b
    · have h1 : hitsP a b zg = true := by unfold hitsP; simp [hlo, hzb]
      simp only [countHitsP, h1, countHitsP_zero_of_le zg b u hinc' hzb]
      rfl
    · have h0 : hitsP a b zg = false := by unfold hitsP; simp [hzb]
      simp only [countHitsP, h0]
      simpa using ih b hinc' (not_le.mp hzb) hhi

/-- a grid at or below the first plane, or above the last one, is counted by no step -/
theorem c14_planes_outside {L : Type} [LinearOrder L] (a : L) (t : List L) (hinc : (a :: t).Pairwise (· < ·)) (zg : L)
    (h : zg ≤ a) : countHitsP zg (a :: t) = 0 := countHitsP_zero_of_le zg a t hinc h

/-- total over all grids: `n` grids inside `(first, last]` give exactly `n` losses -/
theorem c14_planes_total {L : Type} [LinearOrder L] (a : L) (t : List L) (hinc : (a :: t).Pairwise (· < ·)) (grids : List L)
    (hg : ∀ g ∈ grids, a < g ∧ g ≤ (a :: t).getLast (by simp)) :
    gridLosses grids (a :: t) = grids.length := by
  unfold gridLosses
  induction grids with
  | nil => rfl
  | cons g gs ih =>
    simp only [List.map_cons, List.sum_cons, List.length_cons]
    rw [c14_planes_once a t hinc g (hg g List.mem_cons_self).1 (hg g List.mem_cons_self).2,
      ih (fun x hx => hg x (List.mem_cons_of_mem _ hx))]
    omega

/-- non-vacuity: three planes, a grid on the middle plane is counted once -/
example : countHitsP (2 : Nat) [0, 2, 5] = 1 := by decide

end Dassh.Props.C14
