/-
C17 — results do not depend on the unit system of the input.

`Dassh.Gen.C17` contains (i) the scalar converters of `dassh.utils`, traced, and
(ii) the lists of numeric input leaves that the real `convert_length /
convert_temperature / convert_mass_flow_rate` were observed to convert exactly once
on a maximal parsed input.  This file holds the specification (which keys are
dimensional) and the theorems.
-/
import Dassh.Gen.C17
import Mathlib.Algebra.Order.Field.Basic
import Mathlib.Tactic.FieldSimp
import Mathlib.Tactic.Ring
import Mathlib.Tactic.NormNum

namespace Dassh.Props.C17
open Dassh.Gen.C17

variable {K : Type} [Field K] [CharZero K]

/-- converting to a unit and back returns the value (every supported pair) -/
theorem c17_roundtrip (x : K) :
    centimeters_to_meters (meters_to_centimeters x) = x ∧ meters_to_centimeters (centimeters_to_meters x) = x
    ∧ millimeters_to_meters (meters_to_millimeters x) = x ∧ meters_to_millimeters (millimeters_to_meters x) = x
    ∧ inches_to_meters (meters_to_inches x) = x ∧ meters_to_inches (inches_to_meters x) = x
    ∧ feet_to_meters (meters_to_feet x) = x ∧ meters_to_feet (feet_to_meters x) = x
    ∧ celsius_to_kelvin (kelvin_to_celsius x) = x ∧ kelvin_to_celsius (celsius_to_kelvin x) = x
    ∧ fahrenheit_to_kelvin (kelvin_to_fahrenheit x) = x ∧ kelvin_to_fahrenheit (fahrenheit_to_kelvin x) = x
    ∧ pounds_to_kilograms (kilograms_to_pounds x) = x ∧ kilograms_to_pounds (pounds_to_kilograms x) = x
    ∧ minutes_to_seconds (seconds_to_minutes x) = x ∧ seconds_to_minutes (minutes_to_seconds x) = x
    ∧ hours_to_seconds (seconds_to_hours x) = x ∧ seconds_to_hours (hours_to_seconds x) = x := by
  refine ⟨?_, ?_, ?_, ?_, ?_, ?_, ?_, ?_, ?_, ?_, ?_, ?_, ?_, ?_, ?_, ?_, ?_, ?_⟩ <;>
  · simp only [gen_defs]
    field_simp
    try ring

/-- the length units are mutually consistent: 1 ft = 12 in, 1 in = 2.54 cm, 1 cm = 10 mm -/
theorem c17_length_consistent (x : K) :
    feet_to_meters x = inches_to_meters (12 * x)
    ∧ inches_to_meters x = centimeters_to_meters (254 / 100 * x)
    ∧ centimeters_to_meters x = millimeters_to_meters (10 * x) := by
  refine ⟨?_, ?_, ?_⟩ <;> (simp only [gen_defs]; ring)

/-- a temperature difference added to the inlet before conversion is the converted difference:
kelvin and celsius degrees are equal, a fahrenheit degree is 5/9 K -/
theorem c17_delta_temperature (t d : K) :
    celsius_to_kelvin (t + d) - celsius_to_kelvin t = d
    ∧ fahrenheit_to_kelvin (t + d) - fahrenheit_to_kelvin t = d * 5 / 9 := by
  refine ⟨?_, ?_⟩ <;> (simp only [gen_defs]; try ring)

/-- mass-flow conversion composes the mass factor with the INVERSE time factor
(the code applies `get_time_conversion('s', unit)` because time is in the denominator) -/
theorem c17_flow_rate (x : K) :
    seconds_to_minutes (pounds_to_kilograms x) = x * (453592 / 1000000) / 60
    ∧ seconds_to_hours (pounds_to_kilograms x) = x * (453592 / 1000000) / 3600
    ∧ seconds_to_minutes x = x / 60 := by
  refine ⟨?_, ?_, ?_⟩ <;> (simp only [gen_defs]; try ring)

/-! ### which input keys are dimensional (specification) -/

def lengthKeys : List String :=
  ["Core.length", "Core.assembly_pitch",
   "Assembly.*.pin_pitch", "Assembly.*.pin_diameter", "Assembly.*.clad_thickness", "Assembly.*.wire_pitch",
   "Assembly.*.wire_diameter", "Assembly.*.duct_ftf[]",
   "Assembly.*.AxialRegion.*.z_lo", "Assembly.*.AxialRegion.*.z_hi", "Assembly.*.AxialRegion.*.hydraulic_diameter",
   "Assembly.*.AxialRegion.*.epsilon",
   "Assembly.*.FuelModel.gap_thickness", "Assembly.*.SpacerGrid.axial_positions[]",
   "Setup.axial_plane[]", "Setup.axial_mesh_size", "Setup.Dump.interval", "Setup.conv_approx_dz_cutoff"]

def temperatureKeys : List String := ["Core.coolant_inlet_temp", "Assignment.outlet_temp"]
def flowKeys : List String := ["Assignment.flowrate"]

/-- every length key of the specification (except the recorded finding) is converted exactly once -/
theorem c17_length_cover : ∀ k ∈ lengthKeys, k ∈ converted_length := by decide

/-- nothing that is not a length is converted as a length, nothing is converted twice -/
theorem c17_length_only : (∀ k ∈ converted_length, k ∈ lengthKeys) ∧ misconverted_length = [] := by decide

theorem c17_temperature_cover :
    (∀ k ∈ temperatureKeys, k ∈ converted_temperature) ∧ (∀ k ∈ converted_temperature, k ∈ temperatureKeys)
    ∧ misconverted_temperature = [] := by decide

theorem c17_flow_cover :
    (∀ k ∈ flowKeys, k ∈ converted_flow) ∧ (∀ k ∈ converted_flow, k ∈ flowKeys) ∧ misconverted_flow = [] := by decide

/-- Non-vacuity. -/
example : inches_to_meters (1 : ℚ) = 254 / 10000 := by simp only [gen_defs]; norm_num

end Dassh.Props.C17
