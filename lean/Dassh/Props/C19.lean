/-
C19 — hot-spot temperatures reduce to nominal and grow with uncertainty.

Theorems about `Dassh.Gen.C19` (trace of `hotspot.calculate_temps`).  The square root
is an opaque function `sqrtF`; the theorems assume only what they need of it
(`sqrtF 0 = 0`, non-negativity, monotonicity on non-negative arguments); the last
section shows that `Real.sqrt` satisfies all of it.
-/
import Dassh.Gen.C19
import Mathlib.Algebra.Order.Field.Basic
import Mathlib.Analysis.Real.Sqrt
import Mathlib.Tactic.FieldSimp
import Mathlib.Tactic.Ring
import Mathlib.Tactic.Linarith
import Mathlib.Tactic.Positivity

namespace Dassh.Props.C19
open Dassh.Gen.C19

variable {K : Type} [Field K] [LinearOrder K] [IsStrictOrderedRing K]
variable (sqrtF : K → K)
variable (Tin t0 t1 t2 d00 d01 d02 d10 d11 d12 s00 s01 s02 s10 s11 s12 INs OUTs : K)

/-- **Unity subfactors give the nominal temperatures** (inlet + cumulative rises). -/
theorem c19_unity (h0 : sqrtF 0 = 0) (hin : INs ≠ 0) :
    hot_0 sqrtF Tin t0 t1 t2 1 1 1 1 1 1 1 1 1 1 1 1 INs OUTs = Tin + t0
    ∧ hot_1 sqrtF Tin t0 t1 t2 1 1 1 1 1 1 1 1 1 1 1 1 INs OUTs = Tin + (t0 + t1)
    ∧ hot_2 sqrtF Tin t0 t1 t2 1 1 1 1 1 1 1 1 1 1 1 1 INs OUTs = Tin + (t0 + t1 + t2) := by
  refine ⟨?_, ?_, ?_⟩ <;>
  · simp only [gen_defs, sub_self, mul_zero, mul_one, add_zero, ne_eq, OfNat.ofNat_ne_zero, not_false_eq_true,
      zero_pow, h0, zero_div]

/-- the statistical part is non-negative, so with direct factors ≥ 1 and non-negative rises
the hot-spot temperature is never below nominal -/
theorem c19_ge_nominal (hs : ∀ x, 0 ≤ sqrtF x) (hin : 0 < INs) (hout : 0 ≤ OUTs)
    (ht0 : 0 ≤ t0) (ht1 : 0 ≤ t1) (ht2 : 0 ≤ t2)
    (h00 : 1 ≤ d00) (h01 : 1 ≤ d01) (h02 : 1 ≤ d02) (h10 : 1 ≤ d10) (h11 : 1 ≤ d11) (h12 : 1 ≤ d12) :
    Tin + t0 ≤ hot_0 sqrtF Tin t0 t1 t2 d00 d01 d02 d10 d11 d12 s00 s01 s02 s10 s11 s12 INs OUTs
    ∧ Tin + (t0 + t1) ≤ hot_1 sqrtF Tin t0 t1 t2 d00 d01 d02 d10 d11 d12 s00 s01 s02 s10 s11 s12 INs OUTs
    ∧ Tin + (t0 + t1 + t2) ≤ hot_2 sqrtF Tin t0 t1 t2 d00 d01 d02 d10 d11 d12 s00 s01 s02 s10 s11 s12 INs OUTs := by
  have e0 : t0 ≤ t0 * (d00 * d10) := by
    have : 1 ≤ d00 * d10 := one_le_mul_of_one_le_of_one_le h00 h10
    nlinarith
  have e1 : t1 ≤ t1 * (d01 * d11) := by
    have : 1 ≤ d01 * d11 := one_le_mul_of_one_le_of_one_le h01 h11
    nlinarith
  have e2 : t2 ≤ t2 * (d02 * d12) := by
    have : 1 ≤ d02 * d12 := one_le_mul_of_one_le_of_one_le h02 h12
    nlinarith
  refine ⟨?_, ?_, ?_⟩ <;>
  · simp only [gen_defs]
    have hq : ∀ x, 0 ≤ OUTs * sqrtF x / INs := fun x => div_nonneg (mul_nonneg hout (hs x)) hin.le
    linarith [hq ((t0 * (d00 * d10) * (s00 - 1)) ^ 2 + (t0 * (d00 * d10) * (s10 - 1)) ^ 2),
      hq ((t0 * (d00 * d10) * (s00 - 1) + t1 * (d01 * d11) * (s01 - 1)) ^ 2
          + (t0 * (d00 * d10) * (s10 - 1) + t1 * (d01 * d11) * (s11 - 1)) ^ 2),
      hq ((t0 * (d00 * d10) * (s00 - 1) + t1 * (d01 * d11) * (s01 - 1) + t2 * (d02 * d12) * (s02 - 1)) ^ 2
          + (t0 * (d00 * d10) * (s10 - 1) + t1 * (d01 * d11) * (s11 - 1) + t2 * (d02 * d12) * (s12 - 1)) ^ 2)]

/-- **Monotone in the output confidence level.** -/
theorem c19_mono_output (hs : ∀ x, 0 ≤ sqrtF x) (hin : 0 < INs) (OUT' : K) (hle : OUTs ≤ OUT') :
    hot_0 sqrtF Tin t0 t1 t2 d00 d01 d02 d10 d11 d12 s00 s01 s02 s10 s11 s12 INs OUTs
      ≤ hot_0 sqrtF Tin t0 t1 t2 d00 d01 d02 d10 d11 d12 s00 s01 s02 s10 s11 s12 INs OUT'
    ∧ hot_1 sqrtF Tin t0 t1 t2 d00 d01 d02 d10 d11 d12 s00 s01 s02 s10 s11 s12 INs OUTs
      ≤ hot_1 sqrtF Tin t0 t1 t2 d00 d01 d02 d10 d11 d12 s00 s01 s02 s10 s11 s12 INs OUT'
    ∧ hot_2 sqrtF Tin t0 t1 t2 d00 d01 d02 d10 d11 d12 s00 s01 s02 s10 s11 s12 INs OUTs
      ≤ hot_2 sqrtF Tin t0 t1 t2 d00 d01 d02 d10 d11 d12 s00 s01 s02 s10 s11 s12 INs OUT' := by
  have hq : ∀ x, OUTs * sqrtF x / INs ≤ OUT' * sqrtF x / INs := fun x =>
    div_le_div_of_nonneg_right (mul_le_mul_of_nonneg_right hle (hs x)) hin.le
  refine ⟨?_, ?_, ?_⟩ <;>
  · simp only [gen_defs]
    linarith [hq ((t0 * (d00 * d10) * (s00 - 1)) ^ 2 + (t0 * (d00 * d10) * (s10 - 1)) ^ 2),
      hq ((t0 * (d00 * d10) * (s00 - 1) + t1 * (d01 * d11) * (s01 - 1)) ^ 2
          + (t0 * (d00 * d10) * (s10 - 1) + t1 * (d01 * d11) * (s11 - 1)) ^ 2),
      hq ((t0 * (d00 * d10) * (s00 - 1) + t1 * (d01 * d11) * (s01 - 1) + t2 * (d02 * d12) * (s02 - 1)) ^ 2
          + (t0 * (d00 * d10) * (s10 - 1) + t1 * (d01 * d11) * (s11 - 1) + t2 * (d02 * d12) * (s12 - 1)) ^ 2)]

/-- **Inverse in the input confidence level**: the excess over the direct (zero-sigma) value times
the input level does not depend on the input level. -/
theorem c19_inverse_input (IN' : K) (hin : INs ≠ 0) (hin' : IN' ≠ 0) :
    (hot_2 sqrtF Tin t0 t1 t2 d00 d01 d02 d10 d11 d12 s00 s01 s02 s10 s11 s12 INs OUTs
        - (Tin + (t0 * (d00 * d10) + t1 * (d01 * d11) + t2 * (d02 * d12)))) * INs
      = (hot_2 sqrtF Tin t0 t1 t2 d00 d01 d02 d10 d11 d12 s00 s01 s02 s10 s11 s12 IN' OUTs
        - (Tin + (t0 * (d00 * d10) + t1 * (d01 * d11) + t2 * (d02 * d12)))) * IN' := by
  simp only [gen_defs]
  field_simp
  ring

/-- **Cumulative**: each entry adds its own non-negative rise to the previous one
(direct, statistical factors ≥ 1, rises ≥ 0, square root monotone on non-negatives). -/
theorem c19_cumulative (hs : ∀ x, 0 ≤ sqrtF x) (hmono : ∀ x y, 0 ≤ x → x ≤ y → sqrtF x ≤ sqrtF y)
    (hin : 0 < INs) (hout : 0 ≤ OUTs) (ht0 : 0 ≤ t0) (ht1 : 0 ≤ t1) (ht2 : 0 ≤ t2)
    (h00 : 1 ≤ d00) (h01 : 1 ≤ d01) (h02 : 1 ≤ d02) (h10 : 1 ≤ d10) (h11 : 1 ≤ d11) (h12 : 1 ≤ d12)
    (g00 : 1 ≤ s00) (g01 : 1 ≤ s01) (g02 : 1 ≤ s02) (g10 : 1 ≤ s10) (g11 : 1 ≤ s11) (g12 : 1 ≤ s12) :
    Tin ≤ hot_0 sqrtF Tin t0 t1 t2 d00 d01 d02 d10 d11 d12 s00 s01 s02 s10 s11 s12 INs OUTs
    ∧ hot_0 sqrtF Tin t0 t1 t2 d00 d01 d02 d10 d11 d12 s00 s01 s02 s10 s11 s12 INs OUTs
      ≤ hot_1 sqrtF Tin t0 t1 t2 d00 d01 d02 d10 d11 d12 s00 s01 s02 s10 s11 s12 INs OUTs
    ∧ hot_1 sqrtF Tin t0 t1 t2 d00 d01 d02 d10 d11 d12 s00 s01 s02 s10 s11 s12 INs OUTs
      ≤ hot_2 sqrtF Tin t0 t1 t2 d00 d01 d02 d10 d11 d12 s00 s01 s02 s10 s11 s12 INs OUTs := by
  -- zero-sigma rises and their statistical weights are non-negative
  have z0 : 0 ≤ t0 * (d00 * d10) := by positivity
  have z1 : 0 ≤ t1 * (d01 * d11) := by positivity
  have z2 : 0 ≤ t2 * (d02 * d12) := by positivity
  set a0 := t0 * (d00 * d10) * (s00 - 1) with ha0
  set a1 := t1 * (d01 * d11) * (s01 - 1) with ha1
  set a2 := t2 * (d02 * d12) * (s02 - 1) with ha2
  set b0 := t0 * (d00 * d10) * (s10 - 1) with hb0
  set b1 := t1 * (d01 * d11) * (s11 - 1) with hb1
  set b2 := t2 * (d02 * d12) * (s12 - 1) with hb2
  have pa0 : 0 ≤ a0 := mul_nonneg z0 (by linarith)
  have pa1 : 0 ≤ a1 := mul_nonneg z1 (by linarith)
  have pa2 : 0 ≤ a2 := mul_nonneg z2 (by linarith)
  have pb0 : 0 ≤ b0 := mul_nonneg z0 (by linarith)
  have pb1 : 0 ≤ b1 := mul_nonneg z1 (by linarith)
  have pb2 : 0 ≤ b2 := mul_nonneg z2 (by linarith)
  have m01 : sqrtF (a0 ^ 2 + b0 ^ 2) ≤ sqrtF ((a0 + a1) ^ 2 + (b0 + b1) ^ 2) :=
    hmono _ _ (by positivity) (by nlinarith)
  have m12 : sqrtF ((a0 + a1) ^ 2 + (b0 + b1) ^ 2) ≤ sqrtF ((a0 + a1 + a2) ^ 2 + (b0 + b1 + b2) ^ 2) :=
    hmono _ _ (by positivity) (by nlinarith)
  have q : ∀ x y, sqrtF x ≤ sqrtF y → OUTs * sqrtF x / INs ≤ OUTs * sqrtF y / INs := fun x y h =>
    div_le_div_of_nonneg_right (mul_le_mul_of_nonneg_left h hout) hin.le
  have q0 : 0 ≤ OUTs * sqrtF (a0 ^ 2 + b0 ^ 2) / INs := div_nonneg (mul_nonneg hout (hs _)) hin.le
  refine ⟨?_, ?_, ?_⟩
  · simp only [gen_defs]; linarith
  · simp only [gen_defs]; linarith [q _ _ m01]
  · simp only [gen_defs]; linarith [q _ _ m12]

/-- the hypotheses on the square root are those of the real square root -/
example : Real.sqrt 0 = 0 ∧ (∀ x, 0 ≤ Real.sqrt x) ∧ (∀ x y : ℝ, 0 ≤ x → x ≤ y → Real.sqrt x ≤ Real.sqrt y) :=
  ⟨Real.sqrt_zero, Real.sqrt_nonneg, fun _ _ _ h => Real.sqrt_le_sqrt h⟩

end Dassh.Props.C19
