/-
C03, the clause "for every user power file the heat deposited equals the integral of its input power profile": the rows of a
power file carry their own labels (assembly, component, axial cell bounds, item index), so the same profile can be written with
its rows in any order.  Theorems about `Dassh.Model.PowerRows` (tied to the real `power._from_file` by the correspondence check
of C03): the table the reader builds does not depend on the order of the rows, and it is the labelled profile.
The original reader (rows in file order) provably mixes up the items of a file written item by item.
-/
import Dassh.Model.PowerRows
import Mathlib.Order.Basic
import Mathlib.Order.Defs.LinearOrder
import Mathlib.Data.List.Basic
import Mathlib.Data.List.Perm.Basic
import Mathlib.Algebra.Order.Field.Rat

namespace Dassh.Props.C03Rows
open Dassh.Model.PowerRows

set_option linter.unusedSectionVars false

variable {K : Type} [LinearOrder K]

/-! ### the sort -/

theorem insertRow_perm (r : Row K) (l : List (Row K)) : (insertRow r l).Perm (r :: l) := by
  induction l with
  | nil => simp [insertRow]
  | cons s t ih =>
    unfold insertRow
    split
    · exact List.Perm.refl _
    · exact (List.Perm.cons s ih).trans (List.Perm.swap r s t)

theorem sortRows_perm (l : List (Row K)) : (sortRows l).Perm l := by
  induction l with
  | nil => simp [sortRows]
  | cons r t ih => exact (insertRow_perm r (sortRows t)).trans (List.Perm.cons r ih)

theorem rowLe_total (r s : Row K) : rowLe r s = true ∨ rowLe s r = true := by
  unfold rowLe
  rcases lt_trichotomy r.zlo s.zlo with h | h | h
  · left; simp [h]
  · rcases Nat.le_total r.idx s.idx with hi | hi
    · left; simp [h, hi]
    · right; simp [h, hi]
  · right; simp [h]

theorem rowLe_trans {r s t : Row K} (h1 : rowLe r s = true) (h2 : rowLe s t = true) : rowLe r t = true := by
  unfold rowLe at *
  simp only [Bool.or_eq_true, Bool.and_eq_true, decide_eq_true_eq] at *
  rcases h1 with h1 | ⟨h1, h1'⟩ <;> rcases h2 with h2 | ⟨h2, h2'⟩
  · exact Or.inl (lt_trans h1 h2)
  · exact Or.inl (h2 ▸ h1)
  · exact Or.inl (h1 ▸ h2)
  · exact Or.inr ⟨h1.trans h2, Nat.le_trans h1' h2'⟩

theorem insertRow_sorted (r : Row K) (l : List (Row K)) (h : l.Pairwise (fun a b => rowLe a b = true)) :
    (insertRow r l).Pairwise (fun a b => rowLe a b = true) := by
  induction l with
  | nil => simp [insertRow]
  | cons s t ih =>
    unfold insertRow
    have hs := List.pairwise_cons.mp h
    split
    · rename_i hrs
      exact List.pairwise_cons.mpr ⟨fun z hz => by
        rcases List.mem_cons.mp hz with rfl | hz
        · exact hrs
        · exact rowLe_trans hrs (hs.1 z hz), h⟩
    · rename_i hrs
      have hsr : rowLe s r = true := (rowLe_total r s).resolve_left hrs
      refine List.pairwise_cons.mpr ⟨fun z hz => ?_, ih hs.2⟩
      rcases List.mem_cons.mp ((insertRow_perm r t).subset hz) with rfl | hz
      · exact hsr
      · exact hs.1 z hz

theorem sortRows_sorted (l : List (Row K)) : (sortRows l).Pairwise (fun a b => rowLe a b = true) := by
  induction l with
  | nil => simp [sortRows]
  | cons r t ih => exact insertRow_sorted r _ ih

/-- two rows with the same labels on both sides of `rowLe` -/
theorem rowLe_antisymm {r s : Row K} (h1 : rowLe r s = true) (h2 : rowLe s r = true) : r.zlo = s.zlo ∧ r.idx = s.idx := by
  unfold rowLe at *
  simp only [Bool.or_eq_true, Bool.and_eq_true, decide_eq_true_eq] at *
  rcases h1 with h1 | ⟨h1, h1'⟩ <;> rcases h2 with h2 | ⟨h2, h2'⟩
  · exact absurd h1 (lt_asymm h2)
  · exact absurd h1 (by rw [h2]; exact lt_irrefl _)
  · exact absurd h2 (by rw [h1]; exact lt_irrefl _)
  · exact ⟨h1, Nat.le_antisymm h1' h2'⟩

/-- the ordered row list is determined by the set of labelled rows, not by the order they were written in -/
theorem sortRows_eq_of_perm (rows₁ rows₂ : List (Row K)) (hp : rows₁.Perm rows₂)
    (hlab : ∀ a ∈ rows₁, ∀ b ∈ rows₁, a.zlo = b.zlo → a.idx = b.idx → a = b) : sortRows rows₁ = sortRows rows₂ := by
  have hperm : (sortRows rows₁).Perm (sortRows rows₂) := (sortRows_perm rows₁).trans (hp.trans (sortRows_perm rows₂).symm)
  refine List.Perm.eq_of_pairwise (le := fun a b => rowLe a b = true) ?_ (sortRows_sorted _) (sortRows_sorted _) hperm
  intro a b ha hb h1 h2
  obtain ⟨hz, hi⟩ := rowLe_antisymm h1 h2
  exact hlab a ((sortRows_perm rows₁).subset ha) b (hp.symm.subset ((sortRows_perm rows₂).subset hb)) hz hi

/-- **Order independence**: two files with the same labelled rows (each (axial cell, item) label used for one row content)
give the same table, whatever the order of their rows -/
theorem c03_rows_order_independent (n : Nat) (rows₁ rows₂ : List (Row K)) (hp : rows₁.Perm rows₂)
    (hlab : ∀ a ∈ rows₁, ∀ b ∈ rows₁, a.zlo = b.zlo → a.idx = b.idx → a = b) : table n rows₁ = table n rows₂ := by
  unfold table
  rw [sortRows_eq_of_perm rows₁ rows₂ hp hlab, hp.length_eq]

/-! ### the table is the labelled profile -/

/-- the rows of a complete profile: axial cells `(z_lo, f)` with items `1..n`, item `i+1` of the cell having coefficients `f i` -/
def grid (n : Nat) (cells : List (K × (Nat → List K))) : List (Row K) :=
  cells.flatMap fun c => (List.range n).map fun i => ⟨c.1, i + 1, c.2 i⟩

theorem grid_sorted (n : Nat) (cells : List (K × (Nat → List K))) (hz : cells.Pairwise (fun a b => a.1 < b.1)) :
    (grid n cells).Pairwise (fun a b => rowLe a b = true) := by
  unfold grid
  rw [List.pairwise_flatMap]
  constructor
  · intro c _
    rw [List.pairwise_map]
    exact List.pairwise_lt_range.imp (fun {i j} hij => by simp [rowLe]; omega)
  · refine hz.imp ?_
    intro a b hab x hx y hy
    obtain ⟨i, _, rfl⟩ := List.mem_map.mp hx
    obtain ⟨j, _, rfl⟩ := List.mem_map.mp hy
    simp [rowLe, hab]

theorem cells_inj (cells : List (K × (Nat → List K))) (hz : cells.Pairwise (fun a b => a.1 < b.1)) :
    ∀ c ∈ cells, ∀ d ∈ cells, c.1 = d.1 → c = d := by
  induction cells with
  | nil => simp
  | cons x xs ih =>
    have hx := List.pairwise_cons.mp hz
    intro c hc d hd hcd
    rcases List.mem_cons.mp hc with hc1 | hc1 <;> rcases List.mem_cons.mp hd with hd1 | hd1
    · rw [hc1, hd1]
    · rw [hc1] at hcd ⊢; exact absurd hcd (ne_of_lt (hx.1 d hd1))
    · rw [hd1] at hcd ⊢; exact absurd hcd.symm (ne_of_lt (hx.1 c hc1))
    · exact ih hx.2 c hc1 d hd1 hcd

theorem grid_length (n : Nat) (cells : List (K × (Nat → List K))) : (grid n cells).length = cells.length * n := by
  unfold grid
  induction cells with
  | nil => simp
  | cons c cs ih =>
    simp only [List.flatMap_cons, List.length_append, List.length_map, List.length_range, List.length_cons, ih]
    rw [Nat.add_mul, Nat.one_mul, Nat.add_comm]

theorem chunk_flatten {β : Type} (n : Nat) (hn : 0 < n) (ls : List (List β)) (h : ∀ l ∈ ls, l.length = n) (fuel : Nat)
    (hf : ls.length ≤ fuel) : chunk n fuel ls.flatten = ls := by
  induction ls generalizing fuel with
  | nil => cases fuel <;> simp [chunk]
  | cons l ls ih =>
    cases fuel with
    | zero => simp at hf
    | succ fuel =>
      have hl : l.length = n := h l (by simp)
      have hne : (l ++ ls.flatten).isEmpty = false := by
        cases l with
        | nil => simp at hl; omega
        | cons _ _ => simp
      simp only [chunk, List.flatten_cons, hne, Bool.false_eq_true, if_false]
      rw [List.take_left' hl, List.drop_left' hl, ih (fun l' hl' => h l' (List.mem_cons_of_mem _ hl')) fuel (by simpa using hf)]

/-- **The table is the profile the labels describe**: if the rows of the file are, in any order, the rows of a complete profile
(axial cells with strictly increasing lower bounds, items 1..n in every cell), then `table[k][i]` holds the coefficients the file
gives for item `i+1` of the `k`-th axial cell -/
theorem c03_rows_table (n : Nat) (hn : 0 < n) (cells : List (K × (Nat → List K))) (hz : cells.Pairwise (fun a b => a.1 < b.1))
    (rows : List (Row K)) (hp : rows.Perm (grid n cells)) :
    table n rows = cells.map fun c => (List.range n).map c.2 := by
  have hsorted : sortRows rows = grid n cells := by
    refine List.Perm.eq_of_pairwise (le := fun a b => rowLe a b = true) ?_ (sortRows_sorted _) (grid_sorted n cells hz)
      ((sortRows_perm rows).trans hp)
    intro a b ha hb h1 h2
    obtain ⟨hzz, hi⟩ := rowLe_antisymm h1 h2
    -- both rows belong to the grid, whose labels are unique
    have ha' : a ∈ grid n cells := hp.subset ((sortRows_perm rows).subset ha)
    unfold grid at ha' hb
    obtain ⟨c, hc, hac⟩ := List.mem_flatMap.mp ha'
    obtain ⟨d, hd, hbd⟩ := List.mem_flatMap.mp hb
    obtain ⟨i, _, rfl⟩ := List.mem_map.mp hac
    obtain ⟨j, _, rfl⟩ := List.mem_map.mp hbd
    simp only at hzz hi
    have hcd : c = d := cells_inj cells hz c hc d hd hzz
    subst hcd
    have : i = j := by omega
    subst this
    rfl
  unfold table
  rw [hsorted, hp.length_eq]
  have hmap : (grid n cells).map (·.coeffs) = (cells.map fun c => (List.range n).map c.2).flatten := by
    unfold grid
    rw [List.map_flatMap, List.flatMap_def]
    simp [Function.comp_def]
  rw [hmap]
  apply chunk_flatten n hn
  · intro l hl
    obtain ⟨c, _, rfl⟩ := List.mem_map.mp hl
    simp
  · have : (grid n cells).length = cells.length * n := grid_length n cells
    simp only [List.length_map]
    rw [this]
    exact Nat.le_mul_of_pos_right _ hn

/-- the original reader (file order): a file written item by item (item 1 in both axial cells, then item 2) puts the second
axial cell of item 1 where item 2 of the first cell belongs -/
theorem c03_rows_file_order_counter :
    let rows : List (Row ℚ) := [⟨0, 1, [11]⟩, ⟨5, 1, [21]⟩, ⟨0, 2, [12]⟩, ⟨5, 2, [22]⟩]
    tableFileOrder 2 rows = [[[11], [21]], [[12], [22]]] ∧ table 2 rows = [[[11], [12]], [[21], [22]]] := by
  decide +kernel

end Dassh.Props.C03Rows
