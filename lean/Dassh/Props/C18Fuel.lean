/-
C18, fuel pellet description: theorems about `Dassh.Model.AcceptFuel` (the reader's `check_fuel_model`, tied to the real
method by the correspondence check of C18).  Acceptance implies a pellet the pin model can be built on: the gap that is USED
(standard or legacy key) leaves room for the pellet, the radial zones start inside the pellet, have positive thickness and
end before its surface, porosities and weight fractions are fractions, and the porosity correction of the conductivity is
finite and positive.
-/
import Dassh.Model.AcceptFuel
import Mathlib.Algebra.Order.Field.Basic
import Mathlib.Algebra.Order.Field.Rat
import Mathlib.Data.List.Basic
import Mathlib.Tactic.Linarith
import Mathlib.Tactic.Positivity

namespace Dassh.Props.C18Fuel
open Dassh.Model.AcceptFuel

set_option linter.unusedSectionVars false

variable {K : Type} [Field K] [LinearOrder K] [IsStrictOrderedRing K]

theorem increasing_of_not (l : List K) (h : notIncreasing l = false) : l.Pairwise (· < ·) := by
  induction l with
  | nil => simp
  | cons a t ih =>
    cases t with
    | nil => simp
    | cons b t' =>
      simp only [notIncreasing, Bool.or_eq_false_iff, decide_eq_false_iff_not, not_le] at h
      have iht := ih h.2
      refine List.pairwise_cons.mpr ⟨fun x hx => ?_, iht⟩
      rcases List.mem_cons.mp hx with rfl | hx
      · exact h.1
      · exact lt_trans h.1 ((List.pairwise_cons.mp iht).1 x hx)

/-- what acceptance gives -/
theorem c18_fuel_accept (puLimit : K) (f : Fuel K) (h : checkFuel puLimit f = .ok ()) :
    effGap f ≤ f.innerRadius
    ∧ f.rFrac ≠ [] ∧ f.rFrac.Pairwise (· < ·) ∧ (∀ x ∈ f.rFrac, 0 ≤ x ∧ x < 1)
    ∧ f.puFrac.length = f.rFrac.length ∧ f.zrFrac.length = f.rFrac.length ∧ f.porosity.length = f.rFrac.length
    ∧ f.hasClad = true ∧ (0 < effGap f → f.hasGapMaterial = true)
    ∧ (∀ p ∈ f.porosity, 0 ≤ p ∧ p < 1) ∧ (∀ x ∈ f.puFrac, 0 ≤ x ∧ x ≤ puLimit) ∧ (∀ x ∈ f.zrFrac, 0 ≤ x) := by
  unfold checkFuel at h
  split at h; · cases h
  rename_i h1
  split at h; · cases h
  rename_i h2
  split at h; · cases h
  rename_i h3
  split at h; · cases h
  rename_i h4
  split at h; · cases h
  rename_i h5
  split at h; · cases h
  rename_i h6
  split at h; · cases h
  rename_i h7
  split at h; · cases h
  rename_i h8
  split at h; · cases h
  rename_i h9
  simp only [Bool.not_eq_true] at h2
  have hr : ∀ x ∈ f.rFrac, 0 ≤ x ∧ x < 1 := by
    intro x hx
    by_contra hc
    apply h3
    refine List.any_eq_true.mpr ⟨x, hx, ?_⟩
    simp only [Bool.not_eq_true', Bool.and_eq_false_iff, decide_eq_false_iff_not]
    by_contra hcc
    push Not at hcc
    exact hc ⟨hcc.1, hcc.2⟩
  simp only [Bool.or_eq_true, List.isEmpty_iff, not_or] at h4
  push Not at h5
  simp only [Bool.or_eq_true, not_or] at h8
  refine ⟨not_lt.mp h1, h4.1.1.1, increasing_of_not _ h2, hr, h5.1, h5.2.1, h5.2.2, by simpa using h6, ?_, ?_, ?_, ?_⟩
  · intro hg
    by_contra hc
    exact h7 (by simp [hg, hc])
  · intro p hp
    by_contra hc
    apply h8.1.1
    refine List.any_eq_true.mpr ⟨p, hp, ?_⟩
    simp only [Bool.not_eq_true', Bool.and_eq_false_iff, decide_eq_false_iff_not]
    by_contra hcc
    push Not at hcc
    exact hc ⟨hcc.1, hcc.2⟩
  · intro x hx
    constructor
    · by_contra hc
      exact h8.1.2 (List.any_eq_true.mpr ⟨x, hx, by simpa using not_le.mp hc⟩)
    · by_contra hc
      exact h9 (List.any_eq_true.mpr ⟨x, hx, by simpa using not_le.mp hc⟩)
  · intro x hx
    by_contra hc
    exact h8.2 (List.any_eq_true.mpr ⟨x, hx, by simpa using not_le.mp hc⟩)

/-- the porosity correction `(1 - p) / (1 + β p)` of the fuel conductivity is finite and positive for every accepted porosity -/
theorem c18_fuel_porosity_factor (puLimit : K) (f : Fuel K) (h : checkFuel puLimit f = .ok ()) (β : K) (hβ : 0 ≤ β) :
    ∀ p ∈ f.porosity, 0 < 1 + β * p ∧ 0 < (1 - p) / (1 + β * p) := by
  intro p hp
  obtain ⟨hp0, hp1⟩ := (c18_fuel_accept puLimit f h).2.2.2.2.2.2.2.2.2.1 p hp
  have hd : 0 < 1 + β * p := by nlinarith [mul_nonneg hβ hp0]
  exact ⟨hd, div_pos (by linarith) hd⟩

/-- every radial zone of an accepted pellet has positive thickness: the listed inner radii increase strictly and the last zone
ends at the pellet surface (fraction 1) -/
theorem c18_fuel_zones (puLimit : K) (f : Fuel K) (h : checkFuel puLimit f = .ok ()) :
    (f.rFrac ++ [1]).Pairwise (· < ·) ∧ ∀ x ∈ f.rFrac, 0 ≤ x := by
  obtain ⟨_, _, hinc, hr, _⟩ := c18_fuel_accept puLimit f h
  refine ⟨List.pairwise_append.mpr ⟨hinc, by simp, fun a ha b hb => ?_⟩, fun x hx => (hr x hx).1⟩
  rw [List.mem_singleton.mp hb]
  exact (hr a ha).2

/-- a radius fraction outside `[0, 1)` is rejected wherever it stands -/
theorem c18_fuel_reject_rfrac (puLimit : K) (f : Fuel K) (h : ∃ x ∈ f.rFrac, x < 0 ∨ 1 ≤ x) : checkFuel puLimit f ≠ .ok () := by
  intro hok
  obtain ⟨x, hx, hout⟩ := h
  have := (c18_fuel_accept puLimit f hok).2.2.2.1 x hx
  rcases hout with h1 | h1
  · exact absurd this.1 (not_le.mpr h1)
  · exact absurd this.2 (not_lt.mpr h1)

/-- a negative porosity or weight fraction, or a porosity of one or more, is rejected -/
theorem c18_fuel_reject_fraction (puLimit : K) (f : Fuel K)
    (h : (∃ p ∈ f.porosity, p < 0 ∨ 1 ≤ p) ∨ (∃ x ∈ f.puFrac, x < 0) ∨ (∃ x ∈ f.zrFrac, x < 0)) :
    checkFuel puLimit f ≠ .ok () := by
  intro hok
  obtain ⟨_, _, _, _, _, _, _, _, _, hp, hpu, hzr⟩ := c18_fuel_accept puLimit f hok
  rcases h with ⟨p, hpm, hout⟩ | ⟨x, hxm, hneg⟩ | ⟨x, hxm, hneg⟩
  · rcases hout with h1 | h1
    · exact absurd (hp p hpm).1 (not_le.mpr h1)
    · exact absurd (hp p hpm).2 (not_lt.mpr h1)
  · exact absurd (hpu x hxm).1 (not_le.mpr hneg)
  · exact absurd (hzr x hxm) (not_le.mpr hneg)

/-- a gap given with the legacy key is held against the clad inner radius like the standard one -/
theorem c18_fuel_reject_legacy_gap (puLimit : K) (f : Fuel K) (h0 : f.gap = 0) (hr : 0 ≤ f.innerRadius)
    (h : f.innerRadius < f.fcgap) : checkFuel puLimit f = .error FErr.gapTooThick := by
  have hg : effGap f = f.fcgap := by
    unfold effGap
    rw [if_pos h0, if_pos (lt_of_le_of_lt hr h)]
  unfold checkFuel
  rw [if_pos (by rw [hg]; exact h)]

/-- the original order of the reader - the gap test BEFORE the legacy key is moved into the standard one - lets a legacy gap
thicker than the whole pin through -/
def gapTestOriginal (f : Fuel K) : Bool := decide (f.innerRadius < f.gap)

theorem c18_fuel_original_order_unsound :
    let f : Fuel ℚ := ⟨3, 0, 8, [0], [1 / 5], [1 / 10], [1 / 4], true, true⟩
    gapTestOriginal f = false ∧ checkFuel (37037 / 100000) f = .error FErr.gapTooThick := by
  decide +kernel

/-- the premises are satisfiable -/
example : checkFuel (37037 / 100000 : ℚ) ⟨3, 1 / 10, 0, [0, 1 / 3, 2 / 3], [1 / 5, 1 / 5, 1 / 5], [1 / 10, 1 / 10, 1 / 10],
    [1 / 4, 1 / 4, 1 / 4], true, true⟩ = .ok () := by decide +kernel

end Dassh.Props.C18Fuel
