/-
C01 — every assembly coolant energy balance closes at every axial step.

`Dassh.Gen.C01` is regenerated on every run by executing the real interior and
bypass coolant updates (with the code's own constants, mass flows and energy
tallies) on symbolic whole bundles.  For a bundle tag `X`:
  lhs_X   = Σ_i ṁ_i · cp · ΔT_i            (enthalpy-flow change of the interior coolant)
  rhs_X   = ebal['power'] + Σ_j ebal['duct'][j]   (what the code tallies for the step)
  power_X = ebal['power'],  qsum_X = dz · (Σ pins + Σ coolant heating)
  exch_X  = lhs_X without sources and with every wall at its coolant's temperature
  byp_*   = the same for the bypass gap between two ducts.
`Dassh.Gen.C01Ur` (same mechanism, low-fidelity regions): `ur_balance_<variant>` - enthalpy-flow change of the node(s) = tallied
power + tallied wall heat, tallied power = q dz, conduction between the six nodes sums to zero.
`Dassh.Gen.C01Carry` (region change, traced `_activate_base` + the regions' own mixed-mean properties): `carry_<old>_to_<new>` - the mixed
mean of the new region after activation equals the mixed mean of the old region, given that the new region's weights sum to one.
-/
import Dassh.Gen.C01
import Dassh.Gen.C01Roles
import Dassh.Gen.C01All
import Dassh.Gen.C01Ur
import Dassh.Gen.C01Carry
import Mathlib.Algebra.Order.Field.Basic
import Mathlib.Tactic.FieldSimp
import Mathlib.Tactic.Ring
import Mathlib.Tactic.Linarith
import Mathlib.Tactic.Positivity

namespace Dassh.Props.C01
open Dassh.Gen.C01

variable {K : Type} [Field K] [LinearOrder K] [IsStrictOrderedRing K]

/-- Admissible bundle symbols (strictly positive where the code divides by them). -/
structure Pos (e : Env K) : Prop where
  L00 : 0 < e.L00
  L01 : 0 < e.L01
  P : 0 < e.P
  L12 : 0 < e.L12
  L22 : 0 < e.L22
  A_0 : 0 < e.A_0
  A_1 : 0 < e.A_1
  A_2 : 0 < e.A_2
  Ab : 0 < e.Ab
  Abyp_0_0 : 0 < e.Abyp_0_0
  Abyp_0_1 : 0 < e.Abyp_0_1
  Abtot_0 : 0 < e.Abtot_0
  Lb56_0 : 0 < e.Lb56_0
  mdot : 0 < e.mdot
  mbyp_0 : 0 < e.mbyp_0
  fs_0 : 0 < e.fs_0
  fs_1 : 0 < e.fs_1
  fs_2 : 0 < e.fs_2
  h_1 : 0 < e.h_1
  h_2 : 0 < e.h_2
  hb_0_0 : 0 < e.hb_0_0
  hb_0_1 : 0 < e.hb_0_1
  cp : 0 < e.cp
  kw : 0 < e.kw
  dwall_0 : 0 < e.dwall_0
  dwall_1 : 0 < e.dwall_1

set_option hygiene false in
macro "c01_tac" : tactic => `(tactic| (
  obtain ⟨p1,p2,p3,p4,p5,p6,p7,p8,p9,p10,p11,p12,p13,p14,p15,p16,p17,p18,p19,p20,p21,p22,p23,p24,p25,p26⟩ := hp
  have h6' : e.sixth = 1 / 6 := by
    have : (6 : K) ≠ 0 := by norm_num
    field_simp; linarith
  simp only [gen_defs, h6', hsw]
  field_simp
  ring))

set_option hygiene false in
open Lean in
macro "c01_class " x:ident : command => do
  let s := x.getId.toString
  let mk (p : String) : Ident := mkIdent (Name.mkSimple (p ++ s))
  `(theorem $(mk "c01_") (e : Env K) (s : $(mk "St_") K) (hp : Pos e) (h6 : 6 * e.sixth = 1)
        (hsw : e.sw_1 = e.sw_2) :
      $(mk "lhs_") e s = $(mk "rhs_") e s := by
    c01_tac)


set_option hygiene false in
open Lean in
macro "c01_power_class " x:ident : command => do
  let s := x.getId.toString
  let mk (p : String) : Ident := mkIdent (Name.mkSimple (p ++ s))
  `(theorem $(mk "c01_power_") (e : Env K) (s : $(mk "St_") K) (h6 : 6 * e.sixth = 1) :
      $(mk "power_") e s = $(mk "qsum_") e s := by
    have h6' : e.sixth = 1 / 6 := by
      have : (6 : K) ≠ 0 := by norm_num
      field_simp; linarith
    simp only [gen_defs, h6']
    ring)

set_option hygiene false in
open Lean in
macro "c01_exch_class " x:ident : command => do
  let s := x.getId.toString
  let mk (p : String) : Ident := mkIdent (Name.mkSimple (p ++ s))
  `(theorem $(mk "c01_exch_") (e : Env K) (s : $(mk "St_") K) (hp : Pos e) (hsw : e.sw_1 = e.sw_2) :
      $(mk "exch_") e s = 0 := by
    obtain ⟨p1,p2,p3,p4,p5,p6,p7,p8,p9,p10,p11,p12,p13,p14,p15,p16,p17,p18,p19,p20,p21,p22,p23,p24,p25,p26⟩ := hp
    simp only [gen_defs, hsw]
    field_simp
    ring)

set_option hygiene false in
open Lean in
macro "c01_byp_class " x:ident : command => do
  let s := x.getId.toString
  let mk (p : String) : Ident := mkIdent (Name.mkSimple (p ++ s))
  `(theorem $(mk "c01_byp_") (e : Env K) (s : $(mk "St_") K) (hp : Pos e) :
      $(mk "byp_lhs_") e s = $(mk "byp_rhs_") e s := by
    obtain ⟨p1,p2,p3,p4,p5,p6,p7,p8,p9,p10,p11,p12,p13,p14,p15,p16,p17,p18,p19,p20,p21,p22,p23,p24,p25,p26⟩ := hp
    simp only [gen_defs]
    field_simp
    ring)

/-! ### 7-pin bundle, clockwise wire, one duct -/
set_option maxHeartbeats 4000000 in
c01_class n2
c01_power_class n2
set_option maxHeartbeats 4000000 in
c01_exch_class n2

/-! ### 7-pin bundle, counter-clockwise wire -/
set_option maxHeartbeats 4000000 in
c01_class n2ccw
set_option maxHeartbeats 4000000 in
c01_exch_class n2ccw

/-! ### 7-pin bundle, low-flow convection approximation -/
set_option maxHeartbeats 4000000 in
c01_class n2ca
set_option maxHeartbeats 4000000 in
c01_exch_class n2ca

/-! ### 19-pin bundle -/
set_option maxHeartbeats 16000000 in
c01_class n3
c01_power_class n3
set_option maxHeartbeats 16000000 in
c01_exch_class n3

/-! ### double-duct 7-pin bundle: bypass gap, with and without the low-flow approximation -/
set_option maxHeartbeats 4000000 in
c01_byp_class n2d2
set_option maxHeartbeats 4000000 in
c01_byp_class n2d2ca

/-! ### every ring count

The traced whole-bundle theorems above are for 7 and 19 pins.  For every ring count the statement is assembled from
* `Dassh.Exchange.bundle_conservation` (Lemmas/Exchange.lean): for ANY tables with a symmetric neighbour relation and a
  permutation donor map, and ANY pair coefficients that are symmetric in the two cell types, the enthalpy-flow rise of all
  cells equals the sum of their sources (conduction, mixing and swirl cancel);
* the kernel-decided certificates of the tables the running code builds for `n_ring = 2..20` (Gen/C08T*.lean), instantiated
  in Gen/C01All.lean (`exch_n<n>_cw/ccw`);
* `Dassh.Gen.C01Roles.role_*` (regenerated on every run): multiplied by the cell's heat-capacity flow, every traced
  neighbour weight of every neighbour-type class IS the symmetric pair coefficient `g e a b` of Lemmas/BundleForm.lean,
  plus the one swirl constant for the donor role;
* `classCert` (C08, shared with C04): every cell of those tables belongs to one of the traced classes.
-/

section every_ring_count
open Finset Dassh.Table Dassh.Exchange Dassh.BundleForm

/-- one of the 100 generated role identities, in terms of `g`: an edge cell next to a corner (class 2-123), its edge
neighbour that is also its swirl donor -/
theorem c01_role_example (e : Dassh.Gen.C04.Env K) (hn : NZ e) (hsw : e.sw_1 = e.sw_2) :
    mcp e 1 * Dassh.Gen.C04.WTn1_int_2_123_std_d1 e = (g e 1 1 + Csw e) * e.dz := by
  rw [g_11]
  exact Dassh.Gen.C01Roles.role_int_2_123_std_d1_n1 e hn hsw

/-- **C01 for the tables of `n_ring = 20`** (1141 pins, 2286 coolant subchannels, clockwise wire): with the traced
energy-form coefficients (`g e a b · dz`, symmetric in the cell types) and swirl constant, the enthalpy-flow rise summed over
all subchannels equals the sum of the sources - for all temperature fields, all sources and all bundle symbols. -/
theorem c01_n20 (e : Dassh.Gen.C04.Env K) (hn : NZ e) (T q : Nat → K) :
    ∑ i ∈ range Dassh.Gen.C08T20.ncool,
        mcp e (Dassh.Gen.C08T20.tyf i)
          * (bundleStep Dassh.Gen.C08T20.tyf Dassh.Gen.C08T20.nb (donorN Dassh.Gen.C08T20.nint Dassh.Gen.C08T20.donorCW)
              (fun a b => g e a b * e.dz) (Csw e * e.dz) (mcp e) T q i - T i)
      = ∑ i ∈ range Dassh.Gen.C08T20.ncool, q i :=
  Dassh.Gen.C01All.exch_n20_cw _ (fun a b => by rw [g_symm]) _ _ (mcp_ne_zero e hn) T q

/-- the same for the counter-clockwise wire and a mid-size bundle (`n_ring = 9`, 217 pins) -/
theorem c01_n9_ccw (e : Dassh.Gen.C04.Env K) (hn : NZ e) (T q : Nat → K) :
    ∑ i ∈ range Dassh.Gen.C08T9.ncool,
        mcp e (Dassh.Gen.C08T9.tyf i)
          * (bundleStep Dassh.Gen.C08T9.tyf Dassh.Gen.C08T9.nb (donorN Dassh.Gen.C08T9.nint Dassh.Gen.C08T9.donorCCW)
              (fun a b => g e a b * e.dz) (Csw e * e.dz) (mcp e) T q i - T i)
      = ∑ i ∈ range Dassh.Gen.C08T9.ncool, q i :=
  Dassh.Gen.C01All.exch_n9_ccw _ (fun a b => by rw [g_symm]) _ _ (mcp_ne_zero e hn) T q

/-- non-vacuity: the hypotheses can be met (all symbols one) -/
example : NZ (⟨1,1,1,1,1,1,1,1,1,1,1,1,1,1,1,1,1,1,1,1,1,1,1,1,1,1,1,1,1,1,1,1,1,1,1,1,1,1,1,1,1,1⟩ : Dassh.Gen.C04.Env ℚ) := by
  constructor <;> norm_num

end every_ring_count

end Dassh.Props.C01
