/-
C18 — impossible or inconsistent inputs are rejected before any calculation.
Decision-logic theorems about `Dassh.Model.Accept` (tied to the real reader by the
differential classification in harness/checks/c18.py).
-/
import Dassh.Model.Accept
import Mathlib.Algebra.Order.Field.Basic
import Mathlib.Tactic.Linarith
import Mathlib.Tactic.SplitIfs
import Mathlib.Algebra.Order.Field.Rat
import Mathlib.Tactic.Tauto
import Mathlib.Tactic.Push
import Mathlib.Tactic.NormNum

namespace Dassh.Props.C18
open Dassh.Model.Accept

variable {K : Type} [Field K] [LinearOrder K] [IsStrictOrderedRing K]

/-- **Every member of each invalid pin class is rejected.** -/
theorem c18_reject_pin (s3 : K) (a : Asm K) :
    (a.pitch ≤ 0 ∨ a.diam ≤ 0 ∨ a.clad ≤ 0 ∨ a.nRing = 0 → checkPin s3 a ≠ .ok ())
    ∧ (a.pitch ≤ a.diam → checkPin s3 a ≠ .ok ())
    ∧ (a.diam / 2 < a.clad → checkPin s3 a ≠ .ok ())
    ∧ (a.pitch - a.diam < a.wire → checkPin s3 a ≠ .ok ()) := by
  refine ⟨?_, ?_, ?_, ?_⟩ <;>
  · intro h
    unfold checkPin
    split_ifs <;> first | (intro hc; cases hc) | (exfalso; tauto) | skip
    all_goals first | (intro hc; cases hc) | (exfalso; tauto) | (split <;> first | (intro hc; cases hc) | (exfalso; tauto) | skip)
    all_goals first | (exfalso; tauto) | (split_ifs <;> first | (intro hc; cases hc) | (exfalso; tauto))

/-- **Pins that do not fit are rejected**: `√3 (n−1) P + D + 2 D_w` larger than the smallest duct
flat-to-flat distance, for an assembly that is not low-fidelity. -/
theorem c18_reject_fit (s3 : K) (a : Asm K) (d : K) (ds : List K) (hd : a.ducts = d :: ds) (hlf : a.lowFidelity = false)
    (hfit : minList d ds < s3 * ((a.nRing - 1 : Nat) : K) * a.pitch + a.diam + 2 * a.wire) :
    checkPin s3 a ≠ .ok () := by
  unfold checkPin
  split_ifs with h1 h2 h3 h4 h5
  · intro hc; cases hc
  · intro hc; cases hc
  · intro hc; cases hc
  · intro hc; cases hc
  · rw [hlf] at h5; cases h5
  · rw [hd]
    simp only
    have : minList d ds - (s3 * ((a.nRing - 1 : Nat) : K) * a.pitch + a.diam + 2 * a.wire) < 0 := by linarith
    rw [if_pos this]
    intro hc; cases hc

/-- **What acceptance guarantees** (so that the geometry / step models are well posed): positive
pitch, diameter and clad thickness, at least one ring, pitch > diameter (touching pins are refused: defect 67), clad ≤ radius, the wire fits
in the pin gap; and for a pin bundle, the bundle fits in the smallest duct. -/
theorem c18_accept_wellposed (s3 : K) (a : Asm K) (h : checkPin s3 a = .ok ()) :
    a.nRing ≠ 0 ∧ 0 < a.pitch ∧ 0 < a.diam ∧ 0 < a.clad ∧ a.diam < a.pitch ∧ a.clad ≤ a.diam / 2
      ∧ a.wire ≤ a.pitch - a.diam
      ∧ (a.lowFidelity = false → ∀ d ds, a.ducts = d :: ds →
          s3 * ((a.nRing - 1 : Nat) : K) * a.pitch + a.diam + 2 * a.wire ≤ minList d ds) := by
  unfold checkPin at h
  split_ifs at h with h1 h2 h3 h4 h5
  · push_neg at h1
    refine ⟨h1.1, h1.2.1, h1.2.2.1, h1.2.2.2, not_le.mp h2, not_lt.mp h3, not_lt.mp h4, ?_⟩
    intro hlf; rw [hlf] at h5; cases h5
  · push_neg at h1
    refine ⟨h1.1, h1.2.1, h1.2.2.1, h1.2.2.2, not_le.mp h2, not_lt.mp h3, not_lt.mp h4, ?_⟩
    intro _ d ds hd
    rw [hd] at h
    simp only at h
    split_ifs at h with h6
    linarith [not_lt.mp h6]

/-- duct checks: an odd number of flat-to-flat values, a non-positive or degenerate duct, or a duct not
smaller than the assembly pitch is rejected -/
theorem c18_reject_duct (pitch : K) (a : Asm K) :
    (a.ducts.length % 2 ≠ 0 → checkDuct pitch a ≠ .ok ())
    ∧ ((∃ f ∈ a.ducts, pitch ≤ f) → checkDuct pitch a ≠ .ok ()) := by
  constructor
  · intro h; unfold checkDuct; rw [if_pos h]; intro hc; cases hc
  · rintro ⟨f, hf, hle⟩
    unfold checkDuct
    split_ifs with h1 h2 h3 h4
    · intro hc; cases hc
    · intro hc; cases hc
    · intro hc; cases hc
    · intro hc; cases hc
    · exfalso
      apply h4
      rw [List.any_eq_true]
      exact ⟨f, hf, by simpa using hle⟩

/-- core checks: an accepted core has positive length and pitch and leaves coolant for the assemblies: the total flow
`Σ assembly flows / (1 - bypass_fraction)` the reactor computes has a positive divisor; with the flowing-gap model the gap gets flow -/
theorem c18_accept_core (core : CoreIn K) (h : coreCheck core = .ok ()) :
    0 < core.length ∧ 0 < core.asmPitch ∧ 0 < 1 - core.bypassFraction ∧ (core.flowGap = true → core.bypassFraction ≠ 0) := by
  unfold coreCheck at h
  split_ifs at h with h1 h2 h3
  push Not at h1
  refine ⟨h1.1, h1.2, by linarith [not_le.mp h2], fun hf hb => h3 ⟨hf, hb⟩⟩

/-- a bypass fraction of one or more is rejected (positive length and pitch given) -/
theorem c18_reject_bypass (core : CoreIn K) (hl : 0 < core.length) (hp : 0 < core.asmPitch) (h : 1 ≤ core.bypassFraction) :
    coreCheck core = .error Err.bypassNotBelowOne := by
  unfold coreCheck
  rw [if_neg (by push Not; exact ⟨hl, hp⟩), if_pos h]

/-- Non-vacuity: a sensible 3-ring bundle is accepted (√3 approximated from above for the check). -/
example : checkPin (2 : ℚ) ⟨3, 8 / 1000, 6 / 1000, 5 / 10000, 1 / 1000, [5 / 100, 54 / 1000], false⟩ = .ok () := by
  norm_num [checkPin, minList]

end Dassh.Props.C18
