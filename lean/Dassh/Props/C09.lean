/-
C09 — the inter-assembly gap mesh is well-formed for every core layout.

`Dassh.Gen.C09` holds, for every layout dumped in this run (all 127 non-empty subsets of
the 7-position core, plus sampled larger cores), the tables the running `Core.load`
built and the Boolean `cert_<layout> = gapCert …` (Lemmas/Table.lean): every gap cell
borders one to three assemblies; the cells around an assembly are pairwise distinct and
the side lengths add up (the perimeter is covered exactly once); gap adjacency is
symmetric with two or three neighbours per cell; both neighbours of a shared side list
the same cells in opposite order, with the finer of the two meshes.
-/
import Dassh.Gen.C09
import Dassh.Lemmas.TableSound
import Mathlib.Tactic.Ring
import Mathlib.Tactic.FieldSimp
import Mathlib.Algebra.BigOperators.Group.List.Basic
import Mathlib.Algebra.Order.Field.Basic

namespace Dassh.Props.C09
open Dassh.Gen.C09

/-- every dumped layout passes the certificate (each chunk is evaluated by the kernel
in its own generated module, `Dassh.Gen.C09_<k>.certs_ok`) -/
theorem c09_all_layouts : allCerts.all (· = true) = true := all_ok

/-- Consequence used by C02 (core energy balance): for EVERY dumped layout the generated module contains the instance
`exch_<layout>` of `Dassh.Exchange.gap_exchange_zero` - conduction between adjacent gap cells, or any other antisymmetric pair
exchange, sums to zero over the gap mesh the running code built.  Written out here for the full 7-assembly core. -/
theorem c09_full_core_gap_exchange_cancels {K : Type} [Field K] [LinearOrder K] [IsStrictOrderedRing K]
    (R : Nat → Nat → K) (hR : ∀ i j, R j i = R i j) (kc : K) (T : Nat → K) :
    ∑ c ∈ Finset.range fullNsc, ((Dassh.Table.row fullAdj 12 3 c).map fun j => kc * R c j * (T j - T c)).sum = 0 :=
  full_exch (fun c j => kc * R c j * (T j - T c)) (fun i j => by rw [hR j i]; ring)

/-! ### Flow split over the gap cells (last clause of C09)

`Core.load` sets `_sc_mfr = gap_flow_rate * area / total area` (the numeric oracle compares the real arrays with exactly this
expression on every dumped layout).  For any list of cell areas with non-zero sum: the cell flows sum to the gap flow, and two
cells carry flows in the ratio of their areas. -/

/-- the split `M * (a / S)` over a list of areas -/
def gapSplit {K : Type} [Field K] (M : K) (A : List K) : List K := A.map fun a => M * (a / A.sum)

theorem c09_flow_split_sum {K : Type} [Field K] (M : K) (A : List K) (h : A.sum ≠ 0) : (gapSplit M A).sum = M := by
  unfold gapSplit
  have hmap : (A.map fun a => M * (a / A.sum)) = A.map (fun a => (M / A.sum) * a) := by
    apply List.map_congr_left; intro a _; field_simp
  rw [hmap, List.sum_map_mul_left, List.map_id']
  field_simp

theorem c09_flow_split_proportional {K : Type} [Field K] (M a b S : K) : (M * (a / S)) * b = (M * (b / S)) * a := by ring

/-- with positive areas and a positive gap flow every cell flow is positive (the divisor `_inv_sc_mfr` of the gap update exists) -/
theorem c09_flow_split_pos {K : Type} [Field K] [LinearOrder K] [IsStrictOrderedRing K] (M a S : K) (hM : 0 < M) (ha : 0 < a)
    (hS : 0 < S) : 0 < M * (a / S) := by positivity

example : (gapSplit (6 : ℚ) [1, 2, 3]).sum = 6 := by
  apply c09_flow_split_sum; norm_num

end Dassh.Props.C09
