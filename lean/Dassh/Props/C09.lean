/-
C09 — the inter-assembly gap mesh is well-formed for every core layout.

`Dassh.Gen.C09` holds, for every layout dumped in this run (all 127 non-empty subsets of
the 7-position core, plus sampled larger cores), the tables the running `Core.load`
built and the Boolean `cert_<layout> = gapCert …` (Lemmas/Table.lean): every gap cell
borders one to three assemblies; the cells around an assembly are pairwise distinct and
the side lengths add up (the perimeter is covered exactly once); gap adjacency is
symmetric with two or three neighbours per cell; both neighbours of a shared side list
the same cells in opposite order, with the finer of the two meshes.
-/
import Dassh.Gen.C09
import Dassh.Lemmas.TableSound
import Mathlib.Tactic.Ring

namespace Dassh.Props.C09
open Dassh.Gen.C09

/-- every dumped layout passes the certificate (each chunk is evaluated by the kernel
in its own generated module, `Dassh.Gen.C09_<k>.certs_ok`) -/
theorem c09_all_layouts : allCerts.all (· = true) = true := all_ok

/-- Consequence used by C02 (core energy balance): for EVERY dumped layout the generated module contains the instance
`exch_<layout>` of `Dassh.Exchange.gap_exchange_zero` - conduction between adjacent gap cells, or any other antisymmetric pair
exchange, sums to zero over the gap mesh the running code built.  Written out here for the full 7-assembly core. -/
theorem c09_full_core_gap_exchange_cancels {K : Type} [Field K] [LinearOrder K] [IsStrictOrderedRing K]
    (R : Nat → Nat → K) (hR : ∀ i j, R j i = R i j) (kc : K) (T : Nat → K) :
    ∑ c ∈ Finset.range fullNsc, ((Dassh.Table.row fullAdj 12 3 c).map fun j => kc * R c j * (T j - T c)).sum = 0 :=
  full_exch (fun c j => kc * R c j * (T j - T c)) (fun i j => by rw [hR j i]; ring)

end Dassh.Props.C09
