/-
C06 — assemblies interact only through duct-wall heat transfer.

Frame / commutation theorems about `Dassh.Model.Heap`.  Their hypothesis — each assembly
step reads and writes only that assembly's own state (and reads the gap) — is a fact about
the Python object graph; it is established on the real `Reactor` by the harness (alias
analysis of mutable objects, metamorphic runs), not proved about CPython.
-/
import Dassh.Model.Heap
import Mathlib.Data.List.Perm.Basic
import Mathlib.Data.List.Nodup
import Mathlib.Logic.Basic

namespace Dassh.Props.C06
open Dassh.Model.Heap

variable {σ γ : Type}

/-- **Frame**: advancing assembly `a` leaves every other assembly's state and the gap unchanged -/
theorem c06_frame (f : Nat → σ → γ → σ) (a b : Nat) (s : Core σ γ) (h : b ≠ a) :
    (stepAsm f a s).asm b = s.asm b ∧ (stepAsm f a s).gap = s.gap := by
  simp [stepAsm, h]

/-- **Commutation**: steps of different assemblies commute -/
theorem c06_commute (f : Nat → σ → γ → σ) (a b : Nat) (s : Core σ γ) (h : a ≠ b) :
    stepAsm f a (stepAsm f b s) = stepAsm f b (stepAsm f a s) := by
  simp only [stepAsm]
  congr 1
  funext c
  by_cases hca : c = a <;> by_cases hcb : c = b
  · exact absurd (hca.symm.trans hcb) h
  · simp [hca, h]
  · simp [hcb, Ne.symm h]
  · simp [hca, hcb]

/-- the state of assembly `c` after stepping all assemblies of a duplicate-free list: its own step if
it is in the list, unchanged otherwise; the gap is untouched -/
theorem stepAll_asm (f : Nat → σ → γ → σ) (order : List Nat) (hnd : order.Nodup) (s : Core σ γ) (c : Nat) :
    (stepAll f order s).asm c = (if c ∈ order then f c (s.asm c) s.gap else s.asm c)
    ∧ (stepAll f order s).gap = s.gap := by
  induction order generalizing s with
  | nil => simp [stepAll]
  | cons a t ih =>
    have hnd' := (List.nodup_cons.mp hnd)
    have := ih hnd'.2 (stepAsm f a s)
    simp only [stepAll, List.foldl_cons] at this ⊢
    rw [this.1, this.2]
    refine ⟨?_, by simp [stepAsm]⟩
    by_cases hca : c = a
    · subst hca
      simp [hnd'.1, stepAsm]
    · by_cases hct : c ∈ t
      · simp [hct, hca, stepAsm]
      · simp [hct, hca, stepAsm]

/-- **Order independence**: any two orderings of the same assemblies produce the same plane
(this covers every interleaving of the per-assembly updates within a step) -/
theorem c06_order_independent (f : Nat → σ → γ → σ) (o1 o2 : List Nat) (h1 : o1.Nodup) (h2 : o2.Nodup)
    (hp : o1.Perm o2) (s : Core σ γ) : stepAll f o1 s = stepAll f o2 s := by
  have e1 := fun c => stepAll_asm f o1 h1 s c
  have e2 := fun c => stepAll_asm f o2 h2 s c
  have hasm : (stepAll f o1 s).asm = (stepAll f o2 s).asm := by
    funext c
    rw [(e1 c).1, (e2 c).1]
    have : c ∈ o1 ↔ c ∈ o2 := hp.mem_iff
    by_cases hc : c ∈ o1
    · simp [hc, this.mp hc]
    · have hc2 : c ∉ o2 := fun h => hc (this.mpr h)
      simp [hc, hc2]
  have hgap : (stepAll f o1 s).gap = (stepAll f o2 s).gap := by rw [(e1 0).2, (e2 0).2]
  cases h : stepAll f o1 s
  cases h' : stepAll f o2 s
  simp only [h, h'] at hasm hgap
  subst hasm hgap
  rfl

/-- **Stand-alone equivalence** (adiabatic core): after any number of planes the state of an assembly
in the core — whatever other assemblies are present and in whatever order — equals its stand-alone run -/
theorem c06_standalone (f : Nat → σ → γ → σ) (order : List Nat) (hnd : order.Nodup) (a : Nat) (ha : a ∈ order)
    (n : Nat) (s : Core σ γ) : (runCore f order n s).asm a = standAlone f a s.gap n (s.asm a)
      ∧ (runCore f order n s).gap = s.gap := by
  induction n generalizing s with
  | zero => simp [runCore, standAlone]
  | succ k ih =>
    have hs := stepAll_asm f order hnd s a
    have := ih (stepAll f order s)
    simp only [runCore, standAlone]
    rw [this.1, this.2, hs.1, hs.2]
    simp [ha]

/-- **Counter-example with a shared mutable cell**: two assemblies, the second one's result depends on
whether the first one ran before it. -/
theorem c06_shared_cell_breaks_isolation :
    let f : Nat → Nat → Nat → Nat := fun _ x m => x + m
    let w : Nat → Nat := fun x => x
    let s0 : SharedCore Nat Nat := { asm := fun _ => 1, cell := 0 }
    (sharedStep f w 1 s0).asm 1 ≠ (sharedStep f w 1 (sharedStep f w 0 s0)).asm 1 := by
  decide

end Dassh.Props.C06
