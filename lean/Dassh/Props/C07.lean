/-
C07 — solutions are equivariant under the hexagonal symmetries.

Generic part: any explicit cell update whose coefficients depend only on *local table data*
(own type, the types of the neighbours, the donor cell) commutes with every automorphism of
those tables (`IsAuto`), for one step and for whole sweeps; automorphisms compose, so the two
generators (rotation by 60°, mirror) give all twelve symmetries.  The mirror carries the
clockwise donor map to the counter-clockwise one, so the statement has two donor maps.
The interior coolant update of DASSH has this local form (Props/C04: all cells of a
neighbour-type class share one traced update).

Table part (generated, `Dassh.Gen.C07All`): the rotation and the mirror, derived from the
published centroid coordinates, are automorphisms of the tables the running code builds —
kernel-decided for every dumped ring count.  `isAuto_of_certs` turns the Boolean certificates
into `IsAuto`, and `c07_n2_*` instantiate everything for the real 7-pin tables.
-/
import Dassh.Gen.C07All
import Dassh.Lemmas.Equivariance
import Mathlib.Algebra.Order.Field.Basic
import Mathlib.Algebra.BigOperators.Group.List.Basic
import Mathlib.Data.List.Perm.Basic
import Mathlib.Data.List.Perm.Subperm
import Mathlib.Tactic.Ring

namespace Dassh.Props.C07
open Dassh.Equivariance Dassh.Table

variable {K : Type} [Field K]

theorem c07_auto_id (n : Nat) (ty : Nat → Nat) (nb : Nat → List Nat) (d : Nat → Nat) : IsAuto n ty nb d d id :=
  ⟨fun _ h => h, fun _ _ => rfl, fun i _ => by simp, fun _ _ => rfl⟩

/-- automorphisms compose (donor maps chain: `dA → dB → dC`) -/
theorem c07_auto_comp {n : Nat} {ty : Nat → Nat} {nb : Nat → List Nat} {dA dB dC : Nat → Nat} {π ρ : Nat → Nat}
    (hπ : IsAuto n ty nb dA dB π) (hρ : IsAuto n ty nb dB dC ρ) : IsAuto n ty nb dA dC (ρ ∘ π) where
  maps i hi := hρ.maps _ (hπ.maps i hi)
  ty i hi := by simp only [Function.comp]; rw [hρ.ty _ (hπ.maps i hi), hπ.ty i hi]
  nb i hi := by
    have h1 : (nb i).map (ρ ∘ π) = ((nb i).map π).map ρ := by rw [List.map_map]
    rw [h1]
    exact ((hπ.nb i hi).map ρ).trans (hρ.nb _ (hπ.maps i hi))
  don i hi := by simp only [Function.comp]; rw [hρ.don _ (hπ.maps i hi), hπ.don i hi]

/-- **Equivariance of one step.**  Updating the permuted fields with donor map `dA` gives the permuted update
with donor map `dB`: `step_A (T∘π) (src∘π) i = step_B T src (π i)` for every cell, field, source, weights. -/
theorem c07_step_equivariant {n : Nat} {ty : Nat → Nat} {nb : Nat → List Nat} {dA dB : Nat → Nat} {π : Nat → Nat}
    (hcl : Closed n nb dA) (hπ : IsAuto n ty nb dA dB π)
    (w : Nat → Nat → K) (sw b : Nat → K) (T src : Nat → K) (i : Nat) (hi : i < n) :
    localStep ty nb dA w sw b (T ∘ π) (src ∘ π) i = localStep ty nb dB w sw b T src (π i) := by
  unfold localStep
  simp only [Function.comp]
  have hsum : ((nb i).map fun j => w (ty i) (ty j) * (T (π j) - T (π i))).sum
      = ((nb (π i)).map fun j => w (ty (π i)) (ty j) * (T j - T (π i))).sum := by
    have h1 : ((nb i).map fun j => w (ty i) (ty j) * (T (π j) - T (π i)))
        = (((nb i).map π).map fun j' => w (ty (π i)) (ty j') * (T j' - T (π i))) := by
      rw [List.map_map]
      apply List.map_congr_left
      intro j hj
      simp only [Function.comp, hπ.ty i hi, hπ.ty j (hcl.nb i hi j hj)]
    rw [h1]
    exact ((hπ.nb i hi).map _).sum_eq
  rw [hsum, hπ.ty i hi, hπ.don i hi]

/-- the update of a cell `< n` only reads cells `< n` -/
theorem localStep_congr {n : Nat} {ty : Nat → Nat} {nb : Nat → List Nat} {d : Nat → Nat} (hcl : Closed n nb d)
    (w : Nat → Nat → K) (sw b : Nat → K) {T T' src src' : Nat → K}
    (hT : ∀ i, i < n → T i = T' i) (hs : ∀ i, i < n → src i = src' i) (i : Nat) (hi : i < n) :
    localStep ty nb d w sw b T src i = localStep ty nb d w sw b T' src' i := by
  unfold localStep
  have hl : ((nb i).map fun j => w (ty i) (ty j) * (T j - T i))
      = ((nb i).map fun j => w (ty i) (ty j) * (T' j - T' i)) := by
    apply List.map_congr_left
    intro j hj
    rw [hT j (hcl.nb i hi j hj), hT i hi]
  rw [hl, hT i hi, hT _ (hcl.don i hi), hs i hi]

/-- **Equivariance of a whole sweep** (step-dependent sources): marching the permuted problem with donor map `dA`
gives, cell by cell, the permuted result of marching the original problem with donor map `dB`. -/
theorem c07_sweep_equivariant {n : Nat} {ty : Nat → Nat} {nb : Nat → List Nat} {dA dB : Nat → Nat} {π : Nat → Nat}
    (hcl : Closed n nb dA) (hπ : IsAuto n ty nb dA dB π)
    (w : Nat → Nat → K) (sw b : Nat → K) (srcs : List (Nat → K)) (T T' : Nat → K)
    (h0 : ∀ i, i < n → T' i = T (π i)) :
    ∀ i, i < n →
      ((srcs.map (· ∘ π)).foldl (fun t s => localStep ty nb dA w sw b t s) T') i
        = (srcs.foldl (fun t s => localStep ty nb dB w sw b t s) T) (π i) := by
  induction srcs generalizing T T' with
  | nil => intro i hi; simpa using h0 i hi
  | cons s t ih =>
    simp only [List.map_cons, List.foldl_cons]
    apply ih
    intro i hi
    rw [localStep_congr hcl w sw b (T' := T ∘ π) (src' := s ∘ π) h0 (fun _ _ => rfl) i hi]
    exact c07_step_equivariant hcl hπ w sw b T s i hi

/-- the table certificates of this run (every dumped ring count, rotation and mirror) -/
theorem c07_tables : Dassh.Gen.C07All.allCerts.all (· = true) = true := Dassh.Gen.C07All.all_ok

/-- for every dumped ring count: rotation and mirror are automorphisms (in the sense of the theorems above) of the tables
DASSH builds, and the tables are closed - generated instances of `isAuto_of_certs` / `closed_of_certs` -/
theorem c07_all_ring_counts : Dassh.Gen.C07All.AllAutos := Dassh.Gen.C07All.all_autos

/-! ### the real 7-pin tables (`n_ring = 2`) written out: rotation, and a composed reflection -/

section n2
open Dassh.Gen.C08T2 Dassh.Gen.C07T2

/-- for the subchannel tables DASSH builds for 7 pins: rotating the sources and the inlet field by 60° rotates the result
of any number of steps (clockwise wire), for all weights / sources / fields -/
theorem c07_n2_rotation (w : Nat → Nat → K) (sw b : Nat → K) (srcs : List (Nat → K)) (T : Nat → K) :
    ∀ i, i < ncool →
      ((srcs.map (· ∘ permOf pi_rot1 12)).foldl (fun t s => localStep tyf nb (donorN nint donorCW) w sw b t s) (T ∘ permOf pi_rot1 12)) i
        = (srcs.foldl (fun t s => localStep tyf nb (donorN nint donorCW) w sw b t s) T) (permOf pi_rot1 12 i) :=
  c07_sweep_equivariant closed_cw rot_auto_cw w sw b srcs T _ (fun _ _ => rfl)

/-- mirror after two rotations: a reflection that is not a generator, obtained by composition; the clockwise problem
is carried to the counter-clockwise one -/
theorem c07_n2_composed (w : Nat → Nat → K) (sw b : Nat → K) (srcs : List (Nat → K)) (T : Nat → K) :
    let g := permOf pi_mir 12 ∘ (permOf pi_rot1 12 ∘ permOf pi_rot1 12)
    ∀ i, i < ncool →
      ((srcs.map (· ∘ g)).foldl (fun t s => localStep tyf nb (donorN nint donorCW) w sw b t s) (T ∘ g)) i
        = (srcs.foldl (fun t s => localStep tyf nb (donorN nint donorCCW) w sw b t s) T) (g i) := by
  intro g
  exact c07_sweep_equivariant closed_cw (c07_auto_comp (c07_auto_comp rot_auto_cw rot_auto_cw) mir_auto_cw) w sw b srcs T _ (fun _ _ => rfl)

end n2

end Dassh.Props.C07
