/-
C07 — solutions are equivariant under the hexagonal symmetries.

Generic part: any explicit cell update whose coefficients depend only on *local table data*
(own type, the types of the neighbours, the donor cell) commutes with every automorphism of
those tables.  The interior coolant update of DASSH has this form (Props/C04: all cells of a
neighbour-type class share one traced update).  Table part (generated, `Dassh.Gen.C07All`): the
six rotations and the mirror, derived from the published centroid coordinates, are automorphisms
of the tables the running code builds — kernel-decided for every dumped ring count.
-/
import Dassh.Gen.C07All
import Mathlib.Algebra.Order.Field.Basic
import Mathlib.Algebra.BigOperators.Group.List.Basic
import Mathlib.Data.List.Perm.Basic
import Mathlib.Tactic.Ring

namespace Dassh.Props.C07

variable {K : Type} [Field K]

/-- a local explicit update: exchange with the listed neighbours with a weight depending on the
two cell types, a donor (swirl) term, and a source term weighted by the own type -/
def localStep (ty : Nat → Nat) (nb : Nat → List Nat) (donor : Nat → Nat) (w : Nat → Nat → K) (sw b : Nat → K)
    (T src : Nat → K) (i : Nat) : K :=
  T i + ((nb i).map fun j => w (ty i) (ty j) * (T j - T i)).sum + sw (ty i) * (T (donor i) - T i) + b (ty i) * src i

/-- **Equivariance.**  If `π` preserves types, maps the neighbour list of `i` to a permutation of the
neighbour list of `π i`, and commutes with the donor map, then updating the permuted fields gives the
permuted update: `step (T∘π) (src∘π) = (step T src)∘π`.  Holds for every field, source, weights. -/
theorem c07_step_equivariant (ty : Nat → Nat) (nb : Nat → List Nat) (donor : Nat → Nat)
    (w : Nat → Nat → K) (sw b : Nat → K) (π : Nat → Nat) (T src : Nat → K)
    (hty : ∀ i, ty (π i) = ty i)
    (hnb : ∀ i, ((nb i).map π).Perm (nb (π i)))
    (hdon : ∀ i, donor (π i) = π (donor i)) (i : Nat) :
    localStep ty nb donor w sw b (T ∘ π) (src ∘ π) i = localStep ty nb donor w sw b T src (π i) := by
  unfold localStep
  simp only [Function.comp]
  have hsum : ((nb i).map fun j => w (ty i) (ty j) * (T (π j) - T (π i))).sum
      = ((nb (π i)).map fun j => w (ty (π i)) (ty j) * (T j - T (π i))).sum := by
    have h1 : ((nb i).map fun j => w (ty i) (ty j) * (T (π j) - T (π i)))
        = (((nb i).map π).map fun j' => w (ty (π i)) (ty j') * (T j' - T (π i))) := by
      rw [List.map_map]
      apply List.map_congr_left
      intro j _
      simp only [Function.comp, hty]
    rw [h1]
    exact ((hnb i).map _).sum_eq
  rw [hsum, hty, hdon]

/-- equivariance carries over to any number of steps (a sweep) with step-dependent sources -/
theorem c07_sweep_equivariant (ty : Nat → Nat) (nb : Nat → List Nat) (donor : Nat → Nat)
    (w : Nat → Nat → K) (sw b : Nat → K) (π : Nat → Nat)
    (hty : ∀ i, ty (π i) = ty i) (hnb : ∀ i, ((nb i).map π).Perm (nb (π i)))
    (hdon : ∀ i, donor (π i) = π (donor i)) (srcs : List (Nat → K)) (T : Nat → K) :
    (srcs.map (· ∘ π)).foldl (fun t s => localStep ty nb donor w sw b t s) (T ∘ π)
      = (srcs.foldl (fun t s => localStep ty nb donor w sw b t s) T) ∘ π := by
  induction srcs generalizing T with
  | nil => rfl
  | cons s t ih =>
    simp only [List.map_cons, List.foldl_cons]
    have : localStep ty nb donor w sw b (T ∘ π) (s ∘ π) = (localStep ty nb donor w sw b T s) ∘ π := by
      funext i
      exact c07_step_equivariant ty nb donor w sw b π T s hty hnb hdon i
    rw [this]
    exact ih _

/-- the table certificates of this run (every dumped ring count, six rotations and the mirror) -/
theorem c07_tables : Dassh.Gen.C07All.allCerts.all (· = true) = true := Dassh.Gen.C07All.all_ok

end Dassh.Props.C07
