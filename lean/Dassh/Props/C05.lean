/-
C05 — the axial mesh is finite, strictly increasing, exact on boundaries and
within the step limit.  Theorems about `Dassh.Model.AxialMesh` (lengths are
integers in units of 1e-12 m, the grid the code rounds to); the model is tied
to `Reactor._setup_zpts/_check_dz/_setup_axial_region_bnds/
_setup_overall_axial_mesh_req` by the correspondence check on every run.
-/
import Dassh.Model.AxialMesh
import Mathlib.Data.List.Basic
import Mathlib.Tactic.Linarith

namespace Dassh.Props.C05
open Dassh.Model.AxialMesh

theorem crossed_some {bnds : List Nat} {req z b : Nat} (h : crossed bnds req z = some b) :
    b ∈ bnds ∧ z < b ∧ b < z + req := by
  unfold crossed at h
  have hm := List.mem_of_find?_eq_some h
  have hp := List.find?_some h
  simp only [Bool.and_eq_true, decide_eq_true_eq] at hp
  exact ⟨hm, hp.1, hp.2⟩

theorem crossed_none {bnds : List Nat} {req z : Nat} (h : crossed bnds req z = none) :
    ∀ b ∈ bnds, ¬ (z < b ∧ b < z + req) := by
  unfold crossed at h
  intro b hb hc
  have := List.find?_eq_none.mp h b hb
  simp only [Bool.and_eq_true, decide_eq_true_eq, not_and] at this
  exact this hc.1 hc.2

/-- each iteration advances the plane (this is what fails for `req = 0`) -/
theorem next_gt (bnds : List Nat) {req : Nat} (z : Nat) (hreq : 0 < req) : z < next bnds req z := by
  unfold next
  cases h : crossed bnds req z with
  | none => simp only; omega
  | some b => simp only; exact (crossed_some h).2.1

/-- no step exceeds the required step size -/
theorem next_le (bnds : List Nat) (req z : Nat) : next bnds req z ≤ z + req := by
  unfold next
  cases h : crossed bnds req z with
  | none => simp only; omega
  | some b => simp only; have := (crossed_some h).2.2; omega

/-- the first crossed boundary of a sorted list is the smallest one -/
theorem crossed_min {bnds : List Nat} (hs : bnds.Pairwise (· ≤ ·)) {req z b : Nat}
    (h : crossed bnds req z = some b) : ∀ b' ∈ bnds, z < b' → b ≤ b' := by
  induction bnds with
  | nil => simp [crossed] at h
  | cons x xs ih =>
    intro b' hb' hz
    unfold crossed at h
    rw [List.find?_cons] at h
    by_cases hx : (decide (z < x) && decide (x < z + req)) = true
    · rw [hx] at h
      simp only [Option.some.injEq] at h
      subst h
      rcases List.mem_cons.mp hb' with rfl | hmem
      · exact le_refl _
      · exact (List.pairwise_cons.mp hs).1 b' hmem
    · have hx' : (decide (z < x) && decide (x < z + req)) = false := by
        cases hh : (decide (z < x) && decide (x < z + req)) <;> simp_all
      rw [hx'] at h
      simp only at h
      have hb := crossed_some (bnds := xs) (by unfold crossed; exact h)
      rcases List.mem_cons.mp hb' with rfl | hmem
      · -- b' = x is not crossed although z < x, hence x ≥ z + req > b
        simp only [Bool.and_eq_false_iff, decide_eq_false_iff_not] at hx'
        rcases hx' with h1 | h2
        · exact absurd hz h1
        · omega
      · exact ih (List.pairwise_cons.mp hs).2 (by unfold crossed; exact h) b' hmem hz

/-- a step never jumps over a boundary: every boundary above `z` is at or above the next plane -/
theorem next_no_skip {bnds : List Nat} (hs : bnds.Pairwise (· ≤ ·)) (req z : Nat) :
    ∀ b ∈ bnds, z < b → next bnds req z ≤ b := by
  intro b hb hz
  unfold next
  cases h : crossed bnds req z with
  | none =>
    simp only
    have := crossed_none h b hb
    omega
  | some b0 => simp only; exact crossed_min hs h b hb hz

/-- in a non-decreasing list every member is at most the last element -/
theorem le_getLast_of_pairwise {l : List Nat} (hs : l.Pairwise (· ≤ ·)) (hne : l ≠ []) :
    ∀ x ∈ l, x ≤ l.getLast hne := by
  induction l with
  | nil => exact absurd rfl hne
  | cons a t ih =>
    intro x hx
    by_cases ht : t = []
    · subst ht
      simp only [List.mem_singleton] at hx
      subst hx
      simp
    · rw [List.getLast_cons ht]
      rcases List.mem_cons.mp hx with rfl | hxt
      · exact (List.pairwise_cons.mp hs).1 _ (List.getLast_mem ht)
      · exact ih (List.pairwise_cons.mp hs).2 ht x hxt

/-- all generated planes are strictly above the starting plane and strictly increasing -/
theorem planesFrom_increasing (bnds : List Nat) {req : Nat} (L : Nat) (hreq : 0 < req) :
    ∀ fuel z, (planesFrom bnds req L fuel z).Pairwise (· < ·)
      ∧ ∀ p ∈ planesFrom bnds req L fuel z, z < p := by
  intro fuel
  induction fuel with
  | zero => intro z; simp [planesFrom]
  | succ f ih =>
    intro z
    unfold planesFrom
    by_cases hz : z < L
    · simp only [hz, if_true]
      obtain ⟨h1, h2⟩ := ih (next bnds req z)
      have hn := next_gt bnds z hreq
      refine ⟨List.pairwise_cons.mpr ⟨fun p hp => h2 p hp, h1⟩, ?_⟩
      intro p hp
      rcases List.mem_cons.mp hp with rfl | hp'
      · exact hn
      · exact lt_trans hn (h2 p hp')
    · simp [hz]

/-- planes never pass the core length when it is itself a boundary -/
theorem planesFrom_le_L {bnds : List Nat} (hs : bnds.Pairwise (· ≤ ·)) (req L : Nat) (hL : L ∈ bnds) :
    ∀ fuel z, z ≤ L → ∀ p ∈ planesFrom bnds req L fuel z, p ≤ L := by
  intro fuel
  induction fuel with
  | zero => intro z _ p hp; simp [planesFrom] at hp
  | succ f ih =>
    intro z hzL p hp
    unfold planesFrom at hp
    by_cases hz : z < L
    · simp only [hz, if_true] at hp
      have hn : next bnds req z ≤ L := next_no_skip hs req z L hL hz
      rcases List.mem_cons.mp hp with rfl | hp'
      · exact hn
      · exact ih _ hn p hp'
    · simp [hz] at hp

/-- every boundary between the start and the core length is itself a plane, provided
the iteration is given enough fuel (`L - z` always suffices since every step advances) -/
theorem planesFrom_hits {bnds : List Nat} (hs : bnds.Pairwise (· ≤ ·)) {req : Nat} (L : Nat) (hreq : 0 < req)
    (hL : L ∈ bnds) :
    ∀ fuel z, z ≤ L → L - z ≤ fuel → ∀ b ∈ bnds, z < b → b ≤ L → b ∈ planesFrom bnds req L fuel z := by
  intro fuel
  induction fuel with
  | zero => intro z hzL hf b _ hzb hbL; omega
  | succ f ih =>
    intro z hzL hf b hb hzb hbL
    unfold planesFrom
    have hz : z < L := lt_of_lt_of_le hzb hbL
    simp only [hz, if_true]
    have hn1 := next_gt bnds z hreq
    have hn2 : next bnds req z ≤ b := next_no_skip hs req z b hb hzb
    have hnL : next bnds req z ≤ L := le_trans hn2 hbL
    rcases Nat.lt_or_ge (next bnds req z) b with hlt | hge
    · exact List.mem_cons_of_mem _ (ih _ hnL (by omega) b hb hlt hbL)
    · have : next bnds req z = b := le_antisymm hn2 hge
      rw [this]; exact List.mem_cons_self

/-- consecutive planes differ by at most the required step -/
theorem planesFrom_step_le (bnds : List Nat) (req L : Nat) :
    ∀ fuel z, List.IsChain (fun a b => b ≤ a + req) (z :: planesFrom bnds req L fuel z) := by
  intro fuel
  induction fuel with
  | zero => intro z; simp [planesFrom]
  | succ f ih =>
    intro z
    unfold planesFrom
    by_cases hz : z < L
    · simp only [hz, if_true]
      exact List.IsChain.cons_cons (next_le bnds req z) (ih _)
    · simp [hz]

/-- **Termination and exactness.**  With a positive required step, sorted boundaries
whose last entry is the core length `L`, the construction started at 0 with fuel `L`
(each iteration advances by at least one unit) produces a strictly increasing list of
planes that starts at 0, ends exactly at `L`, contains every boundary, and has no
step larger than the requirement. -/
theorem c05_mesh_wellformed {bnds : List Nat} (hs : bnds.Pairwise (· ≤ ·)) {req L : Nat}
    (hreq : 0 < req) (hL : L ∈ bnds) (hLpos : 0 < L) :
    (planes bnds req L L).Pairwise (· < ·)
    ∧ (planes bnds req L L).head? = some 0
    ∧ (planes bnds req L L).getLast? = some L
    ∧ (∀ b ∈ bnds, 0 < b → b ≤ L → b ∈ planes bnds req L L)
    ∧ List.IsChain (fun a b => b ≤ a + req) (planes bnds req L L)
    ∧ (∀ p ∈ planes bnds req L L, p ≤ L) := by
  obtain ⟨hinc, hgt⟩ := planesFrom_increasing bnds L hreq L 0
  have hle := planesFrom_le_L hs req L hL L 0 (Nat.zero_le _)
  have hhit := planesFrom_hits hs L hreq hL L 0 (Nat.zero_le _) (by omega)
  have hLmem : L ∈ planesFrom bnds req L L 0 := hhit L hL hLpos (le_refl _)
  refine ⟨?_, rfl, ?_, ?_, planesFrom_step_le bnds req L L 0, ?_⟩
  · exact List.pairwise_cons.mpr ⟨fun p hp => hgt p hp, hinc⟩
  · -- the last plane is the maximum of a strictly increasing list all of whose entries are ≤ L and which contains L
    unfold planes
    have hne : planesFrom bnds req L L 0 ≠ [] := List.ne_nil_of_mem hLmem
    rw [List.getLast?_cons_of_ne_nil hne, List.getLast?_eq_some_getLast hne]
    congr 1
    apply le_antisymm (hle _ (List.getLast_mem hne))
    -- L is in the list, and the last element of a strictly increasing list dominates every member
    have hsorted : (planesFrom bnds req L L 0).Pairwise (· ≤ ·) := hinc.imp (fun h => le_of_lt h)
    exact le_getLast_of_pairwise hsorted hne L hLmem
  · intro b hb hb0 hbL
    exact List.mem_cons_of_mem _ (hhit b hb hb0 hbL)
  · intro p hp
    rcases List.mem_cons.mp hp with rfl | hp'
    · exact Nat.zero_le _
    · exact hle p hp'

/-- **The hang.**  With a required step of zero the iteration makes no progress: every
plane it produces is the starting plane again, so the code's unbounded `while` loop
never reaches the core length. -/
theorem c05_zero_step_never_advances (bnds : List Nat) (L : Nat) :
    ∀ fuel z, ∀ p ∈ planesFrom bnds 0 L fuel z, p = z := by
  intro fuel
  induction fuel with
  | zero => intro z p hp; simp [planesFrom] at hp
  | succ f ih =>
    intro z p hp
    unfold planesFrom at hp
    by_cases hz : z < L
    · simp only [hz, if_true] at hp
      have hn : next bnds 0 z = z := by
        unfold next
        cases h : crossed bnds 0 z with
        | none => simp
        | some b => have := crossed_some h; omega
      rw [hn] at hp
      rcases List.mem_cons.mp hp with rfl | hp'
      · rfl
      · exact ih z p hp'
    · simp [hz] at hp

/-- the step actually used never exceeds the stability requirement, is capped at 1 cm,
honours a user request at or below the requirement and ignores one above it -/
theorem c05_req_le (minUm : Nat) (user : Option Nat) :
    reqDz minUm user ≤ minUm * 1000000 ∧ reqDz minUm none ≤ 10000000000
    ∧ (∀ u, u ≤ minUm * 1000000 → reqDz minUm (some u) = u)
    ∧ (∀ u, minUm * 1000000 < u → reqDz minUm (some u) = reqDz minUm none) := by
  refine ⟨?_, ?_, ?_, ?_⟩
  · unfold reqDz; cases user <;> simp only <;> split_ifs <;> omega
  · unfold reqDz; simp only; split_ifs <;> omega
  · intro u hu; unfold reqDz; simp only [hu, if_true]
  · intro u hu; unfold reqDz; simp only [not_le.mpr hu, if_false]

/-- Non-vacuity: a concrete mesh satisfying all hypotheses. -/
example : planes [0, 45, 100] 30 100 100 = [0, 30, 45, 75, 100] := by decide

end Dassh.Props.C05
