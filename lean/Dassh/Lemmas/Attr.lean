import Lean.Meta.Tactic.Simp.RegisterCommand

/-- Simp attribute carried by every generated definition, so that proof scripts can
unfold "whatever the translator produced" without naming each definition. -/
register_simp_attr gen_defs
