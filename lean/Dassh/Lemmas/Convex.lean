/-
Convex combinations stay between the bounds of what they combine (arities 1..6, the number of
temperatures a gap cell of the no-flow / duct-average inter-assembly gap models is coupled to:
up to three duct walls and three neighbouring gap cells).  Used by the generated corollaries
`Dassh.Gen.C04GapAvg.*_bounds`: no new extremum, a uniform field is reproduced.
-/
import Mathlib.Algebra.Order.Field.Basic
import Mathlib.Tactic.Linarith
import Mathlib.Algebra.BigOperators.Group.List.Basic
import Mathlib.Algebra.Order.BigOperators.Group.List
import Mathlib.Tactic.FieldSimp

namespace Dassh.Convex

variable {K : Type} [Field K] [LinearOrder K] [IsStrictOrderedRing K]

theorem bounds1 (w1 x1 lo hi : K) (h1 : 0 ≤ w1)
    (hs : w1 = 1) (b1 : lo ≤ x1 ∧ x1 ≤ hi) :
    lo ≤ w1 * x1 ∧ w1 * x1 ≤ hi := by
  have elo : lo * (w1) = lo := by rw [hs, mul_one]
  have ehi : hi * (w1) = hi := by rw [hs, mul_one]
  constructor
  · linarith [mul_le_mul_of_nonneg_left b1.1 h1]
  · linarith [mul_le_mul_of_nonneg_left b1.2 h1]

theorem bounds2 (w1 w2 x1 x2 lo hi : K) (h1 : 0 ≤ w1) (h2 : 0 ≤ w2)
    (hs : w1 + w2 = 1) (b1 : lo ≤ x1 ∧ x1 ≤ hi) (b2 : lo ≤ x2 ∧ x2 ≤ hi) :
    lo ≤ w1 * x1 + w2 * x2 ∧ w1 * x1 + w2 * x2 ≤ hi := by
  have elo : lo * (w1 + w2) = lo := by rw [hs, mul_one]
  have ehi : hi * (w1 + w2) = hi := by rw [hs, mul_one]
  constructor
  · linarith [mul_le_mul_of_nonneg_left b1.1 h1, mul_le_mul_of_nonneg_left b2.1 h2]
  · linarith [mul_le_mul_of_nonneg_left b1.2 h1, mul_le_mul_of_nonneg_left b2.2 h2]

theorem bounds3 (w1 w2 w3 x1 x2 x3 lo hi : K) (h1 : 0 ≤ w1) (h2 : 0 ≤ w2) (h3 : 0 ≤ w3)
    (hs : w1 + w2 + w3 = 1) (b1 : lo ≤ x1 ∧ x1 ≤ hi) (b2 : lo ≤ x2 ∧ x2 ≤ hi) (b3 : lo ≤ x3 ∧ x3 ≤ hi) :
    lo ≤ w1 * x1 + w2 * x2 + w3 * x3 ∧ w1 * x1 + w2 * x2 + w3 * x3 ≤ hi := by
  have elo : lo * (w1 + w2 + w3) = lo := by rw [hs, mul_one]
  have ehi : hi * (w1 + w2 + w3) = hi := by rw [hs, mul_one]
  constructor
  · linarith [mul_le_mul_of_nonneg_left b1.1 h1, mul_le_mul_of_nonneg_left b2.1 h2, mul_le_mul_of_nonneg_left b3.1 h3]
  · linarith [mul_le_mul_of_nonneg_left b1.2 h1, mul_le_mul_of_nonneg_left b2.2 h2, mul_le_mul_of_nonneg_left b3.2 h3]

theorem bounds4 (w1 w2 w3 w4 x1 x2 x3 x4 lo hi : K) (h1 : 0 ≤ w1) (h2 : 0 ≤ w2) (h3 : 0 ≤ w3) (h4 : 0 ≤ w4)
    (hs : w1 + w2 + w3 + w4 = 1) (b1 : lo ≤ x1 ∧ x1 ≤ hi) (b2 : lo ≤ x2 ∧ x2 ≤ hi) (b3 : lo ≤ x3 ∧ x3 ≤ hi) (b4 : lo ≤ x4 ∧ x4 ≤ hi) :
    lo ≤ w1 * x1 + w2 * x2 + w3 * x3 + w4 * x4 ∧ w1 * x1 + w2 * x2 + w3 * x3 + w4 * x4 ≤ hi := by
  have elo : lo * (w1 + w2 + w3 + w4) = lo := by rw [hs, mul_one]
  have ehi : hi * (w1 + w2 + w3 + w4) = hi := by rw [hs, mul_one]
  constructor
  · linarith [mul_le_mul_of_nonneg_left b1.1 h1, mul_le_mul_of_nonneg_left b2.1 h2, mul_le_mul_of_nonneg_left b3.1 h3, mul_le_mul_of_nonneg_left b4.1 h4]
  · linarith [mul_le_mul_of_nonneg_left b1.2 h1, mul_le_mul_of_nonneg_left b2.2 h2, mul_le_mul_of_nonneg_left b3.2 h3, mul_le_mul_of_nonneg_left b4.2 h4]

theorem bounds5 (w1 w2 w3 w4 w5 x1 x2 x3 x4 x5 lo hi : K) (h1 : 0 ≤ w1) (h2 : 0 ≤ w2) (h3 : 0 ≤ w3) (h4 : 0 ≤ w4) (h5 : 0 ≤ w5)
    (hs : w1 + w2 + w3 + w4 + w5 = 1) (b1 : lo ≤ x1 ∧ x1 ≤ hi) (b2 : lo ≤ x2 ∧ x2 ≤ hi) (b3 : lo ≤ x3 ∧ x3 ≤ hi) (b4 : lo ≤ x4 ∧ x4 ≤ hi) (b5 : lo ≤ x5 ∧ x5 ≤ hi) :
    lo ≤ w1 * x1 + w2 * x2 + w3 * x3 + w4 * x4 + w5 * x5 ∧ w1 * x1 + w2 * x2 + w3 * x3 + w4 * x4 + w5 * x5 ≤ hi := by
  have elo : lo * (w1 + w2 + w3 + w4 + w5) = lo := by rw [hs, mul_one]
  have ehi : hi * (w1 + w2 + w3 + w4 + w5) = hi := by rw [hs, mul_one]
  constructor
  · linarith [mul_le_mul_of_nonneg_left b1.1 h1, mul_le_mul_of_nonneg_left b2.1 h2, mul_le_mul_of_nonneg_left b3.1 h3, mul_le_mul_of_nonneg_left b4.1 h4, mul_le_mul_of_nonneg_left b5.1 h5]
  · linarith [mul_le_mul_of_nonneg_left b1.2 h1, mul_le_mul_of_nonneg_left b2.2 h2, mul_le_mul_of_nonneg_left b3.2 h3, mul_le_mul_of_nonneg_left b4.2 h4, mul_le_mul_of_nonneg_left b5.2 h5]

theorem bounds6 (w1 w2 w3 w4 w5 w6 x1 x2 x3 x4 x5 x6 lo hi : K) (h1 : 0 ≤ w1) (h2 : 0 ≤ w2) (h3 : 0 ≤ w3) (h4 : 0 ≤ w4) (h5 : 0 ≤ w5) (h6 : 0 ≤ w6)
    (hs : w1 + w2 + w3 + w4 + w5 + w6 = 1) (b1 : lo ≤ x1 ∧ x1 ≤ hi) (b2 : lo ≤ x2 ∧ x2 ≤ hi) (b3 : lo ≤ x3 ∧ x3 ≤ hi) (b4 : lo ≤ x4 ∧ x4 ≤ hi) (b5 : lo ≤ x5 ∧ x5 ≤ hi) (b6 : lo ≤ x6 ∧ x6 ≤ hi) :
    lo ≤ w1 * x1 + w2 * x2 + w3 * x3 + w4 * x4 + w5 * x5 + w6 * x6 ∧ w1 * x1 + w2 * x2 + w3 * x3 + w4 * x4 + w5 * x5 + w6 * x6 ≤ hi := by
  have elo : lo * (w1 + w2 + w3 + w4 + w5 + w6) = lo := by rw [hs, mul_one]
  have ehi : hi * (w1 + w2 + w3 + w4 + w5 + w6) = hi := by rw [hs, mul_one]
  constructor
  · linarith [mul_le_mul_of_nonneg_left b1.1 h1, mul_le_mul_of_nonneg_left b2.1 h2, mul_le_mul_of_nonneg_left b3.1 h3, mul_le_mul_of_nonneg_left b4.1 h4, mul_le_mul_of_nonneg_left b5.1 h5, mul_le_mul_of_nonneg_left b6.1 h6]
  · linarith [mul_le_mul_of_nonneg_left b1.2 h1, mul_le_mul_of_nonneg_left b2.2 h2, mul_le_mul_of_nonneg_left b3.2 h3, mul_le_mul_of_nonneg_left b4.2 h4, mul_le_mul_of_nonneg_left b5.2 h5, mul_le_mul_of_nonneg_left b6.2 h6]

/-- sum of a list whose members lie in `[lo, hi]` -/
theorem sum_bounds (xs : List K) (lo hi : K) (h : ∀ x ∈ xs, lo ≤ x ∧ x ≤ hi) :
    (xs.length : K) * lo ≤ xs.sum ∧ xs.sum ≤ (xs.length : K) * hi := by
  induction xs with
  | nil => simp
  | cons x t ih =>
    have hx := h x List.mem_cons_self
    have ht := ih (fun y hy => h y (List.mem_cons_of_mem _ hy))
    simp only [List.length_cons, List.sum_cons, Nat.cast_add, Nat.cast_one]
    constructor <;> nlinarith [hx.1, hx.2, ht.1, ht.2]

/-- the arithmetic mean of any non-empty list (the duct-average gap model averages the one to three duct walls a gap cell
touches) lies between any bounds of its members -/
theorem mean_bounds (xs : List K) (hne : xs ≠ []) (lo hi : K) (h : ∀ x ∈ xs, lo ≤ x ∧ x ≤ hi) :
    lo ≤ xs.sum / (xs.length : K) ∧ xs.sum / (xs.length : K) ≤ hi := by
  have hpos : (0 : K) < (xs.length : K) := by
    have : 0 < xs.length := List.length_pos_iff.mpr hne
    exact_mod_cast this
  obtain ⟨h1, h2⟩ := sum_bounds xs lo hi h
  constructor
  · rw [le_div_iff₀ hpos]; linarith
  · rw [div_le_iff₀ hpos]; linarith

end Dassh.Convex
