/-
Energy form of the traced interior coolant update (specification side of C01 for every ring count).

`Dassh.Gen.C04` holds, per neighbour-type class, the traced weight `WTn<k>_<class>` with which the value at
neighbour role `k` enters the new temperature of a cell.  Multiplied by the cell's heat-capacity flow
`mcp` these weights must be the pair coefficients below - which depend on the two cell types only and are
symmetric in them - plus, for the swirl donor, one constant for the whole exterior ring.
(0-based types as in the tables: 0 interior, 1 edge, 2 corner.)
-/
import Dassh.Gen.C04
import Mathlib.Algebra.Order.Field.Basic

namespace Dassh.BundleForm
open Dassh.Gen.C04

variable {K : Type} [Field K]

/-- effective conductivity: eddy diffusivity + shape-factor-weighted molecular conduction -/
def kappa (e : Env K) : K := e.eddy * e.rho * e.cp + e.sf * e.k

def G00 (e : Env K) : K := kappa e * e.dpp / e.L00   -- interior - interior
def G01 (e : Env K) : K := kappa e * e.dpp / e.L01   -- interior - edge
def G11 (e : Env K) : K := kappa e * e.dpw / e.P     -- edge - edge
def G12 (e : Env K) : K := kappa e * e.dpw / e.L12   -- edge - corner

/-- the pair coefficient as a function of the two (0-based) cell types -/
def g (e : Env K) (a b : Nat) : K :=
  if min a b = 0 ∧ max a b = 0 then G00 e
  else if min a b = 0 ∧ max a b = 1 then G01 e
  else if min a b = 1 ∧ max a b = 1 then G11 e
  else if min a b = 1 ∧ max a b = 2 then G12 e
  else 0

theorem g_symm (e : Env K) : ∀ a b, g e a b = g e b a := by
  intro a b
  simp only [g, min_comm a b, max_comm a b]

@[simp] theorem g_00 (e : Env K) : g e 0 0 = G00 e := by simp [g]
@[simp] theorem g_01 (e : Env K) : g e 0 1 = G01 e := by simp [g]
@[simp] theorem g_10 (e : Env K) : g e 1 0 = G01 e := by simp [g]
@[simp] theorem g_11 (e : Env K) : g e 1 1 = G11 e := by simp [g]
@[simp] theorem g_12 (e : Env K) : g e 1 2 = G12 e := by simp [g]
@[simp] theorem g_21 (e : Env K) : g e 2 1 = G12 e := by simp [g]

/-- swirl: one energy-form coefficient for every cell of the exterior ring -/
def Csw (e : Env K) : K := e.dpw * e.rho * e.sw_1 * e.cp

def mcp0 (e : Env K) : K := e.mdot * e.A_0 * e.fs_0 / e.Ab * e.cp
def mcp1 (e : Env K) : K := e.mdot * e.A_1 * e.fs_1 / e.Ab * e.cp
def mcp2 (e : Env K) : K := e.mdot * e.A_2 * e.fs_2 / e.Ab * e.cp

/-- heat-capacity flow of a cell by (0-based) type: `ṁ A_t fs_t / A_b · cp` -/
def mcp (e : Env K) : Nat → K
  | 0 => mcp0 e
  | 1 => mcp1 e
  | _ => mcp2 e

/-- the symbols the code divides by are not zero -/
structure NZ (e : Env K) : Prop where
  L00 : e.L00 ≠ 0
  L01 : e.L01 ≠ 0
  P : e.P ≠ 0
  L12 : e.L12 ≠ 0
  A_0 : e.A_0 ≠ 0
  A_1 : e.A_1 ≠ 0
  A_2 : e.A_2 ≠ 0
  Ab : e.Ab ≠ 0
  mdot : e.mdot ≠ 0
  fs_0 : e.fs_0 ≠ 0
  fs_1 : e.fs_1 ≠ 0
  fs_2 : e.fs_2 ≠ 0
  cp : e.cp ≠ 0

theorem mcp_ne_zero (e : Env K) (h : NZ e) : ∀ a, mcp e a ≠ 0 := by
  obtain ⟨_, _, _, _, h5, h6, h7, h8, h9, h10, h11, h12, h13⟩ := h
  intro a
  match a with
  | 0 => exact mul_ne_zero (div_ne_zero (mul_ne_zero (mul_ne_zero h9 h5) h10) h8) h13
  | 1 => exact mul_ne_zero (div_ne_zero (mul_ne_zero (mul_ne_zero h9 h6) h11) h8) h13
  | (_ + 2) => exact mul_ne_zero (div_ne_zero (mul_ne_zero (mul_ne_zero h9 h7) h12) h8) h13

end Dassh.BundleForm
