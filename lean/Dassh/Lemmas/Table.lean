/-
T2 tables: integer tables built by DASSH are dumped as one big `Nat` each
(fixed-width fields, stored value = index + 1, 0 = "none") and read back with
shift/mod, which the kernel evaluates with GMP.  This file defines the reader and
the Boolean certificates that `decide +kernel` evaluates on the dumped tables.
Core Lean only (no Mathlib), so that everything here reduces in the kernel.
-/

namespace Dassh.Table

/-- field `k` of row `i` (table with `nc` columns of `w`-bit fields) -/
def ent (N w nc i k : Nat) : Nat := (N >>> (w * (nc * i + k))) % 2 ^ w

/-- the present entries (decoded: stored value − 1) of columns `lo ≤ k < hi` of row `i` -/
def rowRange (N w nc i lo hi : Nat) : List Nat :=
  (List.range (hi - lo)).filterMap fun k =>
    let e := ent N w nc i (lo + k)
    if e = 0 then none else some (e - 1)

def row (N w nc i : Nat) : List Nat := rowRange N w nc i 0 nc

/-- decoded entry as an option -/
def get? (N w nc i k : Nat) : Option Nat :=
  let e := ent N w nc i k
  if e = 0 then none else some (e - 1)

/-- 2-bit type table -/
def ty (T i : Nat) : Nat := (T >>> (4 * i)) % 16

/-- symmetric neighbour relation without duplicates, all indices in range -/
def symCert (n : Nat) (nb : Nat → List Nat) : Bool :=
  (List.range n).all fun i =>
    decide (nb i).Nodup && (nb i).all fun j => decide (j < n) && (nb j).contains i

/-- number of indices below `n` whose type is `t` -/
def countTy (n : Nat) (tyf : Nat → Nat) (t : Nat) : Nat :=
  ((List.range n).filter fun i => tyf i == t).length

/-- sorted list of (1-based) neighbour types, as a base-10 number: e.g. [1,1,2] ↦ 112 -/
def classCode (tyf : Nat → Nat) (nbs : List Nat) : Nat :=
  let ts := (nbs.map fun j => tyf j + 1)
  let c (t : Nat) := (ts.filter (· == t)).length
  -- digits in ascending order: c 1 ones, then c 2 twos, then c 3 threes
  let rep (d k acc : Nat) : Nat := (List.range k).foldl (fun a _ => 10 * a + d) acc
  rep 3 (c 3) (rep 2 (c 2) (rep 1 (c 1) 0))

/-- every coolant cell `i < n` has a (type, neighbour-type) class in `allowed` (pairs (own type 1-based, code)) -/
def classCert (n : Nat) (tyf : Nat → Nat) (nb : Nat → List Nat) (allowed : List (Nat × Nat)) : Bool :=
  (List.range n).all fun i => allowed.contains (tyf i + 1, classCode tyf (nb i))

/-- `f` maps the index range `lo ≤ i < hi` injectively into itself -/
def permCert (lo hi : Nat) (f : Nat → Option Nat) : Bool :=
  let img := (List.range (hi - lo)).filterMap fun k => f (lo + k)
  decide (img.length = hi - lo) && decide img.Nodup && img.all fun j => decide (lo ≤ j) && decide (j < hi)

/-- `g (f i) = i` on the range -/
def inverseCert (lo hi : Nat) (f g : Nat → Option Nat) : Bool :=
  (List.range (hi - lo)).all fun k =>
    match f (lo + k) with
    | none => false
    | some j => g j == some (lo + k)

/-- pin ↔ subchannel incidence: every pin hands fractions summing to one
(in twelfths: interior 2, edge 3, corner 2), the two tables are inverse to each other -/
def pinCert (npin ncool : Nat) (tyf : Nat → Nat) (pinrow revrow : Nat → List Nat) : Bool :=
  let frac12 (t : Nat) : Nat := if t == 1 then 3 else 2
  ((List.range npin).all fun p =>
      decide (pinrow p).Nodup
      && decide (((pinrow p).map fun j => frac12 (tyf j)).foldl (· + ·) 0 = 12)
      && (pinrow p).all fun j => decide (j < ncool) && (revrow j).contains p)
  && ((List.range ncool).all fun i =>
      decide (revrow i).Nodup && (revrow i).all fun p => decide (p < npin) && (pinrow p).contains i)

/-- counts of subchannel types for `n` rings: 6(n−1)² interior, 6(n−1) edge, 6 corner -/
def countCert (n ncool : Nat) (tyf : Nat → Nat) : Bool :=
  decide (ncool = 6 * (n - 1) ^ 2 + 6 * (n - 1) + 6)
  && decide (countTy ncool tyf 0 = 6 * (n - 1) ^ 2)
  && decide (countTy ncool tyf 1 = 6 * (n - 1))
  && decide (countTy ncool tyf 2 = 6)

/-- number of coolant neighbours per type: interior 3, edge 3, corner 2 -/
def degreeCert (ncool : Nat) (tyf : Nat → Nat) (nb : Nat → List Nat) : Bool :=
  (List.range ncool).all fun i => (nb i).length == (if tyf i == 2 then 2 else 3)

/-- classes the step-limit function evaluates for a bundle with `npin` pins -/
def limitedClasses (npin : Nat) : List (Nat × Nat) :=
  if npin == 7 then [(1, 112), (2, 133), (3, 22)]
  else if npin == 19 then [(1, 111), (1, 112), (2, 123), (3, 22)]
  else [(1, 111), (1, 112), (2, 122), (2, 123), (3, 22)]

/-- Duct / bypass ring pattern of a bundle with `nd` ducts.  Types: 1 edge, 2 corner
(coolant); 3/4 duct; 5/6 bypass.  `nb i` lists, for every exterior coolant, duct and
bypass cell `nint ≤ i < ntot`, its neighbours among those cells (exterior ring,
duct, bypass).  Required: relation symmetric, no duplicates; every cell has exactly
two neighbours of its own kind (its ring), its radial neighbours are of the adjacent
kinds and of the same edge/corner parity; exterior coolant has one duct neighbour,
a duct cell one inner neighbour and (except the outermost duct) one outer. -/
def ringCert (nint ntot : Nat) (tyf : Nat → Nat) (nb : Nat → List Nat) (nd : Nat) : Bool :=
  let kind (t : Nat) : Nat := if t ≤ 2 then 0 else if t ≤ 4 then 1 else 2   -- coolant / duct / bypass
  (List.range (ntot - nint)).all fun k =>
    let i := nint + k
    let t := tyf i
    let ns := nb i
    let same := ns.filter fun j => kind (tyf j) == kind t
    let other := ns.filter fun j => kind (tyf j) != kind t
    decide ns.Nodup
    && (ns.all fun j => decide (nint ≤ j) && decide (j < ntot) && (nb j).contains i)
    && (same.length == 2)
    && (other.all fun j => (tyf j) % 2 == t % 2)
    && (if kind t == 0 then other.length == 1 && other.all (fun j => kind (tyf j) == 1)
        else if kind t == 2 then other.length == 2 && other.all (fun j => kind (tyf j) == 1)
        else (other.length == 1 || other.length == 2))
  && decide (((List.range (ntot - nint)).filter fun k => kind (tyf (nint + k)) == 1
        && ((nb (nint + k)).filter fun j => kind (tyf j) != 1).length == 1).length
      = (ntot - nint) / (2 * nd) )

/-! ### automorphisms of the bundle tables (C07)

`pi` is a candidate permutation of the coolant subchannels (derived by the harness from the
published centroid coordinates, not from the numbering), `sigma` of the pins. -/

/-- `pi` permutes `0..n-1` -/
def isPerm (n : Nat) (pi : Nat → Nat) : Bool :=
  let img := (List.range n).map pi
  decide img.Nodup && img.all fun j => decide (j < n)

/-- donor map as a total function: an interior cell (`i < nint`), or an exterior cell without donor, is its own
donor (its swirl term vanishes) -/
def donorN (nint : Nat) (d : Nat → Option Nat) (i : Nat) : Nat := if i < nint then i else (d i).getD i

/-- the total donor map restricted to the exterior ring `lo ≤ i < hi` is injective and stays in the ring
(so `donorN lo d` permutes the cells `< hi`) -/
def donorRingCert (lo hi : Nat) (d : Nat → Option Nat) : Bool :=
  let img := (List.range (hi - lo)).map fun k => (d (lo + k)).getD (lo + k)
  decide img.Nodup && img.all fun j => decide (lo ≤ j) && decide (j < hi)

/-- `pi` preserves types, the neighbour relation and the given donor map (it may map the donor map
`donorA` to another donor map `donorB`: rotations keep the direction, the mirror swaps it) -/
def autoCert (ncool nint : Nat) (tyf : Nat → Nat) (nb : Nat → List Nat) (donorA donorB : Nat → Option Nat)
    (pi : Nat → Nat) : Bool :=
  isPerm ncool pi
  && ((List.range ncool).all fun i =>
      (tyf (pi i) == tyf i)
      && ((nb (pi i)).length == (nb i).length)
      && ((nb i).all fun j => (nb (pi i)).contains (pi j))
      && (decide (pi i < nint) == decide (i < nint))
      && (decide (i < nint)
          || ((donorB (pi i) == (donorA i).map pi)
              && (match donorA i with
                  | none => true
                  | some j => decide (j < ncool)))))

/-- pins: `sigma` permutes the pins and carries the pin → subchannel incidence along `pi` -/
def pinAutoCert (npin : Nat) (pinrow : Nat → List Nat) (pi sigma : Nat → Nat) : Bool :=
  isPerm npin sigma
  && ((List.range npin).all fun p =>
      ((pinrow (sigma p)).length == (pinrow p).length)
      && ((pinrow p).all fun j => (pinrow (sigma p)).contains (pi j)))

/-- read a permutation table (1 column) -/
def permOf (N w : Nat) (i : Nat) : Nat := ent N w 1 i 0

/-! ### inter-assembly gap mesh of one core layout (C09)

`asmrow a` lists the gap cells (1-based ids as stored, here decoded to 0-based) around
assembly `a`, walking its six sides; `sideLen a s` is the number of cells the side
contributes (edge cells + one trailing corner); `nbr a s` the neighbouring assembly
across side `s` (none at the periphery / next to an empty position); `own a` the
number of edge cells per side the assembly's own duct mesh has. -/

/-- cells of side `s` of assembly `a` (edge cells then the trailing corner) -/
def sideCells (asmrow : Nat → List Nat) (sideLen : Nat → Nat → Nat) (a s : Nat) : List Nat :=
  let start := (List.range s).foldl (fun acc k => acc + sideLen a k) 0
  ((asmrow a).drop start).take (sideLen a s)

def gapCert (nasm nsc : Nat) (asmrow : Nat → List Nat) (sideLen : Nat → Nat → Nat) (nbr : Nat → Nat → Option Nat)
    (own : Nat → Nat) (scadj : Nat → List Nat) : Bool :=
  -- every gap cell borders one to three assemblies
  ((List.range nsc).all fun c =>
      let occ := ((List.range nasm).map fun a => ((asmrow a).filter (· == c)).length).foldl (· + ·) 0
      decide (1 ≤ occ) && decide (occ ≤ 3))
  -- the cells around an assembly are pairwise distinct, in range, and the side lengths add up
  && ((List.range nasm).all fun a =>
      decide (asmrow a).Nodup && (asmrow a).all (fun c => decide (c < nsc))
      && decide (((List.range 6).map (sideLen a)).foldl (· + ·) 0 = (asmrow a).length))
  -- gap adjacency is symmetric, without duplicates, two or three neighbours per cell
  && symCert nsc scadj
  && ((List.range nsc).all fun c => decide (2 ≤ (scadj c).length) && decide ((scadj c).length ≤ 3))
  -- a shared side is seen identically by both neighbours: same number of cells, the finer of the
  -- two meshes, and the neighbour lists the edge cells of its opposite side in reverse order
  && ((List.range nasm).all fun a => (List.range 6).all fun s =>
      match nbr a s with
      | none => sideLen a s == own a + 1
      | some b =>
        let mine := sideCells asmrow sideLen a s
        let theirs := sideCells asmrow sideLen b ((s + 3) % 6)
        (sideLen a s == sideLen b ((s + 3) % 6))
        && (sideLen a s == max (own a) (own b) + 1)
        && (mine.dropLast == theirs.dropLast.reverse))

end Dassh.Table
