/-
Soundness of the Boolean table certificates: what a kernel-evaluated `… = true`
means as a proposition.
-/
import Dassh.Lemmas.Table
import Mathlib.Data.List.Basic
import Mathlib.Data.List.Nodup

namespace Dassh.Table

theorem symCert_sound {n : Nat} {nb : Nat → List Nat} (h : symCert n nb = true) :
    ∀ i, i < n → (nb i).Nodup ∧ ∀ j ∈ nb i, j < n ∧ i ∈ nb j := by
  intro i hi
  have := (List.all_eq_true.mp h) i (List.mem_range.mpr hi)
  simp only [Bool.and_eq_true, decide_eq_true_eq, List.all_eq_true, List.contains_iff_mem] at this
  exact ⟨this.1, fun j hj => this.2 j hj⟩

theorem degreeCert_sound {n : Nat} {tyf : Nat → Nat} {nb : Nat → List Nat}
    (h : degreeCert n tyf nb = true) :
    ∀ i, i < n → (nb i).length = if tyf i = 2 then 2 else 3 := by
  intro i hi
  have := (List.all_eq_true.mp h) i (List.mem_range.mpr hi)
  simp only [beq_iff_eq] at this
  simpa using this

/-- twelfths of a pin's power handed to a subchannel of (0-based) type `t` -/
def frac12 (t : Nat) : Nat := if t == 1 then 3 else 2

theorem pinCert_sound {npin ncool : Nat} {tyf : Nat → Nat} {pinrow revrow : Nat → List Nat}
    (h : pinCert npin ncool tyf pinrow revrow = true) :
    (∀ p, p < npin → (pinrow p).Nodup
        ∧ ((pinrow p).map fun j => frac12 (tyf j)).foldl (· + ·) 0 = 12
        ∧ ∀ j ∈ pinrow p, j < ncool ∧ p ∈ revrow j)
    ∧ (∀ i, i < ncool → (revrow i).Nodup ∧ ∀ p ∈ revrow i, p < npin ∧ i ∈ pinrow p) := by
  unfold pinCert at h
  simp only [Bool.and_eq_true, List.all_eq_true, decide_eq_true_eq, List.contains_iff_mem,
    List.mem_range] at h
  refine ⟨fun p hp => ?_, fun i hi => ?_⟩
  · obtain ⟨⟨h1, h2⟩, h3⟩ := h.1 p hp
    exact ⟨h1, h2, fun j hj => h3 j hj⟩
  · obtain ⟨h1, h2⟩ := h.2 i hi
    exact ⟨h1, fun p hp => h2 p hp⟩

theorem classCert_sound {n : Nat} {tyf : Nat → Nat} {nb : Nat → List Nat} {allowed : List (Nat × Nat)}
    (h : classCert n tyf nb allowed = true) :
    ∀ i, i < n → (tyf i + 1, classCode tyf (nb i)) ∈ allowed := by
  intro i hi
  have := (List.all_eq_true.mp h) i (List.mem_range.mpr hi)
  simpa [List.contains_iff_mem] using this

end Dassh.Table
