/-
Soundness of the Boolean table certificates: what a kernel-evaluated `… = true`
means as a proposition.
-/
import Dassh.Lemmas.Table
import Mathlib.Data.List.Basic
import Mathlib.Data.List.Nodup

namespace Dassh.Table

theorem symCert_sound {n : Nat} {nb : Nat → List Nat} (h : symCert n nb = true) :
    ∀ i, i < n → (nb i).Nodup ∧ ∀ j ∈ nb i, j < n ∧ i ∈ nb j := by
  intro i hi
  have := (List.all_eq_true.mp h) i (List.mem_range.mpr hi)
  simp only [Bool.and_eq_true, decide_eq_true_eq, List.all_eq_true, List.contains_iff_mem] at this
  exact ⟨this.1, fun j hj => this.2 j hj⟩

theorem degreeCert_sound {n : Nat} {tyf : Nat → Nat} {nb : Nat → List Nat}
    (h : degreeCert n tyf nb = true) :
    ∀ i, i < n → (nb i).length = if tyf i = 2 then 2 else 3 := by
  intro i hi
  have := (List.all_eq_true.mp h) i (List.mem_range.mpr hi)
  simp only [beq_iff_eq] at this
  simpa using this

/-- twelfths of a pin's power handed to a subchannel of (0-based) type `t` -/
def frac12 (t : Nat) : Nat := if t == 1 then 3 else 2

theorem pinCert_sound {npin ncool : Nat} {tyf : Nat → Nat} {pinrow revrow : Nat → List Nat}
    (h : pinCert npin ncool tyf pinrow revrow = true) :
    (∀ p, p < npin → (pinrow p).Nodup
        ∧ ((pinrow p).map fun j => frac12 (tyf j)).foldl (· + ·) 0 = 12
        ∧ ∀ j ∈ pinrow p, j < ncool ∧ p ∈ revrow j)
    ∧ (∀ i, i < ncool → (revrow i).Nodup ∧ ∀ p ∈ revrow i, p < npin ∧ i ∈ pinrow p) := by
  unfold pinCert at h
  simp only [Bool.and_eq_true, List.all_eq_true, decide_eq_true_eq, List.contains_iff_mem,
    List.mem_range] at h
  refine ⟨fun p hp => ?_, fun i hi => ?_⟩
  · obtain ⟨⟨h1, h2⟩, h3⟩ := h.1 p hp
    exact ⟨h1, h2, fun j hj => h3 j hj⟩
  · obtain ⟨h1, h2⟩ := h.2 i hi
    exact ⟨h1, fun p hp => h2 p hp⟩

theorem classCert_sound {n : Nat} {tyf : Nat → Nat} {nb : Nat → List Nat} {allowed : List (Nat × Nat)}
    (h : classCert n tyf nb allowed = true) :
    ∀ i, i < n → (tyf i + 1, classCode tyf (nb i)) ∈ allowed := by
  intro i hi
  have := (List.all_eq_true.mp h) i (List.mem_range.mpr hi)
  simpa [List.contains_iff_mem] using this

theorem isPerm_sound {n : Nat} {pi : Nat → Nat} (h : isPerm n pi = true) :
    (∀ i, i < n → pi i < n) ∧ (∀ i, i < n → ∀ j, j < n → pi i = pi j → i = j) := by
  unfold isPerm at h
  simp only [Bool.and_eq_true, decide_eq_true_eq, List.all_eq_true, List.mem_map, List.mem_range,
    forall_exists_index, and_imp, forall_apply_eq_imp_iff₂] at h
  refine ⟨h.2, fun i hi j hj hij => ?_⟩
  exact (List.nodup_map_iff_inj_on List.nodup_range).mp h.1 i (List.mem_range.mpr hi) j (List.mem_range.mpr hj) hij

/-- what a kernel-evaluated automorphism certificate means (donor maps are only meaningful on the exterior
ring `nint ≤ i`; interior cells are mapped to interior cells) -/
theorem autoCert_sound {ncool nint : Nat} {tyf : Nat → Nat} {nb : Nat → List Nat} {dA dB : Nat → Option Nat}
    {pi : Nat → Nat} (h : autoCert ncool nint tyf nb dA dB pi = true) :
    (∀ i, i < ncool → pi i < ncool) ∧ (∀ i, i < ncool → ∀ j, j < ncool → pi i = pi j → i = j)
    ∧ ∀ i, i < ncool → tyf (pi i) = tyf i ∧ (nb (pi i)).length = (nb i).length
        ∧ (∀ j ∈ nb i, pi j ∈ nb (pi i)) ∧ (pi i < nint ↔ i < nint)
        ∧ (¬ i < nint → dB (pi i) = (dA i).map pi ∧ (∀ j, dA i = some j → j < ncool)) := by
  unfold autoCert at h
  rw [Bool.and_eq_true] at h
  obtain ⟨hp, hrest⟩ := h
  obtain ⟨hm, hinj⟩ := isPerm_sound hp
  refine ⟨hm, hinj, fun i hi => ?_⟩
  have := (List.all_eq_true.mp hrest) i (List.mem_range.mpr hi)
  simp only [Bool.and_eq_true, Bool.or_eq_true, beq_iff_eq, List.all_eq_true, List.contains_iff_mem,
    decide_eq_decide, decide_eq_true_eq] at this
  obtain ⟨⟨⟨⟨h1, h2⟩, h3⟩, h4⟩, h5⟩ := this
  refine ⟨h1, h2, h3, h4, fun hni => ?_⟩
  rcases h5 with h5 | ⟨h5, h6⟩
  · exact absurd h5 hni
  · refine ⟨h5, fun j hj => ?_⟩
    rw [hj] at h6
    simpa using h6

/-- the total donor map permutes the cells `< hi`: it maps them to cells `< hi`, injectively -/
theorem donorRingCert_sound {lo hi : Nat} {d : Nat → Option Nat} (hle : lo ≤ hi) (h : donorRingCert lo hi d = true) :
    (∀ i, i < hi → donorN lo d i < hi)
    ∧ (∀ i, i < hi → ∀ j, j < hi → donorN lo d i = donorN lo d j → i = j) := by
  unfold donorRingCert at h
  simp only [Bool.and_eq_true, decide_eq_true_eq, List.all_eq_true, List.mem_map, List.mem_range,
    forall_exists_index, and_imp, forall_apply_eq_imp_iff₂] at h
  obtain ⟨hnd, hrange⟩ := h
  have hinj := (List.nodup_map_iff_inj_on List.nodup_range).mp hnd
  -- exterior cells: value in the ring
  have hext : ∀ i, lo ≤ i → i < hi → lo ≤ donorN lo d i ∧ donorN lo d i < hi := by
    intro i h1 h2
    have := hrange (i - lo) (by omega)
    have e : lo + (i - lo) = i := by omega
    rw [e] at this
    unfold donorN
    rw [if_neg (by omega)]
    exact this
  refine ⟨fun i hi => ?_, fun i hi j hj hij => ?_⟩
  · by_cases hc : i < lo
    · unfold donorN; rw [if_pos hc]; exact hi
    · exact (hext i (by omega) hi).2
  · by_cases hci : i < lo <;> by_cases hcj : j < lo
    · unfold donorN at hij; rw [if_pos hci, if_pos hcj] at hij; exact hij
    · have := (hext j (by omega) hj).1
      unfold donorN at hij this
      rw [if_pos hci] at hij
      omega
    · have := (hext i (by omega) hi).1
      unfold donorN at hij this
      rw [if_pos hcj] at hij
      omega
    · have hk := hinj (i - lo) (List.mem_range.mpr (by omega)) (j - lo) (List.mem_range.mpr (by omega))
      have ei : lo + (i - lo) = i := by omega
      have ej : lo + (j - lo) = j := by omega
      rw [ei, ej] at hk
      unfold donorN at hij
      rw [if_neg hci, if_neg hcj] at hij
      have := hk hij
      omega

/-- a layout certificate contains the symmetry certificate of the gap adjacency -/
theorem gapCert_sym {nasm nsc : Nat} {asmrow : Nat → List Nat} {sideLen : Nat → Nat → Nat} {nbr : Nat → Nat → Option Nat}
    {own : Nat → Nat} {scadj : Nat → List Nat} (h : gapCert nasm nsc asmrow sideLen nbr own scadj = true) :
    symCert nsc scadj = true := by
  unfold gapCert at h
  simp only [Bool.and_eq_true] at h
  exact h.1.1.2

end Dassh.Table
