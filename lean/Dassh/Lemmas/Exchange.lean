/-
Exchange terms cancel over a whole bundle: the generic part of C01 for every ring count.

For neighbour tables with a symmetric neighbour relation (`symCert`), a swirl donor map that is a
permutation of the cells (`isPerm` of the total donor map) and exchange coefficients that depend
symmetrically on the two cell types, the sum over all cells of what conduction, turbulent mixing and
wire swirl add to a cell is zero - for every temperature field.
-/
import Dassh.Lemmas.TableSound
import Mathlib.Algebra.BigOperators.Group.Finset.Basic
import Mathlib.Algebra.BigOperators.Group.Finset.Sigma
import Mathlib.Algebra.BigOperators.Ring.Finset
import Mathlib.Algebra.Order.Field.Basic
import Mathlib.Data.List.Perm.Subperm
import Mathlib.Tactic.Linarith
import Mathlib.Tactic.Ring
import Mathlib.Tactic.FieldSimp

namespace Dassh.Exchange
open Finset Dassh.Table

variable {K : Type} [Field K] [LinearOrder K] [IsStrictOrderedRing K]

/-- an antisymmetric pair exchange summed over a symmetric neighbour relation vanishes -/
theorem antisym_sum_zero (n : Nat) (nb : Nat → List Nat) (h : symCert n nb = true)
    (f : Nat → Nat → K) (hf : ∀ i j, f j i = - f i j) :
    ∑ i ∈ range n, ((nb i).map (f i)).sum = 0 := by
  have hc := symCert_sound h
  have h1 : ∀ i ∈ range n, ((nb i).map (f i)).sum = ∑ j ∈ (nb i).toFinset, f i j := by
    intro i hi
    rw [List.sum_toFinset _ (hc i (mem_range.mp hi)).1]
  rw [Finset.sum_congr rfl h1, Finset.sum_sigma']
  set E := (range n).sigma fun i => (nb i).toFinset with hE
  have hswap : ∑ p ∈ E, f p.1 p.2 = ∑ p ∈ E, f p.2 p.1 := by
    apply Finset.sum_nbij' (fun p => ⟨p.2, p.1⟩) (fun p => ⟨p.2, p.1⟩)
    · rintro ⟨i, j⟩ hp
      simp only [hE, mem_sigma, mem_range, List.mem_toFinset] at hp ⊢
      exact ⟨((hc i hp.1).2 j hp.2).1, ((hc i hp.1).2 j hp.2).2⟩
    · rintro ⟨i, j⟩ hp
      simp only [hE, mem_sigma, mem_range, List.mem_toFinset] at hp ⊢
      exact ⟨((hc i hp.1).2 j hp.2).1, ((hc i hp.1).2 j hp.2).2⟩
    · rintro ⟨i, j⟩ _; rfl
    · rintro ⟨i, j⟩ _; rfl
    · rintro ⟨i, j⟩ _; rfl
  have hneg : ∑ p ∈ E, f p.2 p.1 = - ∑ p ∈ E, f p.1 p.2 := by
    rw [← Finset.sum_neg_distrib]
    exact Finset.sum_congr rfl fun p _ => hf p.1 p.2
  linarith [hswap, hneg]

theorem sum_range_list (n : Nat) (f : Nat → K) : ∑ i ∈ range n, f i = ((List.range n).map f).sum := by
  rw [Finset.sum, Finset.range_val, Multiset.range, Multiset.map_coe, Multiset.sum_coe]

/-- inter-assembly gap: any antisymmetric exchange between adjacent gap cells (conduction with symmetric constants) sums to
zero over the gap mesh of a certified core layout -/
theorem gap_exchange_zero {nasm nsc : Nat} {asmrow : Nat → List Nat} {sideLen : Nat → Nat → Nat} {nbr : Nat → Nat → Option Nat}
    {own : Nat → Nat} {scadj : Nat → List Nat} (h : gapCert nasm nsc asmrow sideLen nbr own scadj = true)
    (f : Nat → Nat → K) (hf : ∀ i j, f j i = - f i j) :
    ∑ c ∈ range nsc, ((scadj c).map (f c)).sum = 0 :=
  antisym_sum_zero nsc scadj (gapCert_sym h) f hf

/-- summing a field over the images of a permutation of the cells is summing it over the cells -/
theorem perm_sum (n : Nat) (D : Nat → Nat) (hm : ∀ i, i < n → D i < n)
    (hinj : ∀ i, i < n → ∀ j, j < n → D i = D j → i = j) (T : Nat → K) :
    ∑ i ∈ range n, T (D i) = ∑ i ∈ range n, T i := by
  have hnd : ((List.range n).map D).Nodup :=
    (List.nodup_map_iff_inj_on List.nodup_range).mpr fun x hx y hy hxy =>
      hinj x (List.mem_range.mp hx) y (List.mem_range.mp hy) hxy
  have hsub : (List.range n).map D ⊆ List.range n := by
    intro y hy
    obtain ⟨x, hx, rfl⟩ := List.mem_map.mp hy
    exact List.mem_range.mpr (hm x (List.mem_range.mp hx))
  have hperm : ((List.range n).map D).Perm (List.range n) :=
    (List.subperm_of_subset hnd hsub).perm_of_length_le (by simp)
  have e1 : ∑ i ∈ range n, T (D i) = (((List.range n).map D).map T).sum := by
    rw [sum_range_list, List.map_map]
    rfl
  rw [e1, sum_range_list]
  exact (hperm.map T).sum_eq

/-- what conduction / mixing (`g`, by the two cell types) and swirl (`c`, from the donor `D i`) add to cell `i`,
in energy form (W) -/
def gain (ty : Nat → Nat) (nb : Nat → List Nat) (D : Nat → Nat) (g : Nat → Nat → K) (c : K) (T : Nat → K) (i : Nat) : K :=
  ((nb i).map fun j => g (ty i) (ty j) * (T j - T i)).sum + c * (T (D i) - T i)

/-- **Exchange cancels.**  Symmetric neighbour tables, permutation donor map, symmetric coefficients:
the gains of all cells sum to zero, for every field. -/
theorem exchange_sum_zero {n : Nat} {ty : Nat → Nat} {nb : Nat → List Nat} {D : Nat → Nat}
    (hs : symCert n nb = true) (hp : (∀ i, i < n → D i < n) ∧ (∀ i, i < n → ∀ j, j < n → D i = D j → i = j))
    (g : Nat → Nat → K) (hg : ∀ a b, g a b = g b a) (c : K) (T : Nat → K) :
    ∑ i ∈ range n, gain ty nb D g c T i = 0 := by
  unfold gain
  rw [Finset.sum_add_distrib]
  have h1 : ∑ i ∈ range n, ((nb i).map fun j => g (ty i) (ty j) * (T j - T i)).sum = 0 :=
    antisym_sum_zero n nb hs (fun i j => g (ty i) (ty j) * (T j - T i)) (fun i j => by rw [hg (ty j) (ty i)]; ring)
  have h2 : ∑ i ∈ range n, c * (T (D i) - T i) = 0 := by
    rw [← Finset.mul_sum, Finset.sum_sub_distrib, perm_sum n D hp.1 hp.2 T]
    ring
  rw [h1, h2, add_zero]

/-- the explicit update in temperature form: cell `i` of type `ty i` carries the heat-capacity flow `mcp (ty i)` -/
def bundleStep (ty : Nat → Nat) (nb : Nat → List Nat) (D : Nat → Nat) (g : Nat → Nat → K) (c : K) (mcp : Nat → K)
    (T q : Nat → K) (i : Nat) : K :=
  T i + (gain ty nb D g c T i + q i) / mcp (ty i)

/-- **Bundle energy balance for arbitrary tables.**  The enthalpy-flow rise of all cells equals the sum of their sources. -/
theorem bundle_conservation {n : Nat} {ty : Nat → Nat} {nb : Nat → List Nat} {D : Nat → Nat}
    (hs : symCert n nb = true) (hp : (∀ i, i < n → D i < n) ∧ (∀ i, i < n → ∀ j, j < n → D i = D j → i = j))
    (g : Nat → Nat → K) (hg : ∀ a b, g a b = g b a) (c : K) (mcp : Nat → K) (hm : ∀ a, mcp a ≠ 0) (T q : Nat → K) :
    ∑ i ∈ range n, mcp (ty i) * (bundleStep ty nb D g c mcp T q i - T i) = ∑ i ∈ range n, q i := by
  have h : ∀ i ∈ range n, mcp (ty i) * (bundleStep ty nb D g c mcp T q i - T i) = gain ty nb D g c T i + q i := by
    intro i _
    unfold bundleStep
    have := hm (ty i)
    field_simp
    ring
  rw [Finset.sum_congr rfl h, Finset.sum_add_distrib, exchange_sum_zero hs hp g hg c T, zero_add]

end Dassh.Exchange
