/-
Equivariance vocabulary shared by the generated symmetry certificates (Gen/C07T*.lean) and the
property theorems (Props/C07.lean): the local explicit update, closedness of the tables,
automorphisms, and the bridge from the kernel-decided Boolean certificates to `IsAuto`.
-/
import Dassh.Lemmas.TableSound
import Mathlib.Algebra.Order.Field.Basic
import Mathlib.Algebra.BigOperators.Group.List.Basic
import Mathlib.Data.List.Perm.Basic
import Mathlib.Data.List.Perm.Subperm

namespace Dassh.Equivariance

variable {K : Type} [Field K]

/-- a local explicit update: exchange with the listed neighbours with a weight depending on the
two cell types, a donor (swirl) term, and a source term weighted by the own type -/
def localStep (ty : Nat → Nat) (nb : Nat → List Nat) (donor : Nat → Nat) (w : Nat → Nat → K) (sw b : Nat → K)
    (T src : Nat → K) (i : Nat) : K :=
  T i + ((nb i).map fun j => w (ty i) (ty j) * (T j - T i)).sum + sw (ty i) * (T (donor i) - T i) + b (ty i) * src i

/-- the tables are closed on the cells `< n`: neighbours and donors of a cell are cells -/
structure Closed (n : Nat) (nb : Nat → List Nat) (d : Nat → Nat) : Prop where
  nb : ∀ i, i < n → ∀ j ∈ nb i, j < n
  don : ∀ i, i < n → d i < n

/-- `π` carries the local structure `(ty, nb, dA)` on the cells `< n` to `(ty, nb, dB)` -/
structure IsAuto (n : Nat) (ty : Nat → Nat) (nb : Nat → List Nat) (dA dB : Nat → Nat) (π : Nat → Nat) : Prop where
  maps : ∀ i, i < n → π i < n
  ty : ∀ i, i < n → ty (π i) = ty i
  nb : ∀ i, i < n → ((nb i).map π).Perm (nb (π i))
  don : ∀ i, i < n → dB (π i) = π (dA i)

/-! ### from the kernel-decided certificates to `IsAuto` -/

open Dassh.Table

theorem closed_of_certs {n nint : Nat} {tyf : Nat → Nat} {nb : Nat → List Nat} {dA dB : Nat → Option Nat} {π : Nat → Nat}
    (hs : symCert n nb = true) (ha : autoCert n nint tyf nb dA dB π = true) : Closed n nb (donorN nint dA) := by
  obtain ⟨_, _, hall⟩ := autoCert_sound ha
  refine ⟨fun i hi j hj => ((symCert_sound hs i hi).2 j hj).1, fun i hi => ?_⟩
  unfold donorN
  split
  · exact hi
  · rename_i hni
    cases hd : dA i with
    | none => simpa using hi
    | some j => simpa using ((hall i hi).2.2.2.2 hni).2 j hd

/-- **Bridge.**  The Boolean certificates the kernel decides on the real tables give an automorphism in the sense
of the equivariance theorems. -/
theorem isAuto_of_certs {n nint : Nat} {tyf : Nat → Nat} {nb : Nat → List Nat} {dA dB : Nat → Option Nat} {π : Nat → Nat}
    (hs : symCert n nb = true) (ha : autoCert n nint tyf nb dA dB π = true) :
    IsAuto n tyf nb (donorN nint dA) (donorN nint dB) π := by
  obtain ⟨hm, hinj, hall⟩ := autoCert_sound ha
  refine ⟨hm, fun i hi => (hall i hi).1, fun i hi => ?_, fun i hi => ?_⟩
  · obtain ⟨_, hlen, hsub, _, _⟩ := hall i hi
    obtain ⟨hnd, hclosed⟩ := symCert_sound hs i hi
    have hnd' : ((nb i).map π).Nodup := by
      refine (List.nodup_map_iff_inj_on hnd).mpr fun x hx y hy hxy => ?_
      exact hinj x (hclosed x hx).1 y (hclosed y hy).1 hxy
    have hsubset : (nb i).map π ⊆ nb (π i) := by
      intro y hy
      obtain ⟨x, hx, rfl⟩ := List.mem_map.mp hy
      exact hsub x hx
    exact (List.subperm_of_subset hnd' hsubset).perm_of_length_le (by simp [hlen])
  · obtain ⟨_, _, _, hint, hd⟩ := hall i hi
    unfold donorN
    by_cases hni : i < nint
    · rw [if_pos hni, if_pos (hint.mpr hni)]
    · rw [if_neg hni, if_neg (fun h => hni (hint.mp h)), (hd hni).1]
      cases dA i <;> simp

end Dassh.Equivariance
