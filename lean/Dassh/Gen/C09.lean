-- GENERATED: collects the per-chunk layout certificates.
import Dassh.Gen.C09_0
import Dassh.Gen.C09_1
import Dassh.Gen.C09_2
import Dassh.Gen.C09_3
import Dassh.Gen.C09_4
import Dassh.Gen.C09_5
import Dassh.Gen.C09_6
import Dassh.Gen.C09_7
import Dassh.Gen.C09_8
import Dassh.Gen.C09_9
import Dassh.Gen.C09_10
import Dassh.Gen.C09_11
import Dassh.Gen.C09_12
import Dassh.Gen.C09_13
import Dassh.Gen.C09_14
import Dassh.Gen.C09_15

namespace Dassh.Gen.C09

/-- number of layouts dumped in this run -/
def nLayouts : Nat := 129

def allCerts : List Bool := Dassh.Gen.C09_0.certs ++ Dassh.Gen.C09_1.certs ++ Dassh.Gen.C09_2.certs ++ Dassh.Gen.C09_3.certs ++ Dassh.Gen.C09_4.certs ++ Dassh.Gen.C09_5.certs ++ Dassh.Gen.C09_6.certs ++ Dassh.Gen.C09_7.certs ++ Dassh.Gen.C09_8.certs ++ Dassh.Gen.C09_9.certs ++ Dassh.Gen.C09_10.certs ++ Dassh.Gen.C09_11.certs ++ Dassh.Gen.C09_12.certs ++ Dassh.Gen.C09_13.certs ++ Dassh.Gen.C09_14.certs ++ Dassh.Gen.C09_15.certs

/-- the full 7-assembly core (layout s7_126): number of gap cells, adjacency table, exchange instance -/
def fullNsc : Nat := 99
def fullAdj : Nat := Dassh.Gen.C09_8.adj_s7_126_0
theorem full_exch {K : Type} [Field K] [LinearOrder K] [IsStrictOrderedRing K] (f : Nat → Nat → K) (hf : ∀ i j, f j i = - f i j) :
    ∑ c ∈ Finset.range fullNsc, ((Dassh.Table.row fullAdj 12 3 c).map (f c)).sum = 0 :=
  Dassh.Gen.C09_8.exch_s7_126_0 f hf

theorem all_ok : allCerts.all (· = true) = true := by
  simp only [allCerts, List.all_append, Bool.and_self, Dassh.Gen.C09_0.certs_ok, Dassh.Gen.C09_1.certs_ok, Dassh.Gen.C09_2.certs_ok, Dassh.Gen.C09_3.certs_ok, Dassh.Gen.C09_4.certs_ok, Dassh.Gen.C09_5.certs_ok, Dassh.Gen.C09_6.certs_ok, Dassh.Gen.C09_7.certs_ok, Dassh.Gen.C09_8.certs_ok, Dassh.Gen.C09_9.certs_ok, Dassh.Gen.C09_10.certs_ok, Dassh.Gen.C09_11.certs_ok, Dassh.Gen.C09_12.certs_ok, Dassh.Gen.C09_13.certs_ok, Dassh.Gen.C09_14.certs_ok, Dassh.Gen.C09_15.certs_ok]
end Dassh.Gen.C09
