-- GENERATED: symmetry permutations derived from centroid coordinates (n_ring = 3).
import Dassh.Gen.C08T3

namespace Dassh.Gen.C07T3
open Dassh.Table Dassh.Gen.C08T3

def pi_rot1 : Nat := 0x2602502402302202102001f01e01d01c01b01a01901802902802701401301201101000f00e00d00c00b00a009008007006017016015004003002001000005
def sg_rot1 : Nat := 0x1000f00e00d00c00b00a009008007012011005004003002001006000
def cert_rot1 : Bool := autoCert ncool nint tyf nb donorCW donorCW (permOf pi_rot1 12)
  && autoCert ncool nint tyf nb donorCCW donorCCW (permOf pi_rot1 12)
  && pinAutoCert npin pinrow (permOf pi_rot1 12) (permOf sg_rot1 12)
def pi_rot2 : Nat := 0x2302202102001f01e01d01c01b01a01901802902802702602502401101000f00e00d00c00b00a009008007006017016015014013012003002001000005004
def sg_rot2 : Nat := 0xe00d00c00b00a00900800701201101000f004003002001006005000
def cert_rot2 : Bool := autoCert ncool nint tyf nb donorCW donorCW (permOf pi_rot2 12)
  && autoCert ncool nint tyf nb donorCCW donorCCW (permOf pi_rot2 12)
  && pinAutoCert npin pinrow (permOf pi_rot2 12) (permOf sg_rot2 12)
def pi_rot3 : Nat := 0x2001f01e01d01c01b01a01901802902802702602502402302202100e00d00c00b00a00900800700601701601501401301201101000f002001000005004003
def sg_rot3 : Nat := 0xc00b00a00900800701201101000f00e00d003002001006005004000
def cert_rot3 : Bool := autoCert ncool nint tyf nb donorCW donorCW (permOf pi_rot3 12)
  && autoCert ncool nint tyf nb donorCCW donorCCW (permOf pi_rot3 12)
  && pinAutoCert npin pinrow (permOf pi_rot3 12) (permOf sg_rot3 12)
def pi_rot4 : Nat := 0x1d01c01b01a01901802902802702602502402302202102001f01e00b00a00900800700601701601501401301201101000f00e00d00c001000005004003002
def sg_rot4 : Nat := 0xa00900800701201101000f00e00d00c00b002001006005004003000
def cert_rot4 : Bool := autoCert ncool nint tyf nb donorCW donorCW (permOf pi_rot4 12)
  && autoCert ncool nint tyf nb donorCCW donorCCW (permOf pi_rot4 12)
  && pinAutoCert npin pinrow (permOf pi_rot4 12) (permOf sg_rot4 12)
def pi_rot5 : Nat := 0x1a01901802902802702602502402302202102001f01e01d01c01b00800700601701601501401301201101000f00e00d00c00b00a009000005004003002001
def sg_rot5 : Nat := 0x800701201101000f00e00d00c00b00a009001006005004003002000
def cert_rot5 : Bool := autoCert ncool nint tyf nb donorCW donorCW (permOf pi_rot5 12)
  && autoCert ncool nint tyf nb donorCCW donorCCW (permOf pi_rot5 12)
  && pinAutoCert npin pinrow (permOf pi_rot5 12) (permOf sg_rot5 12)
def pi_mir : Nat := 0x2901801901a01b01c01d01e01f02002102202302402502602702800600700800900a00b00c00d00e00f010011012013014015016017000001002003004005
def sg_mir : Nat := 0x800900a00b00c00d00e00f010011012007002003004005006001000
def cert_mir : Bool := autoCert ncool nint tyf nb donorCW donorCCW (permOf pi_mir 12)
  && autoCert ncool nint tyf nb donorCCW donorCW (permOf pi_mir 12)
  && pinAutoCert npin pinrow (permOf pi_mir 12) (permOf sg_mir 12)
def certs : List Bool := [cert_rot1, cert_rot2, cert_rot3, cert_rot4, cert_rot5, cert_mir]
set_option maxRecDepth 1000000 in
theorem certs_ok : certs.all (· = true) = true := by decide +kernel
end Dassh.Gen.C07T3
