-- GENERATED: collects the per-ring-count table certificates.

import Dassh.Gen.C08T2
import Dassh.Gen.C08T3
import Dassh.Gen.C08T4
import Dassh.Gen.C08T5
import Dassh.Gen.C08T6
import Dassh.Gen.C08T7
import Dassh.Gen.C08T8
import Dassh.Gen.C08T9
import Dassh.Gen.C08T10
import Dassh.Gen.C08T11
import Dassh.Gen.C08T12
import Dassh.Gen.C08T13
import Dassh.Gen.C08T14
import Dassh.Gen.C08T15
import Dassh.Gen.C08T16
import Dassh.Gen.C08T17
import Dassh.Gen.C08T18
import Dassh.Gen.C08T19
import Dassh.Gen.C08T20
import Dassh.Lemmas.TableSound

namespace Dassh.Gen.C08All
open Dassh.Table

/-- ring counts whose tables were dumped and kernel-checked in this run -/
def ringCounts : List Nat := [2, 3, 4, 5, 6, 7, 8, 9, 10, 11, 12, 13, 14, 15, 16, 17, 18, 19, 20]

/-- all certificates of the 2-ring tables, as propositions -/
theorem wellformed_2 :
    countCert Dassh.Gen.C08T2.nring Dassh.Gen.C08T2.ncool Dassh.Gen.C08T2.tyf = true
    ∧ (∀ i, i < Dassh.Gen.C08T2.ncool → (Dassh.Gen.C08T2.nb i).Nodup ∧ ∀ j ∈ Dassh.Gen.C08T2.nb i, j < Dassh.Gen.C08T2.ncool ∧ i ∈ Dassh.Gen.C08T2.nb j)
    ∧ (∀ i, i < Dassh.Gen.C08T2.ncool → (Dassh.Gen.C08T2.nb i).length = if Dassh.Gen.C08T2.tyf i = 2 then 2 else 3)
    ∧ (∀ i, i < Dassh.Gen.C08T2.ncool → (Dassh.Gen.C08T2.tyf i + 1, classCode Dassh.Gen.C08T2.tyf (Dassh.Gen.C08T2.nb i)) ∈ Dassh.Gen.C08T2.limited)
    ∧ (∀ p, p < Dassh.Gen.C08T2.npin → (Dassh.Gen.C08T2.pinrow p).Nodup
        ∧ ((Dassh.Gen.C08T2.pinrow p).map fun j => frac12 (Dassh.Gen.C08T2.tyf j)).foldl (· + ·) 0 = 12
        ∧ ∀ j ∈ Dassh.Gen.C08T2.pinrow p, j < Dassh.Gen.C08T2.ncool ∧ p ∈ Dassh.Gen.C08T2.revrow j)
    ∧ (∀ i, i < Dassh.Gen.C08T2.ncool → (Dassh.Gen.C08T2.revrow i).Nodup ∧ ∀ p ∈ Dassh.Gen.C08T2.revrow i, p < Dassh.Gen.C08T2.npin ∧ i ∈ Dassh.Gen.C08T2.pinrow p)
    ∧ permCert Dassh.Gen.C08T2.nint Dassh.Gen.C08T2.ncool Dassh.Gen.C08T2.donorCW = true ∧ permCert Dassh.Gen.C08T2.nint Dassh.Gen.C08T2.ncool Dassh.Gen.C08T2.donorCCW = true
    ∧ inverseCert Dassh.Gen.C08T2.nint Dassh.Gen.C08T2.ncool Dassh.Gen.C08T2.donorCW Dassh.Gen.C08T2.donorCCW = true :=
  ⟨Dassh.Gen.C08T2.cert_count, symCert_sound Dassh.Gen.C08T2.cert_sym, degreeCert_sound Dassh.Gen.C08T2.cert_degree,
   classCert_sound Dassh.Gen.C08T2.cert_classes, (pinCert_sound Dassh.Gen.C08T2.cert_pins).1, (pinCert_sound Dassh.Gen.C08T2.cert_pins).2,
   Dassh.Gen.C08T2.cert_donor_cw, Dassh.Gen.C08T2.cert_donor_ccw, Dassh.Gen.C08T2.cert_donor_inv⟩

/-- all certificates of the 3-ring tables, as propositions -/
theorem wellformed_3 :
    countCert Dassh.Gen.C08T3.nring Dassh.Gen.C08T3.ncool Dassh.Gen.C08T3.tyf = true
    ∧ (∀ i, i < Dassh.Gen.C08T3.ncool → (Dassh.Gen.C08T3.nb i).Nodup ∧ ∀ j ∈ Dassh.Gen.C08T3.nb i, j < Dassh.Gen.C08T3.ncool ∧ i ∈ Dassh.Gen.C08T3.nb j)
    ∧ (∀ i, i < Dassh.Gen.C08T3.ncool → (Dassh.Gen.C08T3.nb i).length = if Dassh.Gen.C08T3.tyf i = 2 then 2 else 3)
    ∧ (∀ i, i < Dassh.Gen.C08T3.ncool → (Dassh.Gen.C08T3.tyf i + 1, classCode Dassh.Gen.C08T3.tyf (Dassh.Gen.C08T3.nb i)) ∈ Dassh.Gen.C08T3.limited)
    ∧ (∀ p, p < Dassh.Gen.C08T3.npin → (Dassh.Gen.C08T3.pinrow p).Nodup
        ∧ ((Dassh.Gen.C08T3.pinrow p).map fun j => frac12 (Dassh.Gen.C08T3.tyf j)).foldl (· + ·) 0 = 12
        ∧ ∀ j ∈ Dassh.Gen.C08T3.pinrow p, j < Dassh.Gen.C08T3.ncool ∧ p ∈ Dassh.Gen.C08T3.revrow j)
    ∧ (∀ i, i < Dassh.Gen.C08T3.ncool → (Dassh.Gen.C08T3.revrow i).Nodup ∧ ∀ p ∈ Dassh.Gen.C08T3.revrow i, p < Dassh.Gen.C08T3.npin ∧ i ∈ Dassh.Gen.C08T3.pinrow p)
    ∧ permCert Dassh.Gen.C08T3.nint Dassh.Gen.C08T3.ncool Dassh.Gen.C08T3.donorCW = true ∧ permCert Dassh.Gen.C08T3.nint Dassh.Gen.C08T3.ncool Dassh.Gen.C08T3.donorCCW = true
    ∧ inverseCert Dassh.Gen.C08T3.nint Dassh.Gen.C08T3.ncool Dassh.Gen.C08T3.donorCW Dassh.Gen.C08T3.donorCCW = true :=
  ⟨Dassh.Gen.C08T3.cert_count, symCert_sound Dassh.Gen.C08T3.cert_sym, degreeCert_sound Dassh.Gen.C08T3.cert_degree,
   classCert_sound Dassh.Gen.C08T3.cert_classes, (pinCert_sound Dassh.Gen.C08T3.cert_pins).1, (pinCert_sound Dassh.Gen.C08T3.cert_pins).2,
   Dassh.Gen.C08T3.cert_donor_cw, Dassh.Gen.C08T3.cert_donor_ccw, Dassh.Gen.C08T3.cert_donor_inv⟩

/-- all certificates of the 4-ring tables, as propositions -/
theorem wellformed_4 :
    countCert Dassh.Gen.C08T4.nring Dassh.Gen.C08T4.ncool Dassh.Gen.C08T4.tyf = true
    ∧ (∀ i, i < Dassh.Gen.C08T4.ncool → (Dassh.Gen.C08T4.nb i).Nodup ∧ ∀ j ∈ Dassh.Gen.C08T4.nb i, j < Dassh.Gen.C08T4.ncool ∧ i ∈ Dassh.Gen.C08T4.nb j)
    ∧ (∀ i, i < Dassh.Gen.C08T4.ncool → (Dassh.Gen.C08T4.nb i).length = if Dassh.Gen.C08T4.tyf i = 2 then 2 else 3)
    ∧ (∀ i, i < Dassh.Gen.C08T4.ncool → (Dassh.Gen.C08T4.tyf i + 1, classCode Dassh.Gen.C08T4.tyf (Dassh.Gen.C08T4.nb i)) ∈ Dassh.Gen.C08T4.limited)
    ∧ (∀ p, p < Dassh.Gen.C08T4.npin → (Dassh.Gen.C08T4.pinrow p).Nodup
        ∧ ((Dassh.Gen.C08T4.pinrow p).map fun j => frac12 (Dassh.Gen.C08T4.tyf j)).foldl (· + ·) 0 = 12
        ∧ ∀ j ∈ Dassh.Gen.C08T4.pinrow p, j < Dassh.Gen.C08T4.ncool ∧ p ∈ Dassh.Gen.C08T4.revrow j)
    ∧ (∀ i, i < Dassh.Gen.C08T4.ncool → (Dassh.Gen.C08T4.revrow i).Nodup ∧ ∀ p ∈ Dassh.Gen.C08T4.revrow i, p < Dassh.Gen.C08T4.npin ∧ i ∈ Dassh.Gen.C08T4.pinrow p)
    ∧ permCert Dassh.Gen.C08T4.nint Dassh.Gen.C08T4.ncool Dassh.Gen.C08T4.donorCW = true ∧ permCert Dassh.Gen.C08T4.nint Dassh.Gen.C08T4.ncool Dassh.Gen.C08T4.donorCCW = true
    ∧ inverseCert Dassh.Gen.C08T4.nint Dassh.Gen.C08T4.ncool Dassh.Gen.C08T4.donorCW Dassh.Gen.C08T4.donorCCW = true :=
  ⟨Dassh.Gen.C08T4.cert_count, symCert_sound Dassh.Gen.C08T4.cert_sym, degreeCert_sound Dassh.Gen.C08T4.cert_degree,
   classCert_sound Dassh.Gen.C08T4.cert_classes, (pinCert_sound Dassh.Gen.C08T4.cert_pins).1, (pinCert_sound Dassh.Gen.C08T4.cert_pins).2,
   Dassh.Gen.C08T4.cert_donor_cw, Dassh.Gen.C08T4.cert_donor_ccw, Dassh.Gen.C08T4.cert_donor_inv⟩

/-- all certificates of the 5-ring tables, as propositions -/
theorem wellformed_5 :
    countCert Dassh.Gen.C08T5.nring Dassh.Gen.C08T5.ncool Dassh.Gen.C08T5.tyf = true
    ∧ (∀ i, i < Dassh.Gen.C08T5.ncool → (Dassh.Gen.C08T5.nb i).Nodup ∧ ∀ j ∈ Dassh.Gen.C08T5.nb i, j < Dassh.Gen.C08T5.ncool ∧ i ∈ Dassh.Gen.C08T5.nb j)
    ∧ (∀ i, i < Dassh.Gen.C08T5.ncool → (Dassh.Gen.C08T5.nb i).length = if Dassh.Gen.C08T5.tyf i = 2 then 2 else 3)
    ∧ (∀ i, i < Dassh.Gen.C08T5.ncool → (Dassh.Gen.C08T5.tyf i + 1, classCode Dassh.Gen.C08T5.tyf (Dassh.Gen.C08T5.nb i)) ∈ Dassh.Gen.C08T5.limited)
    ∧ (∀ p, p < Dassh.Gen.C08T5.npin → (Dassh.Gen.C08T5.pinrow p).Nodup
        ∧ ((Dassh.Gen.C08T5.pinrow p).map fun j => frac12 (Dassh.Gen.C08T5.tyf j)).foldl (· + ·) 0 = 12
        ∧ ∀ j ∈ Dassh.Gen.C08T5.pinrow p, j < Dassh.Gen.C08T5.ncool ∧ p ∈ Dassh.Gen.C08T5.revrow j)
    ∧ (∀ i, i < Dassh.Gen.C08T5.ncool → (Dassh.Gen.C08T5.revrow i).Nodup ∧ ∀ p ∈ Dassh.Gen.C08T5.revrow i, p < Dassh.Gen.C08T5.npin ∧ i ∈ Dassh.Gen.C08T5.pinrow p)
    ∧ permCert Dassh.Gen.C08T5.nint Dassh.Gen.C08T5.ncool Dassh.Gen.C08T5.donorCW = true ∧ permCert Dassh.Gen.C08T5.nint Dassh.Gen.C08T5.ncool Dassh.Gen.C08T5.donorCCW = true
    ∧ inverseCert Dassh.Gen.C08T5.nint Dassh.Gen.C08T5.ncool Dassh.Gen.C08T5.donorCW Dassh.Gen.C08T5.donorCCW = true :=
  ⟨Dassh.Gen.C08T5.cert_count, symCert_sound Dassh.Gen.C08T5.cert_sym, degreeCert_sound Dassh.Gen.C08T5.cert_degree,
   classCert_sound Dassh.Gen.C08T5.cert_classes, (pinCert_sound Dassh.Gen.C08T5.cert_pins).1, (pinCert_sound Dassh.Gen.C08T5.cert_pins).2,
   Dassh.Gen.C08T5.cert_donor_cw, Dassh.Gen.C08T5.cert_donor_ccw, Dassh.Gen.C08T5.cert_donor_inv⟩

/-- all certificates of the 6-ring tables, as propositions -/
theorem wellformed_6 :
    countCert Dassh.Gen.C08T6.nring Dassh.Gen.C08T6.ncool Dassh.Gen.C08T6.tyf = true
    ∧ (∀ i, i < Dassh.Gen.C08T6.ncool → (Dassh.Gen.C08T6.nb i).Nodup ∧ ∀ j ∈ Dassh.Gen.C08T6.nb i, j < Dassh.Gen.C08T6.ncool ∧ i ∈ Dassh.Gen.C08T6.nb j)
    ∧ (∀ i, i < Dassh.Gen.C08T6.ncool → (Dassh.Gen.C08T6.nb i).length = if Dassh.Gen.C08T6.tyf i = 2 then 2 else 3)
    ∧ (∀ i, i < Dassh.Gen.C08T6.ncool → (Dassh.Gen.C08T6.tyf i + 1, classCode Dassh.Gen.C08T6.tyf (Dassh.Gen.C08T6.nb i)) ∈ Dassh.Gen.C08T6.limited)
    ∧ (∀ p, p < Dassh.Gen.C08T6.npin → (Dassh.Gen.C08T6.pinrow p).Nodup
        ∧ ((Dassh.Gen.C08T6.pinrow p).map fun j => frac12 (Dassh.Gen.C08T6.tyf j)).foldl (· + ·) 0 = 12
        ∧ ∀ j ∈ Dassh.Gen.C08T6.pinrow p, j < Dassh.Gen.C08T6.ncool ∧ p ∈ Dassh.Gen.C08T6.revrow j)
    ∧ (∀ i, i < Dassh.Gen.C08T6.ncool → (Dassh.Gen.C08T6.revrow i).Nodup ∧ ∀ p ∈ Dassh.Gen.C08T6.revrow i, p < Dassh.Gen.C08T6.npin ∧ i ∈ Dassh.Gen.C08T6.pinrow p)
    ∧ permCert Dassh.Gen.C08T6.nint Dassh.Gen.C08T6.ncool Dassh.Gen.C08T6.donorCW = true ∧ permCert Dassh.Gen.C08T6.nint Dassh.Gen.C08T6.ncool Dassh.Gen.C08T6.donorCCW = true
    ∧ inverseCert Dassh.Gen.C08T6.nint Dassh.Gen.C08T6.ncool Dassh.Gen.C08T6.donorCW Dassh.Gen.C08T6.donorCCW = true :=
  ⟨Dassh.Gen.C08T6.cert_count, symCert_sound Dassh.Gen.C08T6.cert_sym, degreeCert_sound Dassh.Gen.C08T6.cert_degree,
   classCert_sound Dassh.Gen.C08T6.cert_classes, (pinCert_sound Dassh.Gen.C08T6.cert_pins).1, (pinCert_sound Dassh.Gen.C08T6.cert_pins).2,
   Dassh.Gen.C08T6.cert_donor_cw, Dassh.Gen.C08T6.cert_donor_ccw, Dassh.Gen.C08T6.cert_donor_inv⟩

/-- all certificates of the 7-ring tables, as propositions -/
theorem wellformed_7 :
    countCert Dassh.Gen.C08T7.nring Dassh.Gen.C08T7.ncool Dassh.Gen.C08T7.tyf = true
    ∧ (∀ i, i < Dassh.Gen.C08T7.ncool → (Dassh.Gen.C08T7.nb i).Nodup ∧ ∀ j ∈ Dassh.Gen.C08T7.nb i, j < Dassh.Gen.C08T7.ncool ∧ i ∈ Dassh.Gen.C08T7.nb j)
    ∧ (∀ i, i < Dassh.Gen.C08T7.ncool → (Dassh.Gen.C08T7.nb i).length = if Dassh.Gen.C08T7.tyf i = 2 then 2 else 3)
    ∧ (∀ i, i < Dassh.Gen.C08T7.ncool → (Dassh.Gen.C08T7.tyf i + 1, classCode Dassh.Gen.C08T7.tyf (Dassh.Gen.C08T7.nb i)) ∈ Dassh.Gen.C08T7.limited)
    ∧ (∀ p, p < Dassh.Gen.C08T7.npin → (Dassh.Gen.C08T7.pinrow p).Nodup
        ∧ ((Dassh.Gen.C08T7.pinrow p).map fun j => frac12 (Dassh.Gen.C08T7.tyf j)).foldl (· + ·) 0 = 12
        ∧ ∀ j ∈ Dassh.Gen.C08T7.pinrow p, j < Dassh.Gen.C08T7.ncool ∧ p ∈ Dassh.Gen.C08T7.revrow j)
    ∧ (∀ i, i < Dassh.Gen.C08T7.ncool → (Dassh.Gen.C08T7.revrow i).Nodup ∧ ∀ p ∈ Dassh.Gen.C08T7.revrow i, p < Dassh.Gen.C08T7.npin ∧ i ∈ Dassh.Gen.C08T7.pinrow p)
    ∧ permCert Dassh.Gen.C08T7.nint Dassh.Gen.C08T7.ncool Dassh.Gen.C08T7.donorCW = true ∧ permCert Dassh.Gen.C08T7.nint Dassh.Gen.C08T7.ncool Dassh.Gen.C08T7.donorCCW = true
    ∧ inverseCert Dassh.Gen.C08T7.nint Dassh.Gen.C08T7.ncool Dassh.Gen.C08T7.donorCW Dassh.Gen.C08T7.donorCCW = true :=
  ⟨Dassh.Gen.C08T7.cert_count, symCert_sound Dassh.Gen.C08T7.cert_sym, degreeCert_sound Dassh.Gen.C08T7.cert_degree,
   classCert_sound Dassh.Gen.C08T7.cert_classes, (pinCert_sound Dassh.Gen.C08T7.cert_pins).1, (pinCert_sound Dassh.Gen.C08T7.cert_pins).2,
   Dassh.Gen.C08T7.cert_donor_cw, Dassh.Gen.C08T7.cert_donor_ccw, Dassh.Gen.C08T7.cert_donor_inv⟩

/-- all certificates of the 8-ring tables, as propositions -/
theorem wellformed_8 :
    countCert Dassh.Gen.C08T8.nring Dassh.Gen.C08T8.ncool Dassh.Gen.C08T8.tyf = true
    ∧ (∀ i, i < Dassh.Gen.C08T8.ncool → (Dassh.Gen.C08T8.nb i).Nodup ∧ ∀ j ∈ Dassh.Gen.C08T8.nb i, j < Dassh.Gen.C08T8.ncool ∧ i ∈ Dassh.Gen.C08T8.nb j)
    ∧ (∀ i, i < Dassh.Gen.C08T8.ncool → (Dassh.Gen.C08T8.nb i).length = if Dassh.Gen.C08T8.tyf i = 2 then 2 else 3)
    ∧ (∀ i, i < Dassh.Gen.C08T8.ncool → (Dassh.Gen.C08T8.tyf i + 1, classCode Dassh.Gen.C08T8.tyf (Dassh.Gen.C08T8.nb i)) ∈ Dassh.Gen.C08T8.limited)
    ∧ (∀ p, p < Dassh.Gen.C08T8.npin → (Dassh.Gen.C08T8.pinrow p).Nodup
        ∧ ((Dassh.Gen.C08T8.pinrow p).map fun j => frac12 (Dassh.Gen.C08T8.tyf j)).foldl (· + ·) 0 = 12
        ∧ ∀ j ∈ Dassh.Gen.C08T8.pinrow p, j < Dassh.Gen.C08T8.ncool ∧ p ∈ Dassh.Gen.C08T8.revrow j)
    ∧ (∀ i, i < Dassh.Gen.C08T8.ncool → (Dassh.Gen.C08T8.revrow i).Nodup ∧ ∀ p ∈ Dassh.Gen.C08T8.revrow i, p < Dassh.Gen.C08T8.npin ∧ i ∈ Dassh.Gen.C08T8.pinrow p)
    ∧ permCert Dassh.Gen.C08T8.nint Dassh.Gen.C08T8.ncool Dassh.Gen.C08T8.donorCW = true ∧ permCert Dassh.Gen.C08T8.nint Dassh.Gen.C08T8.ncool Dassh.Gen.C08T8.donorCCW = true
    ∧ inverseCert Dassh.Gen.C08T8.nint Dassh.Gen.C08T8.ncool Dassh.Gen.C08T8.donorCW Dassh.Gen.C08T8.donorCCW = true :=
  ⟨Dassh.Gen.C08T8.cert_count, symCert_sound Dassh.Gen.C08T8.cert_sym, degreeCert_sound Dassh.Gen.C08T8.cert_degree,
   classCert_sound Dassh.Gen.C08T8.cert_classes, (pinCert_sound Dassh.Gen.C08T8.cert_pins).1, (pinCert_sound Dassh.Gen.C08T8.cert_pins).2,
   Dassh.Gen.C08T8.cert_donor_cw, Dassh.Gen.C08T8.cert_donor_ccw, Dassh.Gen.C08T8.cert_donor_inv⟩

/-- all certificates of the 9-ring tables, as propositions -/
theorem wellformed_9 :
    countCert Dassh.Gen.C08T9.nring Dassh.Gen.C08T9.ncool Dassh.Gen.C08T9.tyf = true
    ∧ (∀ i, i < Dassh.Gen.C08T9.ncool → (Dassh.Gen.C08T9.nb i).Nodup ∧ ∀ j ∈ Dassh.Gen.C08T9.nb i, j < Dassh.Gen.C08T9.ncool ∧ i ∈ Dassh.Gen.C08T9.nb j)
    ∧ (∀ i, i < Dassh.Gen.C08T9.ncool → (Dassh.Gen.C08T9.nb i).length = if Dassh.Gen.C08T9.tyf i = 2 then 2 else 3)
    ∧ (∀ i, i < Dassh.Gen.C08T9.ncool → (Dassh.Gen.C08T9.tyf i + 1, classCode Dassh.Gen.C08T9.tyf (Dassh.Gen.C08T9.nb i)) ∈ Dassh.Gen.C08T9.limited)
    ∧ (∀ p, p < Dassh.Gen.C08T9.npin → (Dassh.Gen.C08T9.pinrow p).Nodup
        ∧ ((Dassh.Gen.C08T9.pinrow p).map fun j => frac12 (Dassh.Gen.C08T9.tyf j)).foldl (· + ·) 0 = 12
        ∧ ∀ j ∈ Dassh.Gen.C08T9.pinrow p, j < Dassh.Gen.C08T9.ncool ∧ p ∈ Dassh.Gen.C08T9.revrow j)
    ∧ (∀ i, i < Dassh.Gen.C08T9.ncool → (Dassh.Gen.C08T9.revrow i).Nodup ∧ ∀ p ∈ Dassh.Gen.C08T9.revrow i, p < Dassh.Gen.C08T9.npin ∧ i ∈ Dassh.Gen.C08T9.pinrow p)
    ∧ permCert Dassh.Gen.C08T9.nint Dassh.Gen.C08T9.ncool Dassh.Gen.C08T9.donorCW = true ∧ permCert Dassh.Gen.C08T9.nint Dassh.Gen.C08T9.ncool Dassh.Gen.C08T9.donorCCW = true
    ∧ inverseCert Dassh.Gen.C08T9.nint Dassh.Gen.C08T9.ncool Dassh.Gen.C08T9.donorCW Dassh.Gen.C08T9.donorCCW = true :=
  ⟨Dassh.Gen.C08T9.cert_count, symCert_sound Dassh.Gen.C08T9.cert_sym, degreeCert_sound Dassh.Gen.C08T9.cert_degree,
   classCert_sound Dassh.Gen.C08T9.cert_classes, (pinCert_sound Dassh.Gen.C08T9.cert_pins).1, (pinCert_sound Dassh.Gen.C08T9.cert_pins).2,
   Dassh.Gen.C08T9.cert_donor_cw, Dassh.Gen.C08T9.cert_donor_ccw, Dassh.Gen.C08T9.cert_donor_inv⟩

/-- all certificates of the 10-ring tables, as propositions -/
theorem wellformed_10 :
    countCert Dassh.Gen.C08T10.nring Dassh.Gen.C08T10.ncool Dassh.Gen.C08T10.tyf = true
    ∧ (∀ i, i < Dassh.Gen.C08T10.ncool → (Dassh.Gen.C08T10.nb i).Nodup ∧ ∀ j ∈ Dassh.Gen.C08T10.nb i, j < Dassh.Gen.C08T10.ncool ∧ i ∈ Dassh.Gen.C08T10.nb j)
    ∧ (∀ i, i < Dassh.Gen.C08T10.ncool → (Dassh.Gen.C08T10.nb i).length = if Dassh.Gen.C08T10.tyf i = 2 then 2 else 3)
    ∧ (∀ i, i < Dassh.Gen.C08T10.ncool → (Dassh.Gen.C08T10.tyf i + 1, classCode Dassh.Gen.C08T10.tyf (Dassh.Gen.C08T10.nb i)) ∈ Dassh.Gen.C08T10.limited)
    ∧ (∀ p, p < Dassh.Gen.C08T10.npin → (Dassh.Gen.C08T10.pinrow p).Nodup
        ∧ ((Dassh.Gen.C08T10.pinrow p).map fun j => frac12 (Dassh.Gen.C08T10.tyf j)).foldl (· + ·) 0 = 12
        ∧ ∀ j ∈ Dassh.Gen.C08T10.pinrow p, j < Dassh.Gen.C08T10.ncool ∧ p ∈ Dassh.Gen.C08T10.revrow j)
    ∧ (∀ i, i < Dassh.Gen.C08T10.ncool → (Dassh.Gen.C08T10.revrow i).Nodup ∧ ∀ p ∈ Dassh.Gen.C08T10.revrow i, p < Dassh.Gen.C08T10.npin ∧ i ∈ Dassh.Gen.C08T10.pinrow p)
    ∧ permCert Dassh.Gen.C08T10.nint Dassh.Gen.C08T10.ncool Dassh.Gen.C08T10.donorCW = true ∧ permCert Dassh.Gen.C08T10.nint Dassh.Gen.C08T10.ncool Dassh.Gen.C08T10.donorCCW = true
    ∧ inverseCert Dassh.Gen.C08T10.nint Dassh.Gen.C08T10.ncool Dassh.Gen.C08T10.donorCW Dassh.Gen.C08T10.donorCCW = true :=
  ⟨Dassh.Gen.C08T10.cert_count, symCert_sound Dassh.Gen.C08T10.cert_sym, degreeCert_sound Dassh.Gen.C08T10.cert_degree,
   classCert_sound Dassh.Gen.C08T10.cert_classes, (pinCert_sound Dassh.Gen.C08T10.cert_pins).1, (pinCert_sound Dassh.Gen.C08T10.cert_pins).2,
   Dassh.Gen.C08T10.cert_donor_cw, Dassh.Gen.C08T10.cert_donor_ccw, Dassh.Gen.C08T10.cert_donor_inv⟩

/-- all certificates of the 11-ring tables, as propositions -/
theorem wellformed_11 :
    countCert Dassh.Gen.C08T11.nring Dassh.Gen.C08T11.ncool Dassh.Gen.C08T11.tyf = true
    ∧ (∀ i, i < Dassh.Gen.C08T11.ncool → (Dassh.Gen.C08T11.nb i).Nodup ∧ ∀ j ∈ Dassh.Gen.C08T11.nb i, j < Dassh.Gen.C08T11.ncool ∧ i ∈ Dassh.Gen.C08T11.nb j)
    ∧ (∀ i, i < Dassh.Gen.C08T11.ncool → (Dassh.Gen.C08T11.nb i).length = if Dassh.Gen.C08T11.tyf i = 2 then 2 else 3)
    ∧ (∀ i, i < Dassh.Gen.C08T11.ncool → (Dassh.Gen.C08T11.tyf i + 1, classCode Dassh.Gen.C08T11.tyf (Dassh.Gen.C08T11.nb i)) ∈ Dassh.Gen.C08T11.limited)
    ∧ (∀ p, p < Dassh.Gen.C08T11.npin → (Dassh.Gen.C08T11.pinrow p).Nodup
        ∧ ((Dassh.Gen.C08T11.pinrow p).map fun j => frac12 (Dassh.Gen.C08T11.tyf j)).foldl (· + ·) 0 = 12
        ∧ ∀ j ∈ Dassh.Gen.C08T11.pinrow p, j < Dassh.Gen.C08T11.ncool ∧ p ∈ Dassh.Gen.C08T11.revrow j)
    ∧ (∀ i, i < Dassh.Gen.C08T11.ncool → (Dassh.Gen.C08T11.revrow i).Nodup ∧ ∀ p ∈ Dassh.Gen.C08T11.revrow i, p < Dassh.Gen.C08T11.npin ∧ i ∈ Dassh.Gen.C08T11.pinrow p)
    ∧ permCert Dassh.Gen.C08T11.nint Dassh.Gen.C08T11.ncool Dassh.Gen.C08T11.donorCW = true ∧ permCert Dassh.Gen.C08T11.nint Dassh.Gen.C08T11.ncool Dassh.Gen.C08T11.donorCCW = true
    ∧ inverseCert Dassh.Gen.C08T11.nint Dassh.Gen.C08T11.ncool Dassh.Gen.C08T11.donorCW Dassh.Gen.C08T11.donorCCW = true :=
  ⟨Dassh.Gen.C08T11.cert_count, symCert_sound Dassh.Gen.C08T11.cert_sym, degreeCert_sound Dassh.Gen.C08T11.cert_degree,
   classCert_sound Dassh.Gen.C08T11.cert_classes, (pinCert_sound Dassh.Gen.C08T11.cert_pins).1, (pinCert_sound Dassh.Gen.C08T11.cert_pins).2,
   Dassh.Gen.C08T11.cert_donor_cw, Dassh.Gen.C08T11.cert_donor_ccw, Dassh.Gen.C08T11.cert_donor_inv⟩

/-- all certificates of the 12-ring tables, as propositions -/
theorem wellformed_12 :
    countCert Dassh.Gen.C08T12.nring Dassh.Gen.C08T12.ncool Dassh.Gen.C08T12.tyf = true
    ∧ (∀ i, i < Dassh.Gen.C08T12.ncool → (Dassh.Gen.C08T12.nb i).Nodup ∧ ∀ j ∈ Dassh.Gen.C08T12.nb i, j < Dassh.Gen.C08T12.ncool ∧ i ∈ Dassh.Gen.C08T12.nb j)
    ∧ (∀ i, i < Dassh.Gen.C08T12.ncool → (Dassh.Gen.C08T12.nb i).length = if Dassh.Gen.C08T12.tyf i = 2 then 2 else 3)
    ∧ (∀ i, i < Dassh.Gen.C08T12.ncool → (Dassh.Gen.C08T12.tyf i + 1, classCode Dassh.Gen.C08T12.tyf (Dassh.Gen.C08T12.nb i)) ∈ Dassh.Gen.C08T12.limited)
    ∧ (∀ p, p < Dassh.Gen.C08T12.npin → (Dassh.Gen.C08T12.pinrow p).Nodup
        ∧ ((Dassh.Gen.C08T12.pinrow p).map fun j => frac12 (Dassh.Gen.C08T12.tyf j)).foldl (· + ·) 0 = 12
        ∧ ∀ j ∈ Dassh.Gen.C08T12.pinrow p, j < Dassh.Gen.C08T12.ncool ∧ p ∈ Dassh.Gen.C08T12.revrow j)
    ∧ (∀ i, i < Dassh.Gen.C08T12.ncool → (Dassh.Gen.C08T12.revrow i).Nodup ∧ ∀ p ∈ Dassh.Gen.C08T12.revrow i, p < Dassh.Gen.C08T12.npin ∧ i ∈ Dassh.Gen.C08T12.pinrow p)
    ∧ permCert Dassh.Gen.C08T12.nint Dassh.Gen.C08T12.ncool Dassh.Gen.C08T12.donorCW = true ∧ permCert Dassh.Gen.C08T12.nint Dassh.Gen.C08T12.ncool Dassh.Gen.C08T12.donorCCW = true
    ∧ inverseCert Dassh.Gen.C08T12.nint Dassh.Gen.C08T12.ncool Dassh.Gen.C08T12.donorCW Dassh.Gen.C08T12.donorCCW = true :=
  ⟨Dassh.Gen.C08T12.cert_count, symCert_sound Dassh.Gen.C08T12.cert_sym, degreeCert_sound Dassh.Gen.C08T12.cert_degree,
   classCert_sound Dassh.Gen.C08T12.cert_classes, (pinCert_sound Dassh.Gen.C08T12.cert_pins).1, (pinCert_sound Dassh.Gen.C08T12.cert_pins).2,
   Dassh.Gen.C08T12.cert_donor_cw, Dassh.Gen.C08T12.cert_donor_ccw, Dassh.Gen.C08T12.cert_donor_inv⟩

/-- all certificates of the 13-ring tables, as propositions -/
theorem wellformed_13 :
    countCert Dassh.Gen.C08T13.nring Dassh.Gen.C08T13.ncool Dassh.Gen.C08T13.tyf = true
    ∧ (∀ i, i < Dassh.Gen.C08T13.ncool → (Dassh.Gen.C08T13.nb i).Nodup ∧ ∀ j ∈ Dassh.Gen.C08T13.nb i, j < Dassh.Gen.C08T13.ncool ∧ i ∈ Dassh.Gen.C08T13.nb j)
    ∧ (∀ i, i < Dassh.Gen.C08T13.ncool → (Dassh.Gen.C08T13.nb i).length = if Dassh.Gen.C08T13.tyf i = 2 then 2 else 3)
    ∧ (∀ i, i < Dassh.Gen.C08T13.ncool → (Dassh.Gen.C08T13.tyf i + 1, classCode Dassh.Gen.C08T13.tyf (Dassh.Gen.C08T13.nb i)) ∈ Dassh.Gen.C08T13.limited)
    ∧ (∀ p, p < Dassh.Gen.C08T13.npin → (Dassh.Gen.C08T13.pinrow p).Nodup
        ∧ ((Dassh.Gen.C08T13.pinrow p).map fun j => frac12 (Dassh.Gen.C08T13.tyf j)).foldl (· + ·) 0 = 12
        ∧ ∀ j ∈ Dassh.Gen.C08T13.pinrow p, j < Dassh.Gen.C08T13.ncool ∧ p ∈ Dassh.Gen.C08T13.revrow j)
    ∧ (∀ i, i < Dassh.Gen.C08T13.ncool → (Dassh.Gen.C08T13.revrow i).Nodup ∧ ∀ p ∈ Dassh.Gen.C08T13.revrow i, p < Dassh.Gen.C08T13.npin ∧ i ∈ Dassh.Gen.C08T13.pinrow p)
    ∧ permCert Dassh.Gen.C08T13.nint Dassh.Gen.C08T13.ncool Dassh.Gen.C08T13.donorCW = true ∧ permCert Dassh.Gen.C08T13.nint Dassh.Gen.C08T13.ncool Dassh.Gen.C08T13.donorCCW = true
    ∧ inverseCert Dassh.Gen.C08T13.nint Dassh.Gen.C08T13.ncool Dassh.Gen.C08T13.donorCW Dassh.Gen.C08T13.donorCCW = true :=
  ⟨Dassh.Gen.C08T13.cert_count, symCert_sound Dassh.Gen.C08T13.cert_sym, degreeCert_sound Dassh.Gen.C08T13.cert_degree,
   classCert_sound Dassh.Gen.C08T13.cert_classes, (pinCert_sound Dassh.Gen.C08T13.cert_pins).1, (pinCert_sound Dassh.Gen.C08T13.cert_pins).2,
   Dassh.Gen.C08T13.cert_donor_cw, Dassh.Gen.C08T13.cert_donor_ccw, Dassh.Gen.C08T13.cert_donor_inv⟩

/-- all certificates of the 14-ring tables, as propositions -/
theorem wellformed_14 :
    countCert Dassh.Gen.C08T14.nring Dassh.Gen.C08T14.ncool Dassh.Gen.C08T14.tyf = true
    ∧ (∀ i, i < Dassh.Gen.C08T14.ncool → (Dassh.Gen.C08T14.nb i).Nodup ∧ ∀ j ∈ Dassh.Gen.C08T14.nb i, j < Dassh.Gen.C08T14.ncool ∧ i ∈ Dassh.Gen.C08T14.nb j)
    ∧ (∀ i, i < Dassh.Gen.C08T14.ncool → (Dassh.Gen.C08T14.nb i).length = if Dassh.Gen.C08T14.tyf i = 2 then 2 else 3)
    ∧ (∀ i, i < Dassh.Gen.C08T14.ncool → (Dassh.Gen.C08T14.tyf i + 1, classCode Dassh.Gen.C08T14.tyf (Dassh.Gen.C08T14.nb i)) ∈ Dassh.Gen.C08T14.limited)
    ∧ (∀ p, p < Dassh.Gen.C08T14.npin → (Dassh.Gen.C08T14.pinrow p).Nodup
        ∧ ((Dassh.Gen.C08T14.pinrow p).map fun j => frac12 (Dassh.Gen.C08T14.tyf j)).foldl (· + ·) 0 = 12
        ∧ ∀ j ∈ Dassh.Gen.C08T14.pinrow p, j < Dassh.Gen.C08T14.ncool ∧ p ∈ Dassh.Gen.C08T14.revrow j)
    ∧ (∀ i, i < Dassh.Gen.C08T14.ncool → (Dassh.Gen.C08T14.revrow i).Nodup ∧ ∀ p ∈ Dassh.Gen.C08T14.revrow i, p < Dassh.Gen.C08T14.npin ∧ i ∈ Dassh.Gen.C08T14.pinrow p)
    ∧ permCert Dassh.Gen.C08T14.nint Dassh.Gen.C08T14.ncool Dassh.Gen.C08T14.donorCW = true ∧ permCert Dassh.Gen.C08T14.nint Dassh.Gen.C08T14.ncool Dassh.Gen.C08T14.donorCCW = true
    ∧ inverseCert Dassh.Gen.C08T14.nint Dassh.Gen.C08T14.ncool Dassh.Gen.C08T14.donorCW Dassh.Gen.C08T14.donorCCW = true :=
  ⟨Dassh.Gen.C08T14.cert_count, symCert_sound Dassh.Gen.C08T14.cert_sym, degreeCert_sound Dassh.Gen.C08T14.cert_degree,
   classCert_sound Dassh.Gen.C08T14.cert_classes, (pinCert_sound Dassh.Gen.C08T14.cert_pins).1, (pinCert_sound Dassh.Gen.C08T14.cert_pins).2,
   Dassh.Gen.C08T14.cert_donor_cw, Dassh.Gen.C08T14.cert_donor_ccw, Dassh.Gen.C08T14.cert_donor_inv⟩

/-- all certificates of the 15-ring tables, as propositions -/
theorem wellformed_15 :
    countCert Dassh.Gen.C08T15.nring Dassh.Gen.C08T15.ncool Dassh.Gen.C08T15.tyf = true
    ∧ (∀ i, i < Dassh.Gen.C08T15.ncool → (Dassh.Gen.C08T15.nb i).Nodup ∧ ∀ j ∈ Dassh.Gen.C08T15.nb i, j < Dassh.Gen.C08T15.ncool ∧ i ∈ Dassh.Gen.C08T15.nb j)
    ∧ (∀ i, i < Dassh.Gen.C08T15.ncool → (Dassh.Gen.C08T15.nb i).length = if Dassh.Gen.C08T15.tyf i = 2 then 2 else 3)
    ∧ (∀ i, i < Dassh.Gen.C08T15.ncool → (Dassh.Gen.C08T15.tyf i + 1, classCode Dassh.Gen.C08T15.tyf (Dassh.Gen.C08T15.nb i)) ∈ Dassh.Gen.C08T15.limited)
    ∧ (∀ p, p < Dassh.Gen.C08T15.npin → (Dassh.Gen.C08T15.pinrow p).Nodup
        ∧ ((Dassh.Gen.C08T15.pinrow p).map fun j => frac12 (Dassh.Gen.C08T15.tyf j)).foldl (· + ·) 0 = 12
        ∧ ∀ j ∈ Dassh.Gen.C08T15.pinrow p, j < Dassh.Gen.C08T15.ncool ∧ p ∈ Dassh.Gen.C08T15.revrow j)
    ∧ (∀ i, i < Dassh.Gen.C08T15.ncool → (Dassh.Gen.C08T15.revrow i).Nodup ∧ ∀ p ∈ Dassh.Gen.C08T15.revrow i, p < Dassh.Gen.C08T15.npin ∧ i ∈ Dassh.Gen.C08T15.pinrow p)
    ∧ permCert Dassh.Gen.C08T15.nint Dassh.Gen.C08T15.ncool Dassh.Gen.C08T15.donorCW = true ∧ permCert Dassh.Gen.C08T15.nint Dassh.Gen.C08T15.ncool Dassh.Gen.C08T15.donorCCW = true
    ∧ inverseCert Dassh.Gen.C08T15.nint Dassh.Gen.C08T15.ncool Dassh.Gen.C08T15.donorCW Dassh.Gen.C08T15.donorCCW = true :=
  ⟨Dassh.Gen.C08T15.cert_count, symCert_sound Dassh.Gen.C08T15.cert_sym, degreeCert_sound Dassh.Gen.C08T15.cert_degree,
   classCert_sound Dassh.Gen.C08T15.cert_classes, (pinCert_sound Dassh.Gen.C08T15.cert_pins).1, (pinCert_sound Dassh.Gen.C08T15.cert_pins).2,
   Dassh.Gen.C08T15.cert_donor_cw, Dassh.Gen.C08T15.cert_donor_ccw, Dassh.Gen.C08T15.cert_donor_inv⟩

/-- all certificates of the 16-ring tables, as propositions -/
theorem wellformed_16 :
    countCert Dassh.Gen.C08T16.nring Dassh.Gen.C08T16.ncool Dassh.Gen.C08T16.tyf = true
    ∧ (∀ i, i < Dassh.Gen.C08T16.ncool → (Dassh.Gen.C08T16.nb i).Nodup ∧ ∀ j ∈ Dassh.Gen.C08T16.nb i, j < Dassh.Gen.C08T16.ncool ∧ i ∈ Dassh.Gen.C08T16.nb j)
    ∧ (∀ i, i < Dassh.Gen.C08T16.ncool → (Dassh.Gen.C08T16.nb i).length = if Dassh.Gen.C08T16.tyf i = 2 then 2 else 3)
    ∧ (∀ i, i < Dassh.Gen.C08T16.ncool → (Dassh.Gen.C08T16.tyf i + 1, classCode Dassh.Gen.C08T16.tyf (Dassh.Gen.C08T16.nb i)) ∈ Dassh.Gen.C08T16.limited)
    ∧ (∀ p, p < Dassh.Gen.C08T16.npin → (Dassh.Gen.C08T16.pinrow p).Nodup
        ∧ ((Dassh.Gen.C08T16.pinrow p).map fun j => frac12 (Dassh.Gen.C08T16.tyf j)).foldl (· + ·) 0 = 12
        ∧ ∀ j ∈ Dassh.Gen.C08T16.pinrow p, j < Dassh.Gen.C08T16.ncool ∧ p ∈ Dassh.Gen.C08T16.revrow j)
    ∧ (∀ i, i < Dassh.Gen.C08T16.ncool → (Dassh.Gen.C08T16.revrow i).Nodup ∧ ∀ p ∈ Dassh.Gen.C08T16.revrow i, p < Dassh.Gen.C08T16.npin ∧ i ∈ Dassh.Gen.C08T16.pinrow p)
    ∧ permCert Dassh.Gen.C08T16.nint Dassh.Gen.C08T16.ncool Dassh.Gen.C08T16.donorCW = true ∧ permCert Dassh.Gen.C08T16.nint Dassh.Gen.C08T16.ncool Dassh.Gen.C08T16.donorCCW = true
    ∧ inverseCert Dassh.Gen.C08T16.nint Dassh.Gen.C08T16.ncool Dassh.Gen.C08T16.donorCW Dassh.Gen.C08T16.donorCCW = true :=
  ⟨Dassh.Gen.C08T16.cert_count, symCert_sound Dassh.Gen.C08T16.cert_sym, degreeCert_sound Dassh.Gen.C08T16.cert_degree,
   classCert_sound Dassh.Gen.C08T16.cert_classes, (pinCert_sound Dassh.Gen.C08T16.cert_pins).1, (pinCert_sound Dassh.Gen.C08T16.cert_pins).2,
   Dassh.Gen.C08T16.cert_donor_cw, Dassh.Gen.C08T16.cert_donor_ccw, Dassh.Gen.C08T16.cert_donor_inv⟩

/-- all certificates of the 17-ring tables, as propositions -/
theorem wellformed_17 :
    countCert Dassh.Gen.C08T17.nring Dassh.Gen.C08T17.ncool Dassh.Gen.C08T17.tyf = true
    ∧ (∀ i, i < Dassh.Gen.C08T17.ncool → (Dassh.Gen.C08T17.nb i).Nodup ∧ ∀ j ∈ Dassh.Gen.C08T17.nb i, j < Dassh.Gen.C08T17.ncool ∧ i ∈ Dassh.Gen.C08T17.nb j)
    ∧ (∀ i, i < Dassh.Gen.C08T17.ncool → (Dassh.Gen.C08T17.nb i).length = if Dassh.Gen.C08T17.tyf i = 2 then 2 else 3)
    ∧ (∀ i, i < Dassh.Gen.C08T17.ncool → (Dassh.Gen.C08T17.tyf i + 1, classCode Dassh.Gen.C08T17.tyf (Dassh.Gen.C08T17.nb i)) ∈ Dassh.Gen.C08T17.limited)
    ∧ (∀ p, p < Dassh.Gen.C08T17.npin → (Dassh.Gen.C08T17.pinrow p).Nodup
        ∧ ((Dassh.Gen.C08T17.pinrow p).map fun j => frac12 (Dassh.Gen.C08T17.tyf j)).foldl (· + ·) 0 = 12
        ∧ ∀ j ∈ Dassh.Gen.C08T17.pinrow p, j < Dassh.Gen.C08T17.ncool ∧ p ∈ Dassh.Gen.C08T17.revrow j)
    ∧ (∀ i, i < Dassh.Gen.C08T17.ncool → (Dassh.Gen.C08T17.revrow i).Nodup ∧ ∀ p ∈ Dassh.Gen.C08T17.revrow i, p < Dassh.Gen.C08T17.npin ∧ i ∈ Dassh.Gen.C08T17.pinrow p)
    ∧ permCert Dassh.Gen.C08T17.nint Dassh.Gen.C08T17.ncool Dassh.Gen.C08T17.donorCW = true ∧ permCert Dassh.Gen.C08T17.nint Dassh.Gen.C08T17.ncool Dassh.Gen.C08T17.donorCCW = true
    ∧ inverseCert Dassh.Gen.C08T17.nint Dassh.Gen.C08T17.ncool Dassh.Gen.C08T17.donorCW Dassh.Gen.C08T17.donorCCW = true :=
  ⟨Dassh.Gen.C08T17.cert_count, symCert_sound Dassh.Gen.C08T17.cert_sym, degreeCert_sound Dassh.Gen.C08T17.cert_degree,
   classCert_sound Dassh.Gen.C08T17.cert_classes, (pinCert_sound Dassh.Gen.C08T17.cert_pins).1, (pinCert_sound Dassh.Gen.C08T17.cert_pins).2,
   Dassh.Gen.C08T17.cert_donor_cw, Dassh.Gen.C08T17.cert_donor_ccw, Dassh.Gen.C08T17.cert_donor_inv⟩

/-- all certificates of the 18-ring tables, as propositions -/
theorem wellformed_18 :
    countCert Dassh.Gen.C08T18.nring Dassh.Gen.C08T18.ncool Dassh.Gen.C08T18.tyf = true
    ∧ (∀ i, i < Dassh.Gen.C08T18.ncool → (Dassh.Gen.C08T18.nb i).Nodup ∧ ∀ j ∈ Dassh.Gen.C08T18.nb i, j < Dassh.Gen.C08T18.ncool ∧ i ∈ Dassh.Gen.C08T18.nb j)
    ∧ (∀ i, i < Dassh.Gen.C08T18.ncool → (Dassh.Gen.C08T18.nb i).length = if Dassh.Gen.C08T18.tyf i = 2 then 2 else 3)
    ∧ (∀ i, i < Dassh.Gen.C08T18.ncool → (Dassh.Gen.C08T18.tyf i + 1, classCode Dassh.Gen.C08T18.tyf (Dassh.Gen.C08T18.nb i)) ∈ Dassh.Gen.C08T18.limited)
    ∧ (∀ p, p < Dassh.Gen.C08T18.npin → (Dassh.Gen.C08T18.pinrow p).Nodup
        ∧ ((Dassh.Gen.C08T18.pinrow p).map fun j => frac12 (Dassh.Gen.C08T18.tyf j)).foldl (· + ·) 0 = 12
        ∧ ∀ j ∈ Dassh.Gen.C08T18.pinrow p, j < Dassh.Gen.C08T18.ncool ∧ p ∈ Dassh.Gen.C08T18.revrow j)
    ∧ (∀ i, i < Dassh.Gen.C08T18.ncool → (Dassh.Gen.C08T18.revrow i).Nodup ∧ ∀ p ∈ Dassh.Gen.C08T18.revrow i, p < Dassh.Gen.C08T18.npin ∧ i ∈ Dassh.Gen.C08T18.pinrow p)
    ∧ permCert Dassh.Gen.C08T18.nint Dassh.Gen.C08T18.ncool Dassh.Gen.C08T18.donorCW = true ∧ permCert Dassh.Gen.C08T18.nint Dassh.Gen.C08T18.ncool Dassh.Gen.C08T18.donorCCW = true
    ∧ inverseCert Dassh.Gen.C08T18.nint Dassh.Gen.C08T18.ncool Dassh.Gen.C08T18.donorCW Dassh.Gen.C08T18.donorCCW = true :=
  ⟨Dassh.Gen.C08T18.cert_count, symCert_sound Dassh.Gen.C08T18.cert_sym, degreeCert_sound Dassh.Gen.C08T18.cert_degree,
   classCert_sound Dassh.Gen.C08T18.cert_classes, (pinCert_sound Dassh.Gen.C08T18.cert_pins).1, (pinCert_sound Dassh.Gen.C08T18.cert_pins).2,
   Dassh.Gen.C08T18.cert_donor_cw, Dassh.Gen.C08T18.cert_donor_ccw, Dassh.Gen.C08T18.cert_donor_inv⟩

/-- all certificates of the 19-ring tables, as propositions -/
theorem wellformed_19 :
    countCert Dassh.Gen.C08T19.nring Dassh.Gen.C08T19.ncool Dassh.Gen.C08T19.tyf = true
    ∧ (∀ i, i < Dassh.Gen.C08T19.ncool → (Dassh.Gen.C08T19.nb i).Nodup ∧ ∀ j ∈ Dassh.Gen.C08T19.nb i, j < Dassh.Gen.C08T19.ncool ∧ i ∈ Dassh.Gen.C08T19.nb j)
    ∧ (∀ i, i < Dassh.Gen.C08T19.ncool → (Dassh.Gen.C08T19.nb i).length = if Dassh.Gen.C08T19.tyf i = 2 then 2 else 3)
    ∧ (∀ i, i < Dassh.Gen.C08T19.ncool → (Dassh.Gen.C08T19.tyf i + 1, classCode Dassh.Gen.C08T19.tyf (Dassh.Gen.C08T19.nb i)) ∈ Dassh.Gen.C08T19.limited)
    ∧ (∀ p, p < Dassh.Gen.C08T19.npin → (Dassh.Gen.C08T19.pinrow p).Nodup
        ∧ ((Dassh.Gen.C08T19.pinrow p).map fun j => frac12 (Dassh.Gen.C08T19.tyf j)).foldl (· + ·) 0 = 12
        ∧ ∀ j ∈ Dassh.Gen.C08T19.pinrow p, j < Dassh.Gen.C08T19.ncool ∧ p ∈ Dassh.Gen.C08T19.revrow j)
    ∧ (∀ i, i < Dassh.Gen.C08T19.ncool → (Dassh.Gen.C08T19.revrow i).Nodup ∧ ∀ p ∈ Dassh.Gen.C08T19.revrow i, p < Dassh.Gen.C08T19.npin ∧ i ∈ Dassh.Gen.C08T19.pinrow p)
    ∧ permCert Dassh.Gen.C08T19.nint Dassh.Gen.C08T19.ncool Dassh.Gen.C08T19.donorCW = true ∧ permCert Dassh.Gen.C08T19.nint Dassh.Gen.C08T19.ncool Dassh.Gen.C08T19.donorCCW = true
    ∧ inverseCert Dassh.Gen.C08T19.nint Dassh.Gen.C08T19.ncool Dassh.Gen.C08T19.donorCW Dassh.Gen.C08T19.donorCCW = true :=
  ⟨Dassh.Gen.C08T19.cert_count, symCert_sound Dassh.Gen.C08T19.cert_sym, degreeCert_sound Dassh.Gen.C08T19.cert_degree,
   classCert_sound Dassh.Gen.C08T19.cert_classes, (pinCert_sound Dassh.Gen.C08T19.cert_pins).1, (pinCert_sound Dassh.Gen.C08T19.cert_pins).2,
   Dassh.Gen.C08T19.cert_donor_cw, Dassh.Gen.C08T19.cert_donor_ccw, Dassh.Gen.C08T19.cert_donor_inv⟩

/-- all certificates of the 20-ring tables, as propositions -/
theorem wellformed_20 :
    countCert Dassh.Gen.C08T20.nring Dassh.Gen.C08T20.ncool Dassh.Gen.C08T20.tyf = true
    ∧ (∀ i, i < Dassh.Gen.C08T20.ncool → (Dassh.Gen.C08T20.nb i).Nodup ∧ ∀ j ∈ Dassh.Gen.C08T20.nb i, j < Dassh.Gen.C08T20.ncool ∧ i ∈ Dassh.Gen.C08T20.nb j)
    ∧ (∀ i, i < Dassh.Gen.C08T20.ncool → (Dassh.Gen.C08T20.nb i).length = if Dassh.Gen.C08T20.tyf i = 2 then 2 else 3)
    ∧ (∀ i, i < Dassh.Gen.C08T20.ncool → (Dassh.Gen.C08T20.tyf i + 1, classCode Dassh.Gen.C08T20.tyf (Dassh.Gen.C08T20.nb i)) ∈ Dassh.Gen.C08T20.limited)
    ∧ (∀ p, p < Dassh.Gen.C08T20.npin → (Dassh.Gen.C08T20.pinrow p).Nodup
        ∧ ((Dassh.Gen.C08T20.pinrow p).map fun j => frac12 (Dassh.Gen.C08T20.tyf j)).foldl (· + ·) 0 = 12
        ∧ ∀ j ∈ Dassh.Gen.C08T20.pinrow p, j < Dassh.Gen.C08T20.ncool ∧ p ∈ Dassh.Gen.C08T20.revrow j)
    ∧ (∀ i, i < Dassh.Gen.C08T20.ncool → (Dassh.Gen.C08T20.revrow i).Nodup ∧ ∀ p ∈ Dassh.Gen.C08T20.revrow i, p < Dassh.Gen.C08T20.npin ∧ i ∈ Dassh.Gen.C08T20.pinrow p)
    ∧ permCert Dassh.Gen.C08T20.nint Dassh.Gen.C08T20.ncool Dassh.Gen.C08T20.donorCW = true ∧ permCert Dassh.Gen.C08T20.nint Dassh.Gen.C08T20.ncool Dassh.Gen.C08T20.donorCCW = true
    ∧ inverseCert Dassh.Gen.C08T20.nint Dassh.Gen.C08T20.ncool Dassh.Gen.C08T20.donorCW Dassh.Gen.C08T20.donorCCW = true :=
  ⟨Dassh.Gen.C08T20.cert_count, symCert_sound Dassh.Gen.C08T20.cert_sym, degreeCert_sound Dassh.Gen.C08T20.cert_degree,
   classCert_sound Dassh.Gen.C08T20.cert_classes, (pinCert_sound Dassh.Gen.C08T20.cert_pins).1, (pinCert_sound Dassh.Gen.C08T20.cert_pins).2,
   Dassh.Gen.C08T20.cert_donor_cw, Dassh.Gen.C08T20.cert_donor_ccw, Dassh.Gen.C08T20.cert_donor_inv⟩

end Dassh.Gen.C08All
