-- GENERATED: collects the symmetry certificates.
import Dassh.Gen.C07T2
import Dassh.Gen.C07T3
import Dassh.Gen.C07T4
import Dassh.Gen.C07T5
import Dassh.Gen.C07T6

namespace Dassh.Gen.C07All

def ringCounts : List Nat := [2, 3, 4, 5, 6]

def allCerts : List Bool := Dassh.Gen.C07T2.certs ++ Dassh.Gen.C07T3.certs ++ Dassh.Gen.C07T4.certs ++ Dassh.Gen.C07T5.certs ++ Dassh.Gen.C07T6.certs

theorem all_ok : allCerts.all (· = true) = true := by
  simp only [allCerts, List.all_append, Bool.and_self, Dassh.Gen.C07T2.certs_ok, Dassh.Gen.C07T3.certs_ok, Dassh.Gen.C07T4.certs_ok, Dassh.Gen.C07T5.certs_ok, Dassh.Gen.C07T6.certs_ok]
end Dassh.Gen.C07All
