-- GENERATED: collects the symmetry certificates.
import Dassh.Gen.C07T2
import Dassh.Gen.C07T3
import Dassh.Gen.C07T4
import Dassh.Gen.C07T5
import Dassh.Gen.C07T6

namespace Dassh.Gen.C07All

def ringCounts : List Nat := [2, 3, 4, 5, 6]

def allCerts : List Bool := Dassh.Gen.C07T2.certs ++ Dassh.Gen.C07T3.certs ++ Dassh.Gen.C07T4.certs ++ Dassh.Gen.C07T5.certs ++ Dassh.Gen.C07T6.certs

theorem all_ok : allCerts.all (· = true) = true := by
  simp only [allCerts, List.all_append, Bool.and_self, Dassh.Gen.C07T2.certs_ok, Dassh.Gen.C07T3.certs_ok, Dassh.Gen.C07T4.certs_ok, Dassh.Gen.C07T5.certs_ok, Dassh.Gen.C07T6.certs_ok]

def AllAutos : Prop := Dassh.Gen.C07T2.Autos ∧ Dassh.Gen.C07T3.Autos ∧ Dassh.Gen.C07T4.Autos ∧ Dassh.Gen.C07T5.Autos ∧ Dassh.Gen.C07T6.Autos
theorem all_autos : AllAutos := ⟨Dassh.Gen.C07T2.autos, Dassh.Gen.C07T3.autos, Dassh.Gen.C07T4.autos, Dassh.Gen.C07T5.autos, Dassh.Gen.C07T6.autos⟩
end Dassh.Gen.C07All
