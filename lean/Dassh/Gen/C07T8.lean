-- GENERATED: symmetry permutations derived from centroid coordinates (n_ring = 8).
import Dassh.Gen.C08T8
import Dassh.Lemmas.Equivariance

namespace Dassh.Gen.C07T8
open Dassh.Table Dassh.Equivariance Dassh.Gen.C08T8

def pi_rot1 : Nat := 0x14d14c14b14a14914814714614514414314214114013f13e13d13c13b13a13913813713613513413313213113012f12e12d12c12b12a12912812712615515415315215115014f14e11811711611511411311211111010f10e10d10c10b10a1091081071061051041031021011000ff0fe0fd0fc0fb0fa0f90f80f70f60f50f40f30f20f10f00ef0ee0ed0ec0eb0ea0e90e80e70e60e50e40e30e20e10e00df0de0dd0dc0db0da0d90d812512412312212112011f11e11d11c11b11a1190cc0cb0ca0c90c80c70c60c50c40c30c20c10c00bf0be0bd0bc0bb0ba0b90b80b70b60b50b40b30b20b10b00af0ae0ad0ac0ab0aa0a90a80a70a60a50a40a30a20a10a009f09e09d09c09b09a0990980970960d70d60d50d40d30d20d10d00cf0ce0cd08c08b08a08908808708608508408308208108007f07e07d07c07b07a07907807707607507407307207107006f06e06d06c06b06a06906806706606506406306206106009509409309209109008f08e08d05805705605505405305205105004f04e04d04c04b04a04904804704604504404304204104003f03e03d03c03b03a03903803703605f05e05d05c05b05a05903002f02e02d02c02b02a02902802702602502402302202102001f01e01d01c01b01a01901803503403303203101401301201101000f00e00d00c00b00a009008007006017016015004003002001000005
def sg_rot1 : Nat := 0xa10a009f09e09d09c09b09a09909809709609509409309209109008f08e08d08c08b08a08908808708608508408308208108007f0a80a70a60a50a40a30a207807707607507407307207107006f06e06d06c06b06a06906806706606506406306206106005f05e05d05c05b07e07d07c07b07a07905505405305205105004f04e04d04c04b04a04904804704604504404304204104003f03e03d05a05905805705603803703603503403303203103002f02e02d02c02b02a02902802702602503c03b03a03902102001f01e01d01c01b01a01901801701601501401302402302201000f00e00d00c00b00a009008007012011005004003002001006000
def cert_rot1_cw : Bool := autoCert ncool nint tyf nb donorCW donorCW (permOf pi_rot1 12)
set_option maxRecDepth 1000000 in
theorem cert_rot1_cw_ok : cert_rot1_cw = true := by decide +kernel
def cert_rot1_ccw : Bool := autoCert ncool nint tyf nb donorCCW donorCCW (permOf pi_rot1 12)
set_option maxRecDepth 1000000 in
theorem cert_rot1_ccw_ok : cert_rot1_ccw = true := by decide +kernel
def cert_rot1_pin : Bool := pinAutoCert npin pinrow (permOf pi_rot1 12) (permOf sg_rot1 12)
set_option maxRecDepth 1000000 in
theorem cert_rot1_pin_ok : cert_rot1_pin = true := by decide +kernel
def pi_mir : Nat := 0x15512612712812912a12b12c12d12e12f13013113213313413513613713813913a13b13c13d13e13f14014114214314414514614714814914a14b14c14d14e14f1501511521531540d80d90da0db0dc0dd0de0df0e00e10e20e30e40e50e60e70e80e90ea0eb0ec0ed0ee0ef0f00f10f20f30f40f50f60f70f80f90fa0fb0fc0fd0fe0ff10010110210310410510610710810910a10b10c10d10e10f11011111211311411511611711811911a11b11c11d11e11f12012112212312412509609709809909a09b09c09d09e09f0a00a10a20a30a40a50a60a70a80a90aa0ab0ac0ad0ae0af0b00b10b20b30b40b50b60b70b80b90ba0bb0bc0bd0be0bf0c00c10c20c30c40c50c60c70c80c90ca0cb0cc0cd0ce0cf0d00d10d20d30d40d50d60d706006106206306406506606706806906a06b06c06d06e06f07007107207307407507607707807907a07b07c07d07e07f08008108208308408508608708808908a08b08c08d08e08f09009109209309409503603703803903a03b03c03d03e03f04004104204304404504604704804904a04b04c04d04e04f05005105205305405505605705805905a05b05c05d05e05f01801901a01b01c01d01e01f02002102202302402502602702802902a02b02c02d02e02f03003103203303403500600700800900a00b00c00d00e00f010011012013014015016017000001002003004005
def sg_mir : Nat := 0x8008108208308408508608708808908a08b08c08d08e08f09009109209309409509609709809909a09b09c09d09e09f0a00a10a20a30a40a50a60a70a807f05c05d05e05f06006106206306406506606706806906a06b06c06d06e06f07007107207307407507607707807907a07b07c07d07e05b03e03f04004104204304404504604704804904a04b04c04d04e04f05005105205305405505605705805905a03d02602702802902a02b02c02d02e02f03003103203303403503603703803903a03b03c02501401501601701801901a01b01c01d01e01f02002102202302401300800900a00b00c00d00e00f010011012007002003004005006001000
def cert_mir_cw : Bool := autoCert ncool nint tyf nb donorCW donorCCW (permOf pi_mir 12)
set_option maxRecDepth 1000000 in
theorem cert_mir_cw_ok : cert_mir_cw = true := by decide +kernel
def cert_mir_ccw : Bool := autoCert ncool nint tyf nb donorCCW donorCW (permOf pi_mir 12)
set_option maxRecDepth 1000000 in
theorem cert_mir_ccw_ok : cert_mir_ccw = true := by decide +kernel
def cert_mir_pin : Bool := pinAutoCert npin pinrow (permOf pi_mir 12) (permOf sg_mir 12)
set_option maxRecDepth 1000000 in
theorem cert_mir_pin_ok : cert_mir_pin = true := by decide +kernel
def certs : List Bool := [cert_rot1_cw, cert_rot1_ccw, cert_rot1_pin, cert_mir_cw, cert_mir_ccw, cert_mir_pin]
theorem certs_ok : certs.all (· = true) = true := by
  simp only [certs, List.all_cons, List.all_nil, decide_true, Bool.and_self, cert_rot1_cw_ok, cert_rot1_ccw_ok, cert_rot1_pin_ok, cert_mir_cw_ok, cert_mir_ccw_ok, cert_mir_pin_ok]
theorem closed_cw : Closed ncool nb (donorN nint donorCW) := closed_of_certs cert_sym cert_rot1_cw_ok
theorem closed_ccw : Closed ncool nb (donorN nint donorCCW) := closed_of_certs cert_sym cert_rot1_ccw_ok
theorem rot_auto_cw : IsAuto ncool tyf nb (donorN nint donorCW) (donorN nint donorCW) (permOf pi_rot1 12) :=
  isAuto_of_certs cert_sym cert_rot1_cw_ok
theorem rot_auto_ccw : IsAuto ncool tyf nb (donorN nint donorCCW) (donorN nint donorCCW) (permOf pi_rot1 12) :=
  isAuto_of_certs cert_sym cert_rot1_ccw_ok
theorem mir_auto_cw : IsAuto ncool tyf nb (donorN nint donorCW) (donorN nint donorCCW) (permOf pi_mir 12) :=
  isAuto_of_certs cert_sym cert_mir_cw_ok
theorem mir_auto_ccw : IsAuto ncool tyf nb (donorN nint donorCCW) (donorN nint donorCW) (permOf pi_mir 12) :=
  isAuto_of_certs cert_sym cert_mir_ccw_ok
/-- everything the equivariance theorems need, for this ring count -/
def Autos : Prop := Closed ncool nb (donorN nint donorCW) ∧ Closed ncool nb (donorN nint donorCCW)
  ∧ IsAuto ncool tyf nb (donorN nint donorCW) (donorN nint donorCW) (permOf pi_rot1 12)
  ∧ IsAuto ncool tyf nb (donorN nint donorCCW) (donorN nint donorCCW) (permOf pi_rot1 12)
  ∧ IsAuto ncool tyf nb (donorN nint donorCW) (donorN nint donorCCW) (permOf pi_mir 12)
  ∧ IsAuto ncool tyf nb (donorN nint donorCCW) (donorN nint donorCW) (permOf pi_mir 12)
theorem autos : Autos := ⟨closed_cw, closed_ccw, rot_auto_cw, rot_auto_ccw, mir_auto_cw, mir_auto_ccw⟩
end Dassh.Gen.C07T8
