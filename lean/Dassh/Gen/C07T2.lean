-- GENERATED: symmetry permutations derived from centroid coordinates (n_ring = 2).
import Dassh.Gen.C08T2

namespace Dassh.Gen.C07T2
open Dassh.Table Dassh.Gen.C08T2

def pi_rot1 : Nat := 0xf00e00d00c00b00a009008007006011010004003002001000005
def sg_rot1 : Nat := 0x5004003002001006000
def cert_rot1_cw : Bool := autoCert ncool nint tyf nb donorCW donorCW (permOf pi_rot1 12)
set_option maxRecDepth 1000000 in
theorem cert_rot1_cw_ok : cert_rot1_cw = true := by decide +kernel
def cert_rot1_ccw : Bool := autoCert ncool nint tyf nb donorCCW donorCCW (permOf pi_rot1 12)
set_option maxRecDepth 1000000 in
theorem cert_rot1_ccw_ok : cert_rot1_ccw = true := by decide +kernel
def cert_rot1_pin : Bool := pinAutoCert npin pinrow (permOf pi_rot1 12) (permOf sg_rot1 12)
set_option maxRecDepth 1000000 in
theorem cert_rot1_pin_ok : cert_rot1_pin = true := by decide +kernel
def pi_mir : Nat := 0x1100600700800900a00b00c00d00e00f010000001002003004005
def sg_mir : Nat := 0x2003004005006001000
def cert_mir_cw : Bool := autoCert ncool nint tyf nb donorCW donorCCW (permOf pi_mir 12)
set_option maxRecDepth 1000000 in
theorem cert_mir_cw_ok : cert_mir_cw = true := by decide +kernel
def cert_mir_ccw : Bool := autoCert ncool nint tyf nb donorCCW donorCW (permOf pi_mir 12)
set_option maxRecDepth 1000000 in
theorem cert_mir_ccw_ok : cert_mir_ccw = true := by decide +kernel
def cert_mir_pin : Bool := pinAutoCert npin pinrow (permOf pi_mir 12) (permOf sg_mir 12)
set_option maxRecDepth 1000000 in
theorem cert_mir_pin_ok : cert_mir_pin = true := by decide +kernel
def certs : List Bool := [cert_rot1_cw, cert_rot1_ccw, cert_rot1_pin, cert_mir_cw, cert_mir_ccw, cert_mir_pin]
theorem certs_ok : certs.all (· = true) = true := by
  simp only [certs, List.all_cons, List.all_nil, decide_true, Bool.and_self, cert_rot1_cw_ok, cert_rot1_ccw_ok, cert_rot1_pin_ok, cert_mir_cw_ok, cert_mir_ccw_ok, cert_mir_pin_ok]
end Dassh.Gen.C07T2
