-- GENERATED: symmetry permutations derived from centroid coordinates (n_ring = 2).
import Dassh.Gen.C08T2

namespace Dassh.Gen.C07T2
open Dassh.Table Dassh.Gen.C08T2

def pi_rot1 : Nat := 0xf00e00d00c00b00a009008007006011010004003002001000005
def sg_rot1 : Nat := 0x5004003002001006000
def cert_rot1 : Bool := autoCert ncool nint tyf nb donorCW donorCW (permOf pi_rot1 12)
  && autoCert ncool nint tyf nb donorCCW donorCCW (permOf pi_rot1 12)
  && pinAutoCert npin pinrow (permOf pi_rot1 12) (permOf sg_rot1 12)
def pi_rot2 : Nat := 0xd00c00b00a00900800700601101000f00e003002001000005004
def sg_rot2 : Nat := 0x4003002001006005000
def cert_rot2 : Bool := autoCert ncool nint tyf nb donorCW donorCW (permOf pi_rot2 12)
  && autoCert ncool nint tyf nb donorCCW donorCCW (permOf pi_rot2 12)
  && pinAutoCert npin pinrow (permOf pi_rot2 12) (permOf sg_rot2 12)
def pi_rot3 : Nat := 0xb00a00900800700601101000f00e00d00c002001000005004003
def sg_rot3 : Nat := 0x3002001006005004000
def cert_rot3 : Bool := autoCert ncool nint tyf nb donorCW donorCW (permOf pi_rot3 12)
  && autoCert ncool nint tyf nb donorCCW donorCCW (permOf pi_rot3 12)
  && pinAutoCert npin pinrow (permOf pi_rot3 12) (permOf sg_rot3 12)
def pi_rot4 : Nat := 0x900800700601101000f00e00d00c00b00a001000005004003002
def sg_rot4 : Nat := 0x2001006005004003000
def cert_rot4 : Bool := autoCert ncool nint tyf nb donorCW donorCW (permOf pi_rot4 12)
  && autoCert ncool nint tyf nb donorCCW donorCCW (permOf pi_rot4 12)
  && pinAutoCert npin pinrow (permOf pi_rot4 12) (permOf sg_rot4 12)
def pi_rot5 : Nat := 0x700601101000f00e00d00c00b00a009008000005004003002001
def sg_rot5 : Nat := 0x1006005004003002000
def cert_rot5 : Bool := autoCert ncool nint tyf nb donorCW donorCW (permOf pi_rot5 12)
  && autoCert ncool nint tyf nb donorCCW donorCCW (permOf pi_rot5 12)
  && pinAutoCert npin pinrow (permOf pi_rot5 12) (permOf sg_rot5 12)
def pi_mir : Nat := 0x1100600700800900a00b00c00d00e00f010000001002003004005
def sg_mir : Nat := 0x2003004005006001000
def cert_mir : Bool := autoCert ncool nint tyf nb donorCW donorCCW (permOf pi_mir 12)
  && autoCert ncool nint tyf nb donorCCW donorCW (permOf pi_mir 12)
  && pinAutoCert npin pinrow (permOf pi_mir 12) (permOf sg_mir 12)
def certs : List Bool := [cert_rot1, cert_rot2, cert_rot3, cert_rot4, cert_rot5, cert_mir]
set_option maxRecDepth 1000000 in
theorem certs_ok : certs.all (· = true) = true := by decide +kernel
end Dassh.Gen.C07T2
