-- GENERATED: symmetry permutations derived from centroid coordinates (n_ring = 2).
import Dassh.Gen.C08T2
import Dassh.Lemmas.Equivariance

namespace Dassh.Gen.C07T2
open Dassh.Table Dassh.Equivariance Dassh.Gen.C08T2

def pi_rot1 : Nat := 0xf00e00d00c00b00a009008007006011010004003002001000005
def sg_rot1 : Nat := 0x5004003002001006000
def cert_rot1_cw : Bool := autoCert ncool nint tyf nb donorCW donorCW (permOf pi_rot1 12)
set_option maxRecDepth 1000000 in
theorem cert_rot1_cw_ok : cert_rot1_cw = true := by decide +kernel
def cert_rot1_ccw : Bool := autoCert ncool nint tyf nb donorCCW donorCCW (permOf pi_rot1 12)
set_option maxRecDepth 1000000 in
theorem cert_rot1_ccw_ok : cert_rot1_ccw = true := by decide +kernel
def cert_rot1_pin : Bool := pinAutoCert npin pinrow (permOf pi_rot1 12) (permOf sg_rot1 12)
set_option maxRecDepth 1000000 in
theorem cert_rot1_pin_ok : cert_rot1_pin = true := by decide +kernel
def pi_mir : Nat := 0x1100600700800900a00b00c00d00e00f010000001002003004005
def sg_mir : Nat := 0x2003004005006001000
def cert_mir_cw : Bool := autoCert ncool nint tyf nb donorCW donorCCW (permOf pi_mir 12)
set_option maxRecDepth 1000000 in
theorem cert_mir_cw_ok : cert_mir_cw = true := by decide +kernel
def cert_mir_ccw : Bool := autoCert ncool nint tyf nb donorCCW donorCW (permOf pi_mir 12)
set_option maxRecDepth 1000000 in
theorem cert_mir_ccw_ok : cert_mir_ccw = true := by decide +kernel
def cert_mir_pin : Bool := pinAutoCert npin pinrow (permOf pi_mir 12) (permOf sg_mir 12)
set_option maxRecDepth 1000000 in
theorem cert_mir_pin_ok : cert_mir_pin = true := by decide +kernel
def certs : List Bool := [cert_rot1_cw, cert_rot1_ccw, cert_rot1_pin, cert_mir_cw, cert_mir_ccw, cert_mir_pin]
theorem certs_ok : certs.all (· = true) = true := by
  simp only [certs, List.all_cons, List.all_nil, decide_true, Bool.and_self, cert_rot1_cw_ok, cert_rot1_ccw_ok, cert_rot1_pin_ok, cert_mir_cw_ok, cert_mir_ccw_ok, cert_mir_pin_ok]
theorem closed_cw : Closed ncool nb (donorN nint donorCW) := closed_of_certs cert_sym cert_rot1_cw_ok
theorem closed_ccw : Closed ncool nb (donorN nint donorCCW) := closed_of_certs cert_sym cert_rot1_ccw_ok
theorem rot_auto_cw : IsAuto ncool tyf nb (donorN nint donorCW) (donorN nint donorCW) (permOf pi_rot1 12) :=
  isAuto_of_certs cert_sym cert_rot1_cw_ok
theorem rot_auto_ccw : IsAuto ncool tyf nb (donorN nint donorCCW) (donorN nint donorCCW) (permOf pi_rot1 12) :=
  isAuto_of_certs cert_sym cert_rot1_ccw_ok
theorem mir_auto_cw : IsAuto ncool tyf nb (donorN nint donorCW) (donorN nint donorCCW) (permOf pi_mir 12) :=
  isAuto_of_certs cert_sym cert_mir_cw_ok
theorem mir_auto_ccw : IsAuto ncool tyf nb (donorN nint donorCCW) (donorN nint donorCW) (permOf pi_mir 12) :=
  isAuto_of_certs cert_sym cert_mir_ccw_ok
/-- everything the equivariance theorems need, for this ring count -/
def Autos : Prop := Closed ncool nb (donorN nint donorCW) ∧ Closed ncool nb (donorN nint donorCCW)
  ∧ IsAuto ncool tyf nb (donorN nint donorCW) (donorN nint donorCW) (permOf pi_rot1 12)
  ∧ IsAuto ncool tyf nb (donorN nint donorCCW) (donorN nint donorCCW) (permOf pi_rot1 12)
  ∧ IsAuto ncool tyf nb (donorN nint donorCW) (donorN nint donorCCW) (permOf pi_mir 12)
  ∧ IsAuto ncool tyf nb (donorN nint donorCCW) (donorN nint donorCW) (permOf pi_mir 12)
theorem autos : Autos := ⟨closed_cw, closed_ccw, rot_auto_cw, rot_auto_ccw, mir_auto_cw, mir_auto_ccw⟩
end Dassh.Gen.C07T2
