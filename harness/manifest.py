"""Writes /verif/MANIFEST.json from the table below (keeps it schema-valid)."""
import json
import sys
from pathlib import Path

VERIF = Path(__file__).resolve().parents[1]

COMMON_NOTE = ("Trusted: Lean 4.33 kernel + Mathlib v4.33; axioms limited to propext/Classical.choice/Quot.sound "
               "(audited with #print axioms every run; no sorry/native_decide/bv_decide/own axioms). "
               "The tie between the Lean definitions and /repo is re-established on every run: ")

CLAIMED = {
    "C05": dict(
        text=("Lean theorems about an integer model (units of 1e-12 m, the grid DASSH rounds to) of the mesh "
              "construction: for every sorted boundary list containing the core length, every positive step and every "
              "length, the planes are strictly increasing, start at 0, end exactly at the core length, contain every "
              "boundary, never step by more than the requirement, and the loop terminates within L iterations; with a "
              "zero step it never advances (the hang); the step selection honours a user value at or below the limit, "
              "ignores one above it, caps at 1 cm and never exceeds the limit.  The model is tied to the real Reactor "
              "methods by differential correspondence on every run; full Reactor constructions run under a wall-clock "
              "limit (the boundaries that must be planes are taken from the input, not from the code's own list).  A second "
              "model (Model/Regions.lean, Props/C05Regions.lean) covers which axial region a step belongs to: a step ending "
              "inside or ON the upper bound of region i is computed in region i, for any increasing bounds on the grid; tied "
              "to Assembly._identify_active_region by correspondence (planes on / next to every bound)."),
        note=COMMON_NOTE + ("T3 hand model + correspondence (stub Reactor objects: _setup_zpts/_check_dz, "
                            "_setup_axial_region_bnds, _setup_overall_axial_mesh_req) and an implementation oracle on "
                            "full constructions.  Steps that are not multiples of 1e-12 m, and float comparison effects, "
                            "are covered by the oracle only."),
        technique="Lean 4 proof (list induction, omega) over hand model + differential correspondence with the real methods",
        design="5/C05"),
    "C06": dict(
        text=("Lean theorems about an abstract core (per-assembly states + gap; an assembly step reads its own state and the "
              "gap and writes only its own state): frame property, commutation of steps of different assemblies, "
              "independence of the plane from the order / interleaving of the assignment list (any permutation), and - with "
              "an inert gap - equality of an assembly's state in the core with its stand-alone run after any number of "
              "planes, whatever other assemblies are present; a shared mutable cell read before it is rewritten provably "
              "breaks this (counter-example).  PARTIAL: the hypothesis is a fact about the Python object graph and is "
              "established by observation: alias analysis of every mutable object reachable from each assembly of real "
              "reactors plus write detection over two planes, and bitwise metamorphic runs (alone vs in company vs permuted "
              "order, temperature-dependent coolant, unrodded regions, pin models); the set-up decisions (every scalar attribute of "
              "the assembly and its regions: switches such as the low-flow approximation, step requirements, constants) of "
              "EVERY assembly are compared between its stand-alone reactor and the full core."),
        note=COMMON_NOTE + ("hand abstract model; Python aliasing, object identity and rebinding during the sweep are "
                            "observed, not modelled (named runtime behaviour the model cannot exhibit); scratch "
                            "conductivity objects of a shared pin model are whitelisted as update-before-use and their "
                            "harmlessness is confirmed by comparing pin temperatures."),
        technique="Lean 4 proof (frame/commutation/permutation) over abstract model + alias analysis and metamorphic oracle on real reactors",
        design="5/C06"),
    "C07": dict(
        text=("Lean theorem (any field, any tables, any weights): a local explicit cell update - exchange with the listed "
              "neighbours weighted by the two cell types, a donor (swirl) term, a typed source term - commutes with every "
              "permutation that preserves types, maps neighbour lists to neighbour lists and commutes with the donor map, "
              "for one step and by induction for any sweep; automorphisms compose, so the two generators give all twelve "
              "symmetries.  For every dumped ring count the rotation by 60 degrees and the mirror, "
              "derived from the published centroid coordinates (not from the numbering), are certified by the Lean kernel "
              "to be such automorphisms of the tables the running code builds (types, neighbours, clockwise and "
              "counter-clockwise swirl donors - the mirror exchanges them -, pin incidence); a soundness lemma turns the "
              "Boolean certificates into the hypotheses of the theorems (generated instances per ring count).  That the real "
              "update is local (one update per neighbour-type class) is re-established by symbolic execution.  Real runs with rotated / "
              "mirrored asymmetric power maps (single assemblies, both wire directions, 1-2 ducts) and 60-degree rotations "
              "of whole 7-position cores (holes, all gap models) are compared field by field."),
        note=COMMON_NOTE + ("T2 permutation + table certificates; the generic theorem covers the interior coolant update "
                            "(whose local form is established by C04's class analysis); duct, bypass, gap and pin parts and "
                            "19-position cores are covered by the oracle only."),
        technique="Lean 4 proof (list permutation sums, induction) + kernel-decided automorphism certificates + metamorphic oracle",
        design="5/C07"),
    "C08": dict(
        text=("Exhaustive over ring counts 2..20 (as the property states): the subchannel/pin tables the running code "
              "builds are dumped and the Lean kernel decides (decide +kernel, no axioms beyond the standard three) type "
              "counts, symmetric neighbour relation, neighbour count per type, coverage of neighbour-type classes by "
              "the step-limit function, swirl donor maps being mutually inverse permutations, pin<->subchannel "
              "incidence with fractions summing to one, and the duct/bypass ring pattern for 1-3 ducts; soundness "
              "lemmas turn the Boolean certificates into propositions.  Geometry: Lean theorems over the trace of "
              "calculate_geometry with a SYMBOLIC ring count prove, for all n and all dimensions, that flow areas + "
              "pins + wires tile the inner hexagon (SE2 flag on/off) and that duct and bypass cells tile their annuli.  The numeric oracle "
              "re-evaluates symmetry of the neighbour relation over all cells (coolant, wall, bypass), so that a broken certificate comes "
              "with a failing input."),
        note=COMMON_NOTE + ("T2 table dump (encoder round-trip tested; decoder in Lean) and T1 trace with symbolic n.  "
                            "Partial: centroid coordinates (agreement with adjacency, six-fold symmetry, wall and bypass "
                            "cells on the mid-surface of their own annulus for 1-3 ducts) are checked "
                            "numerically on real bundles for every n, not modelled in Lean; ring counts > 20 are not "
                            "covered (the property does not ask for them)."),
        technique="Lean 4 kernel-decided table certificates (decide +kernel) + proofs over traced geometry + numeric oracle",
        design="5/C08"),
    "C09": dict(
        text=("Exhaustive over all 127 non-empty subsets of the 7-position core (as the property states) plus sampled "
              "19/37-position cores, each with a random assignment of 1-3 assembly types (different ring counts, double "
              "ducts, assemblies without pins): the tables the real Core.load builds are dumped and the Lean kernel decides "
              "that every gap cell borders one to three assemblies, the cells around an assembly are pairwise distinct and "
              "the per-side counts add up, gap adjacency is symmetric with two or three neighbours per cell, and both "
              "neighbours of a shared side list the same cells in opposite order with the finer of the two meshes.  "
              "Perimeter coverage, independence of the total gap area from the assemblies' meshes and the area-proportional "
              "flow split are checked numerically on the real arrays; every shared edge cell has the same width for both "
              "assemblies and the width / count of the finer mesh as decided from the input (more edge cells; equal counts: "
              "the smaller pin pitch).  Flow split: for any list of cell areas with non-zero sum the split M a / S sums to the gap flow M, two cells carry flows in the ratio of their areas, positive areas give positive flows (c09_flow_split_sum / _proportional / _pos); the real _sc_mfr arrays are compared with that expression on every layout.  History clause: a core built again in the same process after the read-only views of the first one were used has the same tables."),
        note=COMMON_NOTE + ("T2 table dump per layout (encoder round-trip tested), certificates split over 16 generated "
                            "modules so that the kernel evaluations run in parallel.  Areas, wetted lengths and centroid "
                            "distances are not modelled in Lean."),
        technique="Lean 4 kernel-decided table certificates (decide +kernel) per core layout + numeric oracle",
        design="5/C09"),
    "C10": dict(
        text=("Lean theorems, over any ordered field and for all monotone boundary lists of any length, about the model "
              "of the overlap map: every weight is non-negative; for each region cell the row-normalised weights over "
              "the gap cells sum to one (uniform fields are reproduced) and symmetrically for the other direction; every "
              "gap cell is covered exactly once by the region cells; the perimeter-weighted integral is preserved "
              "(conservation) for arbitrary fields; coinciding cells give the diagonal.  The executable model (including "
              "the fold of the split top corner and zero padding) agrees with the real _map_asm2gap to 1e-11 on generated "
              "mesh pairs every run, and the property's clauses are evaluated on the real matrices; on real cores the perimeter "
              "weights the core applies to gap-mesh fluxes must be the cell lengths of the gap mesh the maps were built on "
              "(also when the two hex sides meeting in the top corner see different neighbours).  The duct-cell boundaries the "
              "maps are built on: the real RoddedRegion.calculate_xbnds is traced on 7- and 19-pin bundles with one to three ducts; "
              "generated theorems (Gen/C10X.lean), with the corner length replaced by the traced calculate_geometry formula: "
              "the walk closes (closing half corner = opening half = corner half-length on the OUTER face of the OUTERMOST duct) "
              "and every cell in between is one pin pitch or one whole corner - the duct mesh tiles the perimeter 6 F / sqrt 3."),
        note=COMMON_NOTE + ("T3 hand model + differential correspondence (doubles exchanged as bit patterns); T1 trace of "
                            "calculate_xbnds tied to Gen/C08Geo.  Partial: "
                            "the algebra of the corner fold (merging the first and last half cell) is validated by the "
                            "oracle on the real matrices, not yet by a theorem."),
        technique="Lean 4 proof (interval-overlap telescoping, double-sum swap) over hand model + differential correspondence",
        design="5/C10"),
    "C11": dict(
        text=("Lean theorems (any ordered field, all positive film coefficients / conductivity / thickness, any "
              "temperatures and heating) that the duct-wall closed forms satisfy Fourier's law at both faces, the "
              "flux balance, the mid-wall parabola value, zero outer flux when adiabatic, and the ordering without "
              "heating - proved about definitions regenerated on every run by executing the real _calc_duct_temp "
              "methods (rodded, low-fidelity single-node and six-node: each wall cell against its OWN coolant node) on symbolic "
              "inputs.  The same identities are evaluated inside real sweeps: every wall cell of every low-fidelity region right after the "
              "assembly computed a plane, against the gap temperatures / film coefficients / adiabatic flag the assembly was given."),
        note=COMMON_NOTE + ("T1 tracing translator (every duct cell of several real regions must reduce to the single "
                            "closed form the theorems are about; emitter validated by Lean-over-Q evaluation); the "
                            "constants L/2=t/2, L^2/8=t^2/8 are checked numerically; float round-off is measured by "
                            "an oracle on random real states, not proved."),
        technique="Lean 4 proof over traced definitions (field_simp/ring/linarith) + implementation oracle",
        design="5/C11"),
    "C01": dict(
        text=("Lean theorems, for all temperatures, wall temperatures, pin/coolant powers, film coefficients, "
              "properties, flow split, geometry symbols and step sizes, that on complete 7- and 19-pin bundles "
              "(both wire directions, low-flow approximation on/off) the mass-flow-weighted enthalpy change computed "
              "by the real interior update equals the code's own power + duct-wall tallies, that the tallied power "
              "equals the pin + coolant heat generated, and that conduction/mixing/swirl exchange sums to zero; the "
              "same for the bypass gap of a double-duct bundle.  The expressions are obtained on every run by "
              "symbolic execution of the real methods.  Every ring count 2..20: a generic Lean theorem (exchange over a "
              "symmetric neighbour relation with type-symmetric coefficients and a permutation donor map sums to zero) is "
              "instantiated on the kernel-certified real tables, and 100 generated identities show that in energy form every "
              "traced neighbour weight of every neighbour-type class is such a symmetric coefficient.  Low-fidelity and "
              "multi-region assemblies, temperature-dependent coolant, flow continuity between steps and the mixed-mean "
              "carry-over are decided by driving real reactors plane by plane.  Low-fidelity regions: the real _calc_coolant_temp of the single-node and six-node models (low-flow approximation on/off, coupled or adiabatic wall) is traced WITH its tallies; eight generated theorems (Gen/C01Ur.lean): enthalpy-flow change of the node(s) = tallied power + tallied wall heat, tallied power = q dz, conduction between the six nodes sums to zero.  Region change: the real _activate_base and the regions' own mixed-mean properties are traced on four pairs of real regions (bundle / double-ducted bundle / single-node / six-node); Gen/C01Carry.lean: the mixed mean of the new region after activation equals the mixed mean of the old one, given that the new region's weights sum to one.  The reactor oracle also requires the subchannel flows of every region to sum to the assembly flow (all flow-split correlations, incl. SE2 / MIT / Novendstern)."),
        note=COMMON_NOTE + ("T1b symbolic execution (whole-bundle); hypotheses of the theorems: 6*q_interior = 1 for "
                            "the pin-to-subchannel fraction literal 0.166666666666667 (defect 2e-15), equal swirl "
                            "velocity for edge and corner cells (checked on real regions), positive divisors.  "
                            "Partial: for ring counts > 3 the identification of each real cell with its class is the "
                            "trace-shape obligation (exact rational-function agreement) + classCert, not a Lean theorem; "
                            "the O(dz) property-lag clause for temperature-dependent coolants is not a theorem."),
        technique="Lean 4 proof (field_simp/ring) over symbolically traced whole-bundle update + per-step reactor oracle",
        design="5/C01"),
    "C02": dict(
        text=("Lean theorems: (i) on the gap meshes the real Core.load builds for 2 and 3 adjacent assemblies, for all gap and "
              "duct-surface temperatures, film coefficients, cell flows, symmetric conduction constants, properties and step "
              "sizes, the traced gap update's enthalpy change equals the heat the code tallies from the duct walls (conduction "
              "between gap cells cancels); (ii) for ANY pair of duct/gap meshes of equal perimeter, any film coefficients "
              "and temperatures, the heat leaving the duct computed on the duct mesh with the h-weighted mapped gap "
              "temperature equals the heat credited on the gap mesh (interface identity, built on C10's overlap theorems).  "
              "Real cores (holes, periphery, mixed ring counts, unrodded regions, low-fidelity assemblies) are driven plane "
              "by plane and the per-step core balance and the gap-side balance are checked; adiabatic cores exchange nothing "
              "(bypass coolant included); per assembly the heat leaving the duct equals the heat the gap mesh receives from "
              "it (1e-5); the gap conduction resistances of every built core are symmetric; steps on which an assembly "
              "changes region and same-ring / different-pitch neighbours are included; every sixth core each has six-node "
              "regions with their own convection factor, the low-flow convection approximation (with and without duct heating), "
              "double-ducted types (with the approximation or a stagnant bypass) - the last three are known findings "
              "(known_findings.json), two six-node defects and one double-duct defect found there are repaired.  c02_sweep_telescopes: if "
              "every step closes (plane values of the enthalpy flow differ by the power of the step) the sweep closes, for any number of "
              "steps."),
        note=COMMON_NOTE + ("T1b symbolic execution of Core._flow_model/_update_energy_balance/_make_conv_mask on real cores; "
                            "hand list-level interface theorem tied to the code through C10's correspondence.  Larger cores, "
                            "region changes and six-node regions are covered by the oracle only."),
        technique="Lean 4 proof over symbolically traced gap update + list-level interface theorem + per-step core oracle",
        design="5/C02"),
    "C03": dict(
        text=("Lean theorems over any field about the renormalisation / scaling model: with the corrected per-cell "
              "renormalisation the sweep deposits exactly avg x cell length in every power cell for ANY step list tiling "
              "the cell and ANY position of the bundle boundary inside it; the original formula does so only when the "
              "whole cell is in the bundle and provably deposits a different power otherwise (rational witness); after "
              "normalisation and scaling the assembly totals sum to requested power x scaling; the renormalisation factor "
              "is invariant under scaling the profiles, and for every traced interior-update class the heating term is "
              "homogeneous in the sources (so temperature rises scale with the power).  Row table (Model/PowerRows.lean, Props/C03Rows.lean): "
              "the table the reader builds from the labelled rows of a power file does not depend on the order of the rows and is "
              "the profile the labels describe (file-order reading provably is not); tied to power._from_file bit for bit on "
              "files in canonical, item-major, reversed and shuffled order.  Integral (Model/PowerIntegral.lean, Props/C03Integral.lean, over the "
              "reals with Mathlib's interval integral): the closed form power._integrate evaluates IS the integral of every item's "
              "polynomial over the axial cell (odd powers vanish, even powers weigh 1/(2^j (j+1))); tied to the real _integrate on random "
              "coefficient arrays.  Real reactors (also with re-ordered files) are swept and the "
              "deposited power is compared with an independent exact rational integration of the CSV polynomials."),
        note=COMMON_NOTE + ("T3 hand model + per-cell correspondence with AssemblyPower._renorm, plus reuse of the traced "
                            "update classes of C04 for linearity.  Assumes no clipping of negative samples and a non-zero "
                            "midpoint sum; VARPOW binary-flux power cannot be exercised here (empty placeholder data)."),
        technique="Lean 4 proof over hand model (list sums) + correspondence + exact-rational power oracle",
        design="5/C03"),
    "C04": dict(
        text=("For each of the 26 neighbour-type classes of interior and bypass subchannels (with and without the "
              "low-flow approximation, both swirl-donor positions) a Lean theorem, over any ordered field and all "
              "positive geometry/flow/property values, that `dz <=` the class's step limit makes the new temperature "
              "an affine combination of the coupled previous-level temperatures with non-negative weights summing to "
              "one plus a non-negative, temperature-independent heating term (corollaries: uniform field reproduced, "
              "no undershoot, no new extremum).  Update and limit are both obtained by symbolically executing the "
              "real setup/update/limit functions on real regions on every run.  The same, per cell, for the inter-assembly "
              "gap (real Core._flow_model and core.calculate_min_dz traced on 2- and 3-assembly cores, 49 cells) and per node "
              "for the low-fidelity regions (simple / six-node, low-flow approximation, adiabatic; 26 nodes): generated "
              "theorems with their proofs.  No-flow and duct-average gap models: the real Core._noflow_model / "
              "_duct_average_model (+ _make_conv_mask) are traced on 2- and 3-assembly cores built with those models; per gap cell "
              "(98 cells) a generated theorem that the new temperature is the combination of the adjacent duct-wall and neighbouring "
              "gap temperatures with the traced weights, all non-negative and summing to one, and a corollary (Lemmas/Convex.lean) "
              "that it stays between any bounds of them.  Reactor-level step selection (also with param_update_tol > 0: the limit "
              "as the Reactor takes it, on the bundle as built) and the temperature range are decided by linear probing of the "
              "real operators at the selected step."),
        note=COMMON_NOTE + ("T1b symbolic execution (harness/bundle_trace.py) of _setup_ht_constants, "
                            "_calc_coolant_int_temp, _calc_coolant_byp_temp, _calculate_int_dz/_byp_dz; all cells of a "
                            "class must agree exactly with the class representative.  Partial: the whole-temperature-range "
                            "clause (known finding: limit evaluated at the range ends only) is covered by the probing oracle only "
                            "(a test, not a theorem); gap-model theorems are per cell of the traced cores, other layouts by probing."),
        technique="Lean 4 proof over symbolically traced update + limit (per class) + linear probing oracle",
        design="5/C04"),
    "C12": dict(
        text=("Lean theorems: the traced constant (laminar/turbulent) Cheng-Todreas split conserves mass for ALL ratio "
              "constants and is positive for positive inputs; one successive-approximation update conserves mass and "
              "equalises the pressure gradients t_i x_i^2 of the three subchannel types; over the reals with Real.rpow, the "
              "ratio constant the code uses equalises the friction pressure gradient Cf_i x_i^(2-m) De_i^-(1+m) of two "
              "types for every exponent m < 2.  All 120 accepted correlation combinations are evaluated on real bundles "
              "at seven Reynolds numbers (10 .. 1e6): evaluability, positivity/finiteness, mass conservation, and the equalised "
              "pressure-gradient relation of the transition split (the friction law of the SAME correlation family must be "
              "used); bare-rod separation (edge/corner Cheng-Todreas constants depend on W/D only, the interior one on P/D only, on "
              "both sides of the break at 1.1) and geometries with P/D and W/D on opposite sides of it.  The Lean iteration model (Model/FlowSplit.lean, iterStep) is run by the native driver on the inputs of "
              "real _iterate calls and must reproduce the fixed point the code returns."),
        note=COMMON_NOTE + ("T1 trace of _calc_constant_flowsplits; the iteration update is a hand model of the last lines "
                            "of _iterate validated by the oracle.  SE2, MIT and Novendstern splits: the real calculate_flow_split is traced, every real power is replaced by a variable "
                            "and the translator checks (obligations) that each is a power of a quotient of two variables or one of a pair x^e, "
                            "x^-e; Gen/C12Geo mass_se2 / mass_mit / mass_nov prove mass conservation under those relations, Props/C12 "
                            "c12_rpow_pair_neg / c12_rpow_quot prove the relations for Real.rpow and c12_mass_se2 / _mit / _nov put the real "
                            "powers back.  The friction and mixing correlations are covered by the oracle only.  Nine genuine defects (combinations that cannot be evaluated, NaN "
                            "friction factor, the approximate transition split not equalising the gradients, UCTD split with "
                            "CTD friction) are recorded in known_findings.json by call site."),
        technique="Lean 4 proof (field_simp; Real.rpow algebra) over traced split + hand update model + exhaustive combination oracle",
        design="5/C12"),
    "C13": dict(
        text=("Lean theorems over any ordered field about the chain of closed-form conduction steps the pin model evaluates "
              "(conductivities = arbitrary positive numbers, i.e. whatever the temperature-dependent iteration ended with): "
              "coolant <= clad OD <= MW <= ID for non-negative power, fuel temperatures non-decreasing from the surface to "
              "the centre for any number of shells, film and clad drops equal q/(2 pi r_o h) and q ln(r_o/r_i)/(2 pi k), "
              "each shell satisfies dT k = qdens x (shell constant), where - for annular pellets too (Props/C13Annular.lean, over the reals) - "
              "the shell constant (r_o^2 - r_i^2)/4 - r_0^2 ln(r_o/r_i)/2 is the one of the steady radial conduction solution for heat "
              "generated outside the central hole (the profile solves -k T' 2r = q (r^2 - r_0^2)), non-negative and equal to the "
              "solid-cylinder one without a hole; zero power gives the coolant temperature everywhere, clad "
              "temperatures increase with power for fixed conductivities, and a weighted coolant average with weights "
              "summing to one reproduces a uniform field.  Correspondence: the Lean model (native driver) is run on the data "
              "of generated pin models - shells with their own materials' converged conductivities - and compared with the "
              "temperatures the real PinModel reports; the relations are also evaluated directly on those temperatures.  Cladding: the real PinModel.calc_clad_temps is traced (constant conductivity); Gen/C13Clad clad_drops: the film, OD->ID and OD->mid-wall drops of the traced solution ARE q' / (2 pi r_o h), q' ln(r_o/r_i) / (2 pi k), q' ln(r_o/r_m) / (2 pi k)."),
        note=COMMON_NOTE + ("T3 hand model; the tie is relation-checking on real outputs up to the iteration tolerance "
                            "(2e-2 K), not a bit-level correspondence, because the k-iteration is data dependent.  "
                            "Partial: monotonicity for temperature-dependent conductivities and the radiating-gap fixed "
                            "point are covered numerically only."),
        technique="Lean 4 proof (linarith/positivity, list induction) over hand model + relation oracle on the real PinModel",
        design="5/C13"),
    "C14": dict(
        text=("Lean theorems over any ordered field about the accumulation model: friction and gravity parts equal the "
              "per-length coefficient times the core length for EVERY plane list (step-size independence, closed forms "
              "f L rho v^2/(2De), rho g L, via the traced per-step increments being linear in dz); the three parts "
              "accumulate independently and are non-negative; with the half-open grid test every grid in (0, L] is "
              "counted by exactly one step for every strictly increasing plane list, so the grid part is (number of "
              "grids) x (one loss) also when several grids share a step; with the original strict test a grid on a "
              "plane is counted by no step (the defect, now fixed).  The rule of the corrected code - previous position < grid <= "
              "position, comparisons only - is proved to count every grid exactly once in ANY linear order (c14_planes_once, "
              "c14_planes_total), hence also in the floating-point arithmetic of the running code, where z - dz is not the previous "
              "plane (0.03 - 0.01 < 0.02: second defect, fixed); tied to real sweeps over decimal meshes with grids on planes and "
              "on the bundle top (driver op dpp).  The fold model reproduces the real "
              "RoddedRegion.calculate_pressure_drop on random step histories and real reactors are swept with "
              "different step sizes."),
        note=COMMON_NOTE + ("T1 trace of the increments + T3 fold model with correspondence on real regions (doubles as "
                            "bit patterns, 1e-10) and an oracle on real reactors (dyadic steps with grids on planes).  "
                            "Constant properties are assumed for the closed forms; c14_grid_once needs exact z - dz, "
                            "c14_planes_once does not."),
        technique="Lean 4 proof (fold/telescoping, double counting) over traced increments + hand fold model + correspondence",
        design="5/C14"),
    "C15": dict(
        text=("Lean theorems, for any linearly ordered value type and any step history, about the running-maximum fold "
              "the assembly applies after every step: the stored value dominates every cell of every plane, it is "
              "attained by a recorded plane (so the stored height / radial profile belong to a plane where it occurred), "
              "it is exactly the maximum once any value exceeds the initial 0.0, and later planes with an equal value do "
              "not replace it (first occurrence).  The fold model reproduces Assembly._peak bit-exactly on the histories "
              "of real sweeps recorded inside Assembly.calculate, and the summary tables are parsed and compared with the "
              "state.  Rows of the peak pin tables (Model.Peaks.pinRowLabels): a row labelled j exists iff assembly j - 1 tracks pin peaks (c15_pin_rows_labels; the running-number labelling provably differs: c15_pin_rows_running_counter), tied to the parsed real tables (driver op pinrows); every row is compared with the stored profile of the assembly it is labelled with."),
        note=COMMON_NOTE + ("T3 hand model + trace validation (fields recorded right after Assembly.calculate, incl. "
                            "multi-region assemblies whose duct count changes, pin models) and an independent Python "
                            "evaluation of the property on the same histories.  Table layout is parsed, not modelled."),
        technique="Lean 4 proof (fold induction) over hand model + trace validation against real sweeps",
        design="5/C15"),
    "C16": dict(
        text=("Lean theorems about an abstract build/run model: if building returns its input unchanged then every one of any "
              "number of successive constructions from one input object yields the first model (and a mutating build provably "
              "does not); if a time point's output is a function of (input, time point) and a task writes only its own slot, "
              "then serial execution, every parallel schedule (any order, any worker count) and one-at-a-time execution "
              "produce the same output for every time point.  PARTIAL: the hypotheses are established by observation on the "
              "real code - structural fingerprint of DASSH_Input.data before/after Reactor(...) for plain, FuelModel, "
              "PinModel, dump and hot-spot inputs; a second construction and a fresh execution must be bitwise identical; "
              "dassh main with 2-3 time points is run serially, with a worker pool and one time point alone and the "
              "per-time-point outputs are compared (plain, fuel, dump, planes and detailed-table inputs).  Serial = parallel is also a theorem "
              "of the state-passing model (c16_serial_eq_parallel: no time point changes the input object => the serial run produces what "
              "the workers produce from their copies; counter-model when one does); its hypothesis is observed: fingerprint of the parsed "
              "input after a COMPLETE time point (construction, sweep with output, post-processing), and a Reactor built from the same "
              "input object AFTER a sweep must reproduce the first one bit for bit."),
        note=COMMON_NOTE + ("hand abstract model; determinism of NumPy/BLAS reductions, the OS and the multiprocessing runtime "
                            "are trusted, not modelled (named runtime behaviour the model cannot exhibit); time stamps are "
                            "stripped before comparing text outputs."),
        technique="Lean 4 proof (induction, permutation) over abstract model + input fingerprinting and serial/parallel/alone execution oracle",
        design="5/C16"),
    "C17": dict(
        text=("Lean theorems over any field of characteristic 0 about the traced scalar converters of dassh.utils: every "
              "supported conversion composed with its inverse is the identity; ft = 12 in, in = 2.54 cm, cm = 10 mm; "
              "temperature differences convert consistently with absolute temperatures (F degree = 5/9 K); flow-rate "
              "conversion composes the mass factor with the inverse time factor.  Lean decides (on lists extracted by "
              "running the real convert_* functions on a maximal parsed input with tagged factors) that every key of a "
              "hand-written classification of dimensional inputs is converted exactly once and nothing else is.  One "
              "maximal problem written in random (all 90 in the thorough tier) unit combinations must give identical "
              "internal data, mesh and outlet temperatures."),
        note=COMMON_NOTE + ("T1 trace of the converters, dynamic-taint extraction of converted keys (T2), metamorphic "
                            "oracle.  The classification of dimensional keys is the specification and is hand-written; "
                            "keys of sections not present in the maximal input (Orificing, AssemblyTables, PinModel) are "
                            "not covered."),
        technique="Lean 4 proof over traced converters + kernel-decided key cover + metamorphic unit oracle",
        design="5/C17"),
    "C18": dict(
        text=("Lean decision-logic theorems about a model of the numeric acceptance layer (pin, duct, core and boundary-condition "
              "checks): every member of each invalid pin class (non-positive dimension, pitch < diameter, clad > radius, wire "
              "thicker than the pin gap, bundle wider than the smallest duct) and duct class (odd number of values, duct not "
              "smaller than the pitch) is rejected, and acceptance implies exactly the positivity / fit facts the geometry and "
              "step models need.  Axial regions (Model/AcceptRegions.lean, Props/C18Regions.lean): for an accepted list of user regions the "
              "separately sorted lower / upper bounds re-create the user's own pairs, every region has positive height, lies in "
              "the core, regions are pairwise disjoint, exactly one free space remains and the rodded bounds enclose exactly it "
              "(heights + rodded span = core length); inverted, zero-height, overlapping, out-of-core and core-filling layouts are "
              "rejected wherever they stand in the list - tied to the real check_unrodded_regions bit for bit (verdict, error kind, "
              "rodded bounds) on generated layouts; checkRegionsFull adds the attribute tests that come first (positive coolant "
              "fraction, existing model name: c18_regions_full_accept, c18_regions_reject_no_coolant / _unknown_model), tied the same way.  Fuel pellets (Model/AcceptFuel.lean, Props/C18Fuel.lean): acceptance implies the gap "
              "that is USED (standard or legacy key) leaves room for a pellet, radial zones of positive thickness inside the "
              "pellet, porosities and weight fractions in range, a finite positive porosity correction; tied to the real "
              "check_fuel_model (verdict and error kind).  Position numbering (Model/Assignment.lean, Props/C18Assignment.lean): the index "
              "the reader gives a (ring, position) is a bijection between the positions of an n-ring core and 0..3n(n-1), and an "
              "accepted Assignment line names existing positions only; tied to parse_assignment_section (verdict, indices, ring and "
              "position of every entry).  PARTIAL: the model is tied to the real reader by differential classification on valid "
              "generated inputs and single-fault perturbations (41 fault classes across the input keys); independently every "
              "invalid class must end in SystemExit before any temperature is computed and every valid generated input must "
              "be set up and swept (60 planes) without exception or hang; a single-key perturbation sweep (every numeric "
              "leaf of the input incl. FuelModel / PinModel / SpacerGrid, four extreme values each) must end in a clean "
              "error exit or a finite result - never a traceback or a hang."),
        note=COMMON_NOTE + ("hand model + differential classification; ConfigObj parsing and schema validation are exercised, "
                            "not modelled; which inputs count as impossible (the fault classes) is a hand-written "
                            "specification in harness/checks/c18.py."),
        technique="Lean 4 proof (decision logic, split_ifs) over hand acceptance model + differential classification + fault-class oracle",
        design="5/C18"),
    "C19": dict(
        text=("Lean theorems about the trace of hotspot.calculate_temps (two direct and two statistical subfactor rows, "
              "three cumulative terms; any ordered field; the square root is opaque and only assumed zero at zero, "
              "non-negative and monotone on non-negatives, which Real.sqrt satisfies): unity subfactors reproduce inlet + "
              "cumulative rises; with direct factors >= 1 and non-negative rises the result is never below nominal; it is "
              "monotone in the output confidence level; the excess over the direct value times the input confidence level "
              "is independent of that level; with statistical factors >= 1 each entry of coolant/clad/fuel adds a "
              "non-negative rise to the previous one.  A second model (Model/HotspotSort.lean, Props/C19Sort.lean): sorting the "
              "(assembly id, row) pairs by id keeps every pair intact, yields ascending ids and every id finds its OWN row - "
              "tied to hotspot.analyze by correspondence (native driver) and to independently recorded peaks.  The real "
              "function is exercised on random tables of other shapes, on all built-in tables through the "
              "reading/splitting/expression pipeline, and on generated tables with dT expressions (the same text in several columns, "
              "the split cladding column) against the same tables with hand-evaluated numbers."),
        note=COMMON_NOTE + ("T1 trace at one small shape; larger shapes and the CSV pipeline are covered by the oracle.  "
                            "The clause that the rises are those of the pin and height of the nominal peak rests on C15."),
        technique="Lean 4 proof (linarith/nlinarith over traced formula, abstract sqrt) + oracle on the real function",
        design="5/C19"),
    "C20": dict(
        text=("Lean theorems over any ordered field about the grouping / redistribution model: at every cut-off the groups "
              "concatenate to the sorted parameter list (each assembly in exactly one group, groups contiguous in the order, "
              "none empty, at most as many groups as assemblies); with the corrected final test the adaptive loop returns "
              "normally only with exactly the requested number of groups; one redistribution update conserves the total "
              "flow exactly for any group factors and limit; every group but the last respects the pressure-drop flow "
              "limit, and the last one provably need not (counter-example).  The model reproduces the real _group "
              "(sizes and error/ok outcome) on generated lists incl. ties, and the property clauses are evaluated on the "
              "real _group and distribute.  clampGroup (Model/Orifice.lean): a clamped group gets the MINIMUM limit of its "
              "members so every member respects its own limit (theorem), while clamping to the first member's limit provably "
              "does not (counter-example); tied to Orificing.distribute by a fixed-point correspondence on faithful "
              "parametric tables with mixed assembly types.  Iteration history: with the mixed-mean outlet temperature of the previous "
              "sweep over ALL its time steps the rescaled total carries the same heat to the target (c20_history_total; the "
              "last-step mean does not, counter-model); real _summarize_group_data + distribute are run on two-iteration histories.  The "
              "set-up chain group_by_power -> run_parametric -> distribute is run on a real Orificing object (recycled results, two "
              "interleaved assembly types, each assembly held against its own type's curve), and a grouping error is accepted only when no "
              "cut-off the search can reach yields the requested number of groups.  The flows that are USED (Model/Orifice.lean writeFlows): "
              "written by assembly id, every grouped position carries the flow distributed to it and no other position is touched "
              "(c20_flows_written, c20_flows_others_untouched; pairing with the assigned positions in order provably does not: "
              "c20_flows_by_order_counter) - tied to the real _setup_input_orifice on cores with ungrouped and empty positions (driver op orif)."),
        note=COMMON_NOTE + ("T3 hand model + differential correspondence on Orificing instances made with __new__.  "
                            "Partial: the pressure-drop clause for the last group does not hold in the model (and is "
                            "reported as an assumption, not as a violation, because distribute() itself stops with an "
                            "error when several groups are limited); regrouping histories are not modelled."),
        technique="Lean 4 proof (fold invariant, loop induction) over hand model + differential correspondence",
        design="5/C20"),
}

REASONS_PENDING = "check not built yet in this session (work in progress, see DESIGN.md section 12)"


def main():
    props = [json.loads(l) for l in (VERIF / "properties.jsonl").read_text().splitlines() if l.strip()]
    checks, na = [], []
    for p in props:
        pid = p["id"]
        c = CLAIMED.get(pid)
        if c and (VERIF / "harness" / "checks" / (pid.lower() + ".py")).exists():
            checks.append(dict(
                property_id=pid,
                quick_cmd="bin/check %s --tier quick" % pid,
                thorough_cmd="bin/check %s --tier thorough" % pid,
                evidence_file="/verif/evidence/%s.json" % pid,
                replay_cmd_template="bin/check %s --replay {path}" % pid,
                engine="lean4-dassh",
                level_claimed=dict(category="proof", text=c["text"], design_ref="DESIGN.md section " + c["design"]),
                level_note=c["note"],
                technique=c["technique"]))
        else:
            na.append(dict(property_id=pid, reason=(c or {}).get("na_reason", REASONS_PENDING)))
    man = dict(
        version=1,
        setup_cmd="bin/setup",
        hooks=dict(guard="DASSH_VERIF", enable="export DASSH_VERIF=1 (no source hooks are needed: all observation is "
                   "done from the harness process by wrapping/tracing)",
                   baseline_off_cmd="cd /repo && /venv/bin/python -m pytest -ra -q -p no:cacheprovider --timeout=900 "
                                    "--continue-on-collection-errors",
                   source_commits=[], add_only=True),
        engines=[dict(name="lean4-dassh", path="/verif/lean", serves_properties=[c["property_id"] for c in checks],
                      kind_free_text="Lean 4 + Mathlib proof project; Gen/ files regenerated from /repo by the "
                                     "Python tracing translator / table dumpers in /verif/harness on every run")],
        checks=checks,
        notes="See DESIGN.md.  bin/check <Cxx> --tier quick|thorough; exit 0 ok, 1 VIOLATION, 2 infrastructure error.",
        not_applicable=na)
    (VERIF / "MANIFEST.json").write_text(json.dumps(man, indent=1) + "\n")
    try:
        import jsonschema
        jsonschema.validate(man, json.loads(Path("/root/.vp/MANIFEST.schema.json").read_text()))
        print("MANIFEST.json valid: %d checks, %d not claimed" % (len(checks), len(na)))
    except ImportError:
        print("MANIFEST.json written (jsonschema not available for validation)")


if __name__ == "__main__":
    sys.exit(main())
