"""Shared plumbing for the per-property checks (see DESIGN.md section 2).

A check is a function ``run(ctx)`` in ``harness/checks/cXX.py``.  It uses the
context to

* regenerate Lean files from /repo (``ctx.gen``),
* build the property module (``ctx.build``) and audit axioms (``ctx.audit``),
* record *problems* (a proof obligation or a correspondence that no longer
  checks) and *violations* (a concrete failing input on the real code),
* write the evidence file and the verdict (``ctx.finish``).
"""
import fcntl
import hashlib
import json
import os
import re
import shutil
import subprocess
import sys
import time
from pathlib import Path

VERIF = Path(__file__).resolve().parents[1]
REPO = Path(os.environ.get("DASSH_REPO", "/repo"))
LEAN = VERIF / "lean"
WORK = VERIF / ".work"
EVID = VERIF / "evidence"
ALLOWED_AXIOMS = {"propext", "Classical.choice", "Quot.sound"}
FORBIDDEN = re.compile(
    r"\b(sorry|admit|native_decide|bv_decide|implemented_by|unsafe)\b|^\s*axiom\s|maxHeartbeats\s+0\b",
    re.M)

if str(REPO) not in sys.path:
    sys.path.insert(0, str(REPO))
os.environ.setdefault("DASSH_VERIF", "1")


def write_if_changed(path, text):
    path = Path(path)
    path.parent.mkdir(parents=True, exist_ok=True)
    if path.exists() and path.read_text() == text:
        return False
    tmp = path.with_suffix(path.suffix + ".tmp%d" % os.getpid())
    tmp.write_text(text)
    os.replace(tmp, path)
    return True


class _Lock:
    def __enter__(self):
        self.f = open(LEAN / ".lock", "w")
        fcntl.flock(self.f, fcntl.LOCK_EX)
        return self

    def __exit__(self, *a):
        fcntl.flock(self.f, fcntl.LOCK_UN)
        self.f.close()


def _run(cmd, cwd, timeout):
    t0 = time.time()
    try:
        p = subprocess.run(cmd, cwd=cwd, stdout=subprocess.PIPE, stderr=subprocess.STDOUT,
                           timeout=timeout, text=True)
        return p.returncode, p.stdout, time.time() - t0
    except subprocess.TimeoutExpired as e:
        out = e.stdout if isinstance(e.stdout, str) else (e.stdout or b"").decode("utf8", "replace")
        return 124, out + "\n[timeout after %ds]" % timeout, time.time() - t0


def lake_build(targets, timeout=1500):
    with _Lock():
        return _run(["lake", "build"] + list(targets), LEAN, timeout)


def lean_file(relpath_or_text, timeout=600, name="Scratch"):
    """Run `lake env lean` on a file in the project (or on given text, written
    under lean/.scratch/).  Returns (rc, output)."""
    if "\n" in relpath_or_text or relpath_or_text.startswith("import"):
        d = LEAN / ".scratch"
        d.mkdir(exist_ok=True)
        f = d / ("%s_%d.lean" % (name, os.getpid()))
        f.write_text(relpath_or_text)
        try:
            rc, out, _ = _run(["lake", "env", "lean", str(f)], LEAN, timeout)
        finally:
            try:
                f.unlink()
            except OSError:
                pass
        return rc, out
    rc, out, _ = _run(["lake", "env", "lean", relpath_or_text], LEAN, timeout)
    return rc, out


def strip_comments(src):
    # remove /- ... -/ (nested not handled beyond one level, good enough) and -- comments
    src = re.sub(r"/-.*?-/", "", src, flags=re.S)
    src = re.sub(r"--.*", "", src)
    return src


def theorem_names(module):
    """Names of all theorems declared in a project module (e.g. Dassh.Props.C11)."""
    p = LEAN / (module.replace(".", "/") + ".lean")
    src = strip_comments(p.read_text())
    ns = None
    names = []
    for m in re.finditer(r"^\s*(?:namespace\s+(\S+)|(?:private\s+|protected\s+)?theorem\s+(\S+)|(c\d\d(?:_[a-z0-9]+)*)_class\s+(\S+))", src, re.M):
        if m.group(1):
            ns = m.group(1)
        elif m.group(2):
            names.append((ns + "." if ns else "") + m.group(2))
        else:   # `cNN_class X` macro invocation declares theorem cNN_X
            names.append((ns + "." if ns else "") + m.group(3) + "_" + m.group(4))
    return names


def module_closure(module):
    """Project-local modules transitively imported by `module` (including itself)."""
    seen, todo = [], [module]
    while todo:
        m = todo.pop()
        if m in seen:
            continue
        p = LEAN / (m.replace(".", "/") + ".lean")
        if not p.exists():
            continue
        seen.append(m)
        for im in re.findall(r"^import\s+(Dassh\.\S+)", p.read_text(), re.M):
            todo.append(im)
    return seen


def forbidden_hits(modules):
    hits = []
    for m in modules:
        p = LEAN / (m.replace(".", "/") + ".lean")
        src = strip_comments(p.read_text())
        for mm in FORBIDDEN.finditer(src):
            hits.append("%s: %s" % (m, mm.group(0).strip()))
    return hits


def print_axioms(module, names, timeout=900):
    """Returns {name: set(axioms)}; a name missing from the result means the
    theorem does not exist / did not compile."""
    if not names:
        return {}
    txt = "import %s\n" % module + "".join("#print axioms %s\n" % n for n in names)
    rc, out = lean_file(txt, timeout=timeout, name="Audit")
    res = {}
    # "'name' depends on axioms: [a, b]"  or "'name' does not depend on any axioms"
    for m in re.finditer(r"'([^']+)' depends on axioms: \[([^\]]*)\]", out, re.S):
        res[m.group(1)] = set(x.strip() for x in m.group(2).replace("\n", " ").split(",") if x.strip())
    for m in re.finditer(r"'([^']+)' does not depend on any axioms", out):
        res[m.group(1)] = set()
    return res, out


class Ctx:
    def __init__(self, pid, tier, seed):
        self.pid, self.tier, self.seed = pid, tier, seed
        self.t0 = time.time()
        self.obligations = []      # dict(name, ok, axioms, kind)
        self.problems = []         # dict(kind, name, detail): proof/correspondence broken, no input yet
        self.violations = []       # dict(signature, what, replay...) concrete failing inputs
        self.known_hit = []
        self.samples = []
        self.stats = {}
        self.assumptions = []
        self.trusted = [
            "Lean 4.33 kernel; axioms allowed: propext, Classical.choice, Quot.sound (audited by #print axioms on every run)",
            "Mathlib v4.33 modules imported by the proof files",
        ]
        self.checker_cmd = ""
        self.evals = 0
        self.nontrivial = 0
        self.rule = ""
        self.traces = 0
        self.log_lines = []
        self.work = WORK / ("%s-%d" % (pid, os.getpid()))
        self.work.mkdir(parents=True, exist_ok=True)
        kf = VERIF / "known_findings.json"
        self.known = [k for k in (json.loads(kf.read_text())["findings"] if kf.exists() else [])
                      if k.get("property") == pid and k.get("status") == "known"]

    # ------------------------------------------------------------------ util
    def log(self, *a):
        s = " ".join(str(x) for x in a)
        self.log_lines.append(s)
        print("[%s %6.1fs] %s" % (self.pid, time.time() - self.t0, s), flush=True)

    @property
    def thorough(self):
        return self.tier == "thorough"

    def gen(self, name, text):
        """Write lean/Dassh/Gen/<name>.lean (only when changed)."""
        return write_if_changed(LEAN / "Dassh" / "Gen" / (name + ".lean"), text)

    def sample(self, s):
        if len(self.samples) < 12:
            self.samples.append(s)

    def count(self, key, n=1):
        self.stats[key] = self.stats.get(key, 0) + n

    # ----------------------------------------------------------------- Lean
    def build(self, module, timeout=1500):
        """lake build <module>; returns True/False.  On failure the failing
        declarations are recorded as problems."""
        rc, out, dt = lake_build([module], timeout)
        self.log("lake build %s: rc=%d in %.1fs" % (module, rc, dt))
        self.checker_cmd = "cd /verif/lean && lake build %s && #print axioms on every theorem of it" % module
        if rc != 0:
            errs = re.findall(r"error: ([^\n]*\n?[^\n]*)", out)
            (self.work / "build.log").write_text(out)
            detail = "; ".join(e.strip().replace("\n", " ") for e in errs[:6]) or out[-1500:]
            self.problems.append(dict(kind="lean-build", name=module, detail=detail[:3000]))
            self.build_out = out
            return False
        return True

    def audit(self, module, also=()):
        """Every theorem of `module` (and of the generated modules in `also`) must
        exist and depend only on allowed axioms; forbidden tokens must not occur in
        the module closure."""
        names = theorem_names(module)
        for m in also:
            names += theorem_names(m)
        res, out = print_axioms(module, names)
        ok = True
        for n in names:
            ax = res.get(n)
            good = ax is not None and ax <= ALLOWED_AXIOMS
            self.obligations.append(dict(name=n, ok=bool(good), axioms=sorted(ax) if ax is not None else None,
                                         kind="theorem"))
            if not good:
                ok = False
                self.problems.append(dict(kind="axiom-audit", name=n,
                                          detail="axioms=%s" % (sorted(ax) if ax is not None else "theorem missing / not compiled")))
        hits = forbidden_hits(module_closure(module))
        if hits:
            ok = False
            self.problems.append(dict(kind="forbidden-token", name=module, detail="; ".join(hits[:10])))
        self.log("audit %s: %d theorems, ok=%s" % (module, len(names), ok))
        return ok

    def recheck(self, module, workers=5, timeout=1800):
        """thorough tier: Lean's independent re-checker (leanchecker) replays the compiled declarations of the module and of
        every project-local module it imports"""
        from concurrent.futures import ThreadPoolExecutor
        mods = module_closure(module)
        t0 = time.time()

        def one(m):
            rc, out, dt = _run(["lake", "env", "leanchecker", m], LEAN, timeout)
            return m, rc, out[-400:]
        with _Lock():
            with ThreadPoolExecutor(max_workers=workers) as ex:
                res = list(ex.map(one, mods))
        bad = [(m, out) for m, rc, out in res if rc != 0]
        self.obligation("leanchecker re-checked %d compiled modules (%s ...)" % (len(mods), ", ".join(mods[:3])), not bad,
                        kind="leanchecker", detail="; ".join("%s: %s" % b for b in bad[:3]))
        self.log("leanchecker %d modules in %.1fs, failures=%d" % (len(mods), time.time() - t0, len(bad)))
        return not bad

    def prove(self, module, also=()):
        """build + audit; if the build fails, every theorem of the module is an
        undischarged obligation.  `also`: generated modules (imported by `module`) whose theorems are audited too."""
        if self.build(module):
            ok = self.audit(module, also)
            if self.thorough:
                ok = self.recheck(module) and ok
            return ok
        for n in theorem_names(module) + [x for m in also for x in theorem_names(m)]:
            self.obligations.append(dict(name=n, ok=False, axioms=None, kind="theorem"))
        return False

    def obligation(self, name, ok, kind="certificate", detail=""):
        self.obligations.append(dict(name=name, ok=bool(ok), axioms=[], kind=kind))
        if not ok:
            self.problems.append(dict(kind=kind, name=name, detail=detail))

    # ------------------------------------------------------------- verdicts
    def problem(self, kind, name, detail):
        self.problems.append(dict(kind=kind, name=name, detail=str(detail)[:3000]))

    def violation(self, signature, what, **replay):
        """A concrete failing input on the real code.  `signature` is a short
        stable string identifying the failing class (matched against
        known_findings.json by prefix)."""
        for k in self.known:
            if signature.startswith(k["signature"]):
                if k["signature"] not in [h["signature"] for h in self.known_hit]:
                    self.known_hit.append(dict(signature=k["signature"], what=k["what"], example=what))
                return False
        self.violations.append(dict(signature=signature, what=what, replay=replay))
        return True

    def finish(self):
        wall = time.time() - self.t0
        nviol = 0
        lines = []
        for h in self.known_hit:
            lines.append("KNOWN-FINDING: property=%s %s" % (self.pid, h["what"]))
        rdir = EVID / "replay"
        if self.violations:
            rdir.mkdir(parents=True, exist_ok=True)
            seen = set()
            for v in self.violations:
                if v["signature"] in seen:
                    continue
                seen.add(v["signature"])
                h = hashlib.sha1(json.dumps(v, sort_keys=True, default=str).encode()).hexdigest()[:10]
                p = rdir / ("%s-%s.json" % (self.pid, h))
                p.write_text(json.dumps(dict(property=self.pid, seed=self.seed, tier=self.tier, **v,
                                             broken_obligations=self.problems), indent=1, default=str))
                lines.append("VIOLATION property=%s replay=%s  (%s)" % (self.pid, p, v["what"][:200]))
                nviol += 1
        elif self.problems:
            rdir.mkdir(parents=True, exist_ok=True)
            h = hashlib.sha1(json.dumps(self.problems, sort_keys=True, default=str).encode()).hexdigest()[:10]
            p = rdir / ("%s-%s.json" % (self.pid, h))
            p.write_text(json.dumps(dict(property=self.pid, seed=self.seed, tier=self.tier,
                                         no_failing_input_found=True,
                                         broken_obligations=self.problems,
                                         note="a proof obligation / correspondence no longer checks; the "
                                              "failing-input search on the real code found nothing"),
                                    indent=1, default=str))
            lines.append("VIOLATION property=%s replay=%s no-failing-input-found" % (self.pid, p))
            nviol += 1
        nob = len(self.obligations)
        ndis = sum(1 for o in self.obligations if o["ok"])
        ev = dict(
            property_id=self.pid, tier=self.tier, seed=self.seed, level="proof",
            coverage=dict(
                obligations=nob, discharged=ndis,
                checker_cmd=self.checker_cmd or "bin/check %s" % self.pid,
                trusted_base=self.trusted,
                theorems=[dict(name=o["name"], ok=o["ok"], axioms=o["axioms"], kind=o["kind"])
                          for o in self.obligations],
                evaluations=self.evals, distinct_nontrivial=self.nontrivial, rule=self.rule,
                traces_validated_against_impl=self.traces,
                samples=self.samples, stats=self.stats,
                broken=self.problems, known_findings_hit=self.known_hit,
            ),
            assumptions=self.assumptions, wall_s=round(wall, 2), violations=nviol)
        EVID.mkdir(exist_ok=True)
        (EVID / ("%s.json" % self.pid)).write_text(json.dumps(ev, indent=1, default=str))
        shutil.rmtree(self.work, ignore_errors=True)
        for ln in lines:
            print(ln, flush=True)
        print("[%s] tier=%s seed=%d obligations=%d discharged=%d evals=%d violations=%d wall=%.1fs" % (
            self.pid, self.tier, self.seed, nob, ndis, self.evals, nviol, wall), flush=True)
        return 1 if nviol else 0


def quiet_dassh():
    """DASSH logs warnings/errors through `logging`; keep the check output readable
    (errors still raise SystemExit, which is what the checks look at)."""
    import logging
    lg = logging.getLogger('dassh')
    lg.addHandler(logging.NullHandler())
    lg.propagate = False
    import warnings
    warnings.filterwarnings("ignore", category=RuntimeWarning)


quiet_dassh()
