"""Regenerate every Gen file (used by bin/setup so that a fresh checkout builds)."""
import importlib
import pkgutil
import random
import sys
import traceback

from harness.common import Ctx
import harness.checks as checks


def main():
    bad = 0
    for m in sorted(x.name for x in pkgutil.iter_modules(checks.__path__)):
        mod = importlib.import_module("harness.checks." + m)
        if hasattr(mod, "generate"):
            ctx = Ctx(m.upper(), "quick", 0)
            try:
                mod.generate(ctx)
            except Exception:
                traceback.print_exc()
                bad += 1
            import shutil
            shutil.rmtree(ctx.work, ignore_errors=True)
    return 1 if bad else 0


if __name__ == "__main__":
    sys.exit(main())
