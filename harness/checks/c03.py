"""C03 - power deposited over the sweep equals the power assigned.

T3: per-cell renormalisation / scaling model (lean/Dassh/Model/Power.lean) with
theorems in Props/C03.lean; correspondence against real AssemblyPower objects
(presweep_setup renormalisation factors and the power delivered per cell);
oracle: real reactors, delivered power vs an independent exact (rational)
integration of the CSV polynomials, aligned and unaligned bundle bounds,
normalisation on/off, scaling factors, several step sizes; temperature-rise
linearity in the power for constant properties.
"""
import os
import random
from fractions import Fraction

import numpy as np

from harness import gen_input as gi
from harness import modelio
from harness.checks.c10 import bits, unbits


def exact_power(case):
    tot = {}
    for r in case['power']['rows']:
        a, zlo, zhi = int(r[0]), r[2], r[3]
        dz = Fraction(repr(float(zhi))) - Fraction(repr(float(zlo)))
        s = Fraction(0)
        for k, c in enumerate(r[5:]):
            s += Fraction(repr(float(c))) * (Fraction(1, 2) ** (k + 1) - Fraction(-1, 2) ** (k + 1)) / (k + 1)
        tot[a] = tot.get(a, 0) + s * dz
    return tot


def make_case(rng, aligned, n_core_rings=1, near=False):
    pos = gi.core_positions(n_core_rings)
    if n_core_rings > 1:
        pos = [p for p in pos if rng.random() < 0.5] or pos[:1]
    case = gi.random_case(rng, positions=pos, n_types=1, gap_model=rng.choice(['none', 'flow']),
                          length=round(rng.uniform(0.2, 0.6), 3), with_power=False, flow_range=(1.5, 6))
    has_regions = rng.random() < 0.7 or near
    if has_regions:
        gi.add_axial_regions(rng, case, 't0', lower=rng.random() < 0.8, upper=rng.random() < 0.8)
    nt = rng.choice([1, 2, 3])
    gi.random_power(rng, case, n_terms=nt, zero_cells=rng.random() < 0.3,
                    components=rng.choice([("pins", "duct", "cool"), ("pins",), ("pins", "cool")]),
                    per_asm_mesh=len(pos) > 1 and rng.random() < 0.7)      # assemblies need not share one axial power mesh
    if aligned and has_regions:
        regs = case['types']['t0']['AxialRegion']
        L = case['core']['length']
        zb = sorted(set([0.0, L] + [r['z_hi'] for r in regs if r['name'] == 'lower'] + [r['z_lo'] for r in regs if r['name'] == 'upper']))
        if rng.random() < 0.5 and len(zb) > 2:
            zb = sorted(set(zb + [round((zb[1] + zb[2]) / 2, 4)]))
        rows = []
        comps = sorted(set(int(r[1]) for r in case['power']['rows']))
        t = case['types']['t0']
        for asm in case['assignment']:
            a = gi.position_index(asm['ring'], asm['pos'])
            for comp in comps:
                n = {1: gi.n_pins(t['num_rings']), 2: gi.n_duct_cells(t['num_rings']) * (len(t['duct_ftf']) // 2),
                     3: gi.n_sc(t['num_rings'])}[comp]
                sc = 1.0 if comp == 1 else 0.01
                rows += gi.poly_rows(a, comp, zb, n, lambda k, i: [rng.uniform(1e3, 2e4) * sc] + [rng.uniform(-300, 300) * sc
                                                                                                   for _ in range(nt - 1)])
        case['power'] = dict(rows=rows, n_terms=nt, zbnds=zb, total_power=None, scaling=1.0)
    if has_regions and not aligned and (near or rng.random() < 0.2):
        # a bundle bound a fraction of a millimetre away from a power-cell boundary: two planes closer than one step
        regs = case['types']['t0']['AxialRegion']
        zb = [z for z in case['power']['zbnds'][1:-1]]
        if zb and regs:
            reg = rng.choice(regs)
            key = 'z_hi' if reg['name'] == 'lower' else 'z_lo'
            cand = [z for z in zb if 0.05 * case['core']['length'] < z < 0.95 * case['core']['length']]
            if cand:
                znew = round(rng.choice(cand) + rng.choice([-1, 1]) * rng.uniform(1e-4, 9e-4), 6)
                lo_ok = all(r['z_hi'] < znew for r in regs if r is not reg and r['name'] == 'lower')
                hi_ok = all(r['z_lo'] > znew for r in regs if r is not reg and r['name'] == 'upper')
                if lo_ok and hi_ok and 0 < znew < case['core']['length']:
                    reg[key] = znew
    if rng.random() < 0.35:
        # the rows of the file are labelled: writing them in another order describes the same power
        case['power']['row_order'] = rng.choice(['item-major', 'cell-reversed', 'shuffled'])
        case['power']['row_seed'] = rng.randrange(10 ** 6)
    if rng.random() < 0.5:
        case['power']['total_power'] = round(rng.uniform(1e4, 5e5), 1)
    if rng.random() < 0.4:
        case['power']['scaling'] = round(rng.uniform(0.2, 1.5), 3)
    if rng.random() < 0.5:
        case['setup']['axial_mesh_size'] = rng.choice([0.0005, 0.002, 0.0037])
    return case


def oracle(ctx, rng, n):
    reqs, expect = [], []
    for ci in range(n):
        near = ci % 3 == 1
        aligned = rng.random() < 0.4 and not near
        case = make_case(rng, aligned, rng.choice([1, 1, 2]), near=near)
        if near:
            ctx.count("near_plane_cases")
        d = str(ctx.work / ("p%d" % ci))
        try:
            inp, r = gi.build_reactor(case, d)
            gi.sweep(r)
        except SystemExit:
            ctx.count("rejected")
            continue
        ctx.evals += 1
        ctx.count("aligned" if aligned else "unaligned")
        ctx.count("row_order:%s" % (case['power'].get('row_order') or 'canonical'))
        ex = exact_power(case)
        ptot_ex = float(sum(ex.values()))
        factor = 1.0
        if case['power'].get('total_power') is not None:
            factor = case['power']['total_power'] / ptot_ex
        factor *= case['power'].get('scaling', 1.0)
        core_delivered = 0.0
        for asm, a in zip(case['assignment'], r.assemblies):
            aid = gi.position_index(asm['ring'], asm['pos'])
            dl = sum(float(v) for v in a._power_delivered.values())
            want = float(ex[aid]) * factor
            core_delivered += dl
            if abs(dl - want) > 1e-9 * max(abs(want), 1.0):
                ctx.violation("c03-delivered:%s" % ("aligned" if aligned else "unaligned-bundle-bounds"),
                              "assembly %d: %.9g W deposited during the sweep, %.9g W assigned (rel %.3g)"
                              % (a.id, dl, want, (dl - want) / want), case=case, aligned=aligned)
                break
            if abs(float(a.total_power) - want) > 1e-9 * max(abs(want), 1.0):
                ctx.violation("c03-total-power", "assembly %d: total_power attribute %.9g differs from the integral of its "
                              "profile %.9g" % (a.id, a.total_power, want), case=case)
                break
        want_core = ptot_ex * factor
        if abs(float(r.total_power) - want_core) > 1e-9 * want_core:
            ctx.violation("c03-core-total", "Reactor.total_power %.9g differs from requested power x scaling %.9g"
                          % (r.total_power, want_core), case=case)
        if ci % 3 == 2:
            # the same input and power files read and swept a SECOND time in the same process (next time point, orificing
            # iteration): the power deposited is again the power the files assign
            import os
            import dassh
            try:
                inp_b = dassh.DASSH_Input(os.path.join(d, "input.txt"))
                r_b = dassh.Reactor(inp_b, path=d, write_output=False)
                gi.sweep(r_b)
                ctx.count("second_run_same_files")
                for asm, a in zip(case['assignment'], r_b.assemblies):
                    aid = gi.position_index(asm['ring'], asm['pos'])
                    dl = sum(float(v) for v in a._power_delivered.values())
                    want = float(ex[aid]) * factor
                    if abs(dl - want) > 1e-9 * max(abs(want), 1.0):
                        ctx.violation("c03-delivered:second-run-same-files",
                                      "second run of the same input and power files in one process: assembly %d gets %.9g W, the files "
                                      "assign %.9g W (rel %.3g; power scaling factor %s, total_power %s)"
                                      % (a.id, dl, want, (dl - want) / want, case['power'].get('scaling'), case['power'].get('total_power')),
                                      case=case, sequence=["read + sweep", "read + sweep again (same files)"])
                        break
            except SystemExit:
                ctx.count("second_run_rejected")
        # per-cell correspondence with the model on the first assembly
        a = r.assemblies[0]
        P = a.power
        if any(x is not None for x in (P.pin_power, P.coolant_power, P.duct_power)):
            for kf in range(P.n_region):
                sel = np.where(P._kfint == kf)[0]
                if sel.size == 0:
                    continue
                steps = []
                for j in sel:
                    z = P._z_abs[j]
                    inb = not (z <= P.rod_zbnds[0] or z > P.rod_zbnds[1])
                    zexp = np.power(P._z_mod[j], np.arange(P.n_terms))
                    p = 0.0
                    for arr in (P.pin_power, P.coolant_power, P.duct_power):
                        if arr is not None:
                            p += float(np.sum(np.dot(arr[kf], zexp)))
                    steps.append((float(r.dz[j]) * 100, p, 1.0 if inb else 0.0))
                cl = float(P.z_finemesh[kf + 1] - P.z_finemesh[kf])
                reqs.append("power 1 %d %d | %s" % (bits(float(P.avg_power[kf])), bits(cl),
                                                    " ".join("%d %d %d" % (bits(x), bits(y), bits(w)) for x, y, w in steps)))
                expect.append((float(P._renorm[kf]), kf, ci, any(s[2] for s in steps)))
        if ci < 3:
            ctx.sample(dict(kind="reactor", aligned=aligned, steps=len(r.z) - 1, total_power=case['power'].get('total_power'),
                            scaling=case['power'].get('scaling'), n_terms=case['power']['n_terms']))
        import shutil
        shutil.rmtree(d, ignore_errors=True)
    if reqs and modelio.build_driver(ctx):
        bad = 0
        for rep, (rn, kf, ci, anyin) in zip(modelio.ask(reqs), expect):
            got = unbits(rep.split()[1])
            if anyin and abs(got - rn) > 1e-9 * max(abs(rn), 1.0):
                bad += 1
                if bad == 1:
                    ctx.problem("correspondence", "Model.Power.renorm vs AssemblyPower.presweep_setup",
                                "case %d cell %d: model %.12g implementation %.12g" % (ci, kf, got, rn))
        ctx.obligation("correspondence: Model.Power.renorm = AssemblyPower._renorm on %d power cells" % len(reqs), bad == 0,
                       kind="correspondence", detail="disagreements %d" % bad)


def linearity(ctx, rng, n):
    """constant properties: scaling the power by s scales every temperature rise by s"""
    for ci in range(n):
        seed = rng.getrandbits(32)
        s = rng.choice([0.5, 2.0, 3.0])
        out = []
        for scale in (1.0, s):
            case = make_case(random.Random(seed), True, 1)
            case['power']['total_power'] = None
            case['power']['scaling'] = scale
            # constant-property problem: the duct material too
            case['materials']['duct_fixed'] = dict(thermal_conductivity=24.0, heat_capacity=500.0, density=7800.0)
            for t in case['types'].values():
                t['duct_material'] = 'duct_fixed' 
            d = str(ctx.work / ("l%d" % ci))
            try:
                inp, r = gi.build_reactor(case, d)
                gi.sweep(r)
            except SystemExit:
                out = None
                break
            a = r.assemblies[0]
            out.append((a.active_region.temp['coolant_int'].copy(), a.temp_duct_mw.copy(), float(r.inlet_temp), len(r.z)))
            import shutil
            shutil.rmtree(d, ignore_errors=True)
        if not out or out[0][3] != out[1][3]:
            continue
        ctx.evals += 1
        for k in (0, 1):
            r1 = out[0][k] - out[0][2]
            r2 = out[1][k] - out[1][2]
            dev = np.abs(r2 - s * r1).max() / max(np.abs(r2).max(), 1e-9)
            if dev > 1e-9:
                ctx.violation("c03-nonlinear", "temperature rise does not scale with the power (factor %g, rel dev %.3g)" % (s, dev),
                              case=case)
                return


def rows_correspondence(ctx, rng, n):
    """Model/PowerRows.lean (Props/C03Rows.lean) vs the real power._from_file: labelled rows written in file orders of all kinds;
    the table params[component][axial cell][item] must be the one the model builds (bit for bit) - and, independently, the one the
    labels describe"""
    from dassh import power as dpower
    if not modelio.build_driver(ctx):
        return
    d = ctx.work / "rows"
    os.makedirs(d, exist_ok=True)
    reqs, meta = [], []
    for ci in range(n):
        ncell = rng.choice([1, 2, 2, 3, 4])
        nt = rng.choice([1, 2, 3])
        cuts = sorted(set(round(rng.uniform(0.05, 0.95), 3) for _ in range(ncell - 1)))
        zb = [0.0] + cuts + [1.0]
        comps = rng.choice([(1,), (1, 2, 3), (1, 3), (2, 3)])
        rows = []
        nitems = {}
        for comp in comps:
            nitems[comp] = rng.choice([1, 2, 3, 7])
            rows += gi.poly_rows(1, comp, zb, nitems[comp], lambda k, i: [round(rng.uniform(1.0, 9e3), 3)] +
                                 [round(rng.uniform(-50, 50), 3) for _ in range(nt - 1)])
        if len(rows) < 2:
            continue        # np.loadtxt gives a 1-D array for a one-line file; no DASSH assembly has a single power row
        order = rng.choice([None, 'item-major', 'cell-reversed', 'shuffled', 'shuffled'])
        written = gi.ordered_rows(rows, order, ci)
        path = str(d / ("p%d.csv" % ci))
        with open(path, "w") as f:
            f.write(gi.render_power(dict(power=dict(rows=written))))
        try:
            got = dict(dpower._from_file(path))[1.0]
        except SystemExit:
            ctx.count("rows:rejected")
            continue
        ctx.evals += 1
        ctx.count("rows:%s" % (order or 'canonical'))
        for comp in comps:
            cname = ['pins', 'duct', 'cool'][comp - 1]
            mine = [r for r in written if r[1] == comp]
            # what the labels describe, in the reader's internal units (cm, W/cm)
            want = {}
            for r in mine:
                want[(zb.index(r[2]), int(r[4]) - 1)] = [float(c) / 100 for c in r[5:]]
            arr = np.asarray(got[cname], dtype=float)
            wrong = [(k, i) for (k, i), cs in want.items() if arr.shape[:2] != (len(zb) - 1, nitems[comp]) or list(arr[k, i]) != cs]
            if wrong:
                k, i = wrong[0]
                ctx.violation("c03-rows-misassigned:%s" % (order or 'canonical'),
                              "power file with %s row order: the %s row labelled axial cell %d, item %d (%r W/cm) is used for another "
                              "cell/item (the table holds %r there); %d of %d entries are wrong"
                              % (order or 'canonical', cname, k + 1, i + 1, want[(k, i)],
                                 list(arr[k, i]) if arr.shape[:2] == (len(zb) - 1, nitems[comp]) else arr.shape, len(wrong), len(want)),
                              csv=open(path).read(), call="dassh.power._from_file(<csv>)")
            reqs.append("prows %d %d | %s" % (nitems[comp], nt, " ".join(
                "%d %d %s" % (bits(float(r[2]) * 100.0), int(r[4]), " ".join(str(bits(float(c) / 100)) for c in r[5:])) for r in mine)))
            meta.append((path, cname, arr))
    bad = 0
    for rep, (path, cname, arr) in zip(modelio.ask(reqs) if reqs else [], meta):
        flat = " | ".join(" ; ".join(" ".join(str(bits(float(c))) for c in item) for item in cell) for cell in arr)
        if rep != "ok " + flat:
            bad += 1
            ctx.problem("correspondence", "Model.PowerRows.table vs power._from_file", "%s %s: model %s, real %s"
                        % (path, cname, rep[:200], flat[:200]))
    ctx.obligation("correspondence: Model.PowerRows.table = the table built by power._from_file on %d labelled row sets in canonical, "
                   "item-major, reversed and shuffled file order" % len(reqs), bad == 0, kind="correspondence",
                   detail="disagreements %d" % bad)


def integral_correspondence(ctx, rng, n):
    """Model/PowerIntegral.lean (Props/C03Integral.lean: the closed form IS the integral of the item polynomials) vs the real
    power._integrate on random coefficient arrays (1-3 components, 1-9 items, 1-5 terms)"""
    from dassh import power as dpower
    if not modelio.build_driver(ctx):
        return
    reqs, want = [], []
    for _ in range(n):
        nt = rng.randint(1, 5)
        comps = []
        for c in range(3):
            if rng.random() < 0.7 or (c == 2 and not comps):
                comps.append(np.array([[[rng.uniform(-50, 50) if j else rng.uniform(1.0, 9e3) for j in range(nt)]
                                        for _i in range(rng.randint(1, 9))]]))
            else:
                comps.append(None)
        got = dpower._integrate(comps[0], comps[1], comps[2], nt)
        flat = [float(v) for c in comps if c is not None for item in c[0] for v in item]
        reqs.append("pint %d | %s" % (nt, " ".join(str(bits(v)) for v in flat)))
        want.append(float(np.ravel(got)[0]))
        ctx.evals += 1
    bad, worst = 0, 0.0
    for rep, w in zip(modelio.ask(reqs), want):
        parts = rep.split()
        m = unbits(int(parts[1])) if parts[0] == "ok" else float('nan')
        dev = abs(m - w) / max(abs(w), 1.0)
        worst = max(worst, dev if dev == dev else 1.0)
        if not (dev <= 1e-12):
            bad += 1
            if bad == 1:
                ctx.problem("correspondence", "Model.PowerIntegral.cellAverage vs power._integrate", "model %r, real %r (%s)" % (m, w, rep[:80]))
    ctx.obligation("correspondence: Model.PowerIntegral.cellAverage = power._integrate on %d coefficient arrays (max rel dev %.2g)"
                   % (len(reqs), worst), bad == 0, kind="correspondence", detail="disagreements %d" % bad)


def run(ctx):
    rng = random.Random(3300 + ctx.seed)
    ctx.rule = ("oracle: real reactors with user power (1-4 axial cells, polynomial order 0-2, missing components, zero cells), "
                "bundle bounds aligned / not aligned with the power mesh, normalisation on/off, scaling, several step sizes; "
                "delivered power vs exact rational integration of the CSV")
    ctx.prove("Dassh.Props.C03")
    ctx.prove("Dassh.Props.C03Rows")
    rows_correspondence(ctx, rng, 200 if ctx.thorough else 40)
    ctx.prove("Dassh.Props.C03Integral")
    integral_correspondence(ctx, rng, 400 if ctx.thorough else 100)
    oracle(ctx, rng, 60 if ctx.thorough else 14)
    linearity(ctx, rng, 10 if ctx.thorough else 3)
    ctx.nontrivial = ctx.evals
    ctx.traces = ctx.evals
    ctx.trusted += ["hand model lean/Dassh/Model/Power.lean tied to presweep_setup by per-cell correspondence"]
    ctx.assumptions += ["no clipping: renormalised samples are non-negative; the in-bundle midpoint sum of a cell is non-zero",
                        "binary-flux (VARPOW) power is not exercised: the data sets in the repository are empty placeholders "
                        "in this sandbox"]
