"""C10 - duct <-> gap mesh mapping positive, exact on constants, conservative.

T3: hand model lean/Dassh/Model/Mesh.lean (overlap matrix, normalisations, top
corner fold) with theorems in Props/C10.lean; correspondence against the real
`mesh_functions._map_asm2gap` on generated mesh pairs (doubles exchanged as bit
patterns, compared to 1e-12); oracle: the property's four clauses evaluated on the
real matrices, both generated pairs and the ones real reactors store.
"""
import math
import random
import struct

import numpy as np

from harness import gen_input as gi
from harness import modelio


def bits(x):
    return struct.unpack("<Q", struct.pack("<d", float(x)))[0]


def unbits(n):
    return struct.unpack("<d", struct.pack("<Q", int(n)))[0]


def region_xbnds(S, n_cells_side, rng=None, corner=None):
    """boundaries as RoddedRegion.calculate_xbnds builds them: n_cells_side edge cells of
    equal length per hex side plus corner cells; first entry 0 = centre of top corner."""
    if n_cells_side == 0:
        # unrodded: only corners
        return S * np.array([0, 0.5, 1.5, 2.5, 3.5, 4.5, 5.5, 6.0])
    if corner is None:
        corner = S * rng.uniform(0.02, 0.3) / 2
    p = (S - 2 * corner) / n_cells_side
    dx = []
    for side in range(6):
        dx += [p] * n_cells_side + [2 * corner]
    # roll by one so that the walk starts with the top corner, as calculate_xbnds does
    dx = [dx[-1]] + dx[:-1]
    xb = np.zeros(len(dx) + 2)
    xb[1:-1] = np.cumsum(dx) - corner
    xb[-1] = 6 * S
    return xb


def gap_xbnds(S, per_side, pad):
    """Core._calculate_gap_xbnds format: positive boundaries, zero padded.
    per_side: list of 6 (n_cells, corner half length)"""
    out = []
    for side, (n, dwc) in enumerate(per_side):
        x = S * side + dwc
        out.append(x)
        pp = (S - 2 * dwc) / n if n else 0.0
        for _ in range(n):
            x = x + pp
            out.append(x)
    arr = np.zeros(len(out) + pad)
    arr[:len(out)] = out
    return arr


def gen_pair(rng):
    S = rng.uniform(0.03, 0.12)
    a = rng.choice([0, 1, 1, 2, 3, 5, 8, 14])
    xr = region_xbnds(S, a, rng)
    same = rng.random() < 0.15
    per_side = []
    for side in range(6):
        if same and a > 0:
            per_side.append((a, (xr[1] - xr[0])))
        else:
            n = rng.choice([1, 2, 3, 4, 6, 9, 15]) if rng.random() < 0.7 else (a or 1)
            per_side.append((n, S * rng.uniform(0.02, 0.3) / 2))
    if rng.random() < 0.5:      # all sides from one neighbour type
        per_side = [per_side[0]] * 6
    xc = gap_xbnds(S, per_side, pad=rng.choice([0, 0, 3]))
    return xr, xc, dict(S=S, region_cells_per_side=a, gap_per_side=per_side)


def processed_gap(xr, xc):
    tmp = np.zeros(np.count_nonzero(xc) + 2)
    tmp[1:-1] = xc[xc > 0]
    tmp[-1] = xr[-1]
    return tmp


def check_matrix_properties(ctx, f2c, c2f, xr, xc, info):
    """the four clauses of the property on real matrices; returns a string or None"""
    nfine = int(np.count_nonzero(xc)) + 1 - 1   # number of gap cells around the assembly
    xcp = processed_gap(xr, xc)
    dr = xr[1:] - xr[:-1]
    dc = xcp[1:] - xcp[:-1]
    # perimeter weights of the final cells (top corner = first + last interval)
    wr = np.append(dr[1:-1], dr[-1] + dr[0])
    wc = np.append(dc[1:-1], dc[-1] + dc[0])
    nc = wc.shape[0]
    F = f2c[:, :nc]
    C = c2f[:nc, :]
    if f2c[:, nc:].any() or c2f[nc:, :].any():
        return "padding: weights outside the gap cells of this assembly are not zero"
    if F.min() < -1e-13 or C.min() < -1e-13:
        return "sign: negative mapping weight %.3g" % min(F.min(), C.min())
    if np.abs(F.sum(axis=1) - 1).max() > 1e-10 or np.abs(C.sum(axis=1) - 1).max() > 1e-10:
        return "constants: rows do not sum to one (%.3g)" % max(np.abs(F.sum(axis=1) - 1).max(), np.abs(C.sum(axis=1) - 1).max())
    # conservation, both directions, for random fields
    rs = np.random.RandomState(7)
    x = rs.uniform(300, 900, nc)
    y = rs.uniform(300, 900, wr.shape[0])
    e1 = abs(np.dot(wr, F @ x) - np.dot(wc, x)) / abs(np.dot(wc, x))
    e2 = abs(np.dot(wc, C @ y) - np.dot(wr, y)) / abs(np.dot(wr, y))
    if max(e1, e2) > 1e-10:
        return "conservation: perimeter-weighted integral changes by %.3g" % max(e1, e2)
    if xcp.shape == xr.shape and np.allclose(xcp, xr):
        if np.abs(F - np.eye(nc)).max() > 1e-9 or np.abs(C - np.eye(nc)).max() > 1e-9:
            return "identity: coinciding meshes do not give the identity"
    return None


def gen_xbnds(ctx):
    """T1: the real RoddedRegion.calculate_xbnds (the duct-cell boundaries the duct<->gap maps are built on) is executed
    symbolically on real 7- and 19-pin bundles with one, two and three ducts; the corner lengths it reads are atoms that the
    generated theorems replace by the traced `calculate_geometry` formulas of Gen/C08Geo.  Theorem per bundle: the walk closes -
    the last (closing) half corner equals the first (opening) half corner, and that is the corner half-length on the OUTER
    face of the OUTERMOST duct; every cell between them is one pin pitch or one whole corner of that face.  So the duct mesh
    tiles the perimeter 6 F_outer / sqrt 3 that the gap mesh is built on."""
    import re
    import dassh.region_rodded as RR
    from harness import bundle_trace as bt
    from harness.checks import c08
    from harness.trace import Trace, rebind, to_lean, symarray, Sym
    c08.gen_geometry(ctx)                      # Gen/C08Geo.lean as of the current source
    geo = " ".join(c08.GEO_PARAMS)
    L = ["-- GENERATED by /verif/harness (C10, duct-cell boundaries): traced from dassh.region_rodded.RoddedRegion.calculate_xbnds.",
         "import Dassh.Gen.C08Geo", "import Mathlib.Algebra.Order.Field.Basic", "import Mathlib.Tactic.FieldSimp", "import Mathlib.Tactic.Ring",
         "import Mathlib.Tactic.LinearCombination", "",
         "namespace Dassh.Gen.C10X", "", "variable {K : Type} [Field K] [LinearOrder K] [IsStrictOrderedRing K]", "",
         "set_option linter.unusedVariables false", ""]
    names = []
    rng = random.Random(10100)
    fix = lambda t: re.sub(r"\((\d+) : α\)", r"(\1 : K)", t)
    for n_ring in (2, 3):
        for nd in (1, 2, 3):
            tag = "n%dd%d" % (n_ring, nd)
            try:
                o0, rr, tr0 = bt.sym_region(rng, n_ring, nd)
                tr = Trace()

                class Fake:
                    pass
                o = Fake()
                o.subchannel = rr.subchannel
                o.pin_pitch = tr.var("P", float(rr.pin_pitch))
                o.d = {'wcorner': symarray(tr, "wc", rr.d['wcorner'])}
                o.duct_ftf = [[tr.var("F%di" % k, float(rr.duct_ftf[k][0])), tr.var("F%do" % k, float(rr.duct_ftf[k][1]))] for k in range(nd)]
                xb = rebind(RR.RoddedRegion.calculate_xbnds, tr)(o)
                real = rr.calculate_xbnds()
            except Exception:
                import traceback
                ctx.problem("trace-failed", "c10 xbnds " + tag, traceback.format_exc()[-800:])
                continue
            xb = [x if isinstance(x, Sym) else tr.const(x) for x in xb]
            dev = max(abs(x.val - float(r)) for x, r in zip(xb, real))
            ctx.obligation("xbnds trace %s reproduces the real boundaries (max dev %.2e)" % (tag, dev), dev < 1e-12, kind="translator-validation")
            typ = np.roll(rr.subchannel.type[-rr.subchannel.n_sc['duct']['total']:] - 3, 1)
            typ = typ[:len(xb) - 2]          # cells of the walk (one duct ring)
            wc = "wc_%d_1" % (nd - 1)
            fo = "F%do" % (nd - 1)
            lean = lambda e: fix(to_lean(e))
            atoms = ["wc_%d_%d" % (k, j) for k in range(nd) for j in range(2)] + [x for k in range(nd) for x in ("F%di" % k, "F%do" % k)]
            cells = []
            for i in range(1, len(xb) - 2):
                want = "P" if typ[i] == 0 else "(2 : K) * " + wc
                cells.append("%s = %s" % (lean(xb[i + 1] - xb[i]), want))
            nm = "xbnds_" + tag
            geocall = "Dassh.Gen.C08Geo.%s sqrtF (%d : K) P D Pw Dw F0i F0o F1i F1o F2i F2o s3 pi" % (wc, n_ring)
            extra = [g for g in c08.GEO_PARAMS[1:] if g not in atoms and g != "P"]
            L.append("/-- %d-ring bundle, %d duct(s): %d duct cells on the outer duct -/" % (n_ring, nd, len(xb) - 1))
            L.append("theorem %s (sqrtF : K → K) (P %s %s : K) (hs3 : s3 * s3 = 3)\n    (hw : %s = %s) :\n    %s = %s\n    ∧ %s = %s\n    ∧ %s := by"
                     % (nm, " ".join(atoms), " ".join(extra), wc, geocall, lean(xb[1] - xb[0]), wc, lean(xb[-1] - xb[-2]), wc, "\n    ∧ ".join(cells)))
            L.append("  have hs : s3 ≠ 0 := by\n    intro h; rw [h] at hs3; norm_num at hs3")
            L.append("  have h2 : s3 ^ 2 = 3 := by rw [pow_two]; exact hs3")
            L.append("  have key : (6 : K) / s3 * %s = 6 * ((%d : K) - 1) * P + 12 * %s := by" % (fo, n_ring, wc))
            L.append("    rw [hw]; simp only [gen_defs]; field_simp; ring_nf")
            L.append("    try simp only [h2, show s3 ^ 3 = s3 ^ 2 * s3 by ring, show s3 ^ 4 = s3 ^ 2 * s3 ^ 2 by ring]\n    try ring")
            L.append("  refine ⟨by ring, by linear_combination key, %s⟩\n" % ", ".join("by ring" for _ in cells))
            names.append("Dassh.Gen.C10X." + nm)
            ctx.count("xbnds_bundles_traced")
    L.append("end Dassh.Gen.C10X\n")
    ctx.gen("C10X", "\n".join(L))
    return names


def generate(ctx):
    gen_xbnds(ctx)


def run(ctx):
    from dassh import mesh_functions as MF
    rng = random.Random(10000 + ctx.seed)
    ctx.rule = ("T3: generated (region mesh, gap mesh) pairs: 0..15 cells per side against 1..15, unequal corner lengths, "
                "per-side mixed neighbours, corner-only regions, zero padding; plus the matrices real reactors store")
    try:
        gen_xbnds(ctx)
    except Exception:
        import traceback
        ctx.problem("trace-failed", "c10 xbnds tracer", traceback.format_exc()[-1500:])
    ctx.prove("Dassh.Props.C10", also=["Dassh.Gen.C10X"])
    ok_driver = modelio.build_driver(ctx)
    n = 1500 if ctx.thorough else 250
    pairs = [gen_pair(rng) for _ in range(n)]
    reqs = []
    for xr, xc, info in pairs:
        xcp = processed_gap(xr, xc)
        reqs.append("f2c %s | %s" % (" ".join(str(bits(v)) for v in xr), " ".join(str(bits(v)) for v in xcp)))
        reqs.append("c2f %s | %s" % (" ".join(str(bits(v)) for v in xr), " ".join(str(bits(v)) for v in xcp)))
    model = modelio.ask(reqs) if ok_driver else None
    disagree = 0
    worst = 0.0
    for k, (xr, xc, info) in enumerate(pairs):
        f2c, c2f = MF._map_asm2gap(xr, xc)
        ctx.evals += 1
        why = check_matrix_properties(ctx, f2c, c2f, xr, xc, info)
        if why:
            ctx.violation("c10-" + why.split(":")[0], "mapping between duct and gap mesh: " + why,
                          xb_reg=list(map(float, xr)), xb_core=list(map(float, xc)), info=info)
        if model is not None:
            for rep, real in ((model[2 * k], f2c), (model[2 * k + 1], c2f)):
                parts = rep.split()
                if parts[0] != "ok":
                    disagree += 1
                    continue
                nr, ncol = int(parts[1]), int(parts[2])
                m = np.array([unbits(v) for v in parts[3:]]).reshape(nr, ncol) if nr * ncol else np.zeros((0, 0))
                realt = real[:nr, :ncol] if real.shape[0] >= nr and real.shape[1] >= ncol else None
                if realt is None or real.shape[0] < nr:
                    disagree += 1
                    continue
                # the real matrix is zero padded to the gap table width
                dev = np.abs(m - realt).max() if m.size else 0.0
                worst = max(worst, float(dev))
                if dev > 1e-11 or np.abs(real).sum() - np.abs(realt).sum() > 1e-12:
                    disagree += 1
                    if disagree == 1:
                        ctx.problem("correspondence", "Model.Mesh.f2c/c2f vs mesh_functions._map_asm2gap",
                                    "max deviation %.3g for %s" % (dev, info))
        if k < 3:
            ctx.sample(dict(kind="mesh-pair", **info))
    if model is not None:
        ctx.obligation("correspondence: Model.Mesh = _map_asm2gap on %d generated mesh pairs (max dev %.2g)" % (n, worst),
                       disagree == 0, kind="correspondence", detail="disagreements: %d" % disagree)
    # matrices stored by real reactors
    for ci in range(12 if ctx.thorough else 4):
        pos = [p for p in gi.core_positions(2) if rng.random() < 0.8] or [(1, 1)]
        case = gi.random_case(rng, positions=pos, n_types=2, gap_model='flow', length=0.1)
        if ci % 2 == 0:
            # alternating types round the centre: the two hex sides meeting in the top corner see different neighbours
            pos = gi.core_positions(2)
            case = gi.random_case(rng, positions=pos, n_types=2, gap_model='flow', length=0.1)
            names_ = list(case['types'])
            for k_, a_ in enumerate(case['assignment']):
                a_['type'] = names_[0] if (k_ == 0 or k_ % 2 == 0) else names_[1]
        if ci % 2 == 1:
            # assemblies without pins (whole-assembly low-fidelity model): next to the core boundary, an empty position or one another
            # their six wall cells ARE the gap cells - the map between them has to be the identity
            pos = [(1, 1)] + [p_ for p_ in gi.core_positions(2)[1:] if rng.random() < 0.6]
            case = gi.random_case(rng, positions=pos, n_types=2, gap_model='flow', length=0.1)
            names_ = list(case['types'])
            gi.make_low_fidelity(rng, case, names_[1])
            for k_, a_ in enumerate(case['assignment']):
                a_['type'] = names_[1] if (k_ > 0 or rng.random() < 0.5) else names_[0]
        if ci % 4 == 0:
            # a double-ducted type among them (the duct mesh belongs to the outermost duct)
            pos = gi.core_positions(2)
            case = gi.random_case(rng, positions=pos, n_types=2, gap_model='flow', length=0.1, type_kw=dict(n_duct=2))
        for tn in list(case['types']):
            if rng.random() < 0.5 and not case['types'][tn].get('use_low_fidelity_model'):
                gi.add_axial_regions(rng, case, tn)
        gi.random_power(rng, case)
        d = str(ctx.work / ("c%d" % ci))
        try:
            inp, r = gi.build_reactor(case, d)
        except SystemExit:
            continue
        for a_i, a in enumerate(r.assemblies):
            # the perimeter weights the core turns gap-mesh fluxes into heat with ARE the cell lengths of the gap mesh the maps
            # were built on (top corner = its two halves, whatever the neighbours on the first and the last hex side are)
            xc = r.core._asm_sc_xbnds[a_i]
            xcp = processed_gap(a.region[0].calculate_xbnds(), xc)
            dc = xcp[1:] - xcp[:-1]
            wc = np.append(dc[1:-1], dc[-1] + dc[0])
            wp = np.asarray(r.core.gap_params['asm wp'][a_i], dtype=float)[:wc.shape[0]]
            ctx.count("reactor_gap_weights")
            if wp.shape != wc.shape or np.abs(wp - wc).max() > 1e-12 * wc.max():
                k_ = int(np.argmax(np.abs(wp - wc))) if wp.shape == wc.shape else -1
                ctx.violation("c10-reactor-gap-weights", "assembly %d: the core weights gap cell %d with %.9g m of perimeter, the gap mesh "
                              "its duct/gap maps were built on gives it %.9g m: a flux mapped from the duct to the gap no longer carries "
                              "the same heat" % (a_i, k_, wp[k_] if k_ >= 0 else float('nan'), wc[k_] if k_ >= 0 else float('nan')),
                              case=case, asm=a_i)
                break
            # an assembly without pins whose six neighbours are absent or without pins, too: duct cells and gap cells coincide
            nbr_ = [int(x) - 1 for x in np.array(r.core.asm_adj)[a_i][:6]]
            if not a.has_rodded and all(n_ < 0 or not r.assemblies[n_].has_rodded for n_ in nbr_):      # (asm_adj counts existing assemblies)
                xr0 = a.region[0].calculate_xbnds()
                xcp0 = processed_gap(xr0, xc)
                ctx.count("reactor_unrodded_coincident_meshes")
                if xcp0.shape != xr0.shape or np.abs(xcp0 - xr0).max() > 1e-12 * xr0[-1]:
                    ctx.violation("c10-reactor-unrodded-mesh", "assembly %d has no pins and no neighbour with pins: its six wall cells are the gap "
                                  "cells, but the gap mesh round it has its boundaries at %s, the wall cells at %s - the duct/gap map is not "
                                  "the identity" % (a_i, np.round(xcp0, 6).tolist(), np.round(xr0, 6).tolist()), case=case, asm=a_i)
                    break
            for reg in a.region:
                xr = reg.calculate_xbnds()
                ctx.evals += 1
                # the duct mesh itself: the walk starts at 0, ends on the perimeter of the outer face of the outermost duct (from the
                # input dimensions), has the same cell lengths on all six hex sides, and the closing half of the split top corner
                # equals the opening half
                ftf_ = np.asarray(reg.duct_ftf, dtype=float).ravel()
                perim_ = 6.0 * float(ftf_.max()) / math.sqrt(3.0)
                dx_ = np.diff(np.asarray(xr, dtype=float))
                ctx.count("reactor_duct_meshes:%d-duct" % (len(ftf_) // 2))
                why_ = None
                if abs(xr[0]) > 1e-12 or abs(xr[-1] - perim_) > 1e-10 * perim_:
                    why_ = "the walk runs from %.9g to %.9g m, the outer duct perimeter is %.9g m" % (xr[0], xr[-1], perim_)
                elif abs(dx_[-1] - dx_[0]) > 1e-10 * perim_:
                    why_ = ("the closing half of the top corner cell is %.9g m long, the opening half %.9g m: the cells do not tile "
                            "the perimeter" % (dx_[-1], dx_[0]))
                elif (len(dx_) - 1) % 6 == 0:
                    side_ = np.append(dx_[1:-1], dx_[-1] + dx_[0]).reshape(6, -1)
                    if np.abs(side_ - side_[0]).max() > 1e-10 * perim_:
                        why_ = "the duct cells of the six hex sides differ in length"
                if why_:
                    ctx.violation("c10-reactor-duct-mesh", "duct-cell boundaries of a real %d-duct region (%s): %s - a flux computed on this "
                                  "mesh does not carry the same total heat on the gap mesh" % (len(ftf_) // 2, type(reg).__name__, why_),
                                  case=case, asm=a_i, region=type(reg).__name__)
                    break
                why = check_matrix_properties(ctx, reg._map['gap2duct'], reg._map['duct2gap'], xr, xc, {})
                if why:
                    ctx.violation("c10-reactor-" + why.split(":")[0], "stored duct/gap map of a real reactor: " + why, case=case,
                                  asm=a_i, region=type(reg).__name__)
        ctx.count("reactor_maps", sum(len(a.region) for a in r.assemblies))
        import shutil
        shutil.rmtree(d, ignore_errors=True)
    ctx.stats["model_vs_impl_max_dev"] = worst
    ctx.nontrivial = ctx.evals
    ctx.traces = ctx.evals
    ctx.trusted += ["hand-written model lean/Dassh/Model/Mesh.lean tied to _map_asm2gap by differential correspondence (1e-11)"]
    ctx.assumptions += ["the theorems cover the overlap matrix and its two normalisations (non-negativity, rows sum to one, "
                        "column tiling, conservation, identity) and, for the executable fold of the split top corner, that every "
                        "row of the merged map sums to one and the merged-length-weighted integral is conserved (c10_fold_conservative)",
                        "conservation through the corner fold is checked by the oracle also when the two halves of the top "
                        "corner differ (different neighbours on the first and last hex side)"]
