"""C06 - assemblies interact only through duct-wall heat transfer.

Lean: frame / commutation / order-independence / stand-alone theorems about the abstract
core model (lean/Dassh/Model/Heap.lean, Props/C06.lean) whose single hypothesis is that
an assembly step reads and writes only that assembly's own state and reads the gap.
Tie (partial: Python aliasing is observed, not modelled): the mutable objects reachable
from each assembly of a real Reactor are enumerated; assemblies must not share any object
that the sweep mutates (Material objects, arrays, dicts); a write-detector confirms which
objects change during a plane.  Metamorphic oracle: an assembly alone vs in company vs
with the assignment list permuted, adiabatic, temperature-dependent coolant.
"""
import copy
import random

import numpy as np

from harness import gen_input as gi


def mutable_objects(obj, depth=4, seen=None, path="", out=None):
    """ids of mutable objects reachable from obj (Material, ndarray, dict, list) with a path"""
    import dassh
    if seen is None:
        seen, out = set(), {}
    if id(obj) in seen or depth < 0:
        return out
    seen.add(id(obj))
    if isinstance(obj, dassh.Material):
        out[id(obj)] = (path, "Material")
        return out
    if isinstance(obj, np.ndarray):
        out[id(obj)] = (path, "ndarray")
        return out
    if isinstance(obj, dict):
        out[id(obj)] = (path, "dict")
        for k, v in obj.items():
            mutable_objects(v, depth - 1, seen, path + "[%r]" % (k,), out)
        return out
    if isinstance(obj, (list, tuple)):
        if isinstance(obj, list):
            out[id(obj)] = (path, "list")
        for i, v in enumerate(obj[:50]):
            mutable_objects(v, depth - 1, seen, path + "[%d]" % i, out)
        return out
    if hasattr(obj, "__dict__") and type(obj).__module__.startswith("dassh"):
        for k, v in vars(obj).items():
            mutable_objects(v, depth - 1, seen, path + "." + k, out)
    return out


def fingerprint(o):
    import dassh
    if isinstance(o, np.ndarray):
        return o.tobytes() if o.dtype != object else repr(o.tolist())
    if isinstance(o, dassh.Material):
        return repr(sorted((k, repr(v)) for k, v in vars(o).items() if not k.startswith('_data') and k != '_logger'))
    scalar = (int, float, str, bool, type(None), np.floating, np.integer)
    if isinstance(o, dict):
        return repr(sorted((repr(k), repr(v)) for k, v in o.items() if isinstance(v, scalar)))
    if isinstance(o, list):
        return repr([repr(v) for v in o if isinstance(v, scalar)])
    return None


def alias_check(ctx, r, case):
    """objects shared between two assemblies that change during a plane"""
    per_asm = []
    for a in r.assemblies:
        objs = {}
        for reg in a.region:
            objs.update(mutable_objects(reg, path="region[%s]" % type(reg).__name__))
        # the Assembly object's own bookkeeping (peak trackers, power tallies, ...) is per-assembly state as well
        for k, v in vars(a).items():
            if k != 'region':
                objs.update(mutable_objects(v, depth=5, path="assembly." + k))
        per_asm.append(objs)
    # which objects does a plane mutate?  fingerprint before / after one step
    allobjs = {}
    import gc
    byid = {}
    for a in r.assemblies:
        for reg in list(a.region) + [v for k, v in vars(a).items() if k != 'region']:
            stack = [reg]
            seen = set()
            while stack:
                o = stack.pop()
                if id(o) in seen:
                    continue
                seen.add(id(o))
                byid[id(o)] = o
                if isinstance(o, dict):
                    stack.extend(o.values())
                elif isinstance(o, (list, tuple)):
                    stack.extend(o[:50])
                elif hasattr(o, "__dict__") and type(o).__module__.startswith("dassh"):
                    stack.extend(vars(o).values())
    before = {i: fingerprint(o) for i, o in byid.items()}
    r.axial_step0()
    r.axial_step(r.z[1], r.dz[0], 1)
    if len(r.z) > 2:
        r.axial_step(r.z[2], r.dz[1], 2)
    changed = set(i for i, o in byid.items() if before[i] is not None and fingerprint(o) != before[i])
    shared_bad = []
    for i in range(len(per_asm)):
        for j in range(i + 1, len(per_asm)):
            common = set(per_asm[i]) & set(per_asm[j])
            for oid in common:
                if oid in changed:
                    if ".pin_model." in per_asm[i][oid][0]:
                        # scratch conductivity objects of the shared pin model: every use is preceded by an update from the
                        # caller's own temperature (PinModel._fuel_cond); that they do not influence results is confirmed
                        # by the metamorphic comparison of the pin temperatures below
                        ctx.count("shared_update_before_use_objects")
                        continue
                    shared_bad.append((r.assemblies[i].id, r.assemblies[j].id, per_asm[i][oid]))
    ctx.count("objects_examined", len(byid))
    ctx.count("objects_mutated_by_a_plane", len(changed))
    return shared_bad


def sweep_fields(r):
    gi.sweep(r)
    out = {}
    for a in r.assemblies:
        pins = np.array([v[0] for v in a._peak['pin'].values()]) if 'pin' in a._peak else np.zeros(1)
        out[a.id] = (np.concatenate([a.active_region.temp['coolant_int'].ravel(), pins, [float(a.pressure_drop)]]),
                     a.temp_duct_mw.copy(), float(a.pressure_drop))
    return out


def scalar_state(asm):
    """the set-up decisions taken for one assembly: every scalar attribute (switches, step requirements, constants) of the assembly
    and of its regions.  In an adiabatic core they can only depend on the assembly's own input."""
    out = {}
    for tag, obj in [("asm", asm)] + [("region%d" % i, reg) for i, reg in enumerate(asm.region)]:
        for k, v in vars(obj).items():
            if k in ("id", "_id", "name") or isinstance(v, bool) or isinstance(v, (int, float, str, np.floating, np.integer)):
                if k in ("id", "_id", "loc"):
                    continue
                out["%s.%s" % (tag, k)] = v if isinstance(v, (bool, str)) else float(v)
    return out


def oracle(ctx, rng, n):
    for ci in range(n):
        coolant = rng.choice(['sodium', 'sodium', 'nak'])
        pos = [(1, 1)] + [p for p in gi.core_positions(2)[1:] if rng.random() < 0.6]
        forced = {}
        if ci % 3 == 0:
            # every third core: several clones of ONE double-ducted type (bypass gap state is per assembly, too)
            forced = dict(type_kw=dict(n_duct=2, n_ring=rng.choice([2, 3])))
            while len(pos) < 3:
                pos = [(1, 1)] + [p for p in gi.core_positions(2)[1:] if rng.random() < 0.6]
        base = gi.random_case(rng, positions=pos, n_types=1 if forced else rng.choice([1, 1, 2]), gap_model='none', const_props=False,
                              length=round(rng.uniform(0.1, 0.25), 3), flow_range=(0.2, 5.0), **forced)
        base['core']['coolant_material'] = coolant
        if ci % 3 == 1:
            # low-flow convection approximation: a switch decided per assembly at set-up; with a cutoff between the step
            # requirements of slow and fast assemblies some get it and some do not
            base['setup']['conv_approx'] = True
            base['setup']['conv_approx_dz_cutoff'] = rng.choice([0.002, 0.005, 0.02])
            flows = sorted(10 ** rng.uniform(-1.7, 0.8) for _ in base['assignment'])
            if len(flows) > 1:
                flows[0], flows[-1] = min(flows[0], 0.03), max(flows[-1], 4.0)
            rng.shuffle(flows)
            for a_, f_ in zip(base['assignment'], flows):
                for k_ in ('outlet_temp', 'delta_temp'):
                    a_.pop(k_, None)
                a_['flowrate'] = round(f_, 5)
        else:
            gi.random_setup_options(rng, base, p=0.2)
        if ci % 3 == 2 or (ci % 3 == 0 and rng.random() < 0.5):
            # boundary conditions of all three kinds mixed within a type, with different targets: an assembly whose flow rate follows
            # from an outlet temperature or a temperature rise is set up from ITS OWN target only (the last position always has one)
            for k_, a_ in enumerate(base['assignment']):
                if k_ == len(base['assignment']) - 1 or rng.random() < 0.5:
                    bc_ = rng.choice(['outlet_temp', 'delta_temp'])
                    a_.pop('flowrate', None)
                    rise_ = round(rng.uniform(40, 220), 2)
                    a_[bc_] = rise_ + (base['core']['coolant_inlet_temp'] if bc_ == 'outlet_temp' else 0.0)
            ctx.count("cores_with_mixed_boundary_conditions")
        if ci % 3 != 0 and rng.random() < 0.6:
            # correlated parameters re-evaluated only when the coolant properties moved by more than a tolerance: the reference
            # values of that test are per-assembly state, too
            base['setup']['param_update_tol'] = rng.choice([0.01, 0.002, 0.05])
        for tn in list(base['types']):
            if rng.random() < 0.3:
                gi.add_axial_regions(rng, base, tn)
            if rng.random() < 0.3:
                base['types'][tn]['FuelModel'] = dict(gap_thickness=0.0, clad_material='ht9', r_frac=[0.0, 0.33333, 0.66667],
                                                      pu_frac=[0.2, 0.2, 0.2], zr_frac=[0.1, 0.1, 0.1], porosity=[0.25, 0.25, 0.25])
        gi.random_power(rng, base)
        d = str(ctx.work / ("i%d" % ci))
        try:
            inp, r_all = gi.build_reactor(base, d)
        except SystemExit:
            ctx.count("rejected")
            continue
        ctx.evals += 1
        # (1) alias analysis + write detection on a second instance (stepping changes the state)
        inp2, r_probe = gi.build_reactor(base, d)
        bad = alias_check(ctx, r_probe, base)
        if bad:
            b = bad[0]
            ctx.violation("c06-shared-mutable:%s" % b[2][1], "assemblies %d and %d share the mutable object %s (%s) which the sweep "
                          "modifies" % (b[0], b[1], b[2][0], b[2][1]), case=base, shared=[(x[0], x[1], x[2][0]) for x in bad[:10]])
        state_all = {a.id: scalar_state(a) for a in r_all.assemblies}      # r_all has not been stepped yet
        # (1b) set-up decisions of EVERY assembly: alone vs in company
        for asg in base['assignment']:
            tid_ = gi.position_index(asg['ring'], asg['pos'])
            alone_ = copy.deepcopy(base)
            alone_['assignment'] = [copy.deepcopy(asg)]
            alone_['power']['rows'] = [row for row in base['power']['rows'] if int(row[0]) == tid_]
            try:
                _, r_solo = gi.build_reactor(alone_, d)
            except SystemExit:
                ctx.count("alone_rejected")
                continue
            a_id = [a.id for a in r_all.assemblies if gi.position_index(a.loc[0] + 1, a.loc[1] + 1) == tid_][0]
            st_one = scalar_state(r_solo.assemblies[0])
            diff = sorted(k for k in st_one if k in state_all[a_id] and st_one[k] != state_all[a_id][k]
                          and not (st_one[k] != st_one[k] and state_all[a_id][k] != state_all[a_id][k]))
            ctx.count("setup_state_pairs")
            if diff:
                ctx.violation("c06-setup-depends-on-company:%s" % diff[0].split('.', 1)[1],
                              "adiabatic core: the set-up of the assembly at position %d depends on the other assemblies: %s"
                              % (tid_, ", ".join("%s = %r alone, %r in the %d-assembly core" % (k, st_one[k], state_all[a_id][k],
                                                                                              len(pos)) for k in diff[:4])),
                              case=base, target=tid_, attributes=diff[:20])
                break
        try:
            full = sweep_fields(r_all)
        except SystemExit:
            ctx.count("sweep_stopped_by_dassh")
            continue
        zs = r_all.z.copy()
        # (2) each assembly alone on the same axial planes
        target = rng.choice(base['assignment'])
        tid = gi.position_index(target['ring'], target['pos'])
        alone = copy.deepcopy(base)
        alone['assignment'] = [copy.deepcopy(target)]
        alone['power']['rows'] = [row for row in base['power']['rows'] if int(row[0]) == tid]
        alone['setup']['axial_mesh_size'] = float(r_all.req_dz)
        try:
            inp3, r_one = gi.build_reactor(alone, d)
        except SystemExit:
            ctx.count("alone_rejected")
            continue
        if len(r_one.z) == len(zs) and np.abs(r_one.z - zs).max() < 1e-12:
            try:
                one = sweep_fields(r_one)
            except SystemExit:
                ctx.count("sweep_stopped_by_dassh")
                continue
            a_id = [a.id for a in r_all.assemblies if gi.position_index(a.loc[0] + 1, a.loc[1] + 1) == tid][0]
            b_id = r_one.assemblies[0].id
            dev = max(np.abs(full[a_id][0] - one[b_id][0]).max(), np.abs(full[a_id][1] - one[b_id][1]).max())
            ctx.count("alone_vs_company_pairs")
            if dev > 0.0:
                ctx.violation("c06-company-changes-result", "adiabatic core: assembly at position %d differs by %.3g K between a "
                              "stand-alone run and the %d-assembly core on the same planes (%s coolant)" % (tid, dev, len(pos), coolant),
                              case=base, target=tid, dev=float(dev))
        else:
            ctx.count("alone_mesh_differs")
        # (3) permuted assignment order
        perm = copy.deepcopy(base)
        rng.shuffle(perm['assignment'])
        try:
            inp4, r_perm = gi.build_reactor(perm, d)
            pf = sweep_fields(r_perm)      # (inside try / except SystemExit)
            dev = 0.0
            for aid in full:
                dev = max(dev, np.abs(full[aid][0] - pf[aid][0]).max())
            if dev > 0.0:
                ctx.violation("c06-order-dependent", "results depend on the order of the assignment list (max dev %.3g K)" % dev, case=base)
        except SystemExit:
            pass
        if ci < 3:
            ctx.sample(dict(kind="core", positions=pos, coolant=coolant, steps=len(zs) - 1))
        import shutil
        shutil.rmtree(d, ignore_errors=True)


def run(ctx):
    rng = random.Random(6000 + ctx.seed)
    ctx.rule = ("adiabatic cores of 1-7 assemblies (clones of 1-2 types, unrodded regions, pin models), temperature-dependent "
                "coolant; alias analysis of mutable objects + write detection over two planes; alone vs company vs permuted order")
    ctx.prove("Dassh.Props.C06")
    oracle(ctx, rng, 16 if ctx.thorough else 5)
    ctx.nontrivial = ctx.evals
    ctx.traces = ctx.evals
    ctx.trusted += ["the abstract model's hypothesis (no shared mutable state between assemblies) is established by observing the "
                    "Python object graph of real reactors, not by proof about CPython"]
    ctx.assumptions += ["PARTIAL: aliasing is observed at construction and over two planes; rebinding later in the sweep is covered "
                        "only by the metamorphic runs", "bitwise equality is required between metamorphic runs"]
