"""C05 - axial mesh finite, monotone, exact on boundaries, within limit.

T3: hand-written integer model (lean/Dassh/Model/AxialMesh.lean, units of 1e-12 m)
with theorems in Props/C05.lean; correspondence against the real
Reactor._setup_axial_region_bnds / _check_dz / _setup_zpts /
_setup_overall_axial_mesh_req on stub Reactor objects, and an oracle on full
Reactor constructions under a wall-clock limit.
"""
import math
import random
import signal

import numpy as np

from harness import gen_input as gi
from harness import modelio

U = 10 ** 12


class Hang(Exception):
    pass


def _alarm(signum, frame):
    raise Hang()


def with_timeout(fn, seconds):
    """limit on the CPU time the call may use (a loop that never ends burns CPU; a busy machine does not make a finite
    construction look like a hang), with a wall-clock backstop ten times as long"""
    old = signal.signal(signal.SIGALRM, _alarm)
    oldp = signal.signal(signal.SIGPROF, _alarm)
    signal.setitimer(signal.ITIMER_PROF, seconds)
    signal.setitimer(signal.ITIMER_REAL, 10 * seconds)
    try:
        return fn()
    finally:
        signal.setitimer(signal.ITIMER_PROF, 0)
        signal.setitimer(signal.ITIMER_REAL, 0)
        signal.signal(signal.SIGALRM, old)
        signal.signal(signal.SIGPROF, oldp)


def units(x):
    u = int(round(float(x) * U))
    return u


def stub_reactor():
    import dassh
    r = dassh.Reactor.__new__(dassh.Reactor)
    import logging
    from dassh.logged_class import LoggedClass
    LoggedClass.__init__(r, 0, 'dassh.reactor.Reactor')
    return r


def gen_mesh_case(rng):
    """(bnds in units, req in units, L units)"""
    L = rng.choice([rng.randint(1, 40) * 10 ** 11, rng.randint(10 ** 9, 4 * 10 ** 12)])
    nb = rng.randint(0, 6)
    bs = set([0, L])
    for _ in range(nb):
        kind = rng.random()
        if kind < 0.5:
            bs.add(rng.randint(1, L - 1))
        elif kind < 0.8:
            b = rng.randint(1, L - 1)
            bs.add(b)
            bs.add(min(L - 1, b + rng.choice([1, 2, 10, 10 ** 5])))       # nearly coincident planes
        else:
            bs.add(rng.randint(1, max(1, L // 10 ** 6)) * 10 ** 6 % L or 1)
    style = rng.random()
    if style < 0.5:
        req = rng.randint(1, 10 ** 4) * 10 ** 6              # what floor(min*1e6)/1e6 produces
    elif style < 0.8:
        req = 10 ** rng.randint(5, 10) * rng.randint(1, 9)
    else:
        req = rng.randint(1, 10 ** 10)                        # arbitrary user value (multiple of 1e-12)
    # keep the number of planes manageable
    while L // req > 3000:
        req *= 7
    return sorted(bs), req, L


def correspondence(ctx, rng, n):
    cases = [gen_mesh_case(rng) for _ in range(n)]
    # corpus: past / designed corner cases
    cases = [([0, 45, 100], 30, 100), ([0, 10 ** 12], 10 ** 10, 10 ** 12), ([0, 1, 2, 3], 1, 3),
             ([0, 5 * 10 ** 11, 5 * 10 ** 11 + 1, 10 ** 12], 10 ** 9 * 7, 10 ** 12),
             ([0, 100], 0, 100), ([0, 40, 10 ** 6], 0, 10 ** 6)] + cases
    reqs = ["planes %d %d %d %s" % (req, L, L // max(req, 1) + len(b) + 5, " ".join(str(x) for x in b)) for b, req, L in cases]
    model = modelio.ask(reqs)
    bad = 0
    for (b, req, L), rep in zip(cases, model):
        r = stub_reactor()
        r.axial_bnds = np.around(np.array(b, dtype=float) / U, 12)
        r.core_length = r.axial_bnds[-1]
        r.req_dz = req / U
        try:
            z, dz = with_timeout(r._setup_zpts, 10)
            impl = [units(x) for x in z]
            status = "ok"
        except Hang:
            impl, status = [], "hang"
        except SystemExit:
            impl, status = [], "error"         # the code refuses a step that does not advance the mesh
        ctx.evals += 1
        parts = rep.split()
        mstat, mz = parts[0], [int(x) for x in parts[1:]]
        if mstat == "fuel" and status == "error":
            # model: the iteration never reaches L (c05_zero_step_never_advances); code: error exit. Same class.
            ctx.count("no_progress_cases_rejected")
            continue
        if status != mstat or impl != mz:
            bad += 1
            if bad == 1:
                ctx.problem("correspondence", "AxialMesh.planes vs Reactor._setup_zpts",
                            "bnds=%s req=%d L=%d impl(%s)=%s model(%s)=%s" % (b, req, L, status, impl[:12], mstat, mz[:12]))
                # is the implementation wrong with respect to the property itself?
                why = mesh_defect(impl, b, req, L) if status == "ok" else "mesh construction does not terminate"
                if why:
                    ctx.violation("c05-mesh:" + why.split(":")[0], "axial planes violate the property: " + why,
                                  bnds_units=b, req_units=req, L_units=L, planes=impl[:50])
        if ctx.evals <= 3:
            ctx.sample(dict(kind="mesh-correspondence", bnds_units=b, req_units=req, planes=len(impl)))
    ctx.count("mesh_cases", len(cases))
    return bad


def mesh_defect(z, b, req, L):
    if not z or z[0] != 0:
        return "start: first plane is not 0"
    if z[-1] != L:
        return "end: last plane %d != core length %d" % (z[-1], L)
    if any(z[i + 1] <= z[i] for i in range(len(z) - 1)):
        return "monotone: planes not strictly increasing"
    if any(z[i + 1] - z[i] > req for i in range(len(z) - 1)):
        return "step: a step exceeds the requirement"
    miss = [x for x in b if x not in set(z)]
    if miss:
        return "boundary: boundary %d is not a plane" % miss[0]
    return None


def correspondence_merge(ctx, rng, n):
    bad = 0
    reqs, expect = [], []
    for _ in range(n):
        L = rng.randint(10 ** 11, 4 * 10 ** 12)
        vals = [0, L] + [rng.randint(0, L) for _ in range(rng.randint(0, 8))]
        vals += [v for v in vals[:3]]               # duplicates
        rng.shuffle(vals)
        r = stub_reactor()
        zfm_cm = np.array(sorted(set(vals[:4] + [0, L])), dtype=float) / U * 100.0
        r.power = {'user': [(1, {'zfm': zfm_cm})]}
        r._options = {'axial_plane': [v / U for v in vals[4:6]] or None}

        class Inp:
            data = {'Assembly': {'a': {'AxialRegion': {'rods': {'z_lo': vals[6] / U if len(vals) > 6 else 0.0,
                                                                 'z_hi': L / U}}}}}
        r._setup_axial_region_bnds(Inp)
        impl = [units(x) for x in r.axial_bnds]
        allv = sorted(set(vals[:4] + [0, L])) + vals[4:6] + ([vals[6]] if len(vals) > 6 else [0]) + [L]
        reqs.append("merge " + " ".join(str(v) for v in allv))
        expect.append(impl)
        ctx.evals += 1
    for rep, impl, rq in zip(modelio.ask(reqs), expect, reqs):
        mz = [int(x) for x in rep.split()[1:]]
        if mz != impl:
            bad += 1
            if bad == 1:
                ctx.problem("correspondence", "AxialMesh.mergeBnds vs Reactor._setup_axial_region_bnds",
                            "%s impl=%s model=%s" % (rq, impl, mz))
    return bad


def correspondence_req(ctx, rng, n):
    bad = 0
    reqs, expect, infos = [], [], []
    for _ in range(n):
        mins = [10 ** rng.uniform(-5.5, -1) for _ in range(rng.randint(1, 5))]
        user = rng.choice([None, None, 10 ** rng.uniform(-5, -1.5), round(10 ** rng.uniform(-5, -1.5), 6)])
        r = stub_reactor()
        r.min_dz = {'dz': mins, 'sc': ['x'] * len(mins)}
        r._options = {'axial_mesh_size': user}
        r._setup_overall_axial_mesh_req()
        impl = units(r.req_dz)
        min_um = int(math.floor(min(mins) * 1e6))
        if user is not None and abs(user * U - round(user * U)) > 1e-3:
            user_u = None          # not representable on the grid: compare through the rounded value only
            continue
        reqs.append("reqdz %d %s" % (min_um, "none" if user is None else str(units(user))))
        expect.append(impl)
        infos.append((mins, user))
        ctx.evals += 1
        # property clause: the step actually used never exceeds any requirement
        if r.req_dz > min(mins) * (1 + 1e-12):
            ctx.violation("c05-req-exceeds-limit", "selected step %.6g exceeds the smallest stability requirement %.6g"
                          % (r.req_dz, min(mins)), mins=mins, user=user)
    for rep, impl, inf in zip(modelio.ask(reqs), expect, infos):
        m = int(rep.split()[1])
        if m != impl:
            bad += 1
            if bad == 1:
                ctx.problem("correspondence", "AxialMesh.reqDz vs Reactor._setup_overall_axial_mesh_req",
                            "min_dz=%s user=%s impl=%d model=%d" % (inf[0], inf[1], impl, m))
    return bad


def oracle_reactor(ctx, rng, n):
    """full constructions: the mesh of a real Reactor satisfies the property"""
    for ci in range(n):
        case = gi.random_case(rng, n_core_rings=rng.choice([1, 1, 2]), n_types=rng.choice([1, 2]),
                              length=round(rng.uniform(0.05, 2.0), rng.choice([1, 3, 6])),
                              flow_range=(10 ** rng.uniform(-4, 0), 10.0), with_power=False)
        if ci % 3 == 1:
            # clones of one type with the SAME flow rate at different powers in a coolant whose conductivity moves with temperature:
            # each assembly has its own outlet temperature estimate, hence its own step requirement
            case = gi.random_case(rng, n_core_rings=2, n_types=1, length=round(rng.uniform(0.1, 0.4), 3), const_props=False,
                                  flow_range=(0.2, 3.0), with_power=False)
            case['core']['coolant_material'] = rng.choice(['lead', 'lbe', 'lead', 'sodium'])
            if case['core']['coolant_material'] != 'sodium':
                case['core']['coolant_inlet_temp'] = round(rng.uniform(650.0, 750.0), 2)
            fl = round(rng.uniform(1.0, 6.0), 4)
            for a in case['assignment']:
                for k_ in ('outlet_temp', 'delta_temp'):
                    a.pop(k_, None)
                a['flowrate'] = fl
        for tn in list(case['types']):
            if rng.random() < 0.4:
                gi.add_axial_regions(rng, case, tn, lower=rng.random() < 0.7, upper=rng.random() < 0.7)
        gi.random_power(rng, case, per_asm_mesh=rng.random() < 0.5)
        if ci % 3 == 1:
            # powers spread over a decade, the hottest assembly not first
            ids_ = sorted(set(int(row[0]) for row in case['power']['rows']))
            scale_ = {i_: 10 ** rng.uniform(-1.0, 0.0) for i_ in ids_}
            scale_[ids_[0]] = 0.1
            scale_[ids_[-1]] = 1.0
            for row in case['power']['rows']:
                for j_ in range(5, len(row)):
                    row[j_] *= scale_[int(row[0])]
        if rng.random() < 0.5:
            case['setup']['axial_mesh_size'] = rng.choice([0.05, 0.002, 1e-4, round(10 ** rng.uniform(-5, -1), 7)])
        if rng.random() < 0.3:
            case['setup']['axial_plane'] = [round(rng.uniform(0.01, case['core']['length'] * 0.99), 6) for _ in range(rng.randint(1, 3))]
        case['core']['bypass_fraction'] = round(10 ** rng.uniform(-7, -1.5), 9)
        if ci % 3 == 2:
            # several assemblies of a type asked for the same outlet temperature / temperature rise at different powers
            # (their flow rates, hence their step limits, differ)
            bc = rng.choice(['outlet_temp', 'delta_temp'])
            val = round(rng.uniform(80, 160), 2)
            for a in case['assignment']:
                a.pop('flowrate', None)
                a[bc] = val + (case['core']['coolant_inlet_temp'] if bc == 'outlet_temp' else 0.0)
        d = str(ctx.work / ("m%d" % ci))
        try:
            inp, r = with_timeout(lambda: gi.build_reactor(case, d), 60)
        except SystemExit:
            ctx.count("oracle_rejected")
            continue
        except Hang:
            ctx.violation("c05-hang", "Reactor construction does not terminate (mesh construction loops forever)", case=case)
            continue
        ctx.evals += 1
        z = [units(x) for x in r.z]
        # the boundaries every plane set must contain, taken from the INPUT (not from the list the code assembled): power cells of
        # every assembly, unrodded region bounds, requested planes, inlet and outlet
        want = {0.0, float(case['core']['length'])}
        for row in case['power']['rows']:
            want.add(float(row[2]))
            want.add(float(row[3]))
        for t in case['types'].values():
            for reg in t.get('AxialRegion') or []:
                want.add(float(reg['z_lo']))
                want.add(float(reg['z_hi']))
        want |= set(float(x) for x in case['setup'].get('axial_plane', []))
        b = sorted(set(units(x) for x in want))
        if sorted(set(units(x) for x in r.axial_bnds)) != b:
            ctx.count("boundary_list_differs_from_input")
        lim = min(r.min_dz['dz'])
        why = mesh_defect(z, b, units(r.req_dz), units(r.core_length))
        if not why and float(np.max(r.dz)) > lim * (1 + 1e-9) + 1e-12:
            why = "step: largest step %.9g exceeds the smallest stability requirement %.9g" % (np.max(r.dz), lim)
        if not why:
            # the same against limits recomputed here, assembly by assembly, with the real limit functions (the list the
            # Reactor keeps is not trusted)
            import dassh.assembly as DA
            try:
                lim2 = min(float(DA.calculate_min_dz(a, r.inlet_temp, a._estimated_T_out, r._is_adiabatic)[0]) for a in r.assemblies)
                ctx.count("independent_limit_checks")
                if float(np.max(r.dz)) > lim2 * (1 + 1e-9) + 1e-12:
                    why = ("step: largest step %.9g exceeds the stability requirement %.9g recomputed assembly by assembly"
                           % (np.max(r.dz), lim2))
            except (SystemExit, KeyError, TypeError, IndexError, ValueError, ZeroDivisionError):
                ctx.count("independent_limit_not_evaluable")
        if why:
            ctx.violation("c05-mesh:" + why.split(":")[0], "axial planes of a real Reactor violate the property: " + why,
                          case=case)
        ctx.count("oracle_planes", len(z))
        import shutil
        shutil.rmtree(d, ignore_errors=True)


def regions_correspondence(ctx, rng, n):
    """Model/Regions.lean vs the real Assembly._identify_active_region: random increasing region bounds on the 1e-12 m grid and
    planes on, just below and just above them"""
    from dassh.assembly import Assembly
    reqs, want = [], []
    for k in range(n):
        nb = rng.randint(1, 4)
        b = [0] + sorted(rng.sample(range(1, 2 * 10 ** 12), nb - 1)) if nb > 1 else [0]
        zs = [0]
        for x in b[1:]:
            zs += [x - 1, x, x + 1]
        zs += [rng.randint(1, 2 * 10 ** 12) for _ in range(4)] + [2 * 10 ** 12]
        a = Assembly.__new__(Assembly)
        a.region_bnd = [x * 1e-12 for x in b]
        # planes as the Reactor makes them: multiples of 1e-12 m, rounded to 12 digits; bounds rounded the same way
        a.region_bnd = [float(np.around(x, 12)) for x in a.region_bnd]
        real = [int(a._identify_active_region(float(np.around(z * 1e-12, 12)))) for z in zs]
        reqs.append("region %s | %s" % (" ".join(map(str, b)), " ".join(map(str, zs))))
        want.append(real)
    bad = 0
    for rep, w, rq in zip(modelio.ask(reqs), want, reqs):
        parts = rep.split()
        if parts[0] != "ok" or list(map(int, parts[1:])) != w:
            bad += 1
            if bad == 1:
                ctx.problem("correspondence", "Model.Regions.activeRegion vs Assembly._identify_active_region",
                            "%s -> model %s, code %s" % (rq[:200], parts[1:], w))
    ctx.obligation("correspondence: Model.Regions.activeRegion = Assembly._identify_active_region on %d bound lists "
                   "(planes on / next to every bound)" % n, bad == 0, kind="correspondence", detail="disagreements %d" % bad)
    ctx.evals += n


def run(ctx):
    rng = random.Random(5000 + ctx.seed)
    ctx.rule = ("T3: generated (boundaries, step, length) triples incl. nearly coincident planes and micrometre..centimetre "
                "steps, real stub Reactor vs Lean model; oracle: full Reactor constructions with random step requests, "
                "axial planes, unrodded regions, tiny gap flow; non-trivial = distinct generated case")
    ok = ctx.prove("Dassh.Props.C05")
    ctx.prove("Dassh.Props.C05Regions")
    if modelio.build_driver(ctx):
        regions_correspondence(ctx, rng, 400 if ctx.thorough else 100)
        n = 1500 if ctx.thorough else 300
        b1 = correspondence(ctx, rng, n)
        b2 = correspondence_merge(ctx, rng, n // 3)
        b3 = correspondence_req(ctx, rng, n // 2)
        ctx.obligation("correspondence: Model.AxialMesh = Reactor mesh methods on %d generated cases" % ctx.evals,
                       b1 + b2 + b3 == 0, kind="correspondence", detail="disagreements: %d/%d/%d" % (b1, b2, b3))
    oracle_reactor(ctx, rng, 60 if ctx.thorough else 15)
    ctx.nontrivial = ctx.evals
    ctx.traces = ctx.evals
    ctx.trusted += ["hand-written model lean/Dassh/Model/AxialMesh.lean tied to the code by the differential "
                    "correspondence check (generator quality bounds what it sees)"]
    ctx.assumptions += ["lengths are multiples of 1e-12 m (the grid DASSH rounds to); a step request that is not on the "
                        "grid is rounded by the code at every plane and is covered by the oracle only",
                        "floating-point comparisons z < b, z + dz > b agree with the exact ones on the grid"]
