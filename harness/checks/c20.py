"""C20 - orifice grouping partitions the assemblies; flow distribution conserves flow.

T3: hand model lean/Dassh/Model/Orifice.lean (grouping pass, adaptive cutoff loop,
one redistribution update) with theorems in Props/C20.lean; correspondence against
the real Orificing._group on instances created with __new__ and populated with
generated data; oracle: the property's clauses on the real _group / distribute.
"""
import os
import random

import numpy as np

from harness import modelio
from harness.checks.c10 import bits


def stub(n_groups, cutoff=0.05, delta=0.001, dp_limit=None, bulk=None):
    import dassh
    from dassh.orificing import Orificing
    from dassh.logged_class import LoggedClass
    o = Orificing.__new__(Orificing)
    LoggedClass.__init__(o, 0, 'dassh.orificing.Orificing')
    o.orifice_input = dict(n_groups=n_groups, group_cutoff=cutoff, group_cutoff_delta=delta,
                           pressure_drop_limit=dp_limit, bulk_coolant_temp=bulk)
    return o


def gen_params(rng):
    n = rng.randint(2, 30)
    style = rng.choice(["spread", "ties", "clustered", "uniform", "all-equal"])
    if style == "spread":
        v = [10 ** rng.uniform(4, 7) for _ in range(n)]
    elif style == "ties":
        base = [rng.uniform(1e5, 5e6) for _ in range(rng.randint(1, 4))]
        v = [rng.choice(base) for _ in range(n)]
    elif style == "clustered":
        cs = [rng.uniform(1e5, 5e6) for _ in range(rng.randint(2, 5))]
        v = [rng.choice(cs) * rng.uniform(0.98, 1.02) for _ in range(n)]
    elif style == "uniform":
        v = [rng.uniform(1e6, 4e6) for _ in range(n)]
    else:
        v = [3.0e6] * n
    return style, v


def run_group(o, vals):
    params = np.zeros((len(vals), 2))
    params[:, 0] = np.arange(len(vals))
    params[:, 1] = vals
    try:
        g = o._group(params)
        return "ok", g
    except SystemExit:
        return "error", None


def correspondence_and_oracle(ctx, rng, n):
    reqs, impl = [], []
    for k in range(n):
        style, vals = gen_params(rng)
        ng = rng.randint(1, min(6, len(vals)))
        cutoff = rng.choice([0.05, 0.2, 0.01, round(rng.uniform(0.001, 0.5), 4)])
        delta = rng.choice([0.001, 0.01, 0.0005])
        o = stub(ng, cutoff, delta)
        status, g = run_group(o, vals)
        ctx.evals += 1
        ctx.count("style:" + style)
        desc = sorted(vals, reverse=True)
        sizes = []
        if g is not None:
            # ---- the property on the real result
            labels = g[:, 2].astype(int)
            n_found = len(set(labels))
            if sorted(g[:, 0].astype(int)) != list(range(len(vals))):
                ctx.violation("c20-partition", "grouping lost or duplicated an assembly", values=vals, n_groups=ng)
            if list(g[:, 1]) != desc or any(labels[i] > labels[i + 1] for i in range(len(labels) - 1)):
                ctx.violation("c20-order", "groups are not ordered by the grouping parameter", values=vals, n_groups=ng)
            if n_found != ng:
                ctx.violation("c20-group-count", "requested %d orifice groups, %d returned without an error (values %s...)"
                              % (ng, n_found, [round(v, 1) for v in desc[:6]]), values=vals, n_groups=ng, cutoff=cutoff, delta=delta)
            sizes = [int(np.sum(labels == i)) for i in sorted(set(labels))]
        if status == "error":
            # "or stops with an error when that is impossible": is there a cut-off that yields exactly the requested number of groups?
            def count(c):
                grp, n_ = [desc[0]], 1
                for v in desc[1:]:
                    if o._check_new_group(grp, v, c):
                        grp, n_ = [], n_ + 1
                    grp.append(v)
                return n_
            # (cut-offs the search can reach with its 1000 iterations: it walks up from the initial value in steps of `delta`, or
            # restarts from a tenth of it; beyond that the error message rightly asks for other parameters)
            reach = cutoff + 900 * delta
            found = [c for c in np.geomspace(1e-7, 1.0, 600) if c <= reach and count(float(c)) == ng]
            ctx.count("group_errors")
            if found:
                # wide enough to be met by the search (more than two steps of the cut-off), not a sliver between two ties
                lo_, hi_ = min(found), max(found)
                if hi_ - lo_ > 2.5 * delta:
                    ctx.violation("c20-group-error-although-possible", "grouping stops with 'not converged' although every cut-off between "
                                  "%.4g and %.4g gives exactly the %d requested groups (values %s, cutoff %g, delta %g)"
                                  % (lo_, hi_, ng, [round(v, 2) for v in desc[:8]], cutoff, delta), values=vals, n_groups=ng,
                                  cutoff=cutoff, delta=delta, window=[float(lo_), float(hi_)])
                else:
                    ctx.count("group_errors_with_a_sliver_window")
        reqs.append("group 1 %d %d %d | %s" % (ng, bits(cutoff), bits(delta), " ".join(str(bits(v)) for v in desc)))
        impl.append((status, sizes, style, ng))
        if k < 3:
            ctx.sample(dict(kind="group", style=style, n=len(vals), n_groups=ng, cutoff=cutoff, status=status, sizes=sizes))
    if modelio.build_driver(ctx):
        bad = 0
        for rep, (status, sizes, style, ng) in zip(modelio.ask(reqs), impl):
            p = rep.split()
            ms, msz = p[0], [int(x) for x in p[1:]]
            if ms != status or (status == "ok" and msz != sizes):
                bad += 1
                if bad == 1:
                    ctx.problem("correspondence", "Model.Orifice.group vs Orificing._group",
                                "style=%s n_groups=%d model %s %s implementation %s %s" % (style, ng, ms, msz, status, sizes))
        ctx.obligation("correspondence: Model.Orifice.group = Orificing._group on %d generated parameter lists" % len(reqs),
                       bad == 0, kind="correspondence", detail="disagreements %d" % bad)


CLAMP_REQ = []


def bits(x):
    import struct
    return struct.unpack("<Q", struct.pack("<d", float(x)))[0]


def unbits(n):
    import struct
    return struct.unpack("<d", struct.pack("<Q", int(n)))[0]


def oracle_distribute(ctx, rng, n):
    """real Orificing.distribute on a stub with synthetic parametric curves"""
    import dassh
    for k in range(n):
        n_asm = rng.randint(3, 14)
        ng = rng.randint(1, min(4, n_asm))
        power = np.array(sorted([rng.uniform(1e6, 6e6) for _ in range(n_asm)], reverse=True))
        o = stub(ng, bulk=700.0, dp_limit=rng.choice([None, rng.uniform(0.05, 0.8), rng.uniform(0.02, 0.3)]))
        # groups: contiguous split of the sorted list
        cuts = sorted(rng.sample(range(1, n_asm), ng - 1)) if ng > 1 else []
        labels = np.zeros(n_asm)
        for c in cuts:
            labels[c:] += 1
        o.group_data = np.column_stack([np.arange(n_asm), power, labels])
        o._power = np.column_stack([np.arange(n_asm), power])
        o.t_in = 623.15
        o.coolant = dassh.Material('sodium')
        # parametric sweeps of 1-3 assembly types: columns [power/flow (MW per kg/s), -, flow (kg/s), dp (Pa), T_opt]; the types
        # differ in their pressure-drop curves and are mixed within the groups
        n_typ = rng.choice([1, 2, 2, 3])
        curves = []
        for ti in range(n_typ):
            # as Orificing._parametric builds them: power-to-flow ratio ascending (flow descending), pressure drop in Pa
            pf = np.geomspace(0.05, 1.0, 25)
            fl_t = rng.uniform(2.0, 5.0) / pf
            dp = rng.uniform(150.0, 600.0) * fl_t ** rng.uniform(1.7, 2.0)
            topt = 623.15 + rng.uniform(700.0, 1100.0) * pf
            curves.append(np.column_stack([pf, np.zeros_like(pf), fl_t, dp, topt]))
        typ_of = np.array([rng.randrange(n_typ) for _ in range(n_asm)], dtype=int)
        o._parametric = {'data': curves, 'asm_ids': np.column_stack([np.arange(n_asm), typ_of]).astype(int)}
        if o.orifice_input['pressure_drop_limit']:
            # put the limit where it matters: around the pressure drop of the average assembly flow
            m_avg = dassh.Q_equals_mCdT(np.sum(power), o.t_in, o.coolant, t_out=700.0) / n_asm
            o.orifice_input['pressure_drop_limit'] = float(np.interp(m_avg, curves[0][::-1, 2], curves[0][::-1, 3])) * 1e-6 * rng.uniform(0.8, 1.8)
        o._dp_limit = np.zeros(ng)
        o._opt_col = 4
        try:
            m, tmax = o.distribute()
        except SystemExit:
            ctx.count("distribute_error_exit")
            continue
        ctx.evals += 1
        m_total = dassh.Q_equals_mCdT(np.sum(power), o.t_in, o.coolant, t_out=700.0)
        if abs(np.sum(m) - m_total) > 1e-6 * m_total:
            ctx.violation("c20-mass", "distributed flows sum to %.9g, required total %.9g" % (np.sum(m), m_total))
        for g in range(ng):
            mg = m[labels == g]
            if np.ptp(mg) > 1e-12 * max(1.0, abs(mg[0])):
                ctx.violation("c20-equal-flow", "members of group %d receive different flow rates" % g)
        lim = o.orifice_input['pressure_drop_limit']
        if lim:
            # every group but the last (which takes the remainder): no member exceeds the limit on ITS OWN type's curve
            for g in range(ng - 1):
                for ai in np.where(labels == g)[0]:
                    dp_a = float(np.interp(m[ai], curves[typ_of[ai]][::-1, 2], curves[typ_of[ai]][::-1, 3])) * 1e-6
                    if dp_a > lim * (1 + 1e-9):
                        ctx.violation("c20-dp-limit", "assembly %d (type %d, group %d of %d) gets %.6g kg/s: pressure drop %.6g MPa exceeds "
                                      "the limit %.6g MPa" % (ai, typ_of[ai], g, ng, m[ai], dp_a, lim),
                                      power=power.tolist(), labels=labels.tolist(), types=typ_of.tolist(), flows=m.tolist(), limit=lim)
                        break
            ctx.count("distribute_with_limit")
            if o._dp_limit.any():
                ctx.count("distribute_limit_active")
            # clamp clause against the Lean model (Orifice.clampGroup): the flow a non-last group ends with is a fixed point of
            # the model's clamp over its members' own limit flows (clamping it again changes nothing), i.e. it is within every
            # member's limit; (the code's `_dp_limit` flag is sticky over the iterations, so it is not used here)
            for g in range(ng - 1):
                members = np.where(labels == g)[0]
                lims_g = [float(np.interp(lim * 1e6, curves[typ_of[ai]][::-1, 3], curves[typ_of[ai]][::-1, 2])) for ai in members]
                CLAMP_REQ.append(("clamp %d | %s" % (bits(float(m[members[0]]) * (1 - 1e-12)), " ".join(str(bits(v)) for v in lims_g)),
                                  float(m[members[0]]), dict(group=g, limits=lims_g, types=typ_of[members].tolist())))
        ctx.count("distribute_ok")
        # iteration history: the sweep results of this distribution for 1-3 time steps (power shapes differ between time steps),
        # summarised as Orificing._do_iter does, feed the next distribution.  Its flows must sum to the total that brings the
        # mixed-mean outlet temperature of the previous sweep (ALL time steps) to the target: M1 (T_prev - T_in) / (T_target - T_in)
        if not lim:
            history_oracle(ctx, rng, o, m, power, labels, ng)


def history_oracle(ctx, rng, o, m1, power, labels, ng):
    n_asm = len(power)
    n_ts = rng.choice([1, 2, 2, 3])
    cp = 1270.0
    rows = []
    for ts in range(n_ts):
        scale = rng.uniform(0.8, 1.25)
        tilt = np.array([rng.uniform(0.9, 1.1) for _ in range(n_asm)])
        for a in range(n_asm):
            p = power[a] * scale * tilt[a]
            t_out = o.t_in + p / m1[a] / cp
            rows.append([float(ts + 1), a, p, m1[a], t_out, o.t_in + 1.3 * (t_out - o.t_in)])
    res = np.array(rows)
    o.group_data = np.column_stack([np.arange(n_asm), power, labels])
    o._opt_col = 5
    try:
        summary = o._summarize_group_data(res)
        m2, _ = o.distribute(res, summary[-1, 0])
    except SystemExit:
        ctx.count("history_error_exit")
        o._opt_col = 4
        return
    o._opt_col = 4
    ctx.evals += 1
    ctx.count("history_%d_timesteps" % n_ts)
    t_prev = float(np.sum(res[:, 3] * res[:, 4]) / np.sum(res[:, 3]))          # mixed mean over all time steps
    want = float(np.sum(m1)) * (t_prev - o.t_in) / (700.0 - o.t_in)
    if abs(float(np.sum(m2)) - want) > 1e-6 * want:
        ctx.violation("c20-history-mass", "second distribution of an iteration history with %d time steps: flows sum to %.9g kg/s, the "
                      "bulk outlet temperature target needs %.9g kg/s (previous sweep: %.9g kg/s, mixed-mean outlet %.6f K, summary "
                      "reports %.6f K)" % (n_ts, np.sum(m2), want, np.sum(m1), t_prev, summary[-1, 0]),
                      res=res.tolist(), labels=labels.tolist(), m1=m1.tolist(), m2=m2.tolist())
        return
    for g in range(ng):
        mg = m2[labels == g]
        if np.ptp(mg) > 1e-12 * max(1.0, abs(mg[0])):
            ctx.violation("c20-equal-flow", "iteration 2: members of group %d receive different flow rates" % g)
            return
    # the summary rows: group maxima are maxima over members and time steps; the core row's maxima over everything
    for g in range(ng):
        sel = np.isin(res[:, 1], np.where(labels == g)[0])
        if abs(summary[g, 1] - res[sel, 4].max()) > 1e-9 or abs(summary[g, 3] - res[sel, 5].max()) > 1e-9:
            ctx.violation("c20-history-summary", "group %d: summarised peak temperatures are not the maxima over its members and all "
                          "time steps" % g, res=res.tolist(), labels=labels.tolist())
            return
    if abs(summary[-1, 1] - res[:, 4].max()) > 1e-9 or abs(summary[-1, 3] - res[:, 5].max()) > 1e-9:
        ctx.violation("c20-history-summary", "core row: summarised peak temperatures are not the maxima over all assemblies and time steps",
                      res=res.tolist())


# ---------------------------------------------------------------------------------------------------------------
# the set-up chain of the real optimiser: group_by_power -> run_parametric -> distribute, with recycled results

CHAIN_INPUT = """
[Orificing]
    assemblies_to_group = %(types)s
    n_groups = %(ng)d
    value_to_optimize = peak coolant temp
    bulk_coolant_temp = 773.15
    pressure_drop_limit = %(lim)r
    recycle_results = True
[Power]
    [[ARC]]
        fuel_material = metal
        fuel_alloy = zr
        pmatrx = PMATRX
        geodst = GEODST
        ndxsrf = NDXSRF
        znatdn = ZNATDN
        labels = LABELS
        nhflux = NHFLUX
        ghflux = GHFLUX
[Core]
    gap_model          = no_flow
    coolant_material   = sodium
    coolant_inlet_temp = 623.15
    length             = 1.000
    assembly_pitch     = 0.058
[Assembly]
%(asm)s
[Assignment]
    [[ByPosition]]
%(assign)s
"""

ASM_BLOCK = """    [[%s]]
        num_rings       = 6
        pin_pitch       = 0.0056
        pin_diameter    = 0.0044
        clad_thickness  = 0.0003
        wire_pitch      = 0.1524
        wire_diameter   = 0.0011
        duct_ftf        = 0.0561, 0.0575
        duct_material   = ss316
"""


class _FakePower:
    def __init__(self, total):
        self.pin_power = self.duct_power = self.coolant_power = None
        self.avg_power = np.ones(4) * total
        self._z = np.linspace(0.0, 1.0, 5)

    def calculate_total_power(self):
        return float(np.sum(self.avg_power * (self._z[1:] - self._z[:-1])))

    def calculate_avg_peak_linear_power(self):
        return float(np.max(self.avg_power)) / 271.0


class _FakeAssembly:
    def __init__(self, id_, name, total):
        self.id, self.name = id_, name
        self.loc = (0, 0) if id_ == 0 else (1, id_ - 1)
        self.power = _FakePower(total)
        self.total_power = self.power.calculate_total_power()


class _FakeReactor:
    def __init__(self, layout):
        self.assemblies = [_FakeAssembly(i, nm, pw) for i, (nm, pw) in enumerate(layout)]


def oracle_chain(ctx, rng, n):
    """the real Orificing object driven as `dassh` drives it up to the first distribution: the power distribution (a pickled reactor)
    and the single-assembly parametric sweeps are supplied as recycled results; two assembly types INTERLEAVED over the positions,
    each with its own pressure-drop curve.  Every assembly is held against the curve of ITS OWN type."""
    import pickle
    import shutil
    import dassh
    import logging
    for ci in range(n):
        n_asm = rng.choice([5, 6, 7])
        types = ['inner', 'outer']
        names = [rng.choice(types) for _ in range(n_asm)]
        names[0], names[1] = 'inner', 'outer'
        if ci % 2 == 0:
            names = [types[i % 2] for i in range(n_asm)]               # strictly alternating
        if rng.random() < 0.5:
            types = types[::-1]                                         # listed in the other order than they first appear
        layout = [(nm, rng.uniform(1.5e6, 6.0e6)) for nm in names]
        ng = rng.choice([2, 3])
        m_at_limit = {'inner': rng.uniform(30.0, 45.0), 'outer': rng.uniform(18.0, 29.0)}
        lim = 0.3
        d = str(ctx.work / ("chain%d" % ci))
        shutil.rmtree(d, ignore_errors=True)
        os.makedirs(os.path.join(d, '_power'))
        os.makedirs(os.path.join(d, '_parametric'))
        for f in ('PMATRX', 'GEODST', 'NDXSRF', 'ZNATDN', 'LABELS', 'NHFLUX', 'GHFLUX'):
            open(os.path.join(d, f), 'wb').write(b'\0' * 8)
        assign = "\n".join("        %s = %d, %d, %d, FLOWRATE=10.0" % (nm, 1 if i == 0 else 2, 1 if i == 0 else i, 1 if i == 0 else i)
                           for i, nm in enumerate(names))
        open(os.path.join(d, 'input.txt'), 'w').write(CHAIN_INPUT % dict(types=", ".join(types), ng=ng, lim=lim,
                                                                       asm="".join(ASM_BLOCK % t for t in ('inner', 'outer')), assign=assign))
        pickle.dump(_FakeReactor(layout), open(os.path.join(d, '_power', 'dassh_reactor.pkl'), 'wb'))
        tables = {}
        for nm in ('inner', 'outer'):
            p_avg = np.average([p for (n_, p) in layout if n_ == nm])
            t = np.zeros((12, 5))
            t[:, 0] = np.geomspace(0.05, 1.0, 12)
            t[:, 1] = p_avg
            t[:, 2] = p_avg / 1e6 / t[:, 0]
            t[:, 3] = lim * 1e6 * (t[:, 2] / m_at_limit[nm]) ** 2
            t[:, 4] = 623.15 + 950.0 * t[:, 0]
            tables[nm] = t
            np.savetxt(os.path.join(d, '_parametric', 'data_%s.csv' % nm), t, delimiter=',')
        logging.getLogger('dassh').setLevel(logging.CRITICAL)
        cwd = os.getcwd()
        try:
            inp = dassh.DASSH_Input(os.path.join(d, 'input.txt'), empty4c=True)
            o = dassh.Orificing(inp)
            o.group_by_power()
            o.run_parametric()
            m, t_opt = o.distribute()
        except SystemExit:
            ctx.count("chain_error_exit")
            continue
        except Exception as ex:
            ctx.violation("c20-chain-exception:%s" % type(ex).__name__, "the orificing set-up chain fails with %r" % ex, layout=layout, types=types)
            continue
        finally:
            os.chdir(cwd)
            shutil.rmtree(d, ignore_errors=True)
        ctx.evals += 1
        ctx.count("chain_cases")
        ids = o.group_data[:, 0].astype(int)
        grp = o.group_data[:, 2].astype(int)
        power = np.array([p for (_, p) in layout])
        info = dict(layout=layout, types_listed=types, n_groups=ng, flows=np.asarray(m).tolist(), groups=grp.tolist(), ids=ids.tolist(),
                    flow_at_limit=m_at_limit)
        if sorted(ids.tolist()) != list(range(n_asm)) or sorted(set(grp.tolist())) != list(range(ng)):
            ctx.violation("c20-chain-partition", "set-up chain: %d assemblies in groups %s, %d non-empty groups requested"
                          % (len(ids), sorted(set(grp.tolist())), ng), **info)
            continue
        for g in range(ng):
            if np.ptp(np.asarray(m)[grp == g]) > 1e-12:
                ctx.violation("c20-equal-flow", "set-up chain: members of group %d get different flows" % g, **info)
        m_req = dassh.Q_equals_mCdT(float(np.sum(power)), 623.15, o.coolant, t_out=773.15)
        if abs(float(np.sum(m)) - m_req) > 1e-6 * m_req:
            ctx.violation("c20-mass", "set-up chain: distributed flows sum to %.9g, required total %.9g" % (np.sum(m), m_req), **info)
        for k in range(len(ids)):
            if grp[k] == ng - 1:
                continue                     # (the last group takes the remainder: c20_last_group_can_exceed)
            nm = layout[ids[k]][0]
            tab = tables[nm][tables[nm][:, 2].argsort()]
            dp = float(np.interp(m[k], tab[:, 2], tab[:, 3])) * 1e-6
            if dp > lim * (1 + 1e-9):
                ctx.violation("c20-dp-limit:chain", "set-up chain: assembly %d (type %s, group %d of %d) gets %.6g kg/s: pressure drop %.4f MPa "
                              "on its own type's curve exceeds the limit %.3f MPa" % (ids[k], nm, grp[k], ng, m[k], dp, lim), **info)
                break


def oracle_input_orifice(ctx, rng, n):
    """the flows that are actually USED: the real Orificing._setup_input_orifice turns the distributed flows into the input of the
    orificed sweep.  Cores with assemblies that are not grouped (control assemblies in the centre or inside a fuel ring, i.e. at
    LOWER position numbers than grouped ones) and empty positions: every grouped assembly gets the flow distributed to it, members
    of a group the same flow, the flows written sum to the distributed total, every assembly that is not grouped gets a flow rate
    from its own power, and no assigned position keeps the outlet-temperature boundary condition of the 'perfect orificing' input"""
    import copy
    import dassh
    from dassh.orificing import Orificing
    from harness import dasshutil as du
    reqs, reals = [], []
    for ci in range(n):
        npos = rng.choice([7, 7, 19])
        kinds = []
        for k in range(npos):
            u = rng.random()
            kinds.append('empty' if u < 0.15 else ('ungrouped' if u < 0.4 or (k == 0 and ci % 2 == 0) else 'grouped'))
        if 'grouped' not in kinds:
            kinds[-1] = 'grouped'
        gids = [k for k, kd in enumerate(kinds) if kd == 'grouped']
        ngr = rng.randint(1, min(4, len(gids)))
        labels = sorted(rng.randrange(ngr) for _ in gids)
        flows_g = [round(rng.uniform(1.0, 30.0), 4) for _ in range(ngr)]
        m_asm = np.array([flows_g[g] for g in labels])
        o = Orificing.__new__(Orificing)
        o.group_data = np.array([[gid, rng.uniform(1e5, 5e6), lab] for gid, lab in zip(gids, labels)], dtype=float)
        ung = [k for k, kd in enumerate(kinds) if kd == 'ungrouped']
        if ung:
            o._ng_power = np.array([[k, rng.uniform(1e4, 1e6)] for k in ung], dtype=float)
        o.orifice_input = {'bulk_coolant_temp': 773.15}

        class Inp:
            pass
        perfect = Inp()
        perfect.materials = {'sodium': du.const_material('sodium', cp=1270.0)}
        perfect.data = {'Core': {'coolant_material': 'sodium', 'coolant_inlet_temp': 623.15},
                        'Assignment': {'ByPosition': [[] if kd == 'empty' else ['t_' + kd, (0, k), {'outlet_temp': 773.15}]
                                                      for k, kd in enumerate(kinds)]}}
        o._setup_input_perfect = lambda: copy.deepcopy(perfect)
        ctx.evals += 1
        try:
            inp = o._setup_input_orifice(m_asm)
        except Exception as ex:
            ctx.violation("c20-input-orifice:%s" % type(ex).__name__, "Orificing._setup_input_orifice fails: %r" % ex, kinds=kinds)
            continue
        byp = inp.data['Assignment']['ByPosition']
        # correspondence with Model.Orifice.writeFlows (c20_flows_written, c20_flows_others_untouched): grouped and empty positions
        reqs.append("orif %s | %s" % (" ".join("0" if kd == 'empty' else "1" for kd in kinds),
                                      " ".join("%d %d" % (gid, bits(float(m_))) for gid, m_ in zip(gids, m_asm))))
        reals.append(["n" if not byp[k] else (str(bits(float(byp[k][2].get('flowrate', float('nan'))))) if kinds[k] == 'grouped' else None)
                      for k in range(npos)])
        why = None
        used = {}
        for i, gid in enumerate(gids):
            bc = byp[gid][2] if byp[gid] else None
            if not bc or 'flowrate' not in bc or abs(float(bc['flowrate']) - m_asm[i]) > 1e-12 * m_asm[i]:
                why = "grouped assembly at position %d (group %d) is given %r, the distribution gave it %.6g kg/s" % (gid, labels[i], bc, m_asm[i])
                break
            used.setdefault(labels[i], set()).add(float(bc['flowrate']))
        if why is None and any(len(v) > 1 for v in used.values()):
            why = "members of one group run with different flow rates: %s" % {k: sorted(v) for k, v in used.items() if len(v) > 1}
        if why is None:
            for k in ung:
                bc = byp[k][2]
                if 'flowrate' not in bc or not np.isfinite(float(bc['flowrate'])) or float(bc['flowrate']) <= 0:
                    why = "assembly at position %d is not grouped and is given %r instead of a flow rate from its own power" % (k, bc)
                    break
        if why is None:
            for k, kd in enumerate(kinds):
                if kd == 'empty' and byp[k]:
                    why = "empty position %d received an assignment" % k
        ctx.count("input_orifice_cases" + (":ungrouped-before-grouped" if ung and gids and min(ung) < max(gids) else ""))
        if why:
            ctx.violation("c20-input-orifice-flows", "the input of the orificed sweep does not carry the distributed flows: %s (positions: %s)"
                          % (why, kinds), kinds=kinds, labels=labels, flows=list(map(float, m_asm)))

    if reqs and modelio.build_driver(ctx):
        bad = 0
        for rep, real, rq in zip(modelio.ask(reqs), reals, reqs):
            got = rep.split()[1:]
            ok_ = rep.startswith("ok") and len(got) == len(real) and all(r_ is None or g_ == r_ for g_, r_ in zip(got, real))
            if not ok_:
                bad += 1
                if bad == 1:
                    ctx.problem("correspondence", "Model.Orifice.writeFlows vs Orificing._setup_input_orifice", "request %s: model %s, real %s"
                                % (rq[:200], rep[:200], real))
        ctx.obligation("correspondence: Model.Orifice.writeFlows = flows written by the real _setup_input_orifice at the grouped and "
                       "empty positions of %d cores" % len(reqs), bad == 0, kind="correspondence", detail="disagreements %d" % bad)


def run(ctx):
    rng = random.Random(20000 + ctx.seed)
    ctx.rule = ("generated power lists (ties, widely spread, clustered, uniform, all equal), 1-6 groups, several cut-offs; "
                "real Orificing._group / distribute on stub instances; non-trivial = one list/group-count pair")
    ctx.prove("Dassh.Props.C20")
    correspondence_and_oracle(ctx, rng, 1200 if ctx.thorough else 250)
    del CLAMP_REQ[:]
    oracle_distribute(ctx, rng, 200 if ctx.thorough else 50)
    oracle_chain(ctx, rng, 80 if ctx.thorough else 24)
    oracle_input_orifice(ctx, rng, 300 if ctx.thorough else 60)
    if CLAMP_REQ and modelio.build_driver(ctx):
        bad = 0
        for rep, (req, real, info) in zip(modelio.ask([r[0] for r in CLAMP_REQ]), CLAMP_REQ):
            parts = rep.split()
            mv = unbits(parts[1]) if parts[0] == "ok" else float('nan')
            if not abs(mv - real) <= 1e-9 * max(abs(real), 1.0):
                bad += 1
                if bad == 1:
                    ctx.problem("correspondence", "Model.Orifice.clampGroup vs Orificing.distribute",
                                "group carries %.9g kg/s, the model's clamp would reduce it to %.9g (%s)" % (real, mv, info))
        ctx.obligation("correspondence: the flows of the non-last groups are fixed points of Model.Orifice.clampGroup over their "
                       "members' limits (%d groups)" % len(CLAMP_REQ), bad == 0, kind="correspondence", detail="disagreements %d" % bad)
    ctx.nontrivial = ctx.evals
    ctx.traces = ctx.evals
    ctx.trusted += ["hand model lean/Dassh/Model/Orifice.lean tied to Orificing._group by differential correspondence "
                    "(same floating-point operations in the same order)"]
    ctx.assumptions += ["the pressure-drop-limit clause is proved only for groups other than the last (the last group receives "
                        "the remainder and is not clipped: c20_last_group_can_exceed)",
                        "regrouping histories and the parametric interpolation are exercised through distribute only"]
