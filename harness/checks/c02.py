"""C02 - inter-assembly heat exchange is conservative; the core balance closes.

T1b: the real `Core._flow_model` and `Core._update_energy_balance` are executed
symbolically on the gap mesh of real small cores (2 and 3 assemblies, mixed ring counts);
Props/C02.lean proves that the gap coolant's enthalpy change equals the tallied heat from
the duct walls (conduction between gap cells cancels), for all temperatures, film
coefficients, flows and step sizes.  A list-level theorem proves the interface identity:
the heat leaving a duct computed on the duct mesh with the h-weighted mapped gap
temperature equals the heat credited on the gap mesh, for any overlap map.
Oracle: real cores driven plane by plane; per-step core balance
(sum of assembly enthalpy rises + gap enthalpy rise = power delivered in the step).
"""
import copy
import random

import numpy as np

from harness import gen_input as gi
from harness.checks.c01 import reg_enthalpy
from harness.trace import GEN_HEADER, NpProxy, Sym, Trace, rebind, symarray, to_lean, used_vars


def sym_core(rng, positions, tag, model='flow'):
    """symbolic shadow of the gap of a real small core: returns (o, core, tr, m, g, td, dz, sym_ok).  `model`: the gap model
    the shadow is set up for ('flow', 'no_flow', 'duct_average'); the real core is built with that model."""
    import dassh
    from dassh.core import Core
    case = gi.random_case(rng, positions=positions, n_types=2, gap_model=model, length=0.1,
                          type_kw=dict(n_ring=2, n_duct=1))
    import os
    d = "/verif/.work/c02trace_%s_%d" % (tag, os.getpid())      # C01, C02, C04 and C07 may trace concurrently
    inp, r = gi.build_reactor(case, d)
    core = r.core
    tr = Trace()
    o = copy.copy(core)
    n = int(core.n_sc)
    shape = core._asm_sc_adj.shape
    wp = np.empty(shape, dtype=object)
    for a in range(shape[0]):
        for l in range(shape[1]):
            wp[a, l] = tr.var("wp_%d_%d" % (a, l), core.gap_params['asm wp'][a, l]) if core._asm_sc_adj[a, l] > 0 else tr.const(0)
    o.gap_params = dict(core.gap_params)
    o.gap_params['asm wp'] = wp
    if model != 'flow':
        o.d_gap = tr.var("dgap", float(core.d_gap))
    # rebuild the convection lookup with the real code on the symbolic perimeters
    rebind(Core._make_conv_mask, tr)(o)
    # conduction constants: one symbol per unordered pair of adjacent cells (the code's L is symmetric: checked below)
    rc = np.empty(core._Rcond.shape, dtype=object)
    sym_ok = True
    for i in range(n):
        for k in range(3):
            j = core._sc_adj[i, k] - 1
            if j < 0:
                rc[i, k] = tr.const(0)
                continue
            kk = list(core._sc_adj[j]).index(i + 1) if (i + 1) in list(core._sc_adj[j]) else -1
            if kk < 0 or abs(core._Rcond[j, kk] - core._Rcond[i, k]) > 1e-12 * abs(core._Rcond[i, k]):
                sym_ok = False
            rc[i, k] = tr.var("rc_%d_%d" % (min(i, j), max(i, j)), core._Rcond[i, k])
    o._Rcond = rc
    m = symarray(tr, "m", core._sc_mfr)
    o._inv_sc_mfr = 1 / m

    class G:
        pass
    g = G()
    g.thermal_conductivity = tr.var("kc", 60.0)
    g.heat_capacity = tr.var("cp", 1270.0)
    g.temperature = 650.0
    o.gap_coolant = g
    o.coolant_gap_params = dict(core.coolant_gap_params)
    o.coolant_gap_params['htc'] = symarray(tr, "h", np.full(n, 2.0e4))
    o.coolant_gap_temp = symarray(tr, "T", np.full(n, 650.0))
    o.ebal = {'asm': NpProxy(tr).zeros(shape)}
    td = np.empty(shape, dtype=object)
    for a in range(shape[0]):
        for l in range(shape[1]):
            td[a, l] = tr.var("Td_%d_%d" % (a, l), 660.0) if core._asm_sc_adj[a, l] > 0 else tr.const(0)
    dz = tr.var("dz", 1e-3)
    import shutil
    shutil.rmtree(d, ignore_errors=True)
    return o, core, tr, m, g, td, dz, sym_ok


def trace_core(rng, positions, tag):
    from dassh.core import Core
    o, core, tr, m, g, td, dz, sym_ok = sym_core(rng, positions, tag)
    n = int(core.n_sc)
    shape = core._asm_sc_adj.shape
    rebind(Core._update_energy_balance, tr)(o, dz, td)
    dT = rebind(Core._flow_model, tr)(o, dz, td)
    lhs = 0
    for i in range(n):
        lhs = lhs + m[i] * g.heat_capacity * dT[i]
    rhs = 0
    for a in range(shape[0]):
        for l in range(shape[1]):
            if core._asm_sc_adj[a, l] > 0:
                rhs = rhs + o.ebal['asm'][a, l]
    return lhs, rhs, dict(n_cells=n, n_asm=int(shape[0]), rcond_symmetric=sym_ok)


def generate_text(ctx):
    rng = random.Random(2000)
    out = [GEN_HEADER.replace("import Mathlib.Algebra.Field.Defs", "import Mathlib.Algebra.Field.Defs\nimport Dassh.Lemmas.Attr"),
           "/-! traced from dassh.core.Core._flow_model / _update_energy_balance / _make_conv_mask on real cores -/\n",
           "namespace Dassh.Gen.C02\n"]
    info = {}
    for tag, positions in (("two", [(1, 1), (2, 1)]), ("three", [(1, 1), (2, 1), (2, 2)])):
        lhs, rhs, inf = trace_core(rng, positions, tag)
        vs = sorted(set(used_vars([lhs, rhs])))
        out.append("structure St_%s (α : Type) where" % tag)
        out += ["  %s : α" % v for v in vs]
        out.append("")
        from harness.trace import rename
        for nm, e in (("gap_lhs", lhs), ("gap_rhs", rhs)):
            t2 = Trace()
            er = rename(e, lambda v: "s." + v, t2)
            out.append("@[gen_defs] def %s_%s {α : Type} [Field α] (s : St_%s α) : α :=\n  %s\n" % (nm, tag, tag, to_lean(er)))
        nz = [v for v in vs if v.startswith("m_")] + ["cp"]
        out.append("/-- the divisors of the traced update (cell mass flows, heat capacity) are non-zero -/")
        out.append("def Nonzero_%s {α : Type} [Field α] (s : St_%s α) : Prop :=\n  %s\n" % (tag, tag, " ∧ ".join("s.%s ≠ 0" % v for v in nz)))
        info[tag] = dict(vars=len(vs), **inf)
        ctx.obligation("gap conduction constants of the real %s-assembly core are symmetric (L_ik = L_ki)" % tag,
                       inf['rcond_symmetric'], kind="hypothesis-check")
    out.append("end Dassh.Gen.C02\n")
    ctx.stats["trace"] = info
    return "\n".join(out), info


def generate(ctx):
    txt, info = generate_text(ctx)
    ctx.gen("C02", txt)
    # state variables that are masses must be non-zero in the theorems: emit their names for the Props file to use
    return info


INTERFACE_TOL = 1.0e-5   # clean tree: <= 7e-7 over seeds 1..5 (thorough 1..2)


def oracle(ctx, rng, n, max_steps=300):
    worst = 0.0
    for ci in range(n):
        nr = rng.choice([2, 2, 3] if ctx.thorough else [2, 2])
        pos = [p for p in gi.core_positions(nr) if rng.random() < 0.7] or [(1, 1)]
        same_rings = ci % 3 == 1
        if same_rings:
            # every third core: two types with the SAME ring count but different pin pitch - the gap mesh around an assembly
            # then has as many cells as its own duct mesh although the cell boundaries differ
            while len(pos) < 2:
                pos = [p for p in gi.core_positions(nr) if rng.random() < 0.7] or [(1, 1)]
            case = gi.random_case(rng, positions=pos, n_types=2, gap_model='flow', length=round(rng.uniform(0.05, 0.25), 3),
                                  flow_range=(0.2, 6.0), type_kw=dict(n_ring=rng.choice([2, 3, 3, 4]), n_duct=1))
            names = list(case['types'])
            for k, a in enumerate(case['assignment']):
                a['type'] = names[k % 2]
        else:
            case = gi.random_case(rng, positions=pos, n_types=rng.choice([1, 2, 2]), gap_model='flow',
                                  length=round(rng.uniform(0.05, 0.25), 3), flow_range=(0.2, 6.0))
        # further classes (every sixth core each): six-node regions with their own convection factor; the low-flow convection
        # approximation (with duct heating); double-ducted types, with the approximation, or with a stagnant bypass gap
        feature = {3: 'six-node', 4: 'conv-approx', 5: 'double-duct'}.get(ci % 6 if ci >= 6 or ci % 6 >= 3 else -1, '')
        if feature == 'double-duct':
            sub = rng.choice(['', '+conv-approx', '+stagnant-bypass'])
            case = gi.random_case(rng, positions=pos, n_types=rng.choice([1, 2]), gap_model='flow', length=round(rng.uniform(0.05, 0.2), 3),
                                  flow_range=(0.5, 6.0), type_kw=dict(n_duct=2),
                                  opts=dict(bypass_gap_flow_fraction=0.0) if sub == '+stagnant-bypass' else None)
            feature += sub
        if 'conv-approx' in feature:
            case['setup']['conv_approx'] = True
            case['setup']['conv_approx_dz_cutoff'] = 1.0
        case['core']['bypass_fraction'] = round(10 ** rng.uniform(-2.3, -1), 5)
        for tn in list(case['types']):
            u = rng.random() if not same_rings else 1.0
            if ci % 3 == 2 or feature == 'six-node':
                u = 0.0        # every third core: unrodded regions below / above the bundle (region switches while coupled to the gap)
            if u < 0.25:
                gi.add_axial_regions(rng, case, tn, lower=rng.random() < 0.7 or feature == 'six-node', upper=rng.random() < 0.7,
                                     models=('6node',) if feature == 'six-node' else ('simple',))
            elif u < 0.4:
                gi.make_low_fidelity(rng, case, tn, model='simple')
        if 'conv-approx' in feature and rng.random() < 0.5:
            # the approximation with heat generated in the duct wall is a class of its own (known finding): the other half of the
            # conv-approx cores has no duct heating and must close
            gi.random_power(rng, case)
            feature += '+duct-heating'
        elif 'conv-approx' in feature:
            gi.random_power(rng, case, components=("pins", "cool"))
        else:
            gi.random_power(rng, case)
        ctx.count("core_class:" + (feature or 'plain'))
        d = str(ctx.work / ("k%d" % ci))
        try:
            inp, r = gi.build_reactor(case, d)
        except SystemExit:
            ctx.count("rejected")
            continue
        # hypothesis of the gap theorems (Props/C02, and gap_exchange_zero for every layout): the conduction constant between two
        # adjacent gap cells is ONE number, whichever of the two cells it is looked up from
        core = r.core
        if getattr(core, '_Rcond', None) is not None and core.model == 'flow':
            asym = 0.0
            for i in range(int(core.n_sc)):
                for k in range(3):
                    j = int(core._sc_adj[i, k]) - 1
                    if j < 0:
                        continue
                    kk = [q for q in range(3) if int(core._sc_adj[j, q]) - 1 == i]
                    if not kk:
                        asym = 1.0
                        continue
                    a, b = float(core._Rcond[i, k]), float(core._Rcond[j, kk[0]])
                    asym = max(asym, abs(a - b) / max(abs(a), abs(b), 1e-300))
            ctx.stats["worst_rcond_asymmetry"] = max(ctx.stats.get("worst_rcond_asymmetry", 0.0), asym)
            if asym > 1e-12:
                ctx.violation("c02-conduction-asymmetric", "gap conduction constant between two adjacent gap cells differs by %.3g "
                              "(relative) depending on the side it is looked up from: conduction creates or destroys heat" % asym,
                              case=case)
        state = {}
        bad = []
        cp_gap = r.core.gap_coolant.heat_capacity

        def snapshot():
            Hs = 0.0
            for a in r.assemblies:
                reg = a.active_region
                Hs += reg_enthalpy(reg) * reg.coolant.heat_capacity
            Hg = float(np.dot(r.core._sc_mfr, r.core.coolant_gap_temp)) * r.core.gap_coolant.heat_capacity
            P = sum(float(sum(v for v in a._power_delivered.values())) for a in r.assemblies)
            E = float(np.sum(r.core.ebal['asm']))
            per = [(reg_enthalpy(a.active_region) * a.active_region.coolant.heat_capacity,
                    float(sum(v for v in a._power_delivered.values())), float(np.sum(r.core.ebal['asm'][k])))
                   for k, a in enumerate(r.assemblies)]
            return Hs, Hg, P, E, tuple(a.active_region_idx for a in r.assemblies), per

        def cb(i, z, dz):
            s = snapshot()
            # steps on which an assembly changes its axial region are included: the new region starts from the mixed-mean
            # temperature of the old one, so the enthalpy flow m cp T is continuous across the switch (constant properties)
            if 'prev' in state and i > 0:
                if state['prev'][4] != s[4]:
                    ctx.count("steps_with_region_switch")
                p = state['prev']
                dH = (s[0] - p[0]) + (s[1] - p[1])
                dP = s[2] - p[2]
                scale = max(abs(dP), abs(s[1] - p[1]), 1e-9)
                res = abs(dH - dP) / scale
                # gap side alone: enthalpy rise of the gap coolant equals what the gap tallies from the ducts
                dHg, dE = s[1] - p[1], s[3] - p[3]
                # (absolute floor: a step in which nothing is exchanged, e.g. unheated inlet regions, compares 0 with round-off)
                res2 = abs(dHg - dE) / max(abs(dHg), abs(dE), 1e-9, 1e-2 * abs(dP))
                # interface, assembly by assembly: what an assembly loses through its outer duct (power delivered minus the
                # enthalpy rise of its coolant; the duct wall is steady) is what the gap tallies as received from that assembly
                res3 = 0.0
                for k, ((h1, p1, e1), (h0, p0, e0)) in enumerate(zip(s[5], p[5])):
                    q_out = (p1 - p0) - (h1 - h0)
                    q_in = e1 - e0
                    r3 = abs(q_out - q_in) / max(abs(q_out), abs(q_in), 1e-3 * abs(p1 - p0), 1e-9)
                    if r3 > res3:
                        res3, worst_k, worst_q = r3, k, (q_out, q_in)
                state['worst_interface'] = max(state.get('worst_interface', 0.0), res3)
                state['worst'] = max(state.get('worst', 0.0), res, res2)
                if res3 > INTERFACE_TOL and not bad:
                    bad.append(dict(step=i, z=z, dz=dz, core_enthalpy_rise=dH, power_delivered=dP, rel=res, gap_enthalpy_rise=dHg,
                                    gap_tally=dE, rel_gap=res2, interface=dict(assembly=worst_k, lost_by_assembly=worst_q[0],
                                                                               credited_to_gap=worst_q[1], rel=res3)))
                if (res > 1e-6 or res2 > 1e-7) and not bad:
                    bad.append(dict(step=i, z=z, dz=dz, core_enthalpy_rise=dH, power_delivered=dP, rel=res,
                                    gap_enthalpy_rise=dHg, gap_tally=dE, rel_gap=res2))
            state['prev'] = s
            if i >= max_steps or bad:
                raise StopIteration
        try:
            gi.sweep(r, cb)
        except StopIteration:
            pass
        ctx.evals += 1
        worst = max(worst, state.get('worst', 0.0))
        ctx.stats["worst_interface_residual"] = max(ctx.stats.get("worst_interface_residual", 0.0), state.get('worst_interface', 0.0))
        if bad:
            b = bad[0]
            kinds = sorted(set(type(a.active_region).__name__ for a in r.assemblies))
            if feature:
                # the class of the core is part of the signature (six-node regions: with the convection factor of the active ones)
                cf_ = sorted(set(round(float(getattr(a.active_region, '_mratio', 1.0) or 1.0), 6) for a in r.assemblies
                                 if getattr(a.active_region, 'model', '') == '6node'))
                kinds = [feature + (":factor<1" if any(c_ < 1.0 for c_ in cf_) else "")] + kinds
            if 'interface' in b:
                it = b['interface']
                ctx.violation("c02-interface:%s" % "+".join(kinds),
                              "step %d: assembly %d loses %.9g W through its outer duct but the gap is credited %.9g W from it (rel %.2g)"
                              % (b['step'], it['assembly'], it['lost_by_assembly'], it['credited_to_gap'], it['rel']), case=case, detail=b)
            else:
                ctx.violation("c02-core-step-balance:%s" % "+".join(kinds),
                              "step %d: assembly + gap enthalpy rise %.6g W, power delivered %.6g W (rel %.2g); gap rise %.6g vs tally %.6g"
                              % (b['step'], b['core_enthalpy_rise'], b['power_delivered'], b['rel'], b['gap_enthalpy_rise'], b['gap_tally']),
                              case=case, detail=b)
        if ci < 3:
            ctx.sample(dict(kind="core-sweep", positions=pos, steps=len(r.z) - 1, types={k: v['num_rings'] for k, v in case['types'].items()}))
        import shutil
        shutil.rmtree(d, ignore_errors=True)
    # adiabatic option: no heat crosses any outer duct wall
    for ci in range(3 if ctx.thorough else 1):
        case = gi.random_case(rng, positions=[(1, 1), (2, 2)], n_types=1, gap_model='none', length=0.1, flow_range=(1.0, 4.0))
        d = str(ctx.work / ("ad%d" % ci))
        try:
            inp, r = gi.build_reactor(case, d)
            gi.sweep(r)
        except SystemExit:
            ctx.count("adiabatic_case_stopped_by_dassh")
            continue
        ctx.evals += 1
        for a in r.assemblies:
            reg = a.active_region
            tot = float(np.sum(reg.ebal['duct'])) + float(reg.ebal['power'])
            if 'duct_byp_in' in reg.ebal:   # double-ducted assembly: the bypass coolant belongs to the assembly
                tot += float(np.sum(reg.ebal['duct_byp_in'])) + float(np.sum(reg.ebal['duct_byp_out']))
            dl = sum(float(v) for v in a._power_delivered.values())
            if abs(tot - dl) > 1e-8 * max(dl, 1.0):
                ctx.violation("c02-adiabatic-leak", "adiabatic core: coolant of assembly %d received %.9g W, power delivered %.9g W"
                              % (a.id, tot, dl), case=case)
        import shutil
        shutil.rmtree(d, ignore_errors=True)
    ctx.stats["worst_rel_core_step_residual"] = worst


def run(ctx):
    rng = random.Random(2200 + ctx.seed)
    ctx.rule = ("T1b: gap update of real 2- and 3-assembly cores traced symbolically; oracle: real cores (1-19 positions with holes, "
                "mixed ring counts, unrodded regions, low-fidelity assemblies), per-step core balance; non-trivial = a swept core")
    try:
        txt, info = generate_text(ctx)
        ctx.gen("C02", txt)
        ok = True
    except BaseException:
        import traceback
        ctx.problem("trace-failed", "c02 tracer", traceback.format_exc()[-2000:])
        ok = False
    if ok:
        ctx.prove("Dassh.Props.C02")
    oracle(ctx, rng, 30 if ctx.thorough else 9)
    ctx.nontrivial = ctx.evals
    ctx.traces = ctx.evals
    ctx.trusted += ["T1b trace of Core._flow_model/_update_energy_balance/_make_conv_mask (harness/checks/c02.py)"]
    ctx.assumptions += ["conduction constants between gap cells are symmetric (checked on the traced cores; follows from the "
                        "symmetric distance table)", "constant coolant properties for the round-off statement",
                        "six-node low-fidelity regions are exercised through the oracle with simple regions only in the quick tier"]
