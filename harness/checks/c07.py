"""C07 - solutions are equivariant under the hexagonal symmetries.

T2: for every ring count the rotation by 60 degrees and the mirror (the generators of the
symmetry group) are derived from the published centroid coordinates (nearest centroid of
the transformed point - NOT from the numbering) and the Lean kernel decides that they are
automorphisms of the tables the running code builds (types, neighbour relation, swirl donor
maps - the mirror exchanges the clockwise and counter-clockwise donor maps -, pin incidence).
Lemmas/Equivariance.lean turns the Boolean certificates into `IsAuto` (generated instance
theorems per ring count); Props/C07.lean proves that every local explicit update commutes
with automorphisms, for one step and for whole sweeps, and that automorphisms compose.
T1b: that the real interior / bypass update IS local (one update per neighbour-type class)
is re-established by symbolic execution on every run (shared with C04).
Oracle: real runs with rotated / mirrored asymmetric power maps, single assemblies and
whole cores.
"""
import math
import random

import numpy as np

from harness import dasshutil as du
from harness import gen_input as gi
from harness import tables as tb

W = 12
QUICK_N = [2, 3, 4, 5, 6]
FULL_N = list(range(2, 10))


def transform_perm(xy, k=1, mirror=False):
    """permutation i -> index of the point nearest to g(xy[i]); g = rotation by k*60 degrees
    (counter-clockwise), optionally after mirroring x -> -x"""
    p = xy.copy()
    if mirror:
        p[:, 0] = -p[:, 0]
    a = k * math.pi / 3
    R = np.array([[math.cos(a), -math.sin(a)], [math.sin(a), math.cos(a)]])
    q = p @ R.T
    perm, dev = [], 0.0
    for i in range(xy.shape[0]):
        dd = np.hypot(xy[:, 0] - q[i, 0], xy[:, 1] - q[i, 1])
        j = int(np.argmin(dd))
        perm.append(j)
        dev = max(dev, float(dd[j]))
    return perm, dev


def gen_perm_tables(ctx, n, rng):
    rr = du.make_rr(du.bundle_dims(rng, n, 1))
    sc = rr.subchannel
    nc = int(sc.n_sc['coolant']['total'])
    L = ["-- GENERATED: symmetry permutations derived from centroid coordinates (n_ring = %d)." % n,
         "import Dassh.Gen.C08T%d" % n, "import Dassh.Lemmas.Equivariance", "", "namespace Dassh.Gen.C07T%d" % n,
         "open Dassh.Table Dassh.Equivariance Dassh.Gen.C08T%d" % n, ""]
    certs = []
    xy = sc.xy[:nc]
    pxy = rr.pin_lattice.xy
    maxdev = 0.0
    # generators of the symmetry group only: the rotation by 60 degrees and the mirror (every other rotation / reflection is a
    # composition; Props/C07.lean proves that compositions of automorphisms are automorphisms).  One kernel decision per part keeps
    # the peak memory of the build low.
    for name, k, mirror in [("rot1", 1, False), ("mir", 0, True)]:
        pi, d1 = transform_perm(xy, k, mirror)
        sg, d2 = transform_perm(pxy, k, mirror)
        maxdev = max(maxdev, d1, d2)
        L.append("def pi_%s : Nat := 0x%x" % (name, tb.encode(np.array(pi).reshape(-1, 1), W, offset=0)))
        L.append("def sg_%s : Nat := 0x%x" % (name, tb.encode(np.array(sg).reshape(-1, 1), W, offset=0)))
        other = ("donorCCW", "donorCW") if mirror else ("donorCW", "donorCCW")
        parts = [("cw", "autoCert ncool nint tyf nb donorCW %s (permOf pi_%s %d)" % (other[0], name, W)),
                 ("ccw", "autoCert ncool nint tyf nb donorCCW %s (permOf pi_%s %d)" % (other[1], name, W)),
                 ("pin", "pinAutoCert npin pinrow (permOf pi_%s %d) (permOf sg_%s %d)" % (name, W, name, W))]
        for pn, body in parts:
            cn = "cert_%s_%s" % (name, pn)
            L.append("def %s : Bool := %s" % (cn, body))
            L.append("set_option maxRecDepth 1000000 in\ntheorem %s_ok : %s = true := by decide +kernel" % (cn, cn))
            certs.append(cn)
    L.append("def certs : List Bool := [%s]" % ", ".join(certs))
    L.append("theorem certs_ok : certs.all (· = true) = true := by\n  simp only [certs, List.all_cons, List.all_nil, decide_true, Bool.and_self, %s]"
             % ", ".join(c + "_ok" for c in certs))
    # the certificates as propositions: automorphisms of the real tables, for either wire direction
    L.append("theorem closed_cw : Closed ncool nb (donorN nint donorCW) := closed_of_certs cert_sym cert_rot1_cw_ok")
    L.append("theorem closed_ccw : Closed ncool nb (donorN nint donorCCW) := closed_of_certs cert_sym cert_rot1_ccw_ok")
    L.append("theorem rot_auto_cw : IsAuto ncool tyf nb (donorN nint donorCW) (donorN nint donorCW) (permOf pi_rot1 %d) :=\n"
             "  isAuto_of_certs cert_sym cert_rot1_cw_ok" % W)
    L.append("theorem rot_auto_ccw : IsAuto ncool tyf nb (donorN nint donorCCW) (donorN nint donorCCW) (permOf pi_rot1 %d) :=\n"
             "  isAuto_of_certs cert_sym cert_rot1_ccw_ok" % W)
    L.append("theorem mir_auto_cw : IsAuto ncool tyf nb (donorN nint donorCW) (donorN nint donorCCW) (permOf pi_mir %d) :=\n"
             "  isAuto_of_certs cert_sym cert_mir_cw_ok" % W)
    L.append("theorem mir_auto_ccw : IsAuto ncool tyf nb (donorN nint donorCCW) (donorN nint donorCW) (permOf pi_mir %d) :=\n"
             "  isAuto_of_certs cert_sym cert_mir_ccw_ok" % W)
    L.append("/-- everything the equivariance theorems need, for this ring count -/")
    L.append("def Autos : Prop := Closed ncool nb (donorN nint donorCW) ∧ Closed ncool nb (donorN nint donorCCW)\n"
             "  ∧ IsAuto ncool tyf nb (donorN nint donorCW) (donorN nint donorCW) (permOf pi_rot1 %d)\n"
             "  ∧ IsAuto ncool tyf nb (donorN nint donorCCW) (donorN nint donorCCW) (permOf pi_rot1 %d)\n"
             "  ∧ IsAuto ncool tyf nb (donorN nint donorCW) (donorN nint donorCCW) (permOf pi_mir %d)\n"
             "  ∧ IsAuto ncool tyf nb (donorN nint donorCCW) (donorN nint donorCW) (permOf pi_mir %d)" % (W, W, W, W))
    L.append("theorem autos : Autos := ⟨closed_cw, closed_ccw, rot_auto_cw, rot_auto_ccw, mir_auto_cw, mir_auto_ccw⟩")
    L.append("end Dassh.Gen.C07T%d\n" % n)
    ctx.gen("C07T%d" % n, "\n".join(L))
    return maxdev / rr.duct_ftf[-1][1]


def generate(ctx, ns=None):
    from harness.checks import c08
    rng = random.Random(7000)
    ns = ns or (FULL_N if ctx.thorough else QUICK_N)
    c08.generate(ctx, ns)            # the tables the permutations act on
    devs = {}
    for n in ns:
        devs[n] = gen_perm_tables(ctx, n, rng)
    agg = ["-- GENERATED: collects the symmetry certificates."] + ["import Dassh.Gen.C07T%d" % n for n in ns]
    agg += ["", "namespace Dassh.Gen.C07All", "", "def ringCounts : List Nat := [%s]" % ", ".join(map(str, ns)), "",
            "def allCerts : List Bool := %s" % " ++ ".join("Dassh.Gen.C07T%d.certs" % n for n in ns), "",
            "theorem all_ok : allCerts.all (· = true) = true := by",
            "  simp only [allCerts, List.all_append, Bool.and_self, %s]" % ", ".join("Dassh.Gen.C07T%d.certs_ok" % n for n in ns),
            "", "def AllAutos : Prop := %s" % " ∧ ".join("Dassh.Gen.C07T%d.Autos" % n for n in ns),
            "theorem all_autos : AllAutos := ⟨%s⟩" % ", ".join("Dassh.Gen.C07T%d.autos" % n for n in ns),
            "end Dassh.Gen.C07All", ""]
    ctx.gen("C07All", "\n".join(agg))
    return devs


def asym_power(rng, case, zb=None):
    """strongly asymmetric pin power map on assembly position index -> array"""
    L = case['core']['length']
    zb = zb or [0.0, L]
    rows = []
    pw = {}
    for asm in case['assignment']:
        a = gi.position_index(asm['ring'], asm['pos'])
        t = case['types'][asm['type']]
        npin = gi.n_pins(t['num_rings'])
        pw[a] = [rng.uniform(2e3, 3e4) for _ in range(npin)]
        for k in range(len(zb) - 1):
            for i in range(npin):
                rows.append([a, 1, zb[k], zb[k + 1], i + 1, pw[a][i]])
    case['power'] = dict(rows=rows, n_terms=1, zbnds=zb, total_power=None, scaling=1.0)
    return pw


def set_pin_power(case, pw):
    zb = case['power']['zbnds']
    rows = []
    for a, vals in pw.items():
        for k in range(len(zb) - 1):
            for i, v in enumerate(vals):
                rows.append([a, 1, zb[k], zb[k + 1], i + 1, v])
    case['power']['rows'] = rows


def run_fields(ctx, case, tag):
    d = str(ctx.work / tag)
    inp, r = gi.build_reactor(case, d)
    gi.sweep(r)
    import shutil
    shutil.rmtree(d, ignore_errors=True)
    return r


def oracle_single(ctx, rng, n):
    for ci in range(n):
        n_ring = rng.choice([2, 3, 4])
        n_duct = rng.choice([1, 1, 2])
        base = gi.random_case(rng, n_core_rings=1, n_types=1, gap_model='none', length=0.15, with_power=False,
                              flow_range=(0.5, 4.0), type_kw=dict(n_ring=n_ring, n_duct=n_duct))
        t = base['types']['t0']
        pw = asym_power(rng, base)
        r0 = run_fields(ctx, base, "a%d" % ci)
        reg0 = r0.assemblies[0].active_region
        sc = reg0.subchannel
        nc = int(sc.n_sc['coolant']['total'])
        ntot = sc.xy.shape[0]
        mirror = rng.random() < 0.4
        k = rng.randint(1, 5) if not mirror else 0
        pi, _ = transform_perm(sc.xy[:nc], k, mirror)
        sg, _ = transform_perm(reg0.pin_lattice.xy, k, mirror)
        # duct cells: all cells beyond the coolant ones, per ring of the table
        full, _ = transform_perm(sc.xy, k, mirror)
        case2 = gi.copy.deepcopy(base)
        newp = [0.0] * len(pw[1])
        for p, v in enumerate(pw[1]):
            newp[sg[p]] = v                  # the power of pin p moves to the image pin
        set_pin_power(case2, {1: newp})
        if mirror:
            case2['types']['t0']['wire_direction'] = ('clockwise' if t['wire_direction'] == 'counterclockwise' else 'counterclockwise')
        r1 = run_fields(ctx, case2, "b%d" % ci)
        reg1 = r1.assemblies[0].active_region
        ctx.evals += 1
        T0, T1 = reg0.temp['coolant_int'], reg1.temp['coolant_int']
        dev = max(abs(T1[pi[i]] - T0[i]) for i in range(nc))
        # duct mid-wall of every duct: cells are those of the table after the coolant cells
        nd = int(sc.n_sc['duct']['total'])
        ddev = 0.0
        for dct in range(reg0.n_duct):
            start = nc + 2 * dct * nd
            for j in range(nd):
                jj = full[start + j] - start
                ddev = max(ddev, abs(reg1.temp['duct_mw'][dct, jj] - reg0.temp['duct_mw'][dct, j]))
        rise = float(np.max(T0) - r0.inlet_temp)
        if max(dev, ddev) > 1e-8 * max(rise, 1.0):
            ctx.violation("c07-single-%s" % ("mirror" if mirror else "rotation"),
                          "%s of the power map by %s does not %s the temperature field (max dev %.3g K coolant, %.3g K duct; rise %.1f K)"
                          % ("mirroring (with reversed wire)" if mirror else "rotating", "x -> -x" if mirror else "%d x 60 deg" % k,
                             "mirror" if mirror else "rotate", dev, ddev, rise), case=base, k=k, mirror=mirror)
        ctx.count("mirror" if mirror else "rotation")
        if ci < 3:
            ctx.sample(dict(kind="single", n_ring=n_ring, n_duct=n_duct, mirror=mirror, k=k, rise=rise, dev=dev))


def oracle_core(ctx, rng, n):
    """rotate a whole 7-position loading pattern by 60 degrees about the core centre"""
    for ci in range(n):
        keep = [p for p in gi.core_positions(2) if p == (1, 1) or rng.random() < 0.8]
        gm = rng.choice(['flow', 'no_flow', 'duct_average'])
        tdep = ci % 3 == 2       # every third core: temperature-dependent coolant, correlated parameters re-evaluated only when the
        if tdep:                 # properties moved by more than a tolerance (per-assembly state), all seven positions occupied
            keep = gi.core_positions(2)
        for _try in range(8):
            base = gi.random_case(rng, positions=keep, n_types=2, gap_model=gm, length=0.08, with_power=False, flow_range=(0.5, 4.0),
                                  type_kw=dict(n_duct=1), const_props=not tdep)
            if len(set(t['num_rings'] for t in base['types'].values())) == 2:
                break
        if tdep:
            base['core']['coolant_material'] = 'sodium'
            base['setup']['param_update_tol'] = rng.choice([0.01, 0.05])
            ctx.count("core_rotations_with_update_tolerance")
        # the two types (different ring counts = different gap meshes) alternate around ring 2, so that gap corners see mixed
        # meshes; the numbering seam (position 6 -> 1) then falls between unlike neighbours
        names = list(base['types'])
        for k, asm in enumerate(base['assignment']):
            if ci % 2 == 0 or tdep:
                asm['type'] = names[k % 2]
        base['core']['bypass_fraction'] = 0.03
        pw = asym_power(rng, base)
        try:
            r0 = run_fields(ctx, base, "c%d" % ci)
        except SystemExit:
            continue
        # rotated problem: position (2,p) -> (2, p+1); in the xy frame of the pin lattices that is a rotation by +60 degrees
        # (found by trying both senses: the other one is off by ~1 K), power maps turned with it
        case2 = gi.copy.deepcopy(base)
        newpw = {}
        amap = {}
        for asm in case2['assignment']:
            old = gi.position_index(asm['ring'], asm['pos'])
            if asm['ring'] == 2:
                asm['pos'] = asm['pos'] % 6 + 1
            amap[old] = gi.position_index(asm['ring'], asm['pos'])
        regs = {a.id: a.active_region for a in r0.assemblies}
        id_by_pos = {}
        for a in r0.assemblies:
            id_by_pos[a.id] = a
        for asm in base['assignment']:
            old = gi.position_index(asm['ring'], asm['pos'])
            reg = [a for a in r0.assemblies if gi.position_index(a.loc[0] + 1, a.loc[1] + 1) == old][0].active_region
            sg, _ = transform_perm(reg.pin_lattice.xy, 1, False)
            vals = pw[old]
            nv = [0.0] * len(vals)
            for p, v in enumerate(vals):
                nv[sg[p]] = v
            newpw[amap[old]] = nv
        case2['power']['rows'] = []
        set_pin_power(case2, newpw)
        try:
            r1 = run_fields(ctx, case2, "d%d" % ci)
        except SystemExit:
            continue
        ctx.evals += 1
        worst = 0.0
        for a0 in r0.assemblies:
            old = gi.position_index(a0.loc[0] + 1, a0.loc[1] + 1)
            a1 = [a for a in r1.assemblies if gi.position_index(a.loc[0] + 1, a.loc[1] + 1) == amap[old]][0]
            reg0, reg1 = a0.active_region, a1.active_region
            nc = int(reg0.subchannel.n_sc['coolant']['total'])
            pi, _ = transform_perm(reg0.subchannel.xy[:nc], 1, False)
            T0, T1 = reg0.temp['coolant_int'], reg1.temp['coolant_int']
            worst = max(worst, max(abs(T1[pi[i]] - T0[i]) for i in range(nc)))
        rise = max(float(np.max(a.active_region.temp['coolant_int'])) for a in r0.assemblies) - r0.inlet_temp
        if worst > 1e-7 * max(rise, 1.0):
            ctx.violation("c07-core-rotation:%s" % gm, "rotating the core loading by 60 degrees does not rotate the assembly results "
                          "(max dev %.3g K, rise %.1f K)" % (worst, rise), case=base)
        if ci < 2:
            ctx.sample(dict(kind="core", positions=keep, gap_model=gm, dev=worst))


def run(ctx):
    rng = random.Random(7700 + ctx.seed)
    ns = FULL_N if ctx.thorough else QUICK_N
    ctx.rule = ("T2: rotation by 60 deg + mirror derived from centroid coordinates, certificate-checked for ring counts %s; oracle: "
                "single assemblies (2-4 rings, 1-2 ducts, both wire directions) with random pin-power maps rotated / mirrored, "
                "7-position cores with holes rotated by 60 degrees, all gap models" % ns)
    try:
        devs = generate(ctx, ns)
        ctx.stats["centroid_match_rel_dev"] = max(devs.values())
        ok = True
    except BaseException:
        import traceback
        ctx.problem("generation-failed", "c07 permutations", traceback.format_exc()[-1500:])
        ok = False
    if ok:
        ctx.prove("Dassh.Props.C07")
    # the hypothesis of the theorems - the real update is LOCAL: the new value of a cell is one rational function, per
    # neighbour-type class, of the values at its neighbours by role, its donor and its sources - is re-established on the
    # code as it is now: the real interior and bypass updates are executed symbolically (T1b, shared with C04) and all cells
    # of a class must agree after renaming their neighbours to roles
    try:
        from harness.checks import c04
        before = len(ctx.problems)
        c04.collect(ctx, random.Random(2000))
        ctx.obligation("local form: every traced interior / bypass cell update equals its class's update under role renaming",
                       len(ctx.problems) == before, kind="trace-shape",
                       detail="%d cells disagree with their class" % (len(ctx.problems) - before))
    except Exception:
        import traceback
        ctx.problem("trace-failed", "c07 local-form tracer", traceback.format_exc()[-1500:])
    oracle_single(ctx, rng, 16 if ctx.thorough else 5)
    oracle_core(ctx, rng, 8 if ctx.thorough else 3)
    ctx.nontrivial = ctx.evals
    ctx.traces = ctx.evals
    ctx.trusted += ["permutations are derived from the centroid coordinates the code publishes (nearest neighbour); Lean checks "
                    "that what was derived is an automorphism, so a wrong derivation cannot make the certificate pass"]
    ctx.assumptions += ["the generic equivariance theorem is about local explicit updates (the form of the interior coolant update, "
                        "see C04); duct, bypass, gap and pin parts are covered by the oracle",
                        "core rotation is checked on 7-position cores (19 in the thorough tier is not implemented)"]
