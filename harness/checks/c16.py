"""C16 - runs are repeatable: set-up never mutates the input, serial = parallel.

Lean: Props/C16.lean (idempotent construction, schedule independence) about the abstract
model lean/Dassh/Model/Repeat.lean.  Tie (partial: the OS / multiprocessing runtime and NumPy's
reductions are trusted): the hypotheses are checked on the real code -
  * deep structural fingerprint of DASSH_Input.data before / after Reactor(...);
  * a second Reactor from the same input object builds and sweeps to bitwise the same result;
  * dassh.__main__.main on 2-3 time points: serial, parallel (Pool) and one-at-a-time executions
    write the same per-time-point outputs, each in its own directory.
"""
import copy
import hashlib
import os
import random
import re
import shutil

import numpy as np

from harness import gen_input as gi

FUEL = dict(gap_thickness=0.0, clad_material='ht9', r_frac=[0.0, 0.33333, 0.66667], pu_frac=[0.2, 0.2, 0.2],
            zr_frac=[0.1, 0.1, 0.1], porosity=[0.25, 0.25, 0.25])


def fp(o, depth=0):
    """structural fingerprint of parsed input data (types and values)"""
    import dassh
    if isinstance(o, dict):
        return ("dict", tuple(sorted((str(k), fp(v, depth + 1)) for k, v in o.items())))
    if isinstance(o, (list, tuple)):
        return (type(o).__name__, tuple(fp(v, depth + 1) for v in o))
    if isinstance(o, np.ndarray):
        return ("ndarray", o.shape, o.tobytes())
    if isinstance(o, (int, float, str, bool, type(None), np.floating, np.integer)):
        return (type(o).__name__, repr(o))
    if isinstance(o, dassh.Material):
        return ("Material", getattr(o, 'name', '?'))
    return (type(o).__name__,)


def diff_fp(a, b, path=""):
    if a == b:
        return []
    if a[0] == "dict" and b[0] == "dict":
        da, db = dict(a[1]), dict(b[1])
        out = []
        for k in sorted(set(da) | set(db)):
            if k not in da:
                out.append(path + "." + k + " (added)")
            elif k not in db:
                out.append(path + "." + k + " (removed)")
            else:
                out += diff_fp(da[k], db[k], path + "." + k)
        return out
    return [path + " (%s -> %s)" % (a[0], b[0] if a[0] != b[0] else "value changed")]


def make_case(rng, kind):
    case = gi.random_case(rng, n_core_rings=1, n_types=1, gap_model=rng.choice(['none', 'flow']), length=0.1, flow_range=(1.0, 5.0),
                          type_kw=dict(n_ring=rng.choice([2, 3]), n_duct=1))
    if kind == "core-tol":
        # several assemblies round a gap, temperature-dependent coolant, correlated parameters re-evaluated only when the properties
        # have moved by more than a tolerance: the reference state of that test must not survive from one run to the next
        pos = [(1, 1)] + [p for p in gi.core_positions(2)[1:] if rng.random() < 0.5] + [(2, 4)]
        case = gi.random_case(rng, positions=sorted(set(pos)), n_types=rng.choice([1, 2]), gap_model=rng.choice(['flow', 'no_flow']),
                              length=0.1, flow_range=(1.0, 5.0), const_props=False, type_kw=dict(n_ring=rng.choice([2, 3]), n_duct=1))
        case['core']['coolant_material'] = rng.choice(['sodium', 'nak'])
        case['setup']['param_update_tol'] = rng.choice([0.01, 0.01, 0.002, 0.05])
        if rng.random() < 0.6:
            # the same problem written in Celsius or Fahrenheit: the material objects of the parsed input are set up before the
            # unit conversion - the state a first Reactor finds them in must be the state it leaves them in
            from harness.checks import c17
            case = c17.to_units(case, 'm', rng.choice(['C', 'F']), 'kg/s')
        return case
    t = case['types']['t0']
    if rng.random() < 0.5:
        gi.random_setup_options(rng, case)
    # the power file may be rescaled at set-up (scaling factor, normalisation to a total power)
    if case.get('power'):
        u = rng.random()
        if u < 0.35:
            case['power']['scaling'] = round(rng.uniform(0.5, 1.5), 3)
        elif u < 0.6:
            case['power']['total_power'] = round(rng.uniform(2e4, 2e5), 1)
    # boundary conditions: flow rate, outlet temperature or temperature rise (the latter two make set-up estimate a flow rate)
    for a in case['assignment']:
        u = rng.random()
        if u < 0.35:
            a.pop('flowrate')
            a['outlet_temp'] = round(case['core']['coolant_inlet_temp'] + rng.uniform(80, 160), 2)
        elif u < 0.6:
            a.pop('flowrate')
            a['delta_temp'] = round(rng.uniform(80, 160), 2)
    if kind == "fuel":
        t['FuelModel'] = dict(FUEL)
    elif kind == "pin":
        t['PinModel'] = dict(gap_thickness=0.0, clad_material='ht9', r_frac=[0.0, 0.5], pin_material=['ss316', 'ht9'])
    elif kind == "dump":
        case['setup']['Dump'] = dict(coolant=True, average=True)
    elif kind == "planes":
        # optional list-valued keys of the input: requested axial planes, unrodded regions, spacer grids
        case['setup']['axial_plane'] = sorted(round(rng.uniform(0.01, 0.09), 4) for _ in range(rng.choice([2, 3])))
        gi.add_axial_regions(rng, case, 't0')
        if not t.get('use_low_fidelity_model'):
            t['SpacerGrid'] = dict(loss_coeff=1.2, axial_positions=[0.04, 0.05])
    elif kind == "tables":
        # detailed table requests at the inlet plane (never dumped), inside the core and at the outlet; temperature boundary
        # conditions, so that the time points of a multi-point run (other powers) get other flow rates and axial meshes
        L_ = case['core']['length']
        case['setup']['AssemblyTables'] = {
            'tab1': dict(type='coolant_subchannel', assemblies=[1], axial_positions=[0.0, round(rng.uniform(0.2, 0.8) * L_, 4), L_]),
            'tab2': dict(type='duct_mw', assemblies=[1], axial_positions=[round(rng.uniform(1e-4, 1e-3), 5), L_])}
        for a in case['assignment']:
            for k_ in ('flowrate', 'delta_temp'):
                a.pop(k_, None)
            a['outlet_temp'] = round(case['core']['coolant_inlet_temp'] + rng.uniform(80, 160), 2)
    elif kind == "hotspot":
        t['FuelModel'] = dict(FUEL)
        t['Hotspot'] = {'clad': dict(temperature='clad_mw', input_sigma=3, output_sigma=2, subfactors='fftf_clad_mw')}
    return case


def outputs_of(r):
    gi.sweep(r)
    return [(a.active_region.temp['coolant_int'].tobytes(), a.temp_duct_mw.tobytes(), repr(float(a.pressure_drop))) for a in r.assemblies]


def oracle_input(ctx, rng, n):
    import dassh
    for ci in range(n):
        kind = ["core-tol", "tables", "planes", "plain", "fuel", "pin", "dump", "hotspot"][ci % 8]
        case = make_case(rng, kind)
        d = str(ctx.work / ("r%d" % ci))
        path = gi.write_case(case, d)
        try:
            inp = dassh.DASSH_Input(path)
        except SystemExit:
            ctx.count("rejected:" + kind)
            continue
        ctx.evals += 1
        before = fp(inp.data)
        try:
            r1 = dassh.Reactor(inp, path=d, write_output=False)
        except SystemExit:
            ctx.count("reactor_rejected:" + kind)
            continue
        after = fp(inp.data)
        changed = diff_fp(before, after)
        if changed:
            ctx.violation("c16-input-mutated:" + changed[0].split(" ")[0].lstrip("."),
                          "Reactor(...) modified the parsed input (%s input): %s" % (kind, "; ".join(changed[:6])),
                          case=case, kind=kind, changed=changed[:20])
        # second construction from the same input object
        try:
            r2 = dassh.Reactor(inp, path=d, write_output=False)
        except BaseException as ex:
            ctx.violation("c16-second-construction:" + kind, "a second Reactor(...) from the same input object fails (%s input): %r"
                          % (kind, ex), case=case, kind=kind)
            shutil.rmtree(d, ignore_errors=True)
            continue
        try:
            o1, o2 = outputs_of(r1), outputs_of(r2)
        except SystemExit:
            ctx.count("sweep_stopped_by_dassh:" + kind)      # e.g. the pin-temperature iteration limit at a generated power level
            shutil.rmtree(d, ignore_errors=True)
            continue
        if o1 != o2:
            ctx.violation("c16-second-run-differs:" + kind, "the second construction from the same input gives different temperatures",
                          case=case, kind=kind)
        # a construction AFTER sweeps were run from the same input object (what a serial multi-time-point run does)
        try:
            o4 = outputs_of(dassh.Reactor(inp, path=d, write_output=False))
        except SystemExit:
            o4 = o1
        except BaseException as ex:
            ctx.violation("c16-construction-after-sweep:" + kind, "a Reactor(...) built from the same input object after a sweep fails "
                          "(%s input): %r" % (kind, ex), case=case, kind=kind)
            o4 = o1
        if o4 != o1:
            dev = max(float(np.abs(np.frombuffer(x[0]) - np.frombuffer(y[0])).max()) for x, y in zip(o1, o4))
            ctx.violation("c16-run-after-sweep-differs:" + kind, "a Reactor built from the same input object AFTER a sweep gives different "
                          "temperatures than the first one (max %.3g K): the sweep left state in the input object" % dev,
                          case=case, kind=kind)
        # the whole life of a time point - construction, sweep WITH output, post-processing (tables, hot spots) - must leave the
        # parsed input as it was: that is the hypothesis of c16_serial_eq_parallel
        try:
            inp5 = dassh.DASSH_Input(path)
            before5 = fp(inp5.data)
            r5 = dassh.Reactor(inp5, path=d, write_output=True)
            r5.temperature_sweep()
            r5.postprocess()
            changed5 = diff_fp(before5, fp(inp5.data))
            ctx.count("full_time_point_fingerprints")
            if changed5:
                ctx.violation("c16-input-mutated-by-run:" + changed5[0].split(" ")[0].lstrip("."),
                              "a complete time point (construction, sweep, post-processing) modified the parsed input (%s input): %s"
                              % (kind, "; ".join(changed5[:6])), case=case, kind=kind, changed=changed5[:20])
        except SystemExit:
            ctx.count("full_time_point_stopped_by_dassh:" + kind)
        # fresh execution
        inp3 = dassh.DASSH_Input(path)
        r3 = dassh.Reactor(inp3, path=d, write_output=False)
        try:
            o3 = outputs_of(r3)
        except SystemExit:
            o3 = None
        if o3 != o1:
            ctx.violation("c16-not-deterministic", "two executions of one input give different temperatures", case=case)
        if ci < 3:
            ctx.sample(dict(kind=kind, mutated=changed[:3]))
        shutil.rmtree(d, ignore_errors=True)


def strip(txt):
    txt = re.sub(r"\d{1,2}-[A-Za-z]{3}-\d{2} \d\d:\d\d:\d\d", "<t>", txt)
    txt = re.sub(r"\d\d:\d\d:\d\d(\.\d+)?", "<t>", txt)
    txt = re.sub(r"\d{4}-\d\d-\d\d", "<d>", txt)
    return txt


def dir_digest(d):
    out = {}
    for root, dirs, files in os.walk(d):
        for f in sorted(files):
            if f.endswith(".log") or f.endswith(".pkl") or f in ("input.txt",) or f.startswith("power"):
                continue
            p = os.path.join(root, f)
            rel = os.path.relpath(p, d)
            try:
                txt = open(p, "r", errors="replace").read()
                out[rel] = hashlib.sha1(strip(txt).encode()).hexdigest()
            except OSError:
                pass
    return out


def run_main(case, d, n_tp, parallel, only=None):
    """dassh.__main__.main in a subprocess (it installs loggers / a multiprocessing pool)"""
    import subprocess
    import sys
    shutil.rmtree(d, ignore_errors=True)
    os.makedirs(d)
    c = copy.deepcopy(case)
    tps = list(range(n_tp)) if only is None else [only]
    for k in range(n_tp):
        ck = copy.deepcopy(case)
        for row in ck['power']['rows']:
            for j in range(5, len(row)):
                row[j] = row[j] * (1.0 + 0.25 * k)
        with open(os.path.join(d, "power%d.csv" % k), "w") as f:
            f.write(gi.render_power(ck))
    txt = gi.render_input(c, power_file=", ".join("power%d.csv" % k for k in tps))
    if parallel:
        txt = txt.replace("[Setup]", "[Setup]\n    parallel = True\n    n_cpu = %d" % min(3, len(tps)), 1)
    inp = os.path.join(d, "input.txt")
    open(inp, "w").write(txt)
    env = dict(os.environ, PYTHONPATH="/repo", OMP_NUM_THREADS="1")
    env.pop("DASSH_VERIF", None)
    p = subprocess.run(["/venv/bin/python", "-c", "import sys; from dassh.__main__ import main; main([sys.argv[1]])", inp],
                       cwd=d, env=env, stdout=subprocess.PIPE, stderr=subprocess.STDOUT, text=True, timeout=600)
    return p.returncode, p.stdout[-2000:], dir_digest(d)


def oracle_main(ctx, rng, n):
    for ci in range(n):
        kind = ["tables", "plain", "fuel", "dump", "planes"][ci % 5] if ci < 5 else rng.choice(["plain", "fuel", "dump", "planes", "tables"])
        case = make_case(rng, kind)
        n_tp = rng.choice([2, 3])
        base = str(ctx.work / ("m%d" % ci))
        rc_s, out_s, dg_s = run_main(case, base + "_serial", n_tp, False)
        rc_p, out_p, dg_p = run_main(case, base + "_par", n_tp, True)
        ctx.evals += 1
        if rc_s != 0 or rc_p != 0:
            ctx.violation("c16-main-fails:%s:%s" % (kind, "serial" if rc_s else "parallel"),
                          "dassh main exits with status %d/%d (serial/parallel) on a %d-time-point %s input: %s"
                          % (rc_s, rc_p, n_tp, kind, (out_s if rc_s else out_p)[-300:]), case=case, kind=kind, n_timepoints=n_tp)
        elif dg_s != dg_p:
            diff = sorted(k for k in set(dg_s) | set(dg_p) if dg_s.get(k) != dg_p.get(k))
            ctx.violation("c16-serial-vs-parallel:" + kind, "serial and parallel execution of %d time points differ in %s"
                          % (n_tp, diff[:5]), case=case, kind=kind)
        else:
            # one at a time: time point 1 alone must equal timestep_2 of the multi-point run (single runs write to the top dir)
            rc_1, out_1, dg_1 = run_main(case, base + "_one", n_tp, False, only=n_tp - 1)
            if rc_1 == 0:
                multi = {k.split("/", 1)[1]: v for k, v in dg_s.items() if k.startswith("timestep_%d/" % n_tp)}
                dg_1 = {(k.split("/", 1)[1] if k.startswith("timestep_") else k): v for k, v in dg_1.items()}
                common = set(multi) & set(dg_1)
                bad = sorted(k for k in common if multi[k] != dg_1[k])
                ctx.count("one_at_a_time_files_compared", len(common))
                if bad:
                    ctx.violation("c16-one-at-a-time:" + kind, "time point %d run alone differs from the multi-point run in %s"
                                  % (n_tp, bad[:5]), case=case, kind=kind)
            ctx.count("timepoint_dirs", len(set(k.split("/")[0] for k in dg_s if "/" in k)))
        for sfx in ("_serial", "_par", "_one"):
            shutil.rmtree(base + sfx, ignore_errors=True)
        if ci < 2:
            ctx.sample(dict(kind="main:" + kind, timepoints=n_tp, files=len(dg_s)))


def run(ctx):
    rng = random.Random(16000 + ctx.seed)
    ctx.rule = ("inputs: plain / requested planes + regions + grids / FuelModel / PinModel / dump request / hot-spot request; per input: fingerprint before/after "
                "Reactor(...), second construction, fresh execution; dassh main with 2-3 time points serial vs parallel vs alone")
    ctx.prove("Dassh.Props.C16")
    oracle_input(ctx, rng, 24 if ctx.thorough else 8)
    oracle_main(ctx, rng, 6 if ctx.thorough else 2)
    ctx.nontrivial = ctx.evals
    ctx.traces = ctx.evals
    ctx.trusted += ["the hypotheses of the theorems are observed on the real code (fingerprints, file digests)"]
    ctx.assumptions += ["PARTIAL: determinism of NumPy reductions and of the multiprocessing runtime is trusted, not modelled",
                        "time stamps are stripped from text outputs before comparison; log files and pickles are not compared"]
