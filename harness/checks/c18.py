"""C18 - impossible or inconsistent inputs are rejected before any calculation.

Lean: decision-logic theorems about the acceptance model lean/Dassh/Model/Accept.lean
(every member of each invalid class is rejected; acceptance implies the positivity facts
the geometry / step models need).  Tie: differential classification - the real
DASSH_Input(...) / Reactor(...) and the model classify the same generated inputs (valid
ones and single-fault perturbations across the input keys).  Oracle: every invalid class
must end in SystemExit before any temperature is computed; every valid generated input
must be set up and swept without an unhandled exception or hang.
PARTIAL: ConfigObj parsing / schema validation is exercised, not modelled.
"""
import copy
import random

import numpy as np

from harness import gen_input as gi
from harness import modelio
from harness.checks.c05 import Hang, with_timeout
from harness.checks.c10 import bits


def valid_case(rng, several=False):
    n_types = rng.choice([1, 1, 2])
    pos = [(1, 1)] + [p for p in gi.core_positions(2)[1:] if rng.random() < (0.7 if several else 0.3)]
    case = gi.random_case(rng, positions=pos, n_types=n_types, gap_model=rng.choice(['flow', 'none', 'no_flow', 'duct_average']),
                          length=round(rng.uniform(0.08, 0.3), 3), flow_range=(0.3, 6.0), const_props=rng.random() < 0.5,
                          type_kw=dict(n_duct=rng.choice([1, 2, 2])))
    case['core']['bypass_fraction'] = round(10 ** rng.uniform(-2.5, -1), 5)
    for tn in list(case['types']):
        u = rng.random()
        if u < 0.3:
            gi.add_axial_regions(rng, case, tn, lower=rng.random() < 0.7, upper=rng.random() < 0.7)
        elif u < 0.4:
            gi.make_low_fidelity(rng, case, tn)
        if rng.random() < 0.25:
            case['types'][tn]['FuelModel'] = dict(gap_thickness=0.0, clad_material='ht9', r_frac=[0.0, 0.33333, 0.66667],
                                                  pu_frac=[0.2, 0.2, 0.2], zr_frac=[0.1, 0.1, 0.1], porosity=[0.25, 0.25, 0.25])
        if rng.random() < 0.2:
            case['types'][tn]['dummy_pin'] = [1, 2]          # (a schema key: pins without power)
        if rng.random() < 0.25 and not case['types'][tn].get('use_low_fidelity_model') and not case['types'][tn].get('AxialRegion'):
            # spacer grids given by their loss coefficient - zero is a number, too (a grid without loss)
            L_ = case['core']['length']
            case['types'][tn]['SpacerGrid'] = dict(loss_coeff=rng.choice([0.0, 0.0, 0.9, 1.6]),
                                                   axial_positions=[round(0.3 * L_, 4), round(0.7 * L_, 4)])
    gi.random_power(rng, case)
    if rng.random() < 0.5:
        gi.random_setup_options(rng, case)
    if rng.random() < 0.3:
        a = rng.choice(case['assignment'])
        a.pop('flowrate')
        a['delta_temp'] = round(rng.uniform(60, 200), 1)
    return case


FAULTS = ["bare-rods-wire-only-correlation", "bare-rods-zero-pitch-wire-only-correlation", "power-missing-assembly", "outlet-temp-below-inlet", "bypass-gap-flow-fraction-out-of-range", "bypass-gap-loss-coeff-given", "bypass-fraction-one", "negative-shape-factor", "pinmodel-rfrac-out-of-range", "fuel-rfrac-out-of-range", "fuel-negative-porosity", "fuel-legacy-gap-too-thick", "power-duplicate-item", "spacergrid-cdd-coeff-count", "spacergrid-no-position-in-bundle", "zero-wire-pitch", "axial-regions-cover-core", "power-wrong-count-later-assembly", "power-short-later-assembly", "duct-zero-wall", "pins-do-not-fit", "wire-too-thick", "clad-too-thick", "zero-pin-pitch", "negative-pin-diameter", "zero-duct-ftf",
          "duct-ge-pitch", "unequal-outer-ducts", "axial-regions-overlap", "axial-region-inverted", "missing-bc", "negative-flowrate",
          "unknown-material", "unknown-correlation", "negative-power", "power-gap-between-cells", "power-wrong-pin-count",
          "flow-gap-no-bypass", "zero-core-length", "odd-duct-values", "zero-step-request",
          "axial-region-no-coolant", "axial-region-unknown-model", "pin-pitch-equals-diameter"]


GEOMETRY_FAULTS = ["duct-zero-wall", "wire-too-thick", "clad-too-thick", "zero-pin-pitch", "negative-pin-diameter", "zero-duct-ftf", "odd-duct-values"]


NEAR_FAULTS = ["wire-too-thick", "clad-too-thick", "duct-ge-pitch", "pins-do-not-fit"]


def inject(rng, case, fault, lowfid=False, near=False, excess=0.01):
    """returns a single-fault perturbation of a valid case (or None if not applicable); lowfid: the assembly type that
    receives the fault is first switched to the low-fidelity (no pin bundle) model, which keeps the case valid; near: the
    violated limit is exceeded by 1 % only (a later stage that happens to stumble over a grossly wrong value does not help)"""
    c = copy.deepcopy(case)
    tn = rng.choice(list(c['types']))
    t = c['types'][tn]
    if lowfid:
        if t.get('use_low_fidelity_model'):
            return None
        gi.make_low_fidelity(rng, c, tn)
    if fault == "pins-do-not-fit":
        if t.get('use_low_fidelity_model'):
            return None
        if near:      # bundle flat-to-flat 0.5 % larger than the inner duct
            t['pin_pitch'] = ((1.0 + excess / 2) * min(t['duct_ftf']) - t['pin_diameter'] - 2 * t['wire_diameter']) / (3 ** 0.5 * (t['num_rings'] - 1))
        else:
            t['pin_pitch'] *= 1.5
            t['wire_diameter'] = min(t['wire_diameter'], (t['pin_pitch'] - t['pin_diameter']) * 0.5)
    elif fault == "wire-too-thick":
        t['wire_diameter'] = (t['pin_pitch'] - t['pin_diameter']) * (1.0 + excess if near else 1.5)
    elif fault == "clad-too-thick":
        t['clad_thickness'] = t['pin_diameter'] * (0.5 * (1.0 + excess) if near else 0.7)
    elif fault == "zero-pin-pitch":
        t['pin_pitch'] = 0.0
    elif fault == "negative-pin-diameter":
        t['pin_diameter'] = -abs(t['pin_diameter'])
    elif fault in ("duct-zero-wall",):
        # any of the ducts, preferably not the first one: (inner, outer) flat-to-flat of duct d are entries 2d, 2d+1
        # (a pair given as (outer, inner) is NOT a fault: the reader documents that it infers which is which)
        nd = len(t['duct_ftf']) // 2
        d = nd - 1 if rng.random() < 0.7 else rng.randrange(nd)
        if fault == "duct-zero-wall":
            t['duct_ftf'][2 * d + 1] = t['duct_ftf'][2 * d]
        else:
            t['duct_ftf'][2 * d], t['duct_ftf'][2 * d + 1] = t['duct_ftf'][2 * d + 1], t['duct_ftf'][2 * d]
        if d == nd - 1:      # keep the outer ducts of all types equal so that this stays a single fault
            for t2 in c['types'].values():
                t2['duct_ftf'][-1] = t['duct_ftf'][-1]
    elif fault == "zero-duct-ftf":
        t['duct_ftf'][0] = 0.0
    elif fault == "duct-ge-pitch":
        c['core']['assembly_pitch'] = t['duct_ftf'][-1] * (0.999 if near else 0.9)
    elif fault == "unequal-outer-ducts":
        if len(c['types']) < 2:
            return None
        t['duct_ftf'][-1] *= 1.002
    elif fault == "axial-regions-overlap":
        L = c['core']['length']
        t['AxialRegion'] = [dict(name='lower', z_lo=0.0, z_hi=0.6 * L, vf_coolant=0.3, model='simple'),
                            dict(name='upper', z_lo=0.5 * L, z_hi=L, vf_coolant=0.3, model='simple')]
    elif fault in ("spacergrid-cdd-coeff-count", "spacergrid-no-position-in-bundle"):
        if t.get('use_low_fidelity_model'):
            return None
        L = c['core']['length']
        lo = max([r_['z_hi'] for r_ in t.get('AxialRegion') or [] if r_['name'] == 'lower'] + [0.0])
        hi = min([r_['z_lo'] for r_ in t.get('AxialRegion') or [] if r_['name'] == 'upper'] + [L])
        inside = [round(lo + (hi - lo) * f, 4) for f in (0.3, 0.6)]
        if fault == "spacergrid-cdd-coeff-count":
            # the CDD loss correlation takes exactly seven coefficients; with or without an explicit solidity
            sg = dict(corr='CDD', corr_coeff=[round(rng.uniform(0.1, 2.0), 3) for _ in range(rng.choice([3, 5, 6]))],
                      axial_positions=inside)
            if rng.random() < 0.6:
                sg['solidity'] = round(rng.uniform(0.2, 0.4), 3)
        else:
            if not (t.get('AxialRegion')):
                return None
            outside = [round(0.5 * lo, 4)] if lo > 0 else [round(0.5 * (hi + L), 4)]
            sg = dict(loss_coeff=1.1, axial_positions=outside)
        t['SpacerGrid'] = sg
    elif fault == "zero-wire-pitch":
        # a wire of positive diameter that never winds round the pin (both zero = bare rods is a valid input)
        if t.get('use_low_fidelity_model') or t['wire_diameter'] <= 0:
            return None
        t['wire_pitch'] = 0.0
    elif fault == "axial-regions-cover-core":
        # unrodded regions from inlet to outlet of a pin-bundle assembly: no room for the (single) rodded region
        if t.get('use_low_fidelity_model'):
            return None
        L = c['core']['length']
        zc = round(rng.uniform(0.3, 0.7) * L, 4)
        t['AxialRegion'] = [dict(name='lower', z_lo=0.0, z_hi=zc, vf_coolant=0.3, model='simple'),
                            dict(name='upper', z_lo=zc, z_hi=L, vf_coolant=0.3, model='simple')]
    elif fault == "pin-pitch-equals-diameter":
        # touching pins: no gap between them (the pin-to-pin conduction length is zero)
        t['pin_pitch'] = t['pin_diameter']
        t['wire_diameter'] = 0.0
        t['wire_pitch'] = 0.0
    elif fault == "axial-region-no-coolant":
        # a region without any coolant volume cannot pass the flow (every temperature becomes NaN)
        if t.get('use_low_fidelity_model'):
            return None
        L = c['core']['length']
        t['AxialRegion'] = [dict(name='lower', z_lo=0.0, z_hi=round(0.2 * L, 4), vf_coolant=0.0, model=rng.choice(['simple', '6node']))]
    elif fault == "axial-region-unknown-model":
        if t.get('use_low_fidelity_model'):
            return None
        L = c['core']['length']
        t['AxialRegion'] = [dict(name='upper', z_lo=round(0.8 * L, 4), z_hi=L, vf_coolant=0.3, model=rng.choice(['porous', 'Simple', '6-node']))]
    elif fault == "axial-region-inverted":
        L = c['core']['length']
        t['AxialRegion'] = [dict(name='lower', z_lo=0.3 * L, z_hi=0.1 * L, vf_coolant=0.3, model='simple')]
    elif fault == "missing-bc":
        a = rng.choice(c['assignment'])
        for k in ('flowrate', 'outlet_temp', 'delta_temp'):
            a.pop(k, None)
        a['_nobc'] = True
    elif fault == "negative-flowrate":
        a = rng.choice(c['assignment'])
        for k in ('outlet_temp', 'delta_temp'):
            a.pop(k, None)
        a['flowrate'] = -1.0
    elif fault == "unknown-material":
        t['duct_material'] = 'unobtainium'
    elif fault == "unknown-correlation":
        t['corr_friction'] = 'XYZ'
    elif fault == "negative-power":
        for row in c['power']['rows'][:3]:
            row[5] = -abs(row[5]) - 1.0
    elif fault == "power-gap-between-cells":
        zb = c['power']['zbnds']
        if len(zb) < 3:
            return None
        for row in c['power']['rows']:
            if row[2] == zb[1]:
                row[2] = zb[1] + 0.01 * (zb[2] - zb[1])
    elif fault in ("power-wrong-count-later-assembly", "power-short-later-assembly"):
        # the fault sits in the power profile of ONE assembly that is not the first of its type
        by_type = {}
        for a in c['assignment']:
            by_type.setdefault(a['type'], []).append(gi.position_index(a['ring'], a['pos']))
        # (pin-bundle types only: a homogenised assembly has no pins to count, its profile is only summed)
        cands = [sorted(v)[-1] for tn_, v in by_type.items() if len(v) > 1 and not c['types'][tn_].get('use_low_fidelity_model')]
        if not cands:
            return None
        victim = rng.choice(cands)
        rows = c['power']['rows']
        if fault == "power-wrong-count-later-assembly":
            last_item = max(int(r[4]) for r in rows if int(r[0]) == victim and int(r[1]) == 1)
            c['power']['rows'] = [r for r in rows if not (int(r[0]) == victim and int(r[1]) == 1 and int(r[4]) == last_item)]
        else:
            zmax = max(float(r[3]) for r in rows if int(r[0]) == victim)
            zcut = max(float(r[2]) for r in rows if int(r[0]) == victim)
            if zcut <= 0.0:          # a single power cell: shorten it
                for r in rows:
                    if int(r[0]) == victim:
                        r[3] = 0.8 * zmax
            else:                    # drop the top cell of this assembly only
                c['power']['rows'] = [r for r in rows if not (int(r[0]) == victim and float(r[2]) == zcut)]
    elif fault in ("fuel-rfrac-out-of-range", "fuel-negative-porosity", "fuel-legacy-gap-too-thick"):
        if t.get('use_low_fidelity_model'):
            return None
        fm = t.get('FuelModel') or dict(gap_thickness=0.0, clad_material='ht9', r_frac=[0.0, 0.33333, 0.66667], pu_frac=[0.2, 0.2, 0.2],
                                        zr_frac=[0.1, 0.1, 0.1], porosity=[0.25, 0.25, 0.25])
        fm = copy.deepcopy(fm)
        if fault == "fuel-rfrac-out-of-range":
            if rng.random() < 0.5:
                fm['r_frac'][-1] = rng.choice([1.0, 1.2])
            else:
                fm['r_frac'][0] = -rng.choice([0.05, 0.3])
        elif fault == "fuel-negative-porosity":
            fm['porosity'][rng.randrange(len(fm['porosity']))] = -rng.choice([0.5, 0.1, 0.3])
        else:
            fm['gap_thickness'] = 0.0
            fm['fcgap_thickness'] = t['pin_diameter'] * rng.choice([0.55, 1.0])
            fm['gap_material'] = 'sodium'
        t['FuelModel'] = fm
    elif fault in ("bypass-gap-flow-fraction-out-of-range", "bypass-gap-loss-coeff-given"):
        # double-ducted assemblies: the share of the assembly flow sent through the bypass gap is a fraction; the alternative
        # loss-coefficient input is announced by the schema but not implemented
        if t.get('use_low_fidelity_model') or len(t['duct_ftf']) < 4:
            return None
        if fault == "bypass-gap-flow-fraction-out-of-range":
            t['bypass_gap_flow_fraction'] = rng.choice([-0.2, 1.5, 1.0, 3.0])
        else:
            t['bypass_gap_loss_coeff'] = rng.choice([0.5, 2.0, -1.0])
    elif fault in ("bare-rods-wire-only-correlation", "bare-rods-zero-pitch-wire-only-correlation"):
        # no wire (diameter 0, whatever pitch is still written in the input) with a correlation that exists for wire-wrapped bundles only
        if t.get('use_low_fidelity_model'):
            return None
        t['wire_diameter'] = 0.0
        if fault == "bare-rods-zero-pitch-wire-only-correlation":
            t['wire_pitch'] = 0.0
        if rng.random() < 0.5:
            t['corr_friction'] = rng.choice(['NOV', 'REH', 'ENG', 'CTS'])
        else:
            t['corr_flowsplit'] = rng.choice(['NOV', 'SE2', 'MIT'])
            t['corr_mixing'] = 'MIT'
    elif fault == "power-missing-assembly":
        # the user power file has no rows at all for one of the assigned positions (and there is no other power source)
        if len(c['assignment']) < 2:
            return None
        a = rng.choice(c['assignment'])
        aid = gi.position_index(a['ring'], a['pos'])
        c['power']['rows'] = [r for r in c['power']['rows'] if int(r[0]) != aid]
    elif fault == "outlet-temp-below-inlet":
        # a heated assembly cannot leave colder than it enters: the flow rate that would do it is negative
        a = rng.choice(c['assignment'])
        for k in ('flowrate', 'delta_temp'):
            a.pop(k, None)
        a['outlet_temp'] = c['core']['coolant_inlet_temp'] - rng.choice([0.5, 20.0, 100.0])
    elif fault == "bypass-fraction-one":
        # all of the core flow through the inter-assembly gap leaves none for the assemblies
        c['core']['bypass_fraction'] = 1.0
    elif fault == "negative-shape-factor":
        # the conduction shape factor multiplies the conductance between subchannels: a negative one makes heat flow uphill
        if t.get('use_low_fidelity_model'):
            return None
        t['shape_factor'] = -rng.choice([0.5, 1.0, 2.0])
    elif fault == "pinmodel-rfrac-out-of-range":
        if t.get('use_low_fidelity_model'):
            return None
        t.pop('FuelModel', None)
        pm = dict(gap_thickness=0.0, clad_material='ht9', r_frac=[0.0, 0.5], pin_material=['ss316', 'ht9'])
        if rng.random() < 0.5:
            pm['r_frac'][-1] = rng.choice([1.0, 1.3])
        else:
            pm['r_frac'][0] = -rng.choice([0.05, 0.3])
        t['PinModel'] = pm
    elif fault == "power-duplicate-item":
        # in ONE axial cell one item is listed twice and another one not at all: the number of rows is still right
        rows = c['power']['rows']
        a0, c0 = int(rows[0][0]), int(rows[0][1])
        cells = sorted(set(float(r[2]) for r in rows if int(r[0]) == a0 and int(r[1]) == c0))
        n_items = max(int(r[4]) for r in rows if int(r[0]) == a0 and int(r[1]) == c0)
        if n_items < 2 or len(cells) < 2:
            return None
        zc = rng.choice(cells)
        i_from, i_to = rng.sample(range(1, n_items + 1), 2)
        for r in rows:
            if int(r[0]) == a0 and int(r[1]) == c0 and float(r[2]) == zc and int(r[4]) == i_from:
                r[4] = i_to
    elif fault == "power-wrong-pin-count":
        c['power']['rows'] = [r for r in c['power']['rows'] if not (int(r[1]) == 1 and int(r[4]) == 1)]
    elif fault == "flow-gap-no-bypass":
        c['core']['gap_model'] = 'flow'
        c['core']['bypass_fraction'] = 0.0
    elif fault == "zero-core-length":
        c['core']['length'] = 0.0
    elif fault == "odd-duct-values":
        t['duct_ftf'] = t['duct_ftf'] + [t['duct_ftf'][-1] * 1.01]
    elif fault == "zero-step-request":
        c['setup']['axial_mesh_size'] = 0.0
    return c


def render(case):
    txt = gi.render_input(case)
    # a missing boundary condition: drop the key=value from the assignment line
    for a in case['assignment']:
        if a.get('_nobc'):
            import re
            txt = re.sub(r"(%s = %d, %d, %d), DELTA_TEMP=nan" % (a['type'], a['ring'], a['pos'], a['pos']), r"\1", txt)
    return txt


def classify(case, d, sweep_too=True):
    """returns (class, detail): accepted | rejected | exception | hang ; computed = whether any temperature step ran"""
    import dassh
    import os
    import shutil
    shutil.rmtree(d, ignore_errors=True)
    os.makedirs(d)
    c = copy.deepcopy(case)
    nobc = [a for a in c['assignment'] if a.get('_nobc')]
    for a in nobc:
        a['delta_temp'] = float('nan')
    txt = render(c)
    with open(os.path.join(d, "input.txt"), "w") as f:
        f.write(txt)
    if c.get('power'):
        with open(os.path.join(d, "power.csv"), "w") as f:
            f.write(gi.render_power(c))
    stage = "read"
    computed = [False]
    try:
        def go():
            nonlocal stage
            inp = dassh.DASSH_Input(os.path.join(d, "input.txt"))
            stage = "setup"
            r = dassh.Reactor(inp, path=d, write_output=False)
            stage = "sweep"
            if sweep_too:
                def cb(i, z, dz):
                    if i >= 1:
                        computed[0] = True
                    if i >= 60:
                        raise StopIteration
                try:
                    gi.sweep(r, cb)
                except StopIteration:
                    pass
            return r
        with_timeout(go, 60)
        return "accepted", stage, computed[0]
    except SystemExit:
        return "rejected", stage, computed[0]
    except Hang:
        return "hang", stage, computed[0]
    except Exception as ex:
        import traceback
        tb = [f for f in traceback.extract_tb(ex.__traceback__) if '/dassh/' in f.filename]
        site = "%s:%s" % (tb[-1].filename.split('/')[-1], tb[-1].name) if tb else "?"
        return "exception", "%s@%s:%s" % (stage, site, type(ex).__name__), computed[0]
    finally:
        shutil.rmtree(d, ignore_errors=True)


def oracle_perturb(ctx, rng, n_cases, n_leaves):
    """single-key perturbation sweep: every numeric input key of a valid case set to 0, -1, 1e-9 x and 1e9 x its value.  Whether
    such an input is 'impossible' is not judged here; the second clause of the property is: whatever the reader and the set-up
    do with it, they end with an error message or run - never with an unhandled exception or a hang."""
    for ci in range(n_cases):
        case = valid_case(rng, several=ci % 2 == 1)
        if classify(case, str(ctx.work / "pv"))[0] != 'accepted':
            continue
        leaves = []
        for tn, t in case['types'].items():
            for k, v in t.items():
                if isinstance(v, (int, float)) and not isinstance(v, bool):
                    leaves.append(('types', tn, k))
                if k == 'duct_ftf':
                    leaves += [('types', tn, k, i) for i in range(len(v))]
                if k in ('FuelModel', 'PinModel', 'SpacerGrid') and isinstance(v, dict):
                    for kk, vv in v.items():
                        if isinstance(vv, (int, float)) and not isinstance(vv, bool):
                            leaves.append(('types', tn, k, kk))
                        elif isinstance(vv, list) and vv and all(isinstance(x, (int, float)) for x in vv):
                            leaves += [('types', tn, k, kk, i) for i in range(len(vv))]
                if k == 'AxialRegion' and v:
                    for ri, r_ in enumerate(v):
                        leaves += [('types', tn, k, ri, kk) for kk, vv in r_.items()
                                   if isinstance(vv, (int, float)) and not isinstance(vv, bool)]
        leaves += [('core', k) for k, v in case['core'].items() if isinstance(v, (int, float)) and not isinstance(v, bool)]
        leaves += [('setup', k) for k, v in case['setup'].items() if isinstance(v, (int, float)) and not isinstance(v, bool)]
        for a_i, a in enumerate(case['assignment']):
            leaves += [('assignment', a_i, k) for k in ('flowrate', 'outlet_temp', 'delta_temp') if k in a]
        for leaf in rng.sample(leaves, min(n_leaves, len(leaves))):
            for val in (0.0, -1.0, 1e-9, 1e9):
                c = copy.deepcopy(case)
                o = c
                for p_ in leaf[:-1]:
                    o = o[p_]
                o[leaf[-1]] = val if val in (0.0, -1.0) else o[leaf[-1]] * val
                cls, detail, computed = classify(c, str(ctx.work / "pp"))
                ctx.evals += 1
                key = leaf[-1] if not isinstance(leaf[-1], int) else leaf[-2]
                ctx.count("perturbation:" + cls)
                if cls == "exception":
                    ctx.violation("c18-perturbation-exception:%s:%s" % (key, detail), "input key %s set to %r: unhandled exception instead "
                                  "of an error message or a run (%s)" % ("/".join(map(str, leaf)), o[leaf[-1]], detail),
                                  case=c, key=list(leaf))
                elif cls == "hang":
                    ctx.violation("c18-perturbation-hang:%s" % key, "input key %s set to %r: the run does not terminate"
                                  % ("/".join(map(str, leaf)), o[leaf[-1]]), case=c, key=list(leaf))


def model_request(case):
    t_list = list(case['types'].values())
    parts = ["accept %d %d %d %d" % (bits(case['core']['length']), bits(case['core']['assembly_pitch']),
                                    1 if case['core']['gap_model'] == 'flow' else 0, bits(case['core']['bypass_fraction']))]
    for t in t_list:
        parts.append("| %d %d %d %d %d %d %s" % (t['num_rings'], bits(t['pin_pitch']), bits(t['pin_diameter']), bits(t['clad_thickness']),
                                                bits(t['wire_diameter']), 1 if t.get('use_low_fidelity_model') else 0,
                                                " ".join(str(bits(x)) for x in t['duct_ftf'])))
    bcs = []
    for a in case['assignment']:
        v = a.get('flowrate', a.get('outlet_temp', a.get('delta_temp')))
        bcs.append("none" if (a.get('_nobc') or v is None) else str(bits(v)))
    return " ".join(parts) + " || " + " ".join(bcs)


def search_fault(ctx, rng, fault, tries=40):
    """the reader no longer rejects a fault class its model rejects: look for a member of the class that gets through the whole
    pipeline (set-up and the first planes) - small excesses over the violated limit, detailed and low-fidelity types"""
    for k in range(tries):
        case = valid_case(rng)
        bad = inject(rng, case, fault, lowfid=k % 2 == 1, near=True, excess=[0.001, 0.01, 0.03, 0.1][(k // 2) % 4])
        if bad is None:
            continue
        cls, detail, computed = classify(bad, str(ctx.work / "search"))
        ctx.evals += 1
        ctx.count("search:%s:%s" % (fault, cls))
        if cls == "accepted" or computed:
            ctx.violation("c18-invalid-accepted:%s" % fault, "an input with the fault '%s' is %s" % (
                fault, "accepted and swept" if cls == "accepted" else "rejected only after temperatures were computed"),
                case=bad, fault=fault)
            return True
    return False


MODELLED = {"pin-pitch-equals-diameter", "bypass-fraction-one", "duct-zero-wall", "pins-do-not-fit", "wire-too-thick", "clad-too-thick", "zero-pin-pitch", "negative-pin-diameter", "zero-duct-ftf",
            "duct-ge-pitch", "unequal-outer-ducts", "missing-bc", "negative-flowrate", "flow-gap-no-bypass", "zero-core-length",
            "odd-duct-values"}


# ---------------------------------------------------------------------------------------------------------------
# axial-region acceptance: Model/AcceptRegions.lean (Props/C18Regions.lean) vs DASSH_Input.check_unrodded_regions

class _CaptureLogger:
    def __init__(self):
        self.msgs = []

    def _rec(self, msg, *a, **k):
        self.msgs.append(str(msg))
    info = warning = error = critical = debug = log = _rec


def region_layouts(rng, n):
    """user region lists (z_lo, z_hi) in the user's order on a grid of L/20 (coincident bounds are frequent): valid layouts (blocks of
    contiguous regions at the inlet and/or the outlet) and single mutations of them - zero height, inverted, nested, overlapping,
    outside the core, second free space, no free space, shuffled - plus random pairs"""
    out = []
    for _ in range(n):
        L = rng.choice([1.0, 3.862, round(rng.uniform(0.05, 5.0), 4), rng.uniform(0.05, 5.0)])
        g = [L * i / 20.0 for i in range(21)]
        g[-1] = L
        k_lo, k_hi = rng.choice([(1, 0), (0, 1), (1, 1), (2, 0), (0, 2), (2, 1), (1, 2), (2, 2), (3, 1)])
        cut = sorted(rng.sample(range(1, 20), k_lo + k_hi))
        lo_idx = [0] + cut[:k_lo]
        hi_idx = cut[k_lo:] + [20]
        regs = [(g[lo_idx[i]], g[lo_idx[i + 1]]) for i in range(k_lo)] + [(g[hi_idx[i]], g[hi_idx[i + 1]]) for i in range(k_hi)]
        kind = rng.choice(["valid", "valid", "valid-shuffled", "zero-height", "zero-height-nested", "zero-height-at-end", "inverted",
                           "overlap", "beyond-core", "below-inlet", "second-space", "no-space", "random", "duplicate"])
        j = rng.randrange(len(regs))
        a, b = regs[j]
        if kind == "zero-height":
            regs[j] = (a, a)
        elif kind == "zero-height-nested":
            x = rng.uniform(a, b) if rng.random() < 0.5 else rng.choice([a, b, 0.5 * (a + b)])
            regs.insert(rng.randrange(len(regs) + 1), (x, x))
        elif kind == "zero-height-at-end":
            x = rng.choice([0.0, L])
            regs.insert(rng.randrange(len(regs) + 1), (x, x))
        elif kind == "inverted":
            regs[j] = (b, a)
        elif kind == "overlap":
            regs.insert(rng.randrange(len(regs) + 1), (a + 0.25 * (b - a), b + rng.choice([0.0, 0.25 * (b - a)])))
        elif kind == "beyond-core":
            regs[-1] = (regs[-1][0], L * rng.choice([1.0 + 1e-12, 1.05, 2.0])) if k_hi else (0.9 * L, 1.1 * L)
            if not k_hi:
                regs = regs + [regs.pop()]
        elif kind == "below-inlet":
            regs[0] = (-L * rng.choice([1e-12, 0.05]), regs[0][1])
        elif kind == "second-space":
            regs[j] = (a + 0.25 * (b - a), b) if rng.random() < 0.5 else (a, b - 0.25 * (b - a))
        elif kind == "no-space":
            regs = [(g[i], g[i2]) for i, i2 in zip([0] + cut, cut + [20])]
        elif kind == "random":
            regs = [tuple(sorted(rng.sample(g, 2))) if rng.random() < 0.8 else (rng.choice(g), rng.choice(g))
                    for _ in range(rng.randint(1, 4))]
        elif kind == "duplicate":
            regs.append(regs[j])
        if kind != "valid":
            rng.shuffle(regs)
        out.append((kind, float(L), [(float(x), float(y)) for x, y in regs]))
    return out


def real_region_verdict(L, regs, attrs=None):
    """the real DASSH_Input.check_unrodded_regions on a stub input object (real log(): error = SystemExit)"""
    from dassh.read_input import DASSH_Input
    obj = DASSH_Input.__new__(DASSH_Input)
    obj._default_indent = 0
    obj._logger = _CaptureLogger()
    ar = {}
    for i, (a, b) in enumerate(regs):
        vf_, model_ = attrs[i] if attrs else (0.3, 'simple')
        ar["r%d" % i] = dict(z_lo=a, z_hi=b, vf_coolant=vf_, hydraulic_diameter=0.0, epsilon=0.0, convection_factor=None,
                             model=model_)
    obj.data = {'Assembly': {'a': {'use_low_fidelity_model': False, 'convection_factor': None, 'AxialRegion': ar}},
                'Core': {'length': L}}
    try:
        obj.check_unrodded_regions()
    except SystemExit:
        msg = " ".join(obj._logger.msgs[-1:])
        for key, kind in (("vf_coolant must be greater", "nocoolant"), ("model must be", "model"),
                          ("non-postive height", "height"), ("overlap", "overlap"), ("only one rodded region", "multiple"),
                          ("whole core length", "norods")):
            if key in msg:
                return "err " + kind
        return "err other:" + msg[:80]
    rods = obj.data['Assembly']['a']['AxialRegion']['rods']
    return "ok %d %d" % (bits(float(rods['z_lo'])), bits(float(rods['z_hi'])))


def layout_possible(L, regs):
    """the property, evaluated directly: positive heights, inside the core, pairwise disjoint, room left for the pin bundle"""
    if any(not (a < b) for a, b in regs) or any(a < 0 or b > L for a, b in regs):
        return False
    srt = sorted(regs)
    if any(srt[i][1] > srt[i + 1][0] for i in range(len(srt) - 1)):
        return False
    return True


def regions_correspondence(ctx, rng, n):
    cases = region_layouts(rng, n)
    reqs = ["regions %d | %s" % (bits(L), " ".join("%d %d" % (bits(a), bits(b)) for a, b in regs)) for _, L, regs in cases]
    bad = 0
    for (kind, L, regs), rep in zip(cases, modelio.ask(reqs)):
        real = real_region_verdict(L, regs)
        ctx.evals += 1
        ctx.count("regions:%s:%s" % (kind, real.split()[0] + ("" if real.startswith("ok") else ":" + real.split()[1])))
        if real.startswith("ok") and not layout_possible(L, regs):
            # a failing input on the real code, whatever the model says
            ctx.violation("c18-invalid-accepted:axial-region-layout:%s" % kind,
                          "check_unrodded_regions accepts the axial regions %r of a core of length %r (%s): a region of non-positive "
                          "height, outside the core or overlapping another one" % (regs, L, kind), L=L, regions=regs,
                          call="harness.checks.c18.real_region_verdict(L, regions)")
        if rep != real:
            bad += 1
            ctx.problem("correspondence", "Model.AcceptRegions vs DASSH_Input.check_unrodded_regions",
                        "L=%r regions=%r (%s): model %s, real %s" % (L, regs, kind, rep, real))
    ctx.obligation("Model.AcceptRegions reproduces check_unrodded_regions (verdict, error kind, rodded bounds bit for bit) on %d "
                   "region layouts" % len(cases), bad == 0, kind="correspondence", detail="disagreements %d" % bad)

# ---------------------------------------------------------------------------------------------------------------
# fuel pellet acceptance: Model/AcceptFuel.lean (Props/C18Fuel.lean) vs DASSH_Input.check_fuel_model

PU_LIMIT = 0.37037


def fuel_descriptions(rng, n):
    """pellet descriptions: valid ones (1-4 radial zones, solid or annular, with or without gap, standard or legacy gap key) and
    single mutations - fractions just outside / on the ends of their ranges, unordered radii, lists of unequal length, missing
    materials, gaps around the clad inner radius"""
    out = []
    for _ in range(n):
        D = rng.uniform(0.004, 0.012)
        clad = D * rng.uniform(0.05, 0.12)
        inner = D / 2.0 - clad
        nz = rng.randint(1, 4)
        r = sorted(rng.sample([i / 20.0 for i in range(1, 20)], nz - 1))
        r = [rng.choice([0.0, 0.0, 0.2 * (r[0] if r else 1.0)])] + r
        f = dict(inner=inner, D=D, clad=clad, gap=rng.choice([0.0, 0.0, inner * rng.uniform(0.01, 0.2)]), fcgap=0.0, r=r,
                 pu=[round(rng.uniform(0.0, 0.3), 3) for _ in range(nz)], zr=[round(rng.uniform(0.0, 0.3), 3) for _ in range(nz)],
                 po=[round(rng.uniform(0.0, 0.5), 3) for _ in range(nz)], clad_mat='ht9', gap_mat=None)
        if f['gap'] > 0:
            f['gap_mat'] = 'sodium'
        if rng.random() < 0.25 and f['gap'] > 0:
            f['fcgap'], f['gap'] = f['gap'], 0.0            # the same gap given with the legacy key
        kind = rng.choice(["valid", "valid", "rfrac-negative", "rfrac-one", "rfrac-above-one", "rfrac-unordered", "rfrac-repeated",
                           "porosity-negative", "porosity-one", "pu-negative", "zr-negative", "pu-high", "length", "empty",
                           "no-clad", "no-gap-material", "gap-too-thick", "gap-at-limit", "legacy-gap-too-thick"])
        j = rng.randrange(nz)
        if kind == "rfrac-negative":
            f['r'][0] = -rng.choice([1e-9, 0.1, 0.5])
        elif kind == "rfrac-one":
            f['r'][-1] = 1.0 if nz > 1 or True else 1.0
        elif kind == "rfrac-above-one":
            f['r'][-1] = rng.choice([1.0 + 1e-9, 1.2, 3.0])
        elif kind == "rfrac-unordered" and nz > 1:
            f['r'][0], f['r'][-1] = f['r'][-1], f['r'][0]
        elif kind == "rfrac-repeated" and nz > 1:
            f['r'][1] = f['r'][0]
        elif kind == "porosity-negative":
            f['po'][j] = -rng.choice([1e-9, 0.2, 0.5])
        elif kind == "porosity-one":
            f['po'][j] = rng.choice([1.0, 1.5])
        elif kind == "pu-negative":
            f['pu'][j] = -rng.choice([1e-9, 0.2])
        elif kind == "zr-negative":
            f['zr'][j] = -rng.choice([1e-9, 0.2])
        elif kind == "pu-high":
            f['pu'][j] = rng.choice([0.37037, 0.3704, 0.5])
        elif kind == "length":
            k = rng.choice(['pu', 'zr', 'po'])
            f[k] = f[k] + [f[k][-1]]
        elif kind == "empty":
            f[rng.choice(['pu', 'zr', 'po'])] = []
        elif kind == "no-clad":
            f['clad_mat'] = None
        elif kind == "no-gap-material":
            f['gap'] = f['gap'] or inner * 0.05
            f['fcgap'] = 0.0
            f['gap_mat'] = None
        elif kind == "gap-too-thick":
            f['gap'], f['fcgap'], f['gap_mat'] = inner * rng.choice([1.0 + 1e-9, 1.5, 3.0]), 0.0, 'sodium'
        elif kind == "gap-at-limit":
            f['gap'], f['fcgap'], f['gap_mat'] = inner, 0.0, 'sodium'
        elif kind == "legacy-gap-too-thick":
            f['gap'], f['fcgap'], f['gap_mat'] = 0.0, inner * rng.choice([1.0 + 1e-9, 1.5, 3.0]), 'sodium'
        out.append((kind, f))
    return out


def real_fuel_verdict(f):
    """the real DASSH_Input.check_fuel_model on a stub input object"""
    from dassh.read_input import DASSH_Input
    obj = DASSH_Input.__new__(DASSH_Input)
    obj._default_indent = 0
    obj._logger = _CaptureLogger()
    fm = dict(r_frac=[repr(x) for x in f['r']], pu_frac=[repr(x) for x in f['pu']], zr_frac=[repr(x) for x in f['zr']],
              porosity=[repr(x) for x in f['po']], fcgap_thickness=f['fcgap'], gap_thickness=f['gap'], clad_material=f['clad_mat'],
              gap_material=f['gap_mat'], htc_params_clad=None)
    obj.data = {'Assembly': {'a': {'pin_diameter': f['D'], 'clad_thickness': f['clad'], 'FuelModel': fm}}}
    try:
        obj.check_fuel_model()
    except SystemExit:
        msg = " ".join(obj._logger.msgs[-1:])
        for key, kind in (("gap thickness must be less", "gap"), ("frations must arranged", "increasing"),
                          ("fractions must be greater", "rfrac"), ("are required", "empty"), ("equal number of nodes", "length"),
                          ('"clad_material" input required', "noclad"), ('"gap_material" required', "nogapmat"),
                          ("Fuel porosity must be", "fraction"), ("only guaranteed", "pu")):
            if key in msg:
                return "err " + kind
        return "err other:" + msg[:80]
    return "ok"


def fuel_possible(f):
    """the property, evaluated directly: fractions are fractions, zones have positive thickness inside the pellet, the gap that is
    used leaves room for a pellet"""
    gap = f['gap'] if f['gap'] != 0.0 else max(f['fcgap'], 0.0)
    if gap > f['inner'] or gap < 0:
        return False
    if any(not (0.0 <= x < 1.0) for x in f['r']) or any(b <= a for a, b in zip(f['r'], f['r'][1:])):
        return False
    if any(not (0.0 <= x < 1.0) for x in f['po']) or any(x < 0 for x in f['pu'] + f['zr']):
        return False
    return True


def fuel_correspondence(ctx, rng, n):
    cases = fuel_descriptions(rng, n)
    reqs = []
    for kind, f in cases:
        reqs.append("fuel %d %d %d %d %d %d | %s | %s | %s | %s" % (
            bits(PU_LIMIT), bits(f['D'] / 2.0 - f['clad']), bits(f['gap']), bits(f['fcgap']), int(f['clad_mat'] is not None),
            int(f['gap_mat'] is not None), " ".join(str(bits(x)) for x in f['r']), " ".join(str(bits(x)) for x in f['pu']),
            " ".join(str(bits(x)) for x in f['zr']), " ".join(str(bits(x)) for x in f['po'])))
    bad = 0
    for (kind, f), rep in zip(cases, modelio.ask(reqs)):
        real = real_fuel_verdict(f)
        ctx.evals += 1
        ctx.count("fuel:%s:%s" % (kind, real.replace("err ", "")))
        if real == "ok" and not fuel_possible(f):
            ctx.violation("c18-invalid-accepted:fuel-model:%s" % kind,
                          "check_fuel_model accepts an impossible pellet description (%s): r_frac %r, porosity %r, pu %r, zr %r, "
                          "gap_thickness %r, fcgap_thickness %r, clad inner radius %r" % (kind, f['r'], f['po'], f['pu'], f['zr'],
                                                                                        f['gap'], f['fcgap'], f['inner']),
                          fuel=f, call="harness.checks.c18.real_fuel_verdict(fuel)")
        if rep != real:
            bad += 1
            ctx.problem("correspondence", "Model.AcceptFuel vs DASSH_Input.check_fuel_model", "%s %r: model %s, real %s" % (kind, f, rep, real))
    ctx.obligation("Model.AcceptFuel reproduces check_fuel_model (verdict and error kind) on %d pellet descriptions" % len(cases),
                   bad == 0, kind="correspondence", detail="disagreements %d" % bad)


# ---------------------------------------------------------------------------------------------------------------
# position numbering: Model/Assignment.lean (Props/C18Assignment.lean) vs DASSH_Assignment.parse_assignment_section

def real_assignment_line(r, p0, p1, n_ring):
    """the real parser on an Assignment section holding one full outer ring (so that the core has n_ring rings) and the line under
    test (type 'probe'); returns the indices the probe line ends up at, or 'err'"""
    from dassh.read_input import DASSH_Input
    obj = DASSH_Input.__new__(DASSH_Input)
    obj._default_indent = 0
    obj._logger = _CaptureLogger()
    txt = "[Assignment]\n    [[ByPosition]]\n"
    txt += "        base = %d, 1, %d, FLOWRATE=1.0\n" % (n_ring, 6 * (n_ring - 1) if n_ring > 1 else 1)
    txt += "        probe = %d, %d, %d, FLOWRATE=2.0\n" % (r, p0, p1)
    try:
        dat = obj.parse_assignment_section(txt)
    except SystemExit:
        return "err"
    except Exception as ex:
        return "crash:" + type(ex).__name__
    got = []
    for i, e in enumerate(dat['ByPosition']):
        if e and e[0] == 'probe':
            ring0, pos0, asm = e[1]
            if asm != i:
                return "inconsistent"
            got.append((i, ring0 + 1, pos0 + 1))
    return got


def assignment_correspondence(ctx, rng, n):
    reqs, cases = [], []
    for _ in range(n):
        n_ring = rng.randint(2, 7)
        r = rng.choice([rng.randint(1, n_ring)] * 6 + [0, -1, n_ring])
        size = 1 if r <= 1 else 6 * (r - 1)
        kind = rng.choice(["valid", "valid", "valid", "single", "first-zero", "negative", "beyond-ring", "last-before-first", "edge"])
        if kind == "valid":
            p0 = rng.randint(1, size)
            p1 = rng.randint(p0, size)
        elif kind == "single":
            p0 = p1 = rng.randint(1, size)
        elif kind == "first-zero":
            p0, p1 = 0, rng.randint(0, size)
        elif kind == "negative":
            p0 = -rng.randint(1, 3)
            p1 = rng.choice([p0, 1, size])
        elif kind == "beyond-ring":
            p1 = size + rng.randint(1, 3)
            p0 = rng.choice([p1, max(1, size - 1)])
        elif kind == "last-before-first":
            p0 = rng.randint(1, size) + 1
            p1 = p0 - rng.randint(1, 2)
        else:
            p0, p1 = rng.choice([(1, size), (size, size), (1, 1)])
        reqs.append("assign %d %d %d" % (r, p0, p1))
        cases.append((kind, n_ring, r, p0, p1))
    bad = 0
    for rep, (kind, n_ring, r, p0, p1) in zip(modelio.ask(reqs), cases):
        real = real_assignment_line(r, p0, p1, n_ring)
        ctx.evals += 1
        ctx.count("assignment:%s:%s" % (kind, "ok" if isinstance(real, list) else real))
        exists = r >= 1 and 1 <= p0 <= p1 <= (1 if r == 1 else 6 * (r - 1))
        if isinstance(real, list) and not exists:
            ctx.violation("c18-invalid-accepted:assignment-line:%s" % kind,
                          "the Assignment line 'probe = %d, %d, %d' (a %d-ring core) names positions that do not exist but is accepted: "
                          "it ends up at %s" % (r, p0, p1, n_ring, real or "no position at all (silently dropped)"),
                          line=[r, p0, p1], n_ring=n_ring, call="harness.checks.c18.real_assignment_line")
        elif isinstance(real, str) and real.startswith("crash"):
            ctx.violation("c18-invalid-exception:assignment-line:%s:%s" % (kind, real.split(":")[1]),
                          "the Assignment line 'probe = %d, %d, %d' ends in an unhandled %s in the reader" % (r, p0, p1, real.split(":")[1]),
                          line=[r, p0, p1], n_ring=n_ring)
        if rep == "err":
            same = real == "err"
        else:
            idx = [int(x) for x in rep.split()[1:]]
            same = isinstance(real, list) and [g[0] for g in real] == idx and [(g[1], g[2]) for g in real] == [(r, p0 + k) for k in range(len(idx))]
        if not same:
            bad += 1
            ctx.problem("correspondence", "Model.Assignment vs parse_assignment_section", "line %d, %d, %d (%s): model %s, real %s"
                        % (r, p0, p1, kind, rep, real))
    ctx.obligation("Model.Assignment reproduces parse_assignment_section (verdict, indices, ring / position of every entry) on %d "
                   "assignment lines" % len(cases), bad == 0, kind="correspondence", detail="disagreements %d" % bad)


def regions_full_correspondence(ctx, rng, n):
    """the same layouts with their attributes: coolant volume fraction (mostly positive, sometimes exactly zero) and model name
    (mostly one of the two that exist) per region; Model.AcceptRegions.checkRegionsFull must give the reader's verdict, error
    kind (attribute errors before bound errors, first offending region first) and rodded bounds"""
    cases = region_layouts(rng, n)
    reqs, attrs_all = [], []
    for _, L, regs in cases:
        attrs = []
        for _r in regs:
            vf = 0.0 if rng.random() < 0.08 else round(rng.choice([1e-9, rng.uniform(0.05, 0.95), 1.0]), 9)
            model = rng.choice(['porous', 'Simple', '6-node', '']) if rng.random() < 0.08 else rng.choice(['simple', '6node'])
            attrs.append((vf, model))
        attrs_all.append(attrs)
        reqs.append("regionsf %d | %s" % (bits(L), " ".join("%d %d %d %d" % (bits(a), bits(b), bits(vf), bits(1.0 if m in ('simple', '6node') else 0.0))
                                                            for (a, b), (vf, m) in zip(regs, attrs))))
    bad = 0
    for (kind, L, regs), attrs, rep in zip(cases, attrs_all, modelio.ask(reqs)):
        real = real_region_verdict(L, regs, attrs)
        ctx.evals += 1
        ctx.count("regions-full:%s" % (real.split()[0] + ("" if real.startswith("ok") else ":" + real.split()[1])))
        if real.startswith("ok") and any(vf <= 0 or m not in ('simple', '6node') for vf, m in attrs):
            ctx.violation("c18-invalid-accepted:axial-region-attributes", "check_unrodded_regions accepts regions with the attributes %r "
                          "(a region without coolant, or with a model that does not exist)" % (attrs,), L=L, regions=regs, attrs=attrs)
        if rep != real:
            bad += 1
            ctx.problem("correspondence", "Model.AcceptRegions.checkRegionsFull vs DASSH_Input.check_unrodded_regions",
                        "L=%r regions=%r attrs=%r: model %s, real %s" % (L, regs, attrs, rep, real))
    ctx.obligation("Model.AcceptRegions.checkRegionsFull reproduces check_unrodded_regions (attributes, then bounds) on %d layouts"
                   % len(cases), bad == 0, kind="correspondence", detail="disagreements %d" % bad)


# ---------------------------------------------------------------------------------------------------------------
# output stage: an accepted input must also get through the sweep WITH output and the post-processing

def oracle_tables(ctx, rng, n):
    """[Setup][[AssemblyTables]] requests of all kinds - existing assemblies, holes, ids 0 / negative / beyond the core (the reader
    skips what is not modelled with a warning), heights inside / outside the core, pin data with and without a pin model - run end to
    end as `dassh` does (temperature_sweep + postprocess, output written): never an unhandled exception"""
    import dassh
    import logging
    import os
    import shutil
    for ci in range(n):
        kinds = ["id-zero", "mixed", "valid", "low-fidelity-with-fuel", "id-negative", "hole", "id-beyond", "z-outside", "pin-data-no-pins"]
        kind = kinds[ci % len(kinds)]
        pos = [(1, 1)] + [p for p in gi.core_positions(2)[1:] if rng.random() < 0.5]
        if (kind in ("id-zero", "mixed") or rng.random() < 0.5) and (2, 6) not in pos:
            pos.append((2, 6))                       # the LAST position of the core is occupied
        case = gi.random_case(rng, positions=pos, n_types=1, gap_model=rng.choice(['flow', 'none']), length=0.05, flow_range=(1.0, 5.0))
        if kind == "low-fidelity-with-fuel":
            # an assembly type with a FuelModel that is modelled with the low-fidelity model: no pin temperatures are calculated, the
            # summary tables and the post-processing have to cope with that
            tn_ = list(case['types'])[0]
            gi.make_low_fidelity(rng, case, tn_, model='simple')
            case['types'][tn_]['FuelModel'] = dict(gap_thickness=0.0, clad_material='ht9', r_frac=[0.0, 0.33333, 0.66667],
                                                   pu_frac=[0.2, 0.2, 0.2], zr_frac=[0.1, 0.1, 0.1], porosity=[0.25, 0.25, 0.25])
        gi.random_power(rng, case)
        L = case['core']['length']
        ids = [gi.position_index(a['ring'], a['pos']) for a in case['assignment']]
        asm = {"valid": ids[:2], "low-fidelity-with-fuel": ids[:1], "id-zero": [0], "id-negative": [-1], "id-beyond": [99], "hole": [i for i in range(1, 8) if i not in ids][:1] or [99],
               "mixed": [0, ids[0]], "z-outside": ids[:1], "pin-data-no-pins": ids[:1]}[kind]
        z = [round(L * rng.uniform(0.2, 0.8), 4)] if kind != "z-outside" else [-0.01, 2 * L]
        typ = "clad_od" if kind == "pin-data-no-pins" else ("duct_mw" if kind == "low-fidelity-with-fuel" else rng.choice(["coolant_subchannel", "duct_mw"]))
        tab = ("    [[AssemblyTables]]\n        [[[t1]]]\n            type = %s\n            assemblies = %s\n            axial_positions = %s\n"
               % (typ, ", ".join(map(str, asm)) + ("," if len(asm) == 1 else ""), ", ".join(map(str, z)) + ("," if len(z) == 1 else "")))
        d = str(ctx.work / ("tab%d" % ci))
        shutil.rmtree(d, ignore_errors=True)
        inp_path = gi.write_case(case, d)
        txt = open(inp_path).read()
        key = "[Materials]" if "[Materials]" in txt else "[Power]"
        open(inp_path, "w").write(txt.replace(key, tab + key, 1))
        logging.getLogger('dassh').setLevel(logging.CRITICAL)
        ctx.evals += 1

        def go():
            inp = dassh.DASSH_Input(inp_path)
            r = dassh.Reactor(inp, path=d, write_output=True)
            r.temperature_sweep()
            r.postprocess()
            return r
        try:
            with_timeout(go, 120)
            ctx.count("tables:%s:completed" % kind)
            if kind == "valid" and not any(f.startswith("temp_%s_a=" % typ) for f in os.listdir(d)):
                ctx.violation("c18-tables-missing", "a valid AssemblyTables request (%s, assemblies %s, z %s) produces no table file"
                              % (typ, asm, z), case=case, table=tab)
        except SystemExit:
            ctx.count("tables:%s:rejected" % kind)
        except Hang:
            ctx.violation("c18-tables-hang:%s" % kind, "an input with an AssemblyTables request (%s) does not terminate" % kind, case=case, table=tab)
        except Exception as ex:
            import traceback
            tb = [f for f in traceback.extract_tb(ex.__traceback__) if '/dassh/' in f.filename]
            site = "%s:%s" % (tb[-1].filename.split('/')[-1], tb[-1].name) if tb else "?"
            ctx.violation("c18-tables-exception:%s:%s" % (kind, type(ex).__name__),
                          "an accepted input with the AssemblyTables request 'type = %s, assemblies = %s, axial_positions = %s' ends in an "
                          "unhandled %s at %s after the sweep" % (typ, asm, z, type(ex).__name__, site), case=case, table=tab)
        finally:
            shutil.rmtree(d, ignore_errors=True)


def run(ctx):
    rng = random.Random(18000 + ctx.seed)
    ctx.rule = ("valid generated inputs (1-7 assemblies, 1-2 types, unrodded regions, low-fidelity, fuel models, all gap models) and "
                "single-fault perturbations of them, one per fault class (%d classes); outcome class of the real reader / Reactor / "
                "first 60 planes" % len(FAULTS))
    ctx.prove("Dassh.Props.C18")
    ctx.prove("Dassh.Props.C18Regions")
    ok_driver = modelio.build_driver(ctx)
    ctx.prove("Dassh.Props.C18Fuel")
    ctx.prove("Dassh.Props.C18Assignment")
    if ok_driver:
        regions_correspondence(ctx, rng, 3000 if ctx.thorough else 600)
        regions_full_correspondence(ctx, rng, 2000 if ctx.thorough else 400)
        fuel_correspondence(ctx, rng, 3000 if ctx.thorough else 600)
        assignment_correspondence(ctx, rng, 3000 if ctx.thorough else 600)
    n_valid = 24 if ctx.thorough else 8
    reqs, expect = [], []
    for ci in range(n_valid):
        case = valid_case(rng, several=ci % 2 == 1)
        cls, detail, computed = classify(case, str(ctx.work / ("v%d" % ci)))
        ctx.evals += 1
        ctx.count("valid:" + cls)
        if cls == "rejected":
            ctx.count("valid_rejected_at:" + detail)      # generator produced something DASSH refuses: not a property violation
        elif cls in ("exception", "hang"):
            ctx.violation("c18-accepted-input-crashes:%s" % detail, "a generated valid input is accepted by the reader but %s (%s)"
                          % ("hangs" if cls == "hang" else "raises an unhandled exception", detail), case=case)
        if cls in ("accepted", "rejected"):
            reqs.append(model_request(case))
            expect.append(("valid", cls, detail, None))
        faults = FAULTS if (ctx.thorough or ci < 2) else rng.sample(FAULTS, 6)
        plan = [(f, False, False) for f in faults] + [(f, True, False) for f in faults if f in GEOMETRY_FAULTS]
        plan += [(f, lf, True) for f in faults if f in NEAR_FAULTS for lf in (False, True)]
        for fault, lowfid, near in plan:
            bad = inject(rng, case, fault, lowfid, near)
            if bad is None:
                continue
            if lowfid:
                ctx.count("fault-on-low-fidelity-type:" + fault)
            cls, detail, computed = classify(bad, str(ctx.work / ("f%d" % ci)))
            ctx.evals += 1
            ctx.count("fault:%s:%s" % (fault, cls))
            if cls == "accepted" or computed:
                ctx.violation("c18-invalid-accepted:%s" % fault, "an input with the fault '%s' is %s" % (
                    fault, "accepted and swept" if cls == "accepted" else "rejected only after temperatures were computed"),
                    case=bad, fault=fault)
            elif cls == "exception":
                ctx.violation("c18-invalid-exception:%s:%s" % (fault, detail), "an input with the fault '%s' ends in an unhandled "
                              "exception instead of an error message (%s)" % (fault, detail), case=bad, fault=fault)
            elif cls == "hang":
                ctx.violation("c18-invalid-hang:%s" % fault, "an input with the fault '%s' hangs" % fault, case=bad, fault=fault)
            if fault in MODELLED and cls in ("accepted", "rejected"):
                reqs.append(model_request(bad))
                expect.append((fault, cls, detail, bad))
        if ci < 2:
            ctx.sample(dict(kind="valid-case", positions=[(a['ring'], a['pos']) for a in case['assignment']],
                            types={k: v['num_rings'] for k, v in case['types'].items()}))
    if ok_driver and reqs:
        bad = 0
        searched = set()
        for rep, (fault, cls, detail, c) in zip(modelio.ask(reqs), expect):
            m = rep.split()[0]
            # the model covers the numeric layer only: whenever the model rejects, the reader must reject;
            # when the model accepts a *valid* case the reader may still reject for reasons outside the model
            if m == "rejected" and (cls != "rejected" or detail != "read"):
                # the model is a model of the READER's numeric checks: what it rejects the reader must reject
                bad += 1
                ctx.problem("correspondence", "Model.Accept vs DASSH_Input", "model rejects (%s) but the real code says %s at stage "
                            "'%s' for fault %s" % (rep, cls, detail, fault))
                if fault not in searched:
                    searched.add(fault)
                    search_fault(ctx, rng, fault)
            if m == "accepted" and fault in MODELLED and cls == "rejected" and detail == "read":
                # the fault is in the modelled layer, the model must reject it too
                bad += 1
                ctx.problem("correspondence", "Model.Accept vs DASSH_Input", "reader rejects fault %s, model accepts" % fault)
        ctx.obligation("differential classification: Model.Accept agrees with the real reader on %d inputs" % len(reqs), bad == 0,
                       kind="correspondence", detail="disagreements %d" % bad)
    oracle_perturb(ctx, rng, 12 if ctx.thorough else 3, 14 if ctx.thorough else 6)
    oracle_tables(ctx, rng, 45 if ctx.thorough else 9)
    ctx.nontrivial = ctx.evals
    ctx.traces = ctx.evals
    ctx.trusted += ["hand model of the numeric acceptance layer; the classification of which inputs are 'impossible' (the fault "
                    "classes in harness/checks/c18.py) is the specification"]
    ctx.assumptions += ["PARTIAL: ConfigObj parsing and schema validation are exercised, not modelled",
                        "only the first 60 planes of accepted inputs are swept in this check"]
