"""C11 - duct-wall temperatures solve steady 1-D conduction.

T1: `RoddedRegion._calc_duct_temp` and `SingleNodeHomogeneous._calc_duct_temp`
are executed on symbolic temperatures / film coefficients / conductivity /
power (real regions, real index arrays).  Every duct cell's three reported
values are renamed to role variables; all cells must collapse to one canonical
expression triple per (branch), which is emitted as Lean (Gen/C11.lean) and the
theorems of Props/C11.lean are proved about exactly those definitions.
"""
import copy
import random
from fractions import Fraction

import numpy as np

from harness import dasshutil as du
from harness.trace import (GenFile, Trace, TraceError, eval_exact, eval_float, rebind, rename, symarray,
                           to_lean)

ROLES = ["t_in", "t_out", "h_in", "h_out", "p", "qa", "L2", "L28", "th", "kw"]


def _trace_rodded(rng, n_ring, n_duct, adiabatic, p_none=False):
    """Returns list of (tag, dict(mw=, sin=, sout=)) one per (duct, cell) with
    role-renamed expressions, plus bookkeeping of the index pairing."""
    from dassh.region_rodded import RoddedRegion
    dims = du.bundle_dims(rng, n_ring, n_duct)
    rr = du.activate_rr(du.make_rr(dims))
    tr = Trace()
    o = copy.copy(rr)
    sc = rr.subchannel
    nd = sc.n_sc['duct']['total']
    ni = sc.n_sc['coolant']['interior']
    nc = sc.n_sc['coolant']['total']
    r = lambda n, lo, hi: np.array([rng.uniform(lo, hi) for _ in range(int(np.prod(n)))]).reshape(n)
    o.temp = {k: v.copy() for k, v in rr.temp.items()}
    o.temp['coolant_int'] = symarray(tr, 'Tc', r((nc,), 600, 700))
    if n_duct > 1:
        o.temp['coolant_byp'] = symarray(tr, 'Tb', r((n_duct - 1, nd), 600, 700))
    o.temp['duct_mw'] = symarray(tr, 'Tmold', r((n_duct, nd), 600, 700))
    o.temp['duct_surf'] = np.empty((n_duct, 2, nd), dtype=object)

    class M:
        pass
    m = M()
    m.thermal_conductivity = tr.var('kw', rng.uniform(15, 30))
    o.duct = m
    o._update_duct = lambda T: None
    o.coolant_int_params = dict(rr.coolant_int_params)
    o.coolant_int_params['htc'] = symarray(tr, 'hi', r((3,), 1e3, 1e5))
    if n_duct > 1:
        o.coolant_byp_params = dict(rr.coolant_byp_params)
        o.coolant_byp_params['htc'] = symarray(tr, 'hb', r((n_duct - 1, 2), 1e3, 1e5))
    dp = dict(rr.duct_params)
    dp['L/2'] = symarray(tr, 'L2', rr.duct_params['L/2'])
    dp['L^2/8'] = symarray(tr, 'L28', rr.duct_params['L^2/8'])
    dp['thickness'] = symarray(tr, 'th', rr.duct_params['thickness'])
    dp['q_area'] = symarray(tr, 'qa', rr.duct_params['q_area'])
    o.duct_params = dp
    p = None if p_none else symarray(tr, 'pd', r((n_duct * nd,), 0, 1e4))
    tg = symarray(tr, 'Tg', r((nd,), 550, 650))
    hg = symarray(tr, 'hg', r((nd,), 1e3, 1e5))
    f = rebind(RoddedRegion._calc_duct_temp, tr)
    f(o, p, tg, hg, adiabatic)
    cells = []
    didx = rr._duct_idx
    for i in range(n_duct):
        for j in range(nd):
            ty = int(didx[j])
            mp = {'kw': 'kw', 'L2_%d' % i: 'L2', 'L28_%d' % i: 'L28', 'th_%d' % i: 'th',
                  'qa_%d_%d' % (i, ty): 'qa', 'pd_%d' % (i * nd + j): 'p'}
            if i == 0:
                mp['Tc_%d' % (ni + j)] = 't_in'
                mp['hi_%d' % (ty + 1)] = 'h_in'
            else:
                mp['Tb_%d_%d' % (i - 1, j)] = 't_in'
                mp['hb_%d_%d' % (i - 1, ty)] = 'h_in'
            if i == n_duct - 1:
                mp['Tg_%d' % j] = 't_out'
                mp['hg_%d' % j] = 'h_out'
            else:
                mp['Tb_%d_%d' % (i, j)] = 't_out'
                mp['hb_%d_%d' % (i, ty)] = 'h_out'
            tr2 = Trace()
            ex = dict(mw=rename(o.temp['duct_mw'][i, j], mp, tr2),
                      sin=rename(o.temp['duct_surf'][i, 0, j], mp, tr2),
                      sout=rename(o.temp['duct_surf'][i, 1, j], mp, tr2))
            cells.append(("rodded n_ring=%d n_duct=%d duct=%d cell=%d type=%d adiab=%s" % (
                n_ring, n_duct, i, j, ty, adiabatic and i == n_duct - 1), ex,
                adiabatic and i == n_duct - 1))
    return cells, tr.conds, rr


def _trace_unrodded(rng, adiabatic, multi=False):
    """multi: the six-node model - every wall cell faces its OWN coolant node"""
    from dassh.region_unrodded import MultiNodeHomogeneous, SingleNodeHomogeneous
    ftf = [0.11, 0.116]
    cls = MultiNodeHomogeneous if multi else SingleNodeHomogeneous
    reg = cls('ur', 0.0, 1.0, ftf, 0.3, 5.0, du.const_material('cool'), du.const_material('duct', k=25.0), None)
    tr = Trace()
    o = copy.copy(reg)
    o.temp = {k: v.copy() for k, v in reg.temp.items()}
    o.temp['coolant_int'] = symarray(tr, 'Tc', [rng.uniform(600, 700) for _ in range(6 if multi else 1)])
    o.temp['duct_mw'] = symarray(tr, 'Tmold', np.full((1, 6), 600.))
    o.temp['duct_surf'] = np.empty((1, 2, 6), dtype=object)

    class M:
        pass
    m = M()
    m.thermal_conductivity = tr.var('kw', rng.uniform(15, 30))
    o.duct = m
    o._update_duct = lambda T: None
    o.coolant_params = dict(htc=tr.var('h_in', rng.uniform(1e3, 1e5)))
    o.duct_thickness = tr.var('th', reg.duct_thickness)
    tg = symarray(tr, 'Tg', [rng.uniform(550, 650) for _ in range(6)])
    hg = symarray(tr, 'hg', [rng.uniform(1e3, 1e5) for _ in range(6)])
    f = rebind(cls._calc_duct_temp, tr)
    f(o, tg, hg, adiabatic)
    cells = []
    for j in range(6):
        mp = {'kw': 'kw', 'th': 'th', 'h_in': 'h_in', 'Tc_%d' % (j if multi else 0): 't_in', 'Tg_%d' % j: 't_out',
              'hg_%d' % j: 'h_out'}
        tr2 = Trace()
        ex = dict(mw=rename(o.temp['duct_mw'][0, j], mp, tr2),
                  sin=rename(o.temp['duct_surf'][0, 0, j], mp, tr2),
                  sout=rename(o.temp['duct_surf'][0, 1, j], mp, tr2))
        cells.append(("unrodded%s cell=%d adiab=%s" % (" six-node" if multi else "", j, adiabatic), ex, adiabatic))
    return cells, tr.conds


def _canon(cells):
    """group cells by the Lean text of their triple"""
    groups = {}
    for tag, ex, ad in cells:
        key = tuple(to_lean(ex[k]) for k in ("mw", "sin", "sout"))
        groups.setdefault(key, []).append((tag, ex))
    return groups


def build_gen(ctx, rng):
    g = GenFile("Dassh.Gen.C11", "traced from dassh.region_rodded.RoddedRegion._calc_duct_temp and "
                "dassh.region_unrodded.SingleNodeHomogeneous._calc_duct_temp")
    info = {}
    # --- rodded, coupled / adiabatic
    for tagname, adiabatic in (("coupled", False), ("adiab", True)):
        allcells = []
        for n_ring, n_duct in ((2, 1), (2, 2), (3, 3)) + (((4, 2),) if ctx.thorough else ()):
            cells, conds, rr = _trace_rodded(rng, n_ring, n_duct, adiabatic)
            allcells += cells
            # the constants the theorems assume
            for i in range(rr.n_duct):
                dp = rr.duct_params
                ok = (abs(dp['L/2'][i] - dp['thickness'][i] / 2) <= 1e-15 * dp['thickness'][i]
                      and abs(dp['L^2/8'][i] - dp['thickness'][i] ** 2 / 8) <= 1e-15 * dp['thickness'][i] ** 2)
                ctx.obligation("c11_geom_hyp[n_ring=%d,duct=%d]: L/2 = t/2, L^2/8 = t^2/8 on the real region" % (n_ring, i),
                               ok, kind="hypothesis-check", detail=str(dp))
        want = [c for c in allcells if c[2] == adiabatic]
        other = [c for c in allcells if c[2] != adiabatic]
        grp = _canon(want)
        info[tagname] = dict(cells=len(want), distinct=len(grp))
        ctx.count("cells_traced", len(allcells))
        names = []
        for k, (key, members) in enumerate(sorted(grp.items(), key=lambda kv: -len(kv[1]))):
            suffix = "" if k == 0 else "_v%d" % (k + 1)
            ex = members[0][1]
            for part in ("mw", "sin", "sout"):
                g.add("rod_%s_%s%s" % (part, tagname, suffix), ROLES, ex[part],
                      doc="%s; %d cells, e.g. %s" % (part, len(members), members[0][0]))
            names.append((suffix, len(members), members[0][0]))
        if len(grp) != 1:
            ctx.problem("trace-shape", "c11 rodded %s" % tagname,
                        "duct cells no longer share one closed form: %s" % names)
        if not adiabatic:
            coupled_keys = set(grp)
        else:
            # the ducts inside the outermost one of an adiabatic assembly still exchange heat on both faces: they must
            # have the coupled closed form (the one the coupled theorems are about), not the adiabatic one
            info["adiab_inner_cells"] = len(other)
            inner = _canon(other)
            wrong = [members[0][0] for key, members in inner.items() if key not in coupled_keys]
            ctx.obligation("inner ducts of an adiabatic assembly have the coupled closed form (%d cells traced)" % len(other),
                           not wrong, kind="trace-shape", detail="cells with another form, e.g. %s" % wrong[:3])
    # --- p_duct None (zero heating) must equal coupled form at p = 0: checked numerically below
    # --- unrodded
    for tagname, adiabatic in (("coupled", False), ("adiab", True)):
        cells, conds = _trace_unrodded(rng, adiabatic)
        cells6, conds6 = _trace_unrodded(rng, adiabatic, multi=True)     # same closed form, each cell with its own coolant node
        cells = cells + cells6
        grp = _canon(cells)
        ctx.count("cells_traced", len(cells))
        for k, (key, members) in enumerate(sorted(grp.items(), key=lambda kv: -len(kv[1]))):
            suffix = "" if k == 0 else "_v%d" % (k + 1)
            ex = members[0][1]
            params = ["t_in", "t_out", "h_in", "h_out", "th", "kw"]
            for part in ("mw", "sin", "sout"):
                g.add("ur_%s_%s%s" % (part, tagname, suffix), params, ex[part],
                      doc="%s; %d cells, e.g. %s" % (part, len(members), members[0][0]))
        if len(grp) != 1:
            ctx.problem("trace-shape", "c11 unrodded %s" % tagname, "cells differ: %d forms" % len(grp))
    return g, info


def flux_residuals(t_in, t_out, h_in, h_out, q3, t, k, mw, sin, sout, adiabatic):
    """The three identities that characterise the slab solution, scaled."""
    c1 = (sout - sin) / t
    scale = max(abs(h_in * (t_in - sin)), abs(q3 * t), abs(h_out * (sout - t_out)) if not adiabatic else 0.0,
                abs(k * c1), 1e-9 * h_in * max(abs(t_in), 1.0))
    r_in = h_in * (t_in - sin) - (-k * c1 - q3 * t / 2)
    r_out = (0.0 if adiabatic else h_out * (sout - t_out)) - (-k * c1 + q3 * t / 2)
    r_bal = h_in * (t_in - sin) + q3 * t - (0.0 if adiabatic else h_out * (sout - t_out))
    tscale = max(abs(mw - t_in), abs(sin - t_in), abs(sout - t_in), 1e-6 * abs(t_in))
    r_mw = mw - ((sin + sout) / 2 + q3 * t * t / (8 * k))
    return dict(inner=r_in / scale, outer=r_out / scale, balance=r_bal / scale, midwall=r_mw / tscale)


def oracle(ctx, rng, n_cases):
    """Implementation-level check on the real float code."""
    worst = 0.0
    for case in range(n_cases):
        n_ring = rng.choice([2, 2, 3, 3, 4, 5, 7])
        n_duct = rng.choice([1, 1, 2, 3])
        adiabatic = rng.random() < 0.35
        dims = du.bundle_dims(rng, n_ring, n_duct)
        coolant = du.const_material('c', k=rng.uniform(10, 80), cp=rng.uniform(800, 1500), rho=rng.uniform(700, 900),
                                    mu=rng.uniform(1e-4, 5e-4))
        duct = du.const_material('d', k=rng.uniform(5, 40), cp=500, rho=7800, mu=1.0)
        fr = 10 ** rng.uniform(-2, 1.5)
        rr = du.activate_rr(du.make_rr(dims, flow_rate=fr, coolant=coolant, duct=duct), rng.uniform(500, 800))
        sc = rr.subchannel
        nd = sc.n_sc['duct']['total']
        ni = sc.n_sc['coolant']['interior']
        rr.temp['coolant_int'] = np.array([rng.uniform(500, 900) for _ in rr.temp['coolant_int']])
        if n_duct > 1:
            rr.temp['coolant_byp'] = np.array([[rng.uniform(500, 900) for _ in range(nd)] for _ in range(n_duct - 1)])
        heated = rng.random() < 0.7
        p = np.array([rng.uniform(0, 5e4) if rng.random() < 0.8 else 0.0 for _ in range(n_duct * nd)]) if heated else None
        tg = np.array([rng.uniform(500, 900) for _ in range(nd)])
        hg = np.array([10 ** rng.uniform(2, 5.5) for _ in range(nd)])
        if rng.random() < 0.3:
            hg2 = np.array([10 ** rng.uniform(2, 5.5) for _ in range(2)])
            hg_arg, hg = hg2, hg2[rr._duct_idx]
        else:
            hg_arg = hg
        rr._calc_duct_temp(p, tg, hg_arg, adiabatic)
        kd = rr.duct.thermal_conductivity
        ctx.evals += 1
        for i in range(n_duct):
            last = i == n_duct - 1
            for j in range(nd):
                ty = rr._duct_idx[j]
                t_in = rr.temp['coolant_int'][ni + j] if i == 0 else rr.temp['coolant_byp'][i - 1][j]
                h_in = rr.coolant_int_params['htc'][1:][ty] if i == 0 else rr.coolant_byp_params['htc'][i - 1][ty]
                t_out = tg[j] if last else rr.temp['coolant_byp'][i][j]
                h_out = hg[j] if last else rr.coolant_byp_params['htc'][i][ty]
                t = rr.duct_params['thickness'][i]
                q3 = 0.0 if p is None else p[i * nd + j] / rr.duct_params['q_area'][i, ty]
                res = flux_residuals(t_in, t_out, h_in, h_out, q3, t, kd, rr.temp['duct_mw'][i, j],
                                     rr.temp['duct_surf'][i, 0, j], rr.temp['duct_surf'][i, 1, j],
                                     adiabatic and last)
                w = max(abs(v) for v in res.values())
                worst = max(worst, w)
                if w > 1e-8:
                    ctx.violation("c11-rodded-flux", "duct cell does not satisfy the slab conduction identities "
                                  "(rel. residual %.3g)" % w, case=dict(
                                      n_ring=n_ring, n_duct=n_duct, duct=i, cell=j, adiabatic=adiabatic, dims=dims,
                                      t_in=t_in, t_out=t_out, h_in=h_in, h_out=h_out, qtp=q3, thickness=t, k=kd,
                                      mw=rr.temp['duct_mw'][i, j], sin=rr.temp['duct_surf'][i, 0, j],
                                      sout=rr.temp['duct_surf'][i, 1, j], residuals=res))
                    return worst
                # ordering without heating
                if q3 == 0.0 and not (adiabatic and last):
                    seq = [t_in, rr.temp['duct_surf'][i, 0, j], rr.temp['duct_mw'][i, j], rr.temp['duct_surf'][i, 1, j], t_out]
                    tol = 1e-9 * max(abs(t_in), abs(t_out))
                    up = all(seq[k] <= seq[k + 1] + tol for k in range(4))
                    dn = all(seq[k] >= seq[k + 1] - tol for k in range(4))
                    if not (up or dn):
                        ctx.violation("c11-rodded-order", "unheated wall temperatures not ordered between the coolants",
                                      case=dict(n_ring=n_ring, n_duct=n_duct, duct=i, cell=j, seq=seq))
                        return worst
        if case < 3:
            ctx.sample(dict(kind="oracle-rodded", n_ring=n_ring, n_duct=n_duct, adiabatic=adiabatic, heated=heated,
                            flow=fr))
        ctx.count("oracle_rodded_cells", n_duct * nd)
    # unrodded
    from dassh.region_unrodded import MultiNodeHomogeneous, SingleNodeHomogeneous
    for case in range(max(6, n_cases // 3)):
        ftf_in = rng.uniform(0.05, 0.2)
        t = rng.uniform(0.001, 0.005)
        multi = case % 2 == 1
        reg = (MultiNodeHomogeneous if multi else SingleNodeHomogeneous)(
            'ur', 0.0, 1.0, [ftf_in, ftf_in + 2 * t], rng.uniform(0.1, 0.9), 10 ** rng.uniform(-1, 1.5), du.const_material('c'),
            du.const_material('d', k=rng.uniform(5, 40)), None)
        reg._update_coolant_params(rng.uniform(500, 800))
        reg.temp['coolant_int'] = np.array([rng.uniform(500, 900) for _ in range(6 if multi else 1)])
        ctx.count("oracle_unrodded_six_node" if multi else "oracle_unrodded_single_node")
        adiabatic = rng.random() < 0.3
        tg = np.array([rng.uniform(500, 900) for _ in range(6)])
        hg = np.array([10 ** rng.uniform(2, 5.5) for _ in range(6)])
        reg._calc_duct_temp(tg, hg, adiabatic)
        ctx.evals += 1
        for j in range(6):
            res = flux_residuals(reg.temp['coolant_int'][j if multi else 0], tg[j], reg.coolant_params['htc'], hg[j], 0.0,
                                 reg.duct_thickness, reg.duct.thermal_conductivity, reg.temp['duct_mw'][0, j],
                                 reg.temp['duct_surf'][0, 0, j], reg.temp['duct_surf'][0, 1, j], adiabatic)
            w = max(abs(v) for v in res.values())
            worst = max(worst, w)
            if w > 1e-8:
                ctx.violation("c11-unrodded-flux", "low-fidelity (%s) duct cell violates the slab identities against the coolant it "
                              "faces (%.3g)" % ("six-node" if multi else "single node", w),
                              case=dict(cell=j, adiabatic=adiabatic, residuals=res, model="6node" if multi else "simple"))
                return worst
        ctx.count("oracle_unrodded_cells", 6)
    return worst


def oracle_sweep(ctx, rng, n):
    """the same slab identities inside real sweeps: every wall cell of every low-fidelity region, right after the Assembly has
    computed a plane, against the gap temperatures / film coefficients / adiabatic flag the Assembly was GIVEN for that plane
    (gap models none / flow / no_flow, energy-balance tallies on and off, simple and six-node regions)"""
    import dassh
    from harness import gen_input as gi
    worst = 0.0
    for ci in range(n):
        pos = [(1, 1)] + [p for p in gi.core_positions(2)[1:] if rng.random() < 0.4]
        case = gi.random_case(rng, positions=pos, n_types=rng.choice([1, 2]), gap_model=['none', 'flow', 'no_flow'][ci % 3],
                              length=round(rng.uniform(0.08, 0.2), 3), flow_range=(0.5, 4.0))
        case['setup']['calc_energy_balance'] = ci % 2 == 0
        for tn in list(case['types']):
            gi.add_axial_regions(rng, case, tn, lower=True, upper=rng.random() < 0.7, models=('6node',) if ci % 2 == 0 else ('simple', '6node'))
        gi.random_power(rng, case)
        d = str(ctx.work / ("sw%d" % ci))
        try:
            inp, r = gi.build_reactor(case, d)
        except SystemExit:
            ctx.count("sweep_case_rejected")
            continue
        bad = []
        orig = dassh.Assembly.calculate

        def wrapped(self, dz, t_gap, h_gap, z=None, adiabatic=False, ebal=False):
            reg0 = self.active_region
            pre = None
            if not reg0.is_rodded:
                pre = (np.array(reg0.temp['coolant_int'], dtype=float).copy(), float(np.ravel(reg0.coolant_params['htc'])[0]))
            out = orig(self, dz, t_gap, h_gap, z, adiabatic, ebal)
            reg = self.active_region
            if reg is reg0 and not reg.is_rodded and not bad:
                tg = np.broadcast_to(np.asarray(t_gap, dtype=float), (6,)) if np.ndim(t_gap) == 0 else np.asarray(t_gap, dtype=float)
                hg = np.broadcast_to(np.asarray(h_gap, dtype=float), (6,)) if np.ndim(h_gap) == 0 else np.asarray(h_gap, dtype=float)
                # the wall is solved against the coolant and film coefficient either of the plane the step starts from (wall first,
                # then coolant) or of the plane it ends on (coolant first): the property does not prescribe which, so a wall
                # cell passes when the slab identities hold for one of the two
                post = (np.asarray(reg.temp['coolant_int'], dtype=float), float(np.ravel(reg.coolant_params['htc'])[0]))
                for j in range(6):
                    cands = []
                    for tc, h_in_ in (pre, post):
                        cands.append(flux_residuals(float(tc[j if tc.shape[0] == 6 else 0]), float(tg[j]), h_in_,
                                                    float(hg[j]), 0.0, reg.duct_thickness, reg.duct.thermal_conductivity,
                                                    float(reg.temp['duct_mw'][0, j]), float(reg.temp['duct_surf'][0, 0, j]),
                                                    float(reg.temp['duct_surf'][0, 1, j]), bool(adiabatic)))
                    res = min(cands, key=lambda rs: max(abs(v) for v in rs.values()))
                    w = max(abs(v) for v in res.values())
                    if w > 1e-6:          # (small wall-to-gap differences in a sweep: cancellation costs a few digits)
                        bad.append((self.id, getattr(reg, 'model', 'simple'), j, bool(adiabatic), bool(ebal), res))
                        break
                ctx.count("sweep_wall_cells", 6)
            return out
        dassh.Assembly.calculate = wrapped
        try:
            gi.sweep(r)
        except SystemExit:
            ctx.count("sweep_stopped_by_dassh")
        finally:
            dassh.Assembly.calculate = orig
        ctx.evals += 1
        if bad:
            aid, model, j, adiab, ebal, res = bad[0]
            ctx.violation("c11-sweep-unrodded-flux:%s" % model, "during a sweep (gap model %s, energy balance %s) wall cell %d of a %s region of "
                          "assembly %d does not satisfy the slab identities for the boundary condition the assembly was given (adiabatic = %s): %s"
                          % (case['core']['gap_model'], ebal, j, model, aid, adiab, {k: float("%.3g" % v) for k, v in res.items()}),
                          case=case, cell=j, model=model)
            return worst
        import shutil
        shutil.rmtree(d, ignore_errors=True)
    return worst


def validate_emission(ctx, g, rng):
    """The emitted Lean definitions, evaluated by Lean over Q, must equal the
    exact evaluation of the traced DAG in Python (checks the emitter)."""
    from harness.common import lean_file
    pts = []
    for _ in range(2):
        pts.append({r: Fraction(rng.randint(1, 97), rng.randint(1, 13)) for r in ROLES})
    script, idx = g.eval_script(pts, "Dassh.Gen.C11")
    rc, out = lean_file(script, name="EvalC11")
    got = {}
    for line in out.splitlines():
        parts = line.split("|")
        if len(parts) == 3:
            n, d = parts[2].split("/")
            got[(parts[0], int(parts[1]))] = Fraction(int(n), int(d))
    bad = 0
    for name, params, expr, _ in g.defs:
        for k, pt in enumerate(pts):
            want = eval_exact(expr, pt)
            if got.get((name, k)) != want:
                bad += 1
    ctx.obligation("emitter: Lean evaluation of Gen.C11 over Q equals exact DAG evaluation (%d points)" % len(idx),
                   bad == 0 and len(idx) > 0, kind="translator-validation",
                   detail="mismatches=%d rc=%d out=%s" % (bad, rc, out[-400:]))


def run(ctx):
    rng = random.Random(1000 + ctx.seed)
    ctx.rule = ("T1: every duct cell of traced regions (n_ring 2-3(4), 1-3 ducts, coupled/adiabatic, rodded and "
                "low-fidelity) is reduced to a canonical closed form; oracle: random real states, every cell's "
                "slab identities; non-trivial = a real region state with random temperatures/film coefficients")
    ctx.trusted += ["T1 tracing translator harness/trace.py (validated each run: Lean-over-Q evaluation of the emitted "
                    "definitions equals exact evaluation of the traced DAG; DAG equals float code on random states "
                    "through the oracle)",
                    "hypothesis L/2 = t/2 and L^2/8 = t^2/8 is checked numerically on the constructed regions"]
    ctx.assumptions += ["film coefficients, conductivity and thickness are positive (the theorems' hypotheses)",
                        "floating-point evaluation differs from the exact formulas only by round-off (measured in the oracle)"]
    try:
        g, info = build_gen(ctx, random.Random(1000))
        ctx.gen("C11", g.render())
        ctx.stats["trace"] = info
    except (TraceError, Exception) as e:  # tracing failed: proof obligation cannot be regenerated
        import traceback
        ctx.problem("trace-failed", "c11 tracer", traceback.format_exc()[-1500:])
        g = None
    if g is not None:
        ok = ctx.prove("Dassh.Props.C11")
        if ok:
            validate_emission(ctx, g, rng)
    n = 150 if ctx.thorough else 40
    worst = oracle(ctx, rng, n)
    oracle_sweep(ctx, rng, 12 if ctx.thorough else 4)
    ctx.stats["oracle_worst_rel_residual"] = worst
    ctx.nontrivial = ctx.evals
    ctx.traces = ctx.evals
    ctx.log("oracle worst relative residual %.3g over %d states" % (worst, ctx.evals))


def generate(ctx):
    g, info = build_gen(ctx, random.Random(1000))
    ctx.gen("C11", g.render())
