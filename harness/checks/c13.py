"""C13 - pin radial temperatures ordered, obey radial heat conduction.

T3: hand model lean/Dassh/Model/Pin.lean (the chain of closed-form conduction steps
with the node-averaged conductivities as positive parameters) and theorems in
Props/C13.lean.  Correspondence / oracle: real PinModel.calculate_temperatures on
generated pin models; the model's relations are evaluated on the reported temperatures
with the conductivities recomputed from the real material objects at those temperatures
(agreement up to the iteration tolerance).
"""
import math
import random

import numpy as np

import dassh
from harness import dasshutil as du

SB = 5.670374419e-8


def gap_material(rng):
    """bond in the fuel-clad gap: liquid sodium, or a fill gas (conductivity two orders lower and rising with temperature,
    where the surface-temperature iteration has real work to do)"""
    if rng.random() < 0.5:
        return dassh.Material('sodium'), "sodium"
    a = rng.uniform(0.04, 0.09)
    return dassh.Material('fill_gas', coeff_dict={'thermal_conductivity': np.array([a, rng.uniform(2e-4, 5e-4), -3.7e-8])}), "gas"


def make_pin(rng):
    from dassh.pin_model import PinModel
    D = rng.uniform(0.005, 0.012)
    tc = D * rng.uniform(0.05, 0.12)
    clad = dassh.Material(rng.choice(['ht9', 'ss316', 'ss304', 'd9'])) if rng.random() < 0.8 else du.const_material('cl', k=22.0)
    gap = rng.choice([0.0, 0.0, rng.uniform(2e-5, 2e-4)])
    nz = rng.randint(1, 5)
    annular = rng.random() < 0.25
    rf = sorted(set([0.0 if not annular else round(rng.uniform(0.1, 0.3), 3)] + [round(rng.uniform(0.2, 0.95), 4) for _ in range(nz - 1)]))
    gmat, gkind = gap_material(rng) if gap > 0 else (None, "none")
    if rng.random() < 0.7:
        params = dict(htc_params_clad=[0.023, 0.8, 0.4, 7.0], gap_thickness=gap, r_frac=rf,
                      pu_frac=[round(rng.uniform(0.0, 0.3), 3) for _ in rf], zr_frac=[round(rng.uniform(0.05, 0.2), 3) for _ in rf],
                      porosity=[round(rng.uniform(0.0, 0.3), 3) for _ in rf])
        pm = PinModel(D, tc, clad, fuel_params=params, gap_mat=gmat)
        kind = "metal"
    else:
        mats = [du.const_material('f%d' % i, k=rng.uniform(2, 25)) for i in range(len(rf))]
        params = dict(htc_params_clad=[0.023, 0.8, 0.4, 7.0], gap_thickness=gap, r_frac=rf, pin_material=mats)
        pm = PinModel(D, tc, clad, pin_params=params, gap_mat=gmat)
        kind = "user"
    return pm, dict(D=D, clad_thickness=tc, gap=gap, gap_bond=gkind, r_frac=rf, kind=kind, annular=annular)


MODEL_REQ = []


def bits(x):
    import struct
    return struct.unpack("<Q", struct.pack("<d", float(x)))[0]


def unbits(n):
    import struct
    return struct.unpack("<d", struct.pack("<Q", int(n)))[0]


def cond(mat, T):
    mat.update(float(T))
    return float(mat.thermal_conductivity)


def fuel_chain(pm, info, q, Tsurf):
    """independent evaluation of the fuel shell chain of Model/Pin.lean (fuelShells): geometry from the generated input, every
    shell with the mean of ITS OWN material's conductivity at its two faces, fixed point solved to 1e-10 K"""
    import copy
    R = info['D'] / 2 - info['clad_thickness'] - info['gap']
    rf = list(info['r_frac'])
    bounds = rf + [1.0]
    qd = q / (math.pi * R * R * (1.0 - rf[0] ** 2))
    mats = [copy.deepcopy(m) for m in pm.fuel['mat']]
    T = float(Tsurf)
    shells = []
    for i in reversed(range(len(rf))):
        # conduction through a shell of a pellet that generates heat uniformly outside its central hole r0 = rf[0] R (zero for a
        # solid pellet): the heat crossing radius r is qdens pi (r^2 - r0^2), so
        #   k dT = qdens [ (ro^2 - ri^2) / 4 - r0^2 ln(ro / ri) / 2 ]
        d = 0.25 * R * R * (bounds[i + 1] ** 2 - bounds[i] ** 2)
        if rf[0] > 0.0:
            d -= 0.5 * (rf[0] * R) ** 2 * math.log(bounds[i + 1] / bounds[i])
        kout = cond(mats[i], T)
        Tin = T + d * qd / kout
        for _ in range(500):
            Tn = T + d * qd / (0.5 * (cond(mats[i], Tin) + kout))
            done = abs(Tn - Tin) < 1e-10
            Tin = Tn
            if done:
                break
        else:
            return None, None, None
        shells.append((d, 0.5 * (cond(mats[i], Tin) + kout)))
        T = Tin
    return T, qd, shells


def check_relations(ctx, pm, info, q, Tc, h, dz, T):
    """the model's relations on the reported temperatures (one pin)"""
    tol = 2e-2       # K: iteration tolerance of the code is 1e-3 per node
    C = q / (2 * math.pi)
    names = ["coolant", "clad_od", "clad_mw", "clad_id", "fuel_od", "fuel_cl"]
    if any(T[i] > T[i + 1] + 1e-9 for i in range(5)) and q >= 0:
        return "order", "temperatures not ordered coolant <= clad OD <= MW <= ID <= fuel surface <= centre: %s" % list(map(float, T))
    od = Tc + C / h / pm.clad['r'][2]
    if abs(T[1] - od) > 1e-8 * max(abs(od), 1):
        return "film", "film drop %.9g differs from q'/(2 pi r_o h) = %.9g" % (T[1] - Tc, od - Tc)
    kc = 0.5 * (float(pm.clad['k'](T[3])) + float(pm.clad['k'](T[1])))
    want = C * pm.clad['ln_r2r'] / kc
    if abs((T[3] - T[1]) - want) > tol + 1e-3 * abs(want):
        return "clad", "clad drop %.6g differs from q' ln(r_o/r_i)/(2 pi k) = %.6g (k at the reported temperatures)" % (T[3] - T[1], want)
    want_mw = C * pm.clad['ln_r2r_2node'][1] / kc
    if abs((T[2] - T[1]) - want_mw) > tol + 1e-3 * abs(want_mw):
        return "clad-midwall", "clad OD -> mid-wall drop %.6g differs from q' ln(r_o/r_m)/(2 pi k) = %.6g" % (T[2] - T[1], want_mw)
    if pm.gap['dr'] == 0.0 and T[4] != T[3]:
        return "gap", "no gap but fuel surface temperature differs from clad inner temperature"
    if pm.gap['dr'] > 0.0:
        # conduction (mean conductivity of the bond at the two surface temperatures) + grey-body radiation carry the pin's heat
        import copy
        gm = copy.deepcopy(pm.gap['k'].__self__) if hasattr(pm.gap['k'], '__self__') else None
        kg = (lambda t: float(pm.gap['k'](t)))
        rf_out = info['D'] / 2 - info['clad_thickness'] - info['gap']
        kavg = 0.5 * (kg(T[4]) + kg(T[3]))
        flux = q / (2 * math.pi * rf_out)
        closed = T[3] + pm.gap['dr'] * (flux - pm.fuel['e'] * SB * (T[4] ** 4 - T[3] ** 4)) / kavg
        ctx.count("gap_balance_checked:" + info.get('gap_bond', '?'))
        if abs(T[4] - closed) > 5e-3 + 1e-4 * abs(T[4] - T[3]):
            return "gap-balance", ("fuel surface temperature %.6f K: conduction + radiation across the %s-bonded gap would need %.6f K "
                                   "(clad inner surface %.6f K)" % (T[4], info.get('gap_bond'), closed, T[3]))
    if info['r_frac'][-1] != 1.0:
        cl, qd, shells = fuel_chain(pm, info, q, T[4])
        if cl is not None:
            # request for the Lean model (Model/Pin.lean through the driver): clad with the conductivity at the reported face
            # temperatures, the reported gap drop, the shells with their own converged conductivities
            MODEL_REQ.append(("pin %s | %s" % (" ".join(str(bits(v)) for v in (Tc, C, h, pm.clad['r'][2], pm.clad['ln_r2r_2node'][1],
                                                                             pm.clad['ln_r2r'], kc, T[4] - T[3], qd)),
                                              " ".join("%d %d" % (bits(d), bits(k)) for d, k in shells)),
                              [float(x) for x in T], dict(info=info, q=q, Tcool=Tc, htc=h)))
            ctx.count("fuel_chain_checked")
            if abs(cl - T[5]) > tol + 1e-4 * abs(cl - T[4]):
                return "fuel-shells", ("fuel centre temperature %.6f K differs from the shell-by-shell conduction chain %.6f K (surface %.6f K; "
                                       "each shell with its own conductivity at its face temperatures)" % (T[5], cl, T[4]))
    return None


def oracle(ctx, rng, n):
    for ci in range(n):
        try:
            pm, info = make_pin(rng)
        except SystemExit:
            ctx.count("pin_model_rejected")
            continue
        npin = rng.randint(1, 6)
        dz = rng.uniform(0.001, 0.02)
        level = rng.choice(["zero", "low", "nominal", "high", "extreme"])
        scale = dict(zero=0.0, low=1e3, nominal=2.5e4, high=6e4, extreme=2.5e5)[level]
        q = np.array([scale * rng.uniform(0.5, 1.0) for _ in range(npin)])
        if npin >= 2 and level != "zero" and rng.random() < 0.35:
            q[rng.randrange(npin)] = 0.0          # an unpowered pin among powered ones (dummy pin, zero cell of a user power shape)
            ctx.count("power_vectors_with_an_unpowered_pin")
        Tc = np.array([rng.uniform(600, 850) for _ in range(npin)])
        h = np.array([10 ** rng.uniform(4, 5.5)] * npin)
        ctx.evals += 1
        ctx.count("power:" + level)
        try:
            T = pm.calculate_temperatures(q, Tc, h, dz)
        except SystemExit:
            ctx.count("iteration_limit_exit:" + level)        # error exit is allowed by the property
            continue
        if not np.all(np.isfinite(T)):
            ctx.violation("c13-nonfinite:" + level, "pin temperatures not finite at %s power" % level, info=info, q=q.tolist())
            continue
        for p in range(npin):
            r = check_relations(ctx, pm, info, float(q[p]), float(Tc[p]), float(h[p]), dz, T[p])
            if r:
                ctx.violation("c13-" + r[0], "pin model: " + r[1], info=info, q=float(q[p]), Tcool=float(Tc[p]), htc=float(h[p]), dz=dz)
                break
        if level == "zero" and np.abs(T - Tc[:, None]).max() > 1e-9:
            ctx.violation("c13-zero-power", "zero power does not give the coolant temperature everywhere", info=info)
        # monotone in power (numerically)
        if level in ("low", "nominal"):
            try:
                T2 = pm.calculate_temperatures(q * 1.2, Tc, h, dz)
                if (T2 < T - 1e-6).any():
                    ctx.violation("c13-not-monotone", "a pin temperature decreases when the power increases by 20%", info=info)
            except SystemExit:
                pass
        if ci < 3:
            ctx.sample(dict(what="pin", level=level, **{k: info[k] for k in ("kind", "gap", "annular", "r_frac")}))
    # pin-adjacent coolant average on real regions: weights sum to one
    for n_ring in (2, 3, 5):
        rr = du.activate_rr(du.make_rr(du.bundle_dims(rng, n_ring, 1)), 650.0)
        sc = rr.subchannel
        w = np.where(sc.pin_adj >= 0, rr._q_p2sc[sc.pin_adj], 0.0).sum(axis=1)
        ctx.evals += 1
        if np.abs(w - 1.0).max() > 1e-12:
            ctx.violation("c13-coolant-average-weights", "weights of the pin-adjacent coolant average sum to %.15g" % w[np.argmax(np.abs(w - 1))])


def generate(ctx):
    """T1: the real PinModel.calc_clad_temps is executed symbolically for one pin with a cladding of constant conductivity (the
    conductivity iteration then stops after its first pass); Gen/C13Clad.lean holds the three returned temperatures and the
    theorems: film drop = q' / (2 pi r_o h), clad OD -> ID drop = q' ln(r_o/r_i) / (2 pi k), clad OD -> mid-wall drop =
    q' ln(r_o/r_m) / (2 pi k), with q' = q / dz - the closed-form cylindrical-conduction values of the property (the logarithms
    are the geometry constants the model stores; their values are checked by the oracle)."""
    import re
    from dassh.pin_model import PinModel
    from harness.trace import NpProxy, Sym, Trace, rebind, symarray, to_lean, used_vars
    tr = Trace()

    class O:
        pass
    o = O()
    kvar = tr.var("k", 22.0)
    o.clad = {'r': [tr.var("r_i", 2.5e-3), tr.var("r_m", 2.75e-3), tr.var("r_o", 3.0e-3)], 'ln_r2r': tr.var("ln_oi", math.log(3.0 / 2.5)),
              'ln_r2r_2node': [tr.var("ln_mi", math.log(2.75 / 2.5)), tr.var("ln_om", math.log(3.0 / 2.75))],
              'k': lambda T: np.full(np.shape(T), kvar, dtype=object)}
    o.log = lambda *a, **k: None
    q = symarray(tr, "q", np.array([250.0]))
    Tc = symarray(tr, "Tc", np.array([700.0]))
    T = rebind(PinModel.calc_clad_temps, tr)(o, q, tr.var("dz", 0.01), Tc, tr.var("h", 9.0e4))
    fix = lambda t: re.sub(r"\((\d+) : α\)", r"(\1 : K)", t)
    row = [x if isinstance(x, Sym) else tr.const(x) for x in np.ravel(T)]
    vs = sorted(used_vars(row))
    L = ["-- GENERATED by /verif/harness (C13, cladding): traced from dassh.pin_model.PinModel.calc_clad_temps (constant conductivity).",
         "import Mathlib.Algebra.Order.Field.Basic", "import Mathlib.Tactic.FieldSimp", "import Mathlib.Tactic.Ring", "import Dassh.Lemmas.Attr", "",
         "namespace Dassh.Gen.C13Clad", "", "variable {K : Type} [Field K] [LinearOrder K] [IsStrictOrderedRing K]", "",
         "set_option linter.unusedVariables false", ""]
    args = " ".join(vs)
    for nm, e in (("clad_od", row[0]), ("clad_mw", row[1]), ("clad_id", row[2])):     # (the method returns OD, MW, ID)
        L.append("@[gen_defs] def %s (%s : K) : K :=\n  %s\n" % (nm, args, fix(to_lean(e))))
    hyps = " ".join("(h_%s : 0 < %s)" % (v, v) for v in vs if v not in ("q_0", "Tc_0"))
    lnmw = [v for v in ("ln_om", "ln_mi") if v in vs]
    L.append("/-- film, clad and mid-wall drops of the traced cladding solution are the closed-form cylindrical-conduction values -/")
    L.append("theorem clad_drops (%s : K) %s :\n    clad_od %s - Tc_0 = q_0 / dz / (2 * pi * r_o * h)\n"
             "    ∧ clad_id %s - clad_od %s = q_0 / dz * ln_oi / (2 * pi * k)\n"
             "    ∧ clad_mw %s - clad_od %s = q_0 / dz * %s / (2 * pi * k) := by"
             % (args, hyps, args, args, args, args, args, lnmw[0] if lnmw else "ln_om"))
    L.append("  refine ⟨?_, ?_, ?_⟩ <;>\n  · simp only [gen_defs]\n    field_simp\n    try ring\n")
    L.append("end Dassh.Gen.C13Clad\n")
    ctx.gen("C13Clad", "\n".join(L))
    return ["Dassh.Gen.C13Clad.clad_drops"]


def run(ctx):
    rng = random.Random(13000 + ctx.seed)
    ctx.rule = ("generated pin models: metal fuel compositions / user materials, 1-5 radial zones, solid and annular pellets, gap 0 "
                "or >0 (radiating), temperature-dependent clad; powers zero .. extreme (iteration-limit exit); non-trivial = "
                "one (pin model, power level) evaluation")
    try:
        generate(ctx)
    except Exception:
        import traceback
        ctx.problem("trace-failed", "c13 cladding tracer", traceback.format_exc()[-1500:])
    ctx.prove("Dassh.Props.C13", also=["Dassh.Gen.C13Clad"])
    ctx.prove("Dassh.Props.C13Annular")
    del MODEL_REQ[:]
    oracle(ctx, rng, 600 if ctx.thorough else 150)
    # correspondence: the Lean model (chain of closed-form conduction steps) on the same data vs the real PinModel
    from harness import modelio
    if modelio.build_driver(ctx) and MODEL_REQ:
        reps = modelio.ask([r[0] for r in MODEL_REQ])
        bad, worst = 0, 0.0
        for rep, (req, T, ctxinfo) in zip(reps, MODEL_REQ):
            parts = rep.split()
            if parts[0] != "ok":
                bad += 1
                continue
            m = [unbits(v) for v in parts[1:]]
            dev = max(abs(m[0] - T[1]), abs(m[1] - T[2]), abs(m[2] - T[3]), abs(m[-1] - T[5]))
            worst = max(worst, dev)
            if dev > 2e-2 + 1e-4 * abs(T[5] - T[0]):
                bad += 1
                if bad == 1:
                    ctx.problem("correspondence", "Model.Pin vs PinModel.calculate_temperatures",
                                "model %s vs reported %s for %s" % ([m[0], m[1], m[2], m[-1]], [T[1], T[2], T[3], T[5]], ctxinfo))
        ctx.obligation("correspondence: Model.Pin (cladOD/MW/ID, fuelShells) = PinModel.calculate_temperatures on %d pins (max dev %.2g K)"
                       % (len(MODEL_REQ), worst), bad == 0, kind="correspondence", detail="disagreements %d" % bad)
        ctx.stats["model_vs_impl_max_dev_K"] = worst
    ctx.nontrivial = ctx.evals
    ctx.traces = ctx.evals
    ctx.trusted += ["hand model lean/Dassh/Model/Pin.lean; its relations are evaluated on the temperatures the real PinModel "
                    "reports, with conductivities recomputed from the real material objects"]
    ctx.assumptions += ["conductivities are positive; the k-iteration has converged to its tolerance (1e-3 K per node)",
                        "fuel shells use the code's relation dT = q''' d(r^2)/(4 k) (for annular pellets this neglects the "
                        "logarithmic term of the exact solution)",
                        "monotonicity in the power is a theorem only for temperature-independent conductivities"]
