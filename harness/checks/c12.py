"""C12 - flow split conserves mass and equalises subchannel pressure gradients.

T1: `flowsplit_ctd._calc_constant_flowsplits` (shared by the CTD and UCTD laminar /
turbulent splits) and the regime ratio constants are traced; Props/C12.lean proves mass
conservation and positivity of the constant splits for all ratio constants, mass
conservation and equalised gradients of one successive-approximation update, and - over
the reals with Real.rpow - that the constant split equalises the friction pressure
gradient of the three subchannel types.
Oracle: every combination of correlations the reader accepts, on constructed bundles, at
Reynolds numbers from 10 to 1e6 including the regime boundaries: evaluability, positivity
and finiteness, mass conservation.
"""
import itertools
import math
import random

import numpy as np

from harness import dasshutil as du
from harness.trace import GEN_HEADER, Trace, rebind, symarray, to_lean

FS = ['NOV', 'SE2', 'MIT', 'CTD', 'UCTD']
FF = ['NOV', 'REH', 'ENG', 'CTS', 'CTD', 'UCTD']
MIX = ['MIT', 'CTD', 'UCTD', 'KC-BARE']


def gen_text():
    from dassh.correlations import flowsplit_ctd as F
    out = [GEN_HEADER.replace("import Mathlib.Algebra.Field.Defs", "import Mathlib.Algebra.Field.Defs\nimport Dassh.Lemmas.Attr"),
           "/-! traced from dassh.correlations.flowsplit_ctd._calc_constant_flowsplits -/\n", "namespace Dassh.Gen.C12\n"]
    tr = Trace()

    class O:
        pass
    o = O()
    o.bundle_params = dict(area=tr.var("Ab", 3.0e-3))
    const = dict(na=[tr.var("na0", 1.5e-3), tr.var("na1", 1.0e-3), tr.var("na2", 0.5e-3)],
                 xr=dict(laminar=[tr.var("r1", 0.8), tr.var("r3", 0.6)], turbulent=[tr.var("r1", 0.8), tr.var("r3", 0.6)]))
    fs = rebind(F._calc_constant_flowsplits, tr)(o, const)
    for i in range(3):
        out.append("@[gen_defs] def const_split_%d {α : Type} [Field α] (Ab na0 na1 na2 r1 r3 : α) : α :=\n  %s\n"
                   % (i, to_lean(fs['laminar'][i])))
    same = all(to_lean(fs['laminar'][i]) == to_lean(fs['turbulent'][i]) for i in range(3))
    out.append("end Dassh.Gen.C12\n")
    return "\n".join(out), same


def generate(ctx):
    ctx.gen("C12", gen_text()[0])


def set_re(rr, Re, T=650.0):
    """put the bundle at a prescribed Reynolds number by choosing the flow rate"""
    rr.coolant.update(T)
    mfr = Re * rr.coolant.viscosity * rr.bundle_params['area'] / rr.bundle_params['de']
    return mfr


def oracle(ctx, rng, n_geom):
    combos = list(itertools.product(FF, FS, MIX))
    failures = {}
    for gi_ in range(n_geom):
        n_ring = rng.choice([2, 3, 5, 8, 12])
        dims = du.bundle_dims(rng, n_ring, 1)
        if rng.random() < 0.3:
            dims['wire_pitch'] = rng.choice([0.05, 0.6])        # H/D outside the correlated range
        picks = combos if (ctx.thorough or gi_ == 0) else rng.sample(combos, 30)
        for (ff, fs, mix) in picks:
            grid = None
            if rng.random() < 0.15:
                grid = dict(corr='CDD', corr_coeff=None, loss_coeff=None, axial_positions=[0.3, 0.6], solidity=0.3)
            for Re in (10.0, 300.0, rng.uniform(500, 1200), 5.0e3, rng.uniform(8e3, 2e4), 1.0e5, 1.0e6):
                ctx.evals += 1
                key = "%s/%s/%s" % (ff, fs, mix)
                try:
                    cool = du.const_material('c', k=70.0, cp=1270.0, rho=850.0, mu=2.5e-4)
                    rr0 = du.make_rr(dims, flow_rate=1.0, coolant=cool, corr=dict(corr_friction=ff, corr_flowsplit=fs, corr_mixing=mix),
                                     spacer_grid=grid)
                    mfr = Re * 2.5e-4 * rr0.bundle_params['area'] / rr0.bundle_params['de']
                    rr = du.make_rr(dims, flow_rate=mfr, coolant=cool, corr=dict(corr_friction=ff, corr_flowsplit=fs, corr_mixing=mix),
                                    spacer_grid=grid)
                    rr.z = [0.0, 1.0]
                    rr._init_static_correlated_params(650.0)
                    rr._update_coolant_int_params(650.0, use_mat_tracker=False)
                except SystemExit:
                    ctx.count("rejected_by_dassh")
                    continue
                except Exception as ex:
                    import traceback
                    tb = [f for f in traceback.extract_tb(ex.__traceback__) if '/dassh/' in f.filename]
                    site = "%s:%s" % (tb[-1].filename.split('/')[-1], tb[-1].name) if tb else "?"
                    rec = failures.setdefault((site, type(ex).__name__), dict(n_ring=n_ring, Re=Re, dims=dims, error=repr(ex)[:200],
                                                                              combos=set(), grid=bool(grid)))
                    rec['combos'].add(key)
                    continue
                p = rr.coolant_int_params
                x = np.array(p['fs'], dtype=float)
                nsc = np.array([rr.subchannel.n_sc['coolant'][k] for k in ('interior', 'edge', 'corner')])
                mass = float(np.sum(nsc * rr.params['area'] * x) / rr.bundle_params['area'])
                info = dict(combo=key, n_ring=n_ring, Re=Re, dims=dims, fs=list(map(float, x)), grid=bool(grid))
                if not np.all(np.isfinite(x)) or np.any(x <= 0):
                    ctx.violation("c12-split-sign:" + fs, "flow split factors not positive and finite: %s" % x, **info)
                elif abs(mass - 1.0) > 1e-4:
                    ctx.violation("c12-mass:" + fs, "flow-area-weighted mean of the flow split is %.8f, not one" % mass, **info)
                if not (np.isfinite(p['ff']) and p['ff'] > 0):
                    ctx.violation("c12-friction:" + ff, "bundle friction factor %r is not positive and finite" % p['ff'], **info)
                if not (np.all(np.isfinite(p['eddy'])) and np.all(np.asarray(p['eddy']) >= 0) and np.all(np.isfinite(p['swirl']))
                        and np.all(np.asarray(p['swirl']) >= 0)):
                    ctx.violation("c12-mixing:" + mix, "mixing parameters negative or not finite", **info)
                # subchannel flows sum to the bundle flow
                if abs(float(np.sum(rr.sc_mfr)) - rr.int_flow_rate) > 1e-4 * rr.int_flow_rate and np.all(np.isfinite(x)):
                    ctx.violation("c12-subchannel-flow-sum:" + fs, "subchannel flows sum to %.8g, bundle flow %.8g"
                                  % (np.sum(rr.sc_mfr), rr.int_flow_rate), **info)
        if gi_ < 2:
            ctx.sample(dict(kind="bundle", n_ring=n_ring, combos=len(picks)))
    allc = set()
    for (site, exn), info in sorted(failures.items()):
        combos = sorted(info.pop('combos'))
        allc |= set(combos)
        ctx.violation("c12-cannot-evaluate@%s:%s" % (site, exn),
                      "%d accepted correlation combinations (friction/flowsplit/mixing, e.g. %s) raise %s in %s: %s"
                      % (len(combos), ", ".join(combos[:4]), exn, site, info['error']), combos=combos, **info)
    ctx.stats["combinations_failing_to_evaluate"] = sorted(allc)


def run(ctx):
    rng = random.Random(12000 + ctx.seed)
    ctx.rule = ("oracle: all 6x5x4 friction/flow-split/mixing combinations (a random 30 per geometry in the quick tier, all on "
                "the first geometry) x 7 Reynolds numbers (10 .. 1e6, regime boundaries) x ring counts 2-12, with/without grids")
    try:
        txt, same = gen_text()
        ctx.gen("C12", txt)
        ctx.obligation("laminar and turbulent constant splits are one formula in the ratio constants", same, kind="trace-shape")
        ok = True
    except BaseException:
        import traceback
        ctx.problem("trace-failed", "c12 tracer", traceback.format_exc()[-1500:])
        ok = False
    if ok:
        ctx.prove("Dassh.Props.C12")
    oracle(ctx, rng, 6 if ctx.thorough else 2)
    ctx.nontrivial = ctx.evals
    ctx.traces = ctx.evals
    ctx.trusted += ["T1 trace of the constant CTD/UCTD flow split; the iteration update is a hand model (Props/C12.lean) of the "
                    "last lines of flowsplit_ctd._iterate, validated by the oracle's mass check in the transition regime"]
    ctx.assumptions += ["sqrt and real powers are opaque functions with their defining algebraic laws (instantiated with "
                        "Real.sqrt / Real.rpow in the last section of Props/C12.lean)",
                        "NOV / MIT / SE2 splits are covered by the oracle only"]
