"""C12 - flow split conserves mass and equalises subchannel pressure gradients.

T1: `flowsplit_ctd._calc_constant_flowsplits` (shared by the CTD and UCTD laminar /
turbulent splits) and the regime ratio constants are traced; Props/C12.lean proves mass
conservation and positivity of the constant splits for all ratio constants, mass
conservation and equalised gradients of one successive-approximation update, and - over
the reals with Real.rpow - that the constant split equalises the friction pressure
gradient of the three subchannel types.
Oracle: every combination of correlations the reader accepts, on constructed bundles, at
Reynolds numbers from 10 to 1e6 including the regime boundaries: evaluability, positivity
and finiteness, mass conservation.
"""
import itertools
import math
import random

import numpy as np

from harness import dasshutil as du
from harness.trace import GEN_HEADER, Trace, rebind, symarray, to_lean

FS = ['NOV', 'SE2', 'MIT', 'CTD', 'UCTD']
FF = ['NOV', 'REH', 'ENG', 'CTS', 'CTD', 'UCTD']
MIX = ['MIT', 'CTD', 'UCTD', 'KC-BARE']


def gen_text():
    from dassh.correlations import flowsplit_ctd as F
    out = [GEN_HEADER.replace("import Mathlib.Algebra.Field.Defs", "import Mathlib.Algebra.Field.Defs\nimport Dassh.Lemmas.Attr"),
           "/-! traced from dassh.correlations.flowsplit_ctd._calc_constant_flowsplits -/\n", "namespace Dassh.Gen.C12\n"]
    tr = Trace()

    class O:
        pass
    o = O()
    o.bundle_params = dict(area=tr.var("Ab", 3.0e-3))
    const = dict(na=[tr.var("na0", 1.5e-3), tr.var("na1", 1.0e-3), tr.var("na2", 0.5e-3)],
                 xr=dict(laminar=[tr.var("r1", 0.8), tr.var("r3", 0.6)], turbulent=[tr.var("r1", 0.8), tr.var("r3", 0.6)]))
    fs = rebind(F._calc_constant_flowsplits, tr)(o, const)
    for i in range(3):
        out.append("@[gen_defs] def const_split_%d {α : Type} [Field α] (Ab na0 na1 na2 r1 r3 : α) : α :=\n  %s\n"
                   % (i, to_lean(fs['laminar'][i])))
    same = all(to_lean(fs['laminar'][i]) == to_lean(fs['turbulent'][i]) for i in range(3))
    out.append("end Dassh.Gen.C12\n")
    return "\n".join(out), same


def generate(ctx):
    ctx.gen("C12", gen_text()[0])


def set_re(rr, Re, T=650.0):
    """put the bundle at a prescribed Reynolds number by choosing the flow rate"""
    rr.coolant.update(T)
    mfr = Re * rr.coolant.viscosity * rr.bundle_params['area'] / rr.bundle_params['de']
    return mfr


def straddle_dims(rng, n_ring, wire=True):
    """bundles whose P/D and W/D lie on opposite sides of 1.1, the break of the Cheng-Todreas bare-rod polynomials: a tight
    lattice sitting loosely in its duct, or a loose lattice close to the wall"""
    D = rng.uniform(0.004, 0.012)
    if rng.random() < 0.6:
        pd, wd = rng.uniform(1.03, 1.1), rng.uniform(1.12, 1.4)
    else:
        pd, wd = rng.uniform(1.12, 1.35), rng.uniform(1.03, 1.1)
    P, W = pd * D, wd * D
    Dw = 0.85 * min(P - D, W - D) if wire else 0.0
    ftf_in = math.sqrt(3) * (n_ring - 1) * P + D + 2 * (W - D)
    return dict(num_rings=n_ring, pin_pitch=P, pin_diameter=D, wire_pitch=rng.uniform(0.1, 0.4) if wire else 0.0, wire_diameter=Dw,
                clad_thickness=D * 0.08, duct_ftf=[ftf_in, ftf_in + 0.006])


def bare_rod_separation(ctx, rng, n):
    """Cheng-Todreas bare-rod friction constants: the interior constant is a function of P/D only, the edge and corner constants
    of W/D only (each subchannel type is correlated with its own pitch).  Two bare bundles with the same W and other P must have
    the same edge / corner constants, two with the same P and other W the same interior constant - on both sides of the break of
    the polynomials at 1.1."""
    for _ in range(n):
        D = rng.uniform(0.004, 0.012)
        n_ring = rng.choice([2, 3, 5])
        for ff in ('CTD', 'UCTD'):
            vals = {}
            pds = [rng.uniform(1.03, 1.095), rng.uniform(1.105, 1.35)]
            wds = [rng.uniform(1.03, 1.095), rng.uniform(1.105, 1.4)]
            for pd in pds:
                for wd in wds:
                    P, W = pd * D, wd * D
                    f_in = math.sqrt(3) * (n_ring - 1) * P + D + 2 * (W - D)
                    dims = dict(num_rings=n_ring, pin_pitch=P, pin_diameter=D, wire_pitch=0.0, wire_diameter=0.0,
                                clad_thickness=D * 0.08, duct_ftf=[f_in, f_in + 0.006])
                    try:
                        rr = du.make_rr(dims, corr=dict(corr_friction=ff, corr_flowsplit=ff, corr_mixing=ff))
                    except SystemExit:
                        continue
                    vals[(pd, wd)] = {k: np.array(v, dtype=float) for k, v in rr.corr_constants['ff']['Cf_sc'].items()}
                    ctx.evals += 1
            for regime in ('laminar', 'turbulent'):
                for pd in pds:
                    for wd in wds:
                        v = vals.get((pd, wd))
                        if v is None:
                            continue
                        if not (np.all(np.isfinite(v[regime])) and np.all(v[regime] > 0)):
                            ctx.violation("c12-friction-constant-sign:" + ff, "%s bare-rod friction constants %s at P/D = %.3f, W/D = %.3f "
                                          "(%s) are not positive" % (ff, v[regime], pd, wd, regime), pd=pd, wd=wd, D=D, n_ring=n_ring)
                            return
                for wd in wds:
                    a, b = vals.get((pds[0], wd)), vals.get((pds[1], wd))
                    if a is not None and b is not None and np.abs(a[regime][1:] - b[regime][1:]).max() > 1e-9 * np.abs(a[regime][1:]).max():
                        ctx.violation("c12-friction-constant-pitch:" + ff, "%s bare-rod %s constants of the edge/corner subchannels at "
                                      "W/D = %.3f change with the pin pitch: %s at P/D = %.3f, %s at P/D = %.3f"
                                      % (ff, regime, wd, a[regime][1:], pds[0], b[regime][1:], pds[1]), wd=wd, pds=pds, D=D, n_ring=n_ring)
                        return
                for pd in pds:
                    a, b = vals.get((pd, wds[0])), vals.get((pd, wds[1]))
                    if a is not None and b is not None and abs(a[regime][0] - b[regime][0]) > 1e-9 * abs(a[regime][0]):
                        ctx.violation("c12-friction-constant-pitch:" + ff, "%s bare-rod %s constant of the interior subchannels at "
                                      "P/D = %.3f changes with the edge pitch" % (ff, regime, pd), pd=pd, wds=wds, D=D, n_ring=n_ring)
                        return
    ctx.count("bare_rod_separation_sets", n)


def oracle(ctx, rng, n_geom):
    combos = list(itertools.product(FF, FS, MIX))
    failures = {}
    for gi_ in range(n_geom):
        n_ring = rng.choice([2, 3, 5, 8, 12])
        dims = du.bundle_dims(rng, n_ring, 1)
        if gi_ % 3 == 1:
            dims = straddle_dims(rng, n_ring)
            ctx.count("geometries_pd_wd_across_1.1")
        if rng.random() < 0.3:
            dims['wire_pitch'] = rng.choice([0.05, 0.6])        # H/D outside the correlated range
        picks = combos if (ctx.thorough or gi_ == 0) else rng.sample(combos, 30)
        for (ff, fs, mix) in picks:
            grid = None
            if rng.random() < 0.15:
                grid = dict(corr='CDD', corr_coeff=None, loss_coeff=None, axial_positions=[0.3, 0.6], solidity=0.3)
            for Re in (10.0, 300.0, rng.uniform(500, 1200), 5.0e3, rng.uniform(8e3, 2e4), 1.0e5, 1.0e6):
                ctx.evals += 1
                key = "%s/%s/%s" % (ff, fs, mix)
                try:
                    cool = du.const_material('c', k=70.0, cp=1270.0, rho=850.0, mu=2.5e-4)
                    rr0 = du.make_rr(dims, flow_rate=1.0, coolant=cool, corr=dict(corr_friction=ff, corr_flowsplit=fs, corr_mixing=mix),
                                     spacer_grid=grid)
                    mfr = Re * 2.5e-4 * rr0.bundle_params['area'] / rr0.bundle_params['de']
                    rr = du.make_rr(dims, flow_rate=mfr, coolant=cool, corr=dict(corr_friction=ff, corr_flowsplit=fs, corr_mixing=mix),
                                    spacer_grid=grid)
                    rr.z = [0.0, 1.0]
                    rr._init_static_correlated_params(650.0)
                    rr._update_coolant_int_params(650.0, use_mat_tracker=False)
                except SystemExit:
                    ctx.count("rejected_by_dassh")
                    continue
                except Exception as ex:
                    import traceback
                    tb = [f for f in traceback.extract_tb(ex.__traceback__) if '/dassh/' in f.filename]
                    site = "%s:%s" % (tb[-1].filename.split('/')[-1], tb[-1].name) if tb else "?"
                    rec = failures.setdefault((site, type(ex).__name__), dict(n_ring=n_ring, Re=Re, dims=dims, error=repr(ex)[:200],
                                                                              combos=set(), grid=bool(grid)))
                    rec['combos'].add(key)
                    continue
                p = rr.coolant_int_params
                x = np.array(p['fs'], dtype=float)
                nsc = np.array([rr.subchannel.n_sc['coolant'][k] for k in ('interior', 'edge', 'corner')])
                mass = float(np.sum(nsc * rr.params['area'] * x) / rr.bundle_params['area'])
                info = dict(combo=key, n_ring=n_ring, Re=Re, dims=dims, fs=list(map(float, x)), grid=bool(grid))
                if not np.all(np.isfinite(x)) or np.any(x <= 0):
                    ctx.violation("c12-split-sign:%s:ff=%s" % (fs, ff), "flow split factors not positive and finite: %s (friction %s, "
                                  "flow split %s)" % (x, ff, fs), **info)
                elif abs(mass - 1.0) > 1e-4:
                    ctx.violation("c12-mass:" + fs, "flow-area-weighted mean of the flow split is %.8f, not one" % mass, **info)
                if not (np.isfinite(p['ff']) and p['ff'] > 0):
                    ctx.violation("c12-friction:" + ff, "bundle friction factor %r is not positive and finite" % p['ff'], **info)
                if np.all(np.isfinite(x)) and not (np.all(np.isfinite(p['eddy'])) and np.all(np.asarray(p['eddy']) >= 0)
                                                   and np.all(np.isfinite(p['swirl'])) and np.all(np.asarray(p['swirl']) >= 0)):
                    ctx.violation("c12-mixing:" + mix, "mixing parameters negative or not finite", **info)
                # subchannel flows sum to the bundle flow
                if abs(float(np.sum(rr.sc_mfr)) - rr.int_flow_rate) > 1e-4 * rr.int_flow_rate and np.all(np.isfinite(x)):
                    ctx.violation("c12-subchannel-flow-sum:" + fs, "subchannel flows sum to %.8g, bundle flow %.8g"
                                  % (np.sum(rr.sc_mfr), rr.int_flow_rate), **info)
        if gi_ < 2:
            ctx.sample(dict(kind="bundle", n_ring=n_ring, combos=len(picks)))
    allc = set()
    for (site, exn), info in sorted(failures.items()):
        combos = sorted(info.pop('combos'))
        allc |= set(combos)
        ctx.violation("c12-cannot-evaluate@%s:%s" % (site, exn),
                      "%d accepted correlation combinations (friction/flowsplit/mixing, e.g. %s) raise %s in %s: %s"
                      % (len(combos), ", ".join(combos[:4]), exn, site, info['error']), combos=combos, **info)
    ctx.stats["combinations_failing_to_evaluate"] = sorted(allc)


def update_map(rr, x, lam, grid, L, regime=None):
    """one successive-approximation update of the equal-pressure-loss system (Cheng-Todreas 1986 eqs. 27/30; `lam` = exponent of
    the 2018 upgrade, None for the original transition law), written independently of dassh; also returns the subchannel losses"""
    cc = rr.corr_constants
    Re = rr.coolant_int_params['Re']
    de = np.asarray(rr.params['de'], dtype=float)
    deb = float(rr.bundle_params['de'])
    s = np.asarray(cc['fs']['na'], dtype=float) / rr.bundle_params['area']
    ReL = cc['ff']['Re_bnds'][0] * de / deb * np.asarray(cc['fs']['fs']['laminar'])
    ReT = cc['ff']['Re_bnds'][1] * de / deb * np.asarray(cc['fs']['fs']['turbulent'])
    Rei = Re * x * de / deb
    y = np.clip(np.log10(Rei / ReL) / np.log10(ReT / ReL), 0.0, 1.0)
    if regime == 'laminar':       # on the boundary itself round-off in Re_i / Re_iL would be amplified by y ** (1/3)
        y = np.zeros(3)
    elif regime == 'turbulent':
        y = np.ones(3)
    f = (np.asarray(cc['ff']['Cf_sc']['laminar']) / Rei) * (1 - y) ** (1 / 3.0) * ((1 - y ** lam) if lam else 1.0) \
        + (np.asarray(cc['ff']['Cf_sc']['turbulent']) / Rei ** 0.18) * y ** (1 / 3.0)
    k = rr.coolant_int_params['grid_loss_coeff'] * cc['grid']['n'] if grid else 0.0
    t = f * L / de + k
    a, c = math.sqrt(t[1] / t[0]), math.sqrt(t[1] / t[2])
    x2 = 1.0 / (s[1] + s[0] * a + s[2] * c)
    return np.array([a * x2, x2, c * x2]), t * x ** 2


FS_REQ = []


def bits(x):
    import struct
    return struct.unpack("<Q", struct.pack("<d", float(x)))[0]


def unbits(n):
    import struct
    return struct.unpack("<d", struct.pack("<Q", int(n)))[0]


def gradient_oracle(ctx, rng, n_geom):
    """Cheng-Todreas family (friction and flow split of the same family): the split the code returns must be a fixed point - to the
    solver's own tolerance - of the equal-pressure-loss update with THAT family's friction law (Props/C12.lean: c12_gradient_iter
    proves that a fixed point equalises friction + grid loss of the three subchannel types); without grids, in laminar and
    turbulent flow the losses are equal to round-off and equal to the bundle friction gradient."""
    from dassh.correlations import flowsplit_ctd as F
    worst = dict(fixed_point=0.0, const=0.0, bundle=0.0)
    for gi_ in range(n_geom):
        n_ring = rng.choice([2, 3, 5, 8, 12])
        dims = du.bundle_dims(rng, n_ring, 1)
        if rng.random() < 0.3:
            dims['wire_pitch'] = rng.choice([0.05, 0.6])
        for fam in ('CTD', 'UCTD'):
            lam = 7.0 if fam == 'UCTD' else None
            for grid in (None, dict(corr='CDD', corr_coeff=None, loss_coeff=None, axial_positions=[0.3, 0.6], solidity=0.3)):
                cool = du.const_material('c', k=70.0, cp=1270.0, rho=850.0, mu=2.5e-4)
                corr = dict(corr_friction=fam, corr_flowsplit=fam, corr_mixing=fam)
                try:
                    rr0 = du.make_rr(dims, flow_rate=1.0, coolant=cool, corr=corr, spacer_grid=grid)
                    rr0.z = [0.0, 1.0]
                    rr0._init_static_correlated_params(650.0)
                except Exception:
                    ctx.count("gradient_reference_bundle_not_evaluable")      # evaluability is the business of oracle()
                    continue
                bl, bt = rr0.corr_constants['ff']['Re_bnds']
                # the laminar boundaries of the two Cheng-Todreas families (written down here independently): a Reynolds number between
                # them is laminar for one family and in transition for the other
                pd_ = dims['pin_pitch'] / dims['pin_diameter']
                bl_ctd, bl_uctd = 300.0 * 10 ** (1.7 * (pd_ - 1.0)), 320.0 * 10 ** (pd_ - 1.0)
                for Re in (10.0, 300.0, bl, 1.000001 * bl, 1.005 * bl, 1.02 * bl, rng.uniform(bl, 2 * bl), 0.5 * (bl_ctd + bl_uctd),
                           1.03 * max(bl_ctd, bl_uctd),
                           0.97 * min(bl_ctd, bl_uctd), 5.0e3, rng.uniform(0.6 * bt, bt), bt * (1 - 1e-9), bt, 1.0e5, 1.0e6):
                    mfr = Re * 2.5e-4 * rr0.bundle_params['area'] / rr0.bundle_params['de']
                    rr = du.make_rr(dims, flow_rate=mfr, coolant=cool, corr=corr, spacer_grid=grid)
                    rr.z = [0.0, 1.0]
                    ctx.evals += 1
                    calls = []
                    orig = F._iterate

                    def spy(*a, **k):
                        try:
                            return orig(*a, **k)
                        except StopIteration:
                            calls.append("StopIteration")
                            raise
                    F._iterate = spy
                    try:
                        rr._init_static_correlated_params(650.0)
                        rr._update_coolant_int_params(650.0, use_mat_tracker=False)
                    except Exception:
                        continue          # evaluability is the business of oracle() above
                    finally:
                        F._iterate = orig
                    x = np.array(rr.coolant_int_params['fs'], dtype=float)
                    if not (np.all(np.isfinite(x)) and np.all(x > 0)):
                        continue
                    # mass conservation of whatever branch produced the split (converged iteration or the closed-form fall-back
                    # just above the laminar boundary)
                    nsc_ = np.array([rr.subchannel.n_sc['coolant'][k_] for k_ in ('interior', 'edge', 'corner')])
                    mass_ = float(np.sum(nsc_ * rr.params['area'] * x) / rr.bundle_params['area'])
                    if abs(mass_ - 1.0) > 1e-6:
                        ctx.violation("c12-mass:%s%s" % (fam, ":fallback" if calls else ""), "%s flow split at Re = %.6g (%.4f x the laminar "
                                      "boundary%s): flow-area-weighted mean of the split factors is %.8f, not one"
                                      % (fam, Re, Re / bl, ", closed-form fall-back after the iteration limit" if calls else "", mass_),
                                      family=fam, n_ring=n_ring, Re=Re, dims=dims, grid=bool(grid), fs=x.tolist())
                    regime = 'laminar' if rr.coolant_int_params['Re'] <= bl else ('turbulent' if rr.coolant_int_params['Re'] >= bt else 'transition')
                    if 1.0 < rr.coolant_int_params['Re'] / bl < 1.001:
                        # a hair above the laminar boundary (the point added for the mass clause of the fall-back branch): the
                        # intermittency is clipped there, the independent equal-loss iteration of this oracle does not settle
                        # either (its own iterates keep the losses 2-4 % apart), so it cannot judge the gradient clause
                        ctx.count("gradient_skipped_at_the_laminar_kink")
                        continue
                    g, loss = update_map(rr, x, lam, bool(grid), 1.0, regime if grid is None else None)
                    info = dict(family=fam, n_ring=n_ring, Re=Re, dims=dims, grid=bool(grid), fs=x.tolist(), regime=regime,
                                subchannel_losses=loss.tolist(), fixed_point_residual=np.abs(g - x).tolist())
                    ctx.count("gradient:%s:%s:%s" % (fam, regime, "grid" if grid else "bare"))
                    if grid is None and regime != 'transition':
                        spread = float((loss.max() - loss.min()) / loss.mean())
                        worst['const'] = max(worst['const'], spread)
                        if spread > 1e-9:
                            ctx.violation("c12-gradient-const:" + fam, "%s %s split: subchannel friction gradients differ by %.3g (relative)"
                                          % (fam, regime, spread), **info)
                        fb = float(rr.coolant_int_params['ff']) / float(rr.bundle_params['de'])
                        rel = abs(fb - float(loss.mean())) / float(loss.mean())
                        worst['bundle'] = max(worst['bundle'], rel)
                        if rel > 1e-9:
                            ctx.violation("c12-gradient-bundle:" + fam, "%s %s flow: common subchannel gradient differs from the bundle friction "
                                          "factor's by %.3g (relative)" % (fam, regime, rel), **info)
                    else:
                        res = float(abs(g[1] - x[1]))      # the component the solver's stopping test looks at (|dx2| < 1e-5)
                        if not calls:
                            # the same point for the Lean model (Model/FlowSplit.lean: updateFloat) through the driver
                            cc = rr.corr_constants
                            de_ = np.asarray(rr.params['de'], dtype=float)
                            deb_ = float(rr.bundle_params['de'])
                            s_ = np.asarray(cc['fs']['na'], dtype=float) / rr.bundle_params['area']
                            reL_ = cc['ff']['Re_bnds'][0] * de_ / deb_ * np.asarray(cc['fs']['fs']['laminar'])
                            reT_ = cc['ff']['Re_bnds'][1] * de_ / deb_ * np.asarray(cc['fs']['fs']['turbulent'])
                            kg_ = float(rr.coolant_int_params['grid_loss_coeff'] * cc['grid']['n']) if grid else 0.0
                            hd = [rr.coolant_int_params['Re'], deb_, (lam or 0.0), kg_, 1.0]
                            tys = [[x[i], de_[i], reL_[i], reT_[i], np.asarray(cc['ff']['Cf_sc']['laminar'])[i],
                                    np.asarray(cc['ff']['Cf_sc']['turbulent'])[i], s_[i]] for i in range(3)]
                            FS_REQ.append(("fsiter %s | %s" % (" ".join(str(bits(v)) for v in hd),
                                                               " | ".join(" ".join(str(bits(v)) for v in t) for t in tys)),
                                           x.tolist(), g.tolist(), "%s %s %s Re=%.4g" % (fam, regime, "grid" if grid else "bare", Re)))
                        if calls:
                            # the code's iteration gave up and the approximate formula was used
                            spread = float((loss.max() - loss.min()) / loss.mean())
                            if res > 1e-4:
                                ctx.violation("c12-gradient-not-equalised@flowsplit_ctd.py:_calc_transition_flowsplit_APPROX",
                                              "%s transition iteration did not converge; the approximate fall-back split leaves the "
                                              "subchannel pressure losses %.3g apart (relative)" % (fam, spread), **info)
                            continue
                        worst['fixed_point'] = max(worst['fixed_point'], res)
                        if res > 1e-4:
                            spread = float((loss.max() - loss.min()) / loss.mean())
                            ctx.violation("c12-gradient:%s:%s" % (fam, "grid" if grid else "bare"),
                                          "%s flow split (%s, %s grids) is not a solution of the equal-pressure-loss system with the %s "
                                          "friction law: fixed-point residual %.3g (solver tolerance 1e-5), losses %.3g apart"
                                          % (fam, regime, "with" if grid else "without", fam, res, spread), **info)
    ctx.stats["gradient_worst"] = worst


def run(ctx):
    rng = random.Random(12000 + ctx.seed)
    ctx.rule = ("oracle: all 6x5x4 friction/flow-split/mixing combinations (a random 30 per geometry in the quick tier, all on "
                "the first geometry) x 7 Reynolds numbers (10 .. 1e6, regime boundaries) x ring counts 2-12, with/without grids")
    try:
        txt, same = gen_text()
        ctx.gen("C12", txt)
        ctx.obligation("laminar and turbulent constant splits are one formula in the ratio constants", same, kind="trace-shape")
        ok = True
    except BaseException:
        import traceback
        ctx.problem("trace-failed", "c12 tracer", traceback.format_exc()[-1500:])
        ok = False
    if ok:
        ctx.prove("Dassh.Props.C12")
    oracle(ctx, rng, 6 if ctx.thorough else 2)
    bare_rod_separation(ctx, rng, 12 if ctx.thorough else 3)
    del FS_REQ[:]
    gradient_oracle(ctx, rng, 12 if ctx.thorough else 3)
    from harness import modelio
    if FS_REQ and modelio.build_driver(ctx):
        bad, worst, wpy = 0, 0.0, 0.0
        for rep, (req, x, gpy, tag) in zip(modelio.ask([r[0] for r in FS_REQ]), FS_REQ):
            parts = rep.split()
            if parts[0] != "ok":
                bad += 1
                continue
            gm = [unbits(v) for v in parts[1:4]]
            wpy = max(wpy, max(abs(a - b) for a, b in zip(gm, gpy)))
            res = abs(gm[1] - x[1])
            worst = max(worst, res)
            if not res <= 1e-4:
                bad += 1
                if bad == 1:
                    ctx.problem("correspondence", "Model.FlowSplit.updateFloat vs flowsplit_ctd._iterate",
                                "%s: returned split %s, one model update gives %s" % (tag, x, gm))
        ctx.obligation("correspondence: the split the real code returns is a fixed point of Model.FlowSplit.updateFloat (friction law "
                       "of its family, grids included) on %d points; worst residual %.2g (solver tolerance 1e-5)" % (len(FS_REQ), worst),
                       bad == 0, kind="correspondence", detail="disagreements %d" % bad)
        ctx.stats["lean_vs_python_update_max_dev"] = wpy
    ctx.nontrivial = ctx.evals
    ctx.traces = ctx.evals
    ctx.trusted += ["T1 trace of the constant CTD/UCTD flow split; the iteration update is a hand model (Props/C12.lean) of the "
                    "last lines of flowsplit_ctd._iterate, validated by the oracle's mass check in the transition regime"]
    ctx.assumptions += ["sqrt and real powers are opaque functions with their defining algebraic laws (instantiated with "
                        "Real.sqrt / Real.rpow in the last section of Props/C12.lean)",
                        "NOV / MIT / SE2 splits are covered by the oracle only"]
