"""C04 - the selected axial step keeps the explicit march positive.

T1b: the real interior / bypass coolant updates and the real step-limit
functions are executed symbolically on real regions (n_ring 2,3,4; 1-2 ducts;
low-flow approximation on/off).  For one representative cell of every
neighbour-type class the harness extracts, from the traced update, the weight of
every coupled temperature and the heating term, and emits them - together with
the traced `_cons*` limit of that class - as Lean definitions (Gen/C04.lean).
Props/C04.lean proves, for every class: the update is the affine combination
with those weights, the weights sum to one, the off-diagonal weights are
non-negative, and `dz <= limit` makes the self-weight non-negative.
Inter-assembly gap (flow model): the real Core._flow_model and core.calculate_min_dz are
executed symbolically on real 2- and 3-assembly cores; Gen/C04Gap.lean holds, per gap cell,
the generated theorem with its proof (affine form, non-negative weights, `dz <= the cell's
traced limit` gives a non-negative self weight).  Low-fidelity regions: the same for the real
`_calc_coolant_temp` of the simple and six-node models and region_unrodded.calculate_min_dz
(Gen/C04Ur.lean, low-flow approximation on/off, adiabatic six-node).  The no-flow / duct-average
gap models are decided by the probing oracle.
"""
import copy
import random
from fractions import Fraction

import numpy as np

from harness import bundle_trace as bt
from harness import dasshutil as du
from harness.trace import (GEN_HEADER, Sym, Trace, TraceError, eval_exact, rebind, rename, substitute, to_lean, used_vars)

INT_CODES = ["1-111", "1-112", "2-122", "2-123", "2-133", "3-22"]
BYP_CODES = ["6-66", "6-67", "6-77", "7-66"]

ENV_FIELDS = ["L00", "L01", "P", "L12", "L22", "dpp", "dpw", "wc_0_0", "wc_0_1", "wc_1_0", "wc_1_1", "dwall_0", "dwall_1",
              "dbyp_0", "Lb56_0", "Lb66_0", "A_0", "A_1", "A_2", "Ab", "Abyp_0_0", "Abyp_0_1", "Abtot_0", "mdot", "mbyp_0",
              "fs_0", "fs_1", "fs_2", "h_1", "h_2", "hb_0_0", "hb_0_1", "eddy", "sw_1", "sw_2", "rho", "cp", "k", "sf",
              "kw", "sixth", "dz"]
CELL_FIELDS = ["Ts", "Tn0", "Tn1", "Tn2", "Tn3", "Tn4", "Tw", "Tw2", "qa", "qb", "qc", "qcool"]


def _role_map_int(rr, i, conv_approx):
    """variable name -> role for coolant cell i of real region rr.  Neighbours
    are named Tn0.. in order of (type, adjacency column); returns also the role
    index of the swirl donor (or None)."""
    sc = rr.subchannel
    ni = sc.n_sc['coolant']['interior']
    nc = sc.n_sc['coolant']['total']
    mp = {"T_%d" % i: "Ts"}
    nb = sorted((int(sc.type[j]), col, int(j)) for col, j in enumerate(sc.sc_adj[i][:5]) if j >= 0)
    donor = None
    for k, (ty, col, j) in enumerate(nb):
        mp["T_%d" % j] = "Tn%d" % k
        if i >= ni and col == rr._adj_sw:
            donor = k
    if i >= ni:
        mp[("Tmw_0_%d" if conv_approx else "Ts_0_0_%d") % (i - ni)] = "Tw"
    for pos, p in enumerate(sc.rev_pin_adj[i]):
        if p >= 0:
            mp["qp_%d" % p] = "q" + "abc"[pos]
    mp["qc_%d" % i] = "qcool"
    return mp, donor


def _role_map_byp(rr, b, j, conv_approx):
    sc = rr.subchannel
    start = (sc.n_sc['coolant']['total'] + sc.n_sc['duct']['total']
             + b * sc.n_sc['bypass']['total'] + b * sc.n_sc['duct']['total'])
    mp = {"Tb_%d_%d" % (b, j): "Ts"}
    nb = sorted((int(sc.type[a]), col, int(a)) for col, a in enumerate(sc.sc_adj[start + j])
                if a >= 0 and not (3 <= sc.type[a] <= 4))
    for k, (ty, col, a) in enumerate(nb):
        mp["Tb_%d_%d" % (b, a - start)] = "Tn%d" % k
    if conv_approx:
        mp["Tmw_%d_%d" % (b, j)] = "Tw"
        mp["Tmw_%d_%d" % (b + 1, j)] = "Tw2"
    else:
        mp["Ts_%d_1_%d" % (b, j)] = "Tw"
        mp["Ts_%d_0_%d" % (b + 1, j)] = "Tw2"
    return mp


def _mapper(rolemap):
    def f(name):
        if name in rolemap:
            return "c." + rolemap[name]
        if name in ENV_FIELDS:
            return "e." + name
        return None
    return f


def _decompose(tnew, tr2):
    """weights of the affine map c |-> tnew(c)"""
    tvars = ["c.Ts", "c.Tn0", "c.Tn1", "c.Tn2", "c.Tn3", "c.Tn4", "c.Tw", "c.Tw2"]
    qvars = ["c.qa", "c.qb", "c.qc", "c.qcool"]
    zero_t = {v: 0 for v in tvars}
    out = {}
    for v in tvars:
        m = dict(zero_t)
        m[v] = 1
        m.update({q: 0 for q in qvars})
        out["W" + v[2:]] = substitute(tnew, m, tr2)
    out["B"] = substitute(tnew, zero_t, tr2)
    return out


def _points(rng, n=2):
    pts = []
    for _ in range(n):
        pt = {"e." + f: Fraction(rng.randint(1, 50), rng.randint(1, 9)) for f in ENV_FIELDS}
        pt.update({"c." + f: Fraction(rng.randint(1, 50), rng.randint(1, 9)) for f in CELL_FIELDS})
        pts.append(pt)
    return pts


class _Classes:
    """representative per class key; other members must agree with it exactly
    (as rational functions, tested at random rational points)."""

    def __init__(self, ctx, pts):
        self.ctx, self.pts = ctx, pts
        self.rep = {}     # key -> (values at pts, description, count)

    def add(self, key, tnew, desc):
        vals = [eval_exact(tnew, pt) for pt in self.pts]
        if key in self.rep:
            r = self.rep[key]
            if r[0] != vals:
                self.ctx.problem("trace-shape", key, "cells of one class have different update operators: %s vs %s"
                                 % (desc, r[1]))
            r[2] += 1
            return False
        self.rep[key] = [vals, desc, 1]
        return True


def collect(ctx, rng):
    """Returns dict name -> Sym (in 'e.' / 'c.' variables) for all classes and variants."""
    defs = {}
    cl = _Classes(ctx, _points(random.Random(77)))
    covered = {}
    configs = [(2, 1), (3, 1), (4, 2)]
    if ctx.thorough:
        configs += [(5, 2), (6, 1)]
    for conv_approx in (False, True):
        var = "ca" if conv_approx else "std"
        for n_ring, n_duct in configs:
            for wwdir in ("clockwise", "counterclockwise"):
                o, rr, tr = bt.sym_region(rng, n_ring, n_duct, wwdir=wwdir, conv_approx=conv_approx)
                dT, ep, ed, mfr, qp, qc, dz = bt.trace_int_step(o, tr)
                rec, ri, rb = bt.trace_limits(o, tr, None)
                nc = rr.subchannel.n_sc['coolant']['total']
                for i in range(nc):
                    code = bt.class_code(rr, i)
                    tr2 = Trace()
                    try:
                        rolemap, donor = _role_map_int(rr, i, conv_approx)
                        tnew = rename(o.temp['coolant_int'][i] + dT[i], _mapper(rolemap), tr2)
                    except TraceError as ex:
                        ctx.problem("trace-shape", "c04 interior cell", "n_ring=%d cell=%d class=%s: %s" % (n_ring, i, code, ex))
                        continue
                    key = "int_%s_%s%s" % (code.replace("-", "_"), var, "" if donor is None else "_d%d" % donor)
                    covered.setdefault((n_ring, code), 0)
                    if not cl.add(key, tnew, "n_ring=%d cell=%d %s" % (n_ring, i, wwdir)):
                        continue
                    defs["Tnew_" + key] = tnew
                    for nm, ex in _decompose(tnew, tr2).items():
                        defs[nm + "_" + key] = ex
                    if code not in rec:
                        ctx.problem("class-not-limited", key, "the step-limit function evaluates no limit for class %s at "
                                    "n_ring=%d (evaluated: %s)" % (code, n_ring, sorted(rec)))
                    else:
                        defs["cons_" + key] = rename(rec[code][0], _mapper({}), tr2)
                ctx.count("int_cells_traced", nc)
                if n_duct > 1 and wwdir == "clockwise":
                    dTb, dzb = bt.trace_byp_step(o, tr)
                    nd = rr.subchannel.n_sc['duct']['total']
                    for j in range(nd):
                        code = bt.byp_class_code(rr, 0, j)
                        tr2 = Trace()
                        try:
                            tnew = rename(o.temp['coolant_byp'][0][j] + dTb[0][j],
                                          _mapper(_role_map_byp(rr, 0, j, conv_approx)), tr2)
                        except TraceError as ex:
                            ctx.problem("trace-shape", "c04 bypass cell", "cell=%d class=%s: %s" % (j, code, ex))
                            continue
                        key = "byp_%s_%s" % (code.replace("-", "_"), var)
                        if not cl.add(key, tnew, "n_ring=%d bypass cell=%d" % (n_ring, j)):
                            continue
                        defs["Tnew_" + key] = tnew
                        for nm, ex in _decompose(tnew, tr2).items():
                            defs[nm + "_" + key] = ex
                        if code not in rec:
                            ctx.problem("class-not-limited", key, "no bypass limit evaluated for class %s" % code)
                        else:
                            defs["cons_" + key] = rename(rec[code][0], _mapper({}), tr2)
                    ctx.count("byp_cells_traced", nd)
    ctx.stats["classes"] = {k: v[2] for k, v in cl.rep.items()}
    return defs


def render(defs):
    out = [GEN_HEADER.replace("import Mathlib.Algebra.Field.Defs", "import Mathlib.Algebra.Field.Defs\nimport Dassh.Lemmas.Attr"),
           "/-! traced from dassh.region_rodded: _setup_ht_constants, calculate_ht_constants, "
           "_setup_conduction_constants, _setup_convection_constants, _calc_coolant_int_temp, _calc_int_sc_power, "
           "_calc_coolant_byp_temp, _calculate_int_dz, _calculate_byp_dz, _cons* -/\n",
           "namespace Dassh.Gen.C04\n",
           "/-- geometry, flow and property symbols of one bundle (see harness/bundle_trace.py) -/",
           "structure Env (α : Type) where"]
    out += ["  %s : α" % f for f in ENV_FIELDS]
    out += ["", "/-- the previous-level values one cell is coupled to, and its heat sources -/",
            "structure Cell (α : Type) where"]
    out += ["  %s : α" % f for f in CELL_FIELDS]
    out.append("")
    for name in sorted(defs):
        ex = defs[name]
        if not isinstance(ex, Sym):
            ex = Trace().const(ex)
        uses_c = any(v.startswith("c.") for v in used_vars([ex]))
        args = "(e : Env α)" + (" (c : Cell α)" if (uses_c or name.startswith("Tnew") or name.startswith("B_")) else "")
        out.append("@[gen_defs] def %s {α : Type} [Field α] %s : α :=\n  %s\n" % (name, args, to_lean(ex)))
    out.append("end Dassh.Gen.C04\n")
    return "\n".join(out)


def collect_gap(ctx):
    """Inter-assembly gap (flow model): the real Core._flow_model and the real core.calculate_min_dz are executed symbolically on
    the gap mesh of real 2- and 3-assembly cores (shared set-up with C02).  For every gap cell the weights of the explicit
    update and the cell's own step limit are emitted with a theorem: the update is the affine combination with those weights,
    the neighbour / duct weights are non-negative and `dz <= limit` makes the self weight non-negative."""
    import re
    from dassh.core import Core
    import dassh.core as coremod
    from harness.checks import c02
    from harness.trace import NpProxy
    rng = random.Random(2000)
    L = ["-- GENERATED by /verif/harness (C04, inter-assembly gap): traced from dassh.core.Core._flow_model / calculate_min_dz.",
         "import Mathlib.Algebra.Order.Field.Basic", "import Mathlib.Tactic.FieldSimp", "import Mathlib.Tactic.Ring",
         "import Mathlib.Tactic.Linarith", "import Mathlib.Tactic.Positivity", "",
         "namespace Dassh.Gen.C04Gap", "", "variable {K : Type} [Field K] [LinearOrder K] [IsStrictOrderedRing K]", ""]
    names = []
    for tag, positions in (("two", [(1, 1), (2, 1)]), ("three", [(1, 1), (2, 1), (2, 2)])):
        o, core, tr, m, g, td, dz, sym_ok = c02.sym_core(rng, positions, "c04" + tag)
        n = int(core.n_sc)
        dT = rebind(Core._flow_model, tr)(o, dz, td)
        rec = []

        class NP(NpProxy):
            def min(self, a, *k, **kw):
                arr = np.asarray(a, dtype=object).ravel()
                rec.append(arr)
                vals = [x.val if isinstance(x, Sym) else float(x) for x in arr]
                return arr[int(np.argmin(vals))]
        o._update_coolant_gap_params = lambda T: None
        rebind(coremod.calculate_min_dz, tr, {'np': NP(tr)})(o, 600.0, 700.0)
        if not rec or len(rec[0]) != n:
            ctx.problem("trace-shape", "c04 gap limit", "calculate_min_dz no longer takes the minimum over one value per gap cell")
            continue
        lim = rec[0]
        for i in range(n):
            tnew = o.coolant_gap_temp[i] + dT[i]
            vs = sorted(used_vars([tnew, lim[i]]))
            tvars = [v for v in vs if re.match(r"T_\d+$|Td_\d+_\d+$", v)]
            own = "T_%d" % i
            others = [v for v in tvars if v != own]
            params = [v for v in vs if v not in tvars]
            tr2 = Trace()
            ident = lambda v: v
            t2 = rename(tnew, ident, tr2)
            ws = []
            for v in others:
                mp = {u: 0 for u in tvars}
                mp[v] = 1
                ws.append(to_lean(substitute(t2, mp, tr2)))
            limtxt = to_lean(rename(lim[i], ident, tr2))
            if not limtxt.startswith("((1 : α) / ") or not limtxt.endswith(")"):
                ctx.problem("trace-shape", "c04 gap limit", "limit of gap cell %d is not 1/(...): %s" % (i, limtxt[:120]))
                continue
            den = limtxt[len("((1 : α) / "):-1]
            fix = lambda t: t.replace("(1 : α)", "(1 : K)").replace("(0 : α)", "(0 : K)")
            ws, den, ttxt = [fix(w) for w in ws], fix(den), fix(to_lean(t2))
            wsum = " + ".join(ws) if ws else "(0 : K)"
            nm = "gap_%s_%d" % (tag, i)
            hyps = " ".join("(h_%s : 0 < %s)" % (v, v) for v in params)
            L.append("/-- gap cell %d of the traced %s-assembly core: %d coupled temperatures -/" % (i, tag, len(others)))
            L.append("theorem %s (%s : K) %s\n    (hlim : dz ≤ 1 / %s) :\n    %s = (1 - (%s)) * %s + (%s)\n    ∧ %s\n    ∧ 0 ≤ 1 - (%s) := by"
                     % (nm, " ".join(tvars + params), hyps, den, ttxt, wsum, own,
                        " + ".join("%s * %s" % (w, v) for w, v in zip(ws, others)) if ws else "(0 : K)",
                        " ∧ ".join("0 ≤ %s" % w for w in ws) if ws else "True", wsum))
            L.append("  have hS : 0 < %s := by positivity" % den)
            L.append("  have hsum : %s = dz * (%s) := by ring" % (wsum, den))
            L.append("  have hle : dz * (%s) ≤ 1 := (le_div_iff₀ hS).mp hlim" % den)
            L.append("  refine ⟨by field_simp; ring, %s, by rw [hsum]; linarith⟩\n"
                     % (", ".join("by positivity" for _ in ws) if ws else "trivial"))
            names.append("Dassh.Gen.C04Gap." + nm)
        ctx.count("gap_cells_traced", n)
    L.append("end Dassh.Gen.C04Gap\n")
    ctx.gen("C04Gap", "\n".join(L))
    return names


def collect_gap_avg(ctx):
    """Inter-assembly gap, no-flow and duct-average models: the real Core._noflow_model / Core._duct_average_model are executed
    symbolically on the gap mesh of real 2- and 3-assembly cores built with that model (the convection look-up is rebuilt by the
    real Core._make_conv_mask on symbolic perimeters, so the `2 / d_gap` factor of the no-flow model is in the trace).  For every
    gap cell a theorem: the new temperature is the combination of the adjacent duct-wall and neighbouring gap temperatures with
    the traced weights, every weight is non-negative and the weights sum to one (a convex combination - the last clause of C04)."""
    import re
    from dassh.core import Core
    from harness.checks import c02
    from harness.trace import NpProxy
    rng = random.Random(2100)
    L = ["-- GENERATED by /verif/harness (C04, inter-assembly gap, no-flow and duct-average models): traced from",
         "-- dassh.core.Core._noflow_model / _duct_average_model (+ _make_conv_mask).",
         "import Mathlib.Algebra.Order.Field.Basic", "import Mathlib.Tactic.FieldSimp", "import Mathlib.Tactic.Ring",
         "import Mathlib.Tactic.Linarith", "import Mathlib.Tactic.Positivity", "import Mathlib.Tactic.NormNum",
         "import Dassh.Lemmas.Convex", "",
         "namespace Dassh.Gen.C04GapAvg", "", "variable {K : Type} [Field K] [LinearOrder K] [IsStrictOrderedRing K]", ""]
    names = []
    fix = lambda t: re.sub(r"\((\d+) : α\)", r"(\1 : K)", t)
    for model, meth in (("no_flow", Core._noflow_model), ("duct_average", Core._duct_average_model)):
        for tag, positions in (("two", [(1, 1), (2, 1)]), ("three", [(1, 1), (2, 1), (2, 2)])):
            o, core, tr, m, g, td, dz, sym_ok = c02.sym_core(rng, positions, "c04" + model + tag, model=model)
            n = int(core.n_sc)
            conds = []

            class NP(NpProxy):
                def count_nonzero(self, a, axis=None, **kw):
                    arr = np.asarray(a, dtype=object)
                    out = np.zeros(arr.shape, dtype=int)
                    for idx in np.ndindex(arr.shape):
                        x = arr[idx]
                        v = x.val if isinstance(x, Sym) else float(x)
                        if isinstance(x, Sym) and x.op != "const":
                            conds.append(to_lean(x, short=True))
                        out[idx] = 1 if v != 0 else 0
                    return out.sum(axis=axis)
            try:
                tnew_all = rebind(meth, tr, {'np': NP(tr)})(o, td)
            except Exception:
                import traceback
                ctx.problem("trace-failed", "c04 gap %s %s" % (model, tag), traceback.format_exc()[-800:])
                continue
            short = "nf" if model == "no_flow" else "da"
            for i in range(n):
                tnew = tnew_all[i]
                vs = sorted(used_vars([tnew]))
                tvars = [v for v in vs if re.match(r"T_\d+$|Td_\d+_\d+$", v)]
                params = [v for v in vs if v not in tvars]
                own = "T_%d" % i
                if own in tvars:
                    ctx.problem("trace-shape", "c04 gap %s" % model, "cell %d of the %s core depends on its own previous temperature" % (i, tag))
                    continue
                if not any(v.startswith("Td_") for v in tvars):
                    ctx.problem("trace-shape", "c04 gap %s" % model, "cell %d of the %s core sees no duct wall" % (i, tag))
                    continue
                tr2 = Trace()
                ident = lambda v: v
                t2 = rename(tnew, ident, tr2)
                ws = []
                for v in tvars:
                    mp = {u: 0 for u in tvars}
                    mp[v] = 1
                    ws.append(fix(to_lean(substitute(t2, mp, tr2))))
                ttxt = fix(to_lean(t2))
                nm = "gap%s_%s_%d" % (short, tag, i)
                hyps = " ".join("(h_%s : 0 < %s)" % (v, v) for v in params)
                L.append("/-- %s model, gap cell %d of the traced %s-assembly core: %d duct-wall and %d neighbouring gap temperatures -/"
                         % (model, i, tag, sum(v.startswith("Td_") for v in tvars), sum(v.startswith("T_") for v in tvars)))
                L.append("theorem %s (%s : K) %s :\n    %s = %s\n    ∧ (%s)\n    ∧ %s = 1 := by"
                         % (nm, " ".join(tvars + params), hyps, ttxt,
                            " + ".join("%s * %s" % (w, v) for w, v in zip(ws, tvars)),
                            " ∧ ".join("0 ≤ %s" % w for w in ws), " + ".join(ws)))
                pos = ", ".join("by positivity" for _ in ws)
                L.append("  refine ⟨by first | (field_simp; ring) | field_simp | ring, %s, by first | (field_simp; ring) | field_simp | norm_num⟩\n"
                         % (("⟨%s⟩" % pos) if len(ws) > 1 else pos))
                names.append("Dassh.Gen.C04GapAvg." + nm)
                # corollary: no new extremum (bounds of the coupled temperatures are kept; a uniform field is reproduced)
                k = len(ws)
                if 1 <= k <= 6:
                    args = " ".join(tvars + params) + " " + " ".join("h_%s" % v for v in params)
                    L.append("theorem %s_bounds (%s lo hi : K) %s\n    %s :\n    lo ≤ %s ∧ %s ≤ hi := by"
                             % (nm, " ".join(tvars + params), hyps, " ".join("(b_%s : lo ≤ %s ∧ %s ≤ hi)" % (v, v, v) for v in tvars), ttxt, ttxt))
                    L.append("  obtain ⟨he, %s, hs⟩ := %s %s" % (("⟨%s⟩" % ", ".join("p%d" % j for j in range(k))) if k > 1 else "p0", nm, args))
                    L.append("  rw [he]")
                    L.append("  exact Dassh.Convex.bounds%d %s lo hi %s hs %s\n"
                             % (k, " ".join("_" for _ in range(2 * k)), " ".join("p%d" % j for j in range(k)), " ".join("b_%s" % v for v in tvars)))
                    names.append("Dassh.Gen.C04GapAvg." + nm + "_bounds")
            ctx.count("gap_cells_traced:" + model, n)
    L.append("end Dassh.Gen.C04GapAvg\n")
    ctx.gen("C04GapAvg", "\n".join(L))
    return names


def sym_unrodded(model, cls, conv_approx, ftf=(0.11, 0.116)):
    """symbolic shadow of a real low-fidelity region (shared by C04 and C01): returns (o, tr, reg, n_nodes, dz, q)"""
    import copy
    from harness.trace import symarray
    ftf = list(ftf)
    reg = cls('ur', 0.0, 1.0, ftf, 0.3, 5.0, du.const_material('cool'), du.const_material('duct', k=25.0), None,
              convection_factor=0.7)
    tr = Trace()
    o = copy.copy(reg)
    nn = reg.temp['coolant_int'].shape[0]
    o.temp = {k: v.copy() for k, v in reg.temp.items()}
    o.temp['coolant_int'] = symarray(tr, 'T', np.full(nn, 650.0))
    o.temp['duct_mw'] = symarray(tr, 'Tmw', np.full((1, 6), 640.0))
    o.temp['duct_surf'] = symarray(tr, 'Ts', np.full((1, 2, 6), 645.0))

    class M:
        pass
    dm, cm = M(), M()
    dm.thermal_conductivity = tr.var('kw', 25.0)
    dm.update = lambda T: None
    cm.thermal_conductivity = tr.var('k', 60.0)
    cm.heat_capacity = tr.var('cp', 1270.0)
    cm.temperature = 650.0
    o.duct, o.coolant = dm, cm
    o._update_coolant_params = lambda *a, **k: None
    o.coolant_params = dict(reg.coolant_params)
    o.coolant_params['htc'] = tr.var('h', 2.0e4)
    o.duct_thickness = tr.var('th', reg.duct_thickness)
    o.duct_perim = tr.var('perim', reg.duct_perim)
    o.duct_perim_over_6 = o.duct_perim / 6
    o.flow_rate = tr.var('mdot', 5.0)
    o._mratio = tr.var('mratio', 0.7)
    if model == "6node":
        o._scfr = tr.var('msc', reg._scfr)
        o._cond = dict(reg._cond)
        o._cond['const'] = tr.var('cc', float(np.ravel(reg._cond['const'])[0]))
    o._conv_approx = conv_approx
    o.ebal = None
    dz = tr.var('dz', 1e-3)
    q = tr.var('q', 1.0e4)

    return o, tr, reg, nn, dz, q


def collect_unrodded(ctx):
    """Low-fidelity (unrodded) regions: the real SingleNodeHomogeneous / MultiNodeHomogeneous `_calc_coolant_temp` and the real
    region_unrodded.calculate_min_dz are executed symbolically (simple and six-node model, low-flow approximation on/off,
    coupled wall; adiabatic six-node).  One generated theorem per (variant, node)."""
    import copy
    import re
    import dassh.region_unrodded as UR
    from harness.trace import symarray
    L = ["-- GENERATED by /verif/harness (C04, low-fidelity regions): traced from dassh.region_unrodded._calc_coolant_temp / calculate_min_dz.",
         "import Mathlib.Algebra.Order.Field.Basic", "import Mathlib.Tactic.FieldSimp", "import Mathlib.Tactic.Ring",
         "import Mathlib.Tactic.Linarith", "import Mathlib.Tactic.Positivity", "",
         "namespace Dassh.Gen.C04Ur", "", "variable {K : Type} [Field K] [LinearOrder K] [IsStrictOrderedRing K]", ""]
    names = []
    ftf = [0.11, 0.116]
    for model, cls in (("simple", UR.SingleNodeHomogeneous), ("6node", UR.MultiNodeHomogeneous)):
        for conv_approx in (False, True):
            for adiabatic in ((False,) if model == "simple" else (False, True)):
                tag = "%s_%s%s" % ("simple" if model == "simple" else "six", "ca" if conv_approx else "std", "_adiab" if adiabatic else "")
                o, tr, reg, nn, dz, q = sym_unrodded(model, cls, conv_approx)
                try:
                    dT = rebind(cls._calc_coolant_temp, tr)(o, dz, {'refl': q}, adiabatic, False)
                    lim, code = rebind(UR.calculate_min_dz, tr, {'min': lambda xs: xs[0]})(o, 600.0, 700.0, adiabatic)
                except Exception as ex:
                    import traceback
                    ctx.problem("trace-failed", "c04 unrodded " + tag, traceback.format_exc()[-800:])
                    continue
                dT = np.atleast_1d(dT)
                for i in range(nn):
                    tnew = o.temp['coolant_int'][i] + dT[i]
                    vs = sorted(used_vars([tnew, lim]))
                    tvars = [v for v in vs if re.match(r"T_\d+$|Tmw_\d+_\d+$|Ts_\d+_\d+_\d+$", v)]
                    own = "T_%d" % i
                    others = [v for v in tvars if v != own]
                    params = [v for v in vs if v not in tvars and v != 'q']
                    tr2 = Trace()
                    ident = lambda v: v
                    t2 = rename(tnew, ident, tr2)
                    fix = lambda t: t.replace("(1 : α)", "(1 : K)").replace("(0 : α)", "(0 : K)").replace("(2 : α)", "(2 : K)").replace("(6 : α)", "(6 : K)")
                    ws = []
                    for v in others:
                        mp = {u: 0 for u in tvars}
                        mp[v] = 1
                        mp['q'] = 0
                        ws.append(fix(to_lean(substitute(t2, mp, tr2))))
                    mp0 = {u: 0 for u in tvars}
                    btxt = fix(to_lean(substitute(t2, mp0, tr2)))
                    limtxt = fix(to_lean(rename(lim, ident, tr2)))
                    wsum = " + ".join(ws) if ws else "(0 : K)"
                    nm = "ur_%s_%d" % (tag, i)
                    hyps = " ".join("(h_%s : 0 < %s)" % (v, v) for v in params)
                    L.append("/-- %s model%s%s, node %d -/" % (model, ", low-flow approximation" if conv_approx else "",
                                                               ", adiabatic wall" if adiabatic else "", i))
                    L.append("theorem %s (%s : K) %s\n    (hlim : dz ≤ %s) :\n    %s = (1 - (%s)) * %s + (%s) + %s\n    ∧ %s\n    ∧ 0 ≤ 1 - (%s) := by"
                             % (nm, " ".join(tvars + params + ['q']), hyps, limtxt, fix(to_lean(t2)), wsum, own,
                                " + ".join("%s * %s" % (w, v) for w, v in zip(ws, others)) if ws else "(0 : K)", btxt,
                                " ∧ ".join("0 ≤ %s" % w for w in ws) if ws else "True", wsum))
                    L.append("  have hl : 0 < %s := by positivity" % limtxt)
                    L.append("  have hsum : (%s) * (%s) = dz := by\n    field_simp\n    try ring" % (wsum, limtxt))
                    L.append("  refine ⟨by field_simp; ring, %s, ?_⟩" % (", ".join("by positivity" for _ in ws) if ws else "trivial"))
                    L.append("  have h1 : (%s) * (%s) ≤ 1 * (%s) := by rw [hsum, one_mul]; exact hlim" % (wsum, limtxt, limtxt))
                    L.append("  have h2 : %s ≤ 1 := le_of_mul_le_mul_right h1 hl" % wsum)
                    L.append("  linarith\n")
                    names.append(nm)
                ctx.count("unrodded_nodes_traced", nn)
    L.append("end Dassh.Gen.C04Ur\n")
    ctx.gen("C04Ur", "\n".join(L))
    return names


def generate(ctx):
    defs = collect(ctx, random.Random(2000))
    ctx.gen("C04", render(defs))
    collect_gap(ctx)
    collect_gap_avg(ctx)
    collect_unrodded(ctx)
    return defs


def dassh_utils_tout(r, inp):
    """the core outlet temperature estimate Reactor._setup_core hands to the gap's limit function"""
    import dassh
    mat = r.materials[inp.data['Core']['coolant_material'].lower()]
    return dassh.utils.Q_equals_mCdT(r.total_power, r.inlet_temp, mat, mfr=r.flow_rate)


def oracle_reactor_step(ctx, rng, n):
    """the step the Reactor selects for a whole core vs the limits of its assemblies recomputed here with the real limit
    functions, assembly by assembly (flow-rate, outlet-temperature and temperature-rise boundary conditions, clones of one type
    at different powers)"""
    import shutil
    import dassh.assembly as DA
    from harness import gen_input as gi
    for ci in range(n):
        pos = [(1, 1)] + [p for p in gi.core_positions(2)[1:] if rng.random() < 0.6]
        case = gi.random_case(rng, positions=pos, n_types=rng.choice([1, 1, 2]), gap_model=rng.choice(['none', 'no_flow', 'flow']),
                              length=0.1, flow_range=(0.05, 4.0) if ci % 3 == 0 else (0.15, 1.5))
        bc = rng.choice(['flowrate', 'outlet_temp', 'delta_temp'])
        if bc != 'flowrate':
            val = round(rng.uniform(80, 160), 2)
            for a in case['assignment']:
                a.pop('flowrate', None)
                a[bc] = val + (case['core']['coolant_inlet_temp'] if bc == 'outlet_temp' else 0.0)
        gi.random_power(rng, case)
        d = str(ctx.work / ("rs%d" % ci))
        try:
            inp, r = gi.build_reactor(case, d)
        except SystemExit:
            ctx.count("reactor_step_rejected")
            continue
        ctx.evals += 1
        try:
            lims = [float(DA.calculate_min_dz(a, r.inlet_temp, a._estimated_T_out, r._is_adiabatic)[0]) for a in r.assemblies]
        except (SystemExit, KeyError, TypeError, IndexError, ValueError, ZeroDivisionError):
            ctx.count("reactor_step_limit_not_evaluable")
            shutil.rmtree(d, ignore_errors=True)
            continue
        # the inter-assembly gap has a limit of its own (flowing-gap model), recomputed with the real limit function
        try:
            import dassh.core as DC
            t_out_core = float(dassh_utils_tout(r, inp))
            gdz = DC.calculate_min_dz(r.core, r.inlet_temp, t_out_core)[0]
            if gdz is not None:
                lims.append(float(gdz))
        except Exception:
            ctx.count("reactor_step_gap_limit_not_evaluable")
        ctx.count("reactor_step_checked:" + bc)
        # a second mesh of the same core with requested planes a fraction of a per cent past a whole number of steps: the march
        # must not stretch a step to meet them
        worst_dz = float(np.max(r.dz))
        if True:
            c2 = copy.deepcopy(case)
            dz0 = float(r.req_dz)
            L_ = case['core']['length']
            planes = [round(z0 + (k_ + f_) * dz0, 12) for z0, k_, f_ in ((0.0, 7, 0.004), (0.3 * L_, 5, 0.0095), (0.6 * L_, 3, 0.0005))]
            c2['setup']['axial_plane'] = [z_ for z_ in planes if 0 < z_ < L_]
            try:
                inp2, r2 = gi.build_reactor(c2, d)
                if abs(float(r2.req_dz) - dz0) <= 1e-12 * dz0:
                    worst_dz = max(worst_dz, float(np.max(r2.dz)))
                    ctx.count("reactor_step_with_near_planes")
            except SystemExit:
                pass
        if worst_dz > min(lims) * (1 + 1e-9) + 1e-12:
            k = int(np.argmin(lims))
            ctx.violation("c04-reactor-step:" + bc, "the step selected for the core (%.6g m) exceeds the limit %.6g m of assembly %d "
                          "(flow %.4g kg/s) recomputed with the real limit function; its explicit update has a negative self weight"
                          % (worst_dz, lims[k], k, float(r.assemblies[k].flow_rate) if k < len(r.assemblies) else float('nan')),
                          case=case, limits=lims)
        shutil.rmtree(d, ignore_errors=True)


def run(ctx):
    rng = random.Random(2000 + ctx.seed)
    ctx.rule = ("T1b classes: every coolant/bypass cell of traced real regions, grouped by neighbour-type class; "
                "oracle: linear probing of the real update methods at the step the real limit functions return")
    try:
        defs = collect(ctx, random.Random(2000))
        ctx.gen("C04", render(defs))
        collect_gap(ctx)
        collect_gap_avg(ctx)
        collect_unrodded(ctx)
    except Exception:
        import traceback
        ctx.problem("trace-failed", "c04 tracer", traceback.format_exc()[-2000:])
        defs = None
    if defs is not None:
        ctx.prove("Dassh.Props.C04", also=["Dassh.Gen.C04Gap", "Dassh.Gen.C04GapAvg", "Dassh.Gen.C04Ur"])
    oracle_rodded(ctx, rng, 200 if ctx.thorough else 40)
    oracle_unrodded(ctx, rng, 300 if ctx.thorough else 60)
    oracle_core(ctx, rng, 60 if ctx.thorough else 12)
    oracle_reactor_step(ctx, rng, 40 if ctx.thorough else 10)
    ctx.trusted += ["T1b tracing translator harness/trace.py + harness/bundle_trace.py (symbolic execution of the real "
                    "setup/update/limit functions; cells of one class must agree as rational functions)",
                    "class coverage for ring counts beyond those traced relies on C08's tables"]
    ctx.assumptions += ["geometry / flow / property symbols positive (structure Pos), eddy diffusivity and swirl >= 0",
                        "corner lengths grow outwards (wc_0_1 <= wc_1_1) for the low-flow bypass corner class",
                        "temperature-dependent coolants: limits are evaluated by the code at inlet and outlet only; the "
                        "oracle probes a grid in between (a test, not a theorem)"]
    ctx.nontrivial = ctx.evals
    ctx.traces = ctx.evals


# ----------------------------------------------------------------------------
# implementation-level oracle: linear probing of the real update methods
# ----------------------------------------------------------------------------
TOL_W = 1e-9


T0 = 600.0   # probing is done around a uniform field (materials cannot be evaluated at 0 K)


def probe_rodded_int(rr, dz, T0=600.0):
    """weights of the real interior update at step dz: returns (W [nc x nc], Ww [nc x nd])
    so that Tnew = W T + Ww Tw (no power).  The update is affine, so the
    weights are differences against the uniform field T0."""
    nc = rr.subchannel.n_sc['coolant']['total']
    nd = rr.subchannel.n_sc['duct']['total']
    keep = {k: v.copy() for k, v in rr.temp.items()}
    W = np.zeros((nc, nc))
    Ww = np.zeros((nc, nd))
    rr._update_coolant = lambda T: None      # properties stay as evaluated at the probing temperature
    rr._update_duct = lambda T: None
    try:
        rr.temp['duct_surf'] = np.full_like(keep['duct_surf'], T0)
        rr.temp['duct_mw'] = np.full_like(keep['duct_mw'], T0)
        rr.temp['coolant_int'] = np.full(nc, T0)
        base = rr.temp['coolant_int'] + rr._calc_coolant_int_temp(dz, None, None)
        for j in range(nc):
            t = np.full(nc, T0)
            t[j] += 1.0
            rr.temp['coolant_int'] = t
            W[:, j] = t + rr._calc_coolant_int_temp(dz, None, None) - base
        rr.temp['coolant_int'] = np.full(nc, T0)
        for j in range(nd):
            rr.temp['duct_surf'] = np.full_like(keep['duct_surf'], T0)
            rr.temp['duct_mw'] = np.full_like(keep['duct_mw'], T0)
            if rr._conv_approx:
                rr.temp['duct_mw'][0, j] += 1.0
            else:
                rr.temp['duct_surf'][0, 0, j] += 1.0
            Ww[:, j] = rr.temp['coolant_int'] + rr._calc_coolant_int_temp(dz, None, None) - base
    finally:
        rr.temp = keep
        del rr._update_coolant
        del rr._update_duct
    return W, Ww, float(np.abs(base - T0).max())


def probe_rodded_byp(rr, dz, b=0, T0=600.0):
    nd = rr.subchannel.n_sc['duct']['total']
    keep = {k: v.copy() for k, v in rr.temp.items()}
    W = np.zeros((nd, nd))
    Ww = np.zeros((nd, 2 * nd))
    rr._update_coolant = lambda T: None
    rr._update_duct = lambda T: None
    try:
        rr.temp['duct_surf'] = np.full_like(keep['duct_surf'], T0)
        rr.temp['duct_mw'] = np.full_like(keep['duct_mw'], T0)
        rr.temp['coolant_byp'] = np.full_like(keep['coolant_byp'], T0)
        base = (rr.temp['coolant_byp'] + rr._calc_coolant_byp_temp(dz))[b]
        for j in range(nd):
            t = np.full_like(keep['coolant_byp'], T0)
            t[b, j] += 1.0
            rr.temp['coolant_byp'] = t
            W[:, j] = (t + rr._calc_coolant_byp_temp(dz))[b] - base
        rr.temp['coolant_byp'] = np.full_like(keep['coolant_byp'], T0)
        for side in range(2):
            for j in range(nd):
                rr.temp['duct_surf'] = np.full_like(keep['duct_surf'], T0)
                rr.temp['duct_mw'] = np.full_like(keep['duct_mw'], T0)
                if rr._conv_approx:
                    rr.temp['duct_mw'][b + side, j] += 1.0
                else:
                    rr.temp['duct_surf'][b + side, 1 - side, j] += 1.0
                Ww[:, side * nd + j] = (rr.temp['coolant_byp'] + rr._calc_coolant_byp_temp(dz))[b] - base
    finally:
        rr.temp = keep
        del rr._update_coolant
        del rr._update_duct
    return W, Ww, float(np.abs(base - T0).max())


def _check_weights(ctx, what, W, Ww, info, basedev=0.0, between=False):
    if basedev > 1e-7:
        ctx.violation("c04-uniform:" + what, "%s: a uniform field is not reproduced without power (dev %.3g K)"
                      % (what, basedev), case=info)
        return False
    mn = min(W.min(), Ww.min()) if Ww.size else W.min()
    rs = np.abs(W.sum(axis=1) + (Ww.sum(axis=1) if Ww.size else 0.0) - 1.0).max()
    ctx.stats["min_weight"] = min(ctx.stats.get("min_weight", 1.0), float(mn))
    ctx.stats["max_rowsum_dev"] = max(ctx.stats.get("max_rowsum_dev", 0.0), float(rs))
    if mn < -TOL_W:
        i, j = np.unravel_index(np.argmin(W), W.shape)
        ctx.violation("c04-negative-weight:" + what + (":between-range-ends" if between else ""),
                      "%s: weight %.4g < 0 at the step the code selects (cell %d <- %d)%s" % (
                          what, mn, i, j, " at a temperature strictly between the inlet and outlet values at which the limit is "
                          "evaluated (weights at both ends are non-negative)" if between else ""),
                      case=info, min_weight=float(mn), cell=int(i), from_cell=int(j))
        return False
    if rs > 1e-8:
        ctx.violation("c04-rowsum:" + what, "%s: weights do not sum to one (dev %.3g)" % (what, rs), case=info)
        return False
    return True


def oracle_rodded(ctx, rng, n_cases):
    from dassh import region_rodded as RR
    for case in range(n_cases):
        n_ring = rng.choice([2, 2, 3, 3, 4, 5, 6])
        n_duct = rng.choice([1, 1, 2, 2, 3])
        dims = du.bundle_dims(rng, n_ring, n_duct)
        const = rng.random() < 0.6
        cprops = dict(k=rng.uniform(10, 80), cp=rng.uniform(800, 1500), rho=rng.uniform(700, 900), mu=rng.uniform(1e-4, 5e-4))
        cname = rng.choice(['sodium', 'nak', 'lead'])
        coolant = du.const_material('c', **cprops) if const else du.temp_material(cname)
        fr = 10 ** rng.uniform(-3, 1.3)
        corr = dict(corr_friction=rng.choice(['CTD', 'NOV', 'REH', 'ENG', 'CTS', 'UCTD']),
                    corr_flowsplit=rng.choice(['CTD', 'NOV', 'SE2', 'MIT', 'UCTD']),
                    corr_mixing=rng.choice(['CTD', 'MIT', 'UCTD']))
        extra = dict(byp_ff=rng.uniform(0.01, 0.3), wwdir=rng.choice(['clockwise', 'counterclockwise']), sf=rng.uniform(1.0, 1.5))
        info = dict(n_ring=n_ring, n_duct=n_duct, dims=dims, flow=fr, corr=corr, const_props=const,
                    coolant=(cprops if const else cname), **extra)
        # every third bundle is built with the Setup option param_update_tol > 0 (correlated parameters are then re-evaluated only
        # when the coolant properties have changed by more than the tolerance); its limit is taken as the Reactor takes it: on
        # the bundle as built, before any temperature has been given to it
        tol = rng.choice([0.02, 0.1, 0.3]) if case % 3 == 1 else 0.0
        info['param_update_tol'] = tol
        try:
            rr = du.make_rr(dims, flow_rate=fr, coolant=coolant, corr=corr, param_update_tol=tol, **extra)
        except (KeyError, TypeError, SystemExit, IndexError, ValueError) as ex:   # correlation combos that cannot be evaluated: C12's business
            ctx.count("oracle_rodded_skipped_build")
            continue
        t_lo = rng.uniform(600, 700) if not const else 650.0
        t_hi = t_lo + rng.uniform(10, 250)
        rr._conv_approx = rng.random() < 0.4
        info['conv_approx'] = rr._conv_approx
        try:
            if tol > 0:
                dz_built, code_built = RR.calculate_min_dz(rr, t_lo, t_hi, False)
                ctx.count("oracle_rodded_limit_on_bundle_as_built")
            rr = du.activate_rr(rr, t_lo)
            rr._conv_approx = info['conv_approx']
            dz, code = RR.calculate_min_dz(rr, t_lo, t_hi, False)
            if tol > 0:
                dz, code = dz_built, code_built
        except (KeyError, TypeError, SystemExit, ZeroDivisionError, IndexError, ValueError) as ex:
            ctx.count("oracle_rodded_skipped_eval")
            continue
        info.update(dz=float(dz), limiting=str(code), t_lo=t_lo, t_hi=t_hi)
        # both ends of the range first (where the code evaluates the limit), then - thorough tier - temperatures in between
        temps = [t_lo, t_hi] if not ctx.thorough or const else [t_lo, t_hi] + list(np.linspace(t_lo, t_hi, 6))[1:-1]
        ctx.evals += 1
        ctx.count("limiting_class:" + str(code).split('-')[0] + "-" + str(code).split('-')[1] if '-' in str(code) else str(code))
        for T in temps:
            try:
                rr._update_coolant_int_params(T, use_mat_tracker=False)
                if rr.n_bypass > 0:
                    rr._update_coolant_byp_params([T] * rr.n_bypass)
                rr._update_duct(T)
            except (KeyError, TypeError, SystemExit, ZeroDivisionError, IndexError, ValueError):
                ctx.count("oracle_rodded_skipped_eval")
                break
            between = t_lo < T < t_hi
            W, Ww, bd = probe_rodded_int(rr, dz, T)
            if not _check_weights(ctx, "rodded interior", W, Ww, dict(info, T=T), bd, between):
                if between:
                    break
                return
            for b in range(rr.n_bypass):
                Wb, Wwb, bd = probe_rodded_byp(rr, dz, b, T)
                if not _check_weights(ctx, "rodded bypass", Wb, Wwb, dict(info, T=T, bypass=b), bd, between):
                    if between:
                        break
                    return
        if case < 4:
            ctx.sample(dict(kind="oracle-rodded", **{k: info[k] for k in ("n_ring", "n_duct", "flow", "dz", "limiting", "conv_approx")}))


def probe_unrodded(reg, dz, adiabatic=False):
    n = reg.temp['coolant_int'].shape[0]
    keep = {k: v.copy() for k, v in reg.temp.items()}
    W = np.zeros((n, n))
    Ww = np.zeros((n, 6))
    try:
        reg.temp['duct_surf'] = np.full_like(keep['duct_surf'], T0)
        reg.temp['duct_mw'] = np.full_like(keep['duct_mw'], T0)
        reg.temp['coolant_int'] = np.full(n, T0)
        base = reg.temp['coolant_int'] + reg._calc_coolant_temp(dz, {'refl': 0.0}, adiabatic)
        for j in range(n):
            t = np.full(n, T0)
            t[j] += 1.0
            reg.temp['coolant_int'] = t
            W[:, j] = t + reg._calc_coolant_temp(dz, {'refl': 0.0}, adiabatic) - base
        reg.temp['coolant_int'] = np.full(n, T0)
        for j in range(6):
            reg.temp['duct_surf'] = np.full_like(keep['duct_surf'], T0)
            reg.temp['duct_mw'] = np.full_like(keep['duct_mw'], T0)
            if reg._conv_approx:
                reg.temp['duct_mw'][0, j] += 1.0
            else:
                reg.temp['duct_surf'][0, 0, j] += 1.0
            Ww[:, j] = reg.temp['coolant_int'] + reg._calc_coolant_temp(dz, {'refl': 0.0}, adiabatic) - base
    finally:
        reg.temp = keep
    return W, Ww, float(np.abs(base - T0).max())


def oracle_unrodded(ctx, rng, n_cases):
    from dassh import region_unrodded as RU
    for case in range(n_cases):
        ftf_in = rng.uniform(0.05, 0.2)
        t = rng.uniform(0.001, 0.005)
        cf = rng.choice([1.0, 1.0, rng.uniform(0.05, 1.0), rng.uniform(0.3, 1.0)])
        fr = 10 ** rng.uniform(-2, 1.3)
        lowflow = rng.random() < 0.3
        model = rng.choice(['simple', 'simple', '6node'])
        info = dict(model=model, ftf=[ftf_in, ftf_in + 2 * t], flow=fr, convection_factor=cf, lowflow=lowflow)
        cool = du.const_material('c', k=rng.uniform(10, 80), cp=rng.uniform(800, 1500))
        duct = du.const_material('d', k=rng.uniform(5, 40))
        vf = rng.uniform(0.15, 0.9)
        if model == 'simple':
            reg = RU.SingleNodeHomogeneous('ur', 0.0, 1.0, info['ftf'], vf, fr, cool, duct, None,
                                           convection_factor=cf, lowflow=lowflow)
        else:
            try:
                reg = RU.MultiNodeHomogeneous('ur', 0.0, 1.0, info['ftf'], vf, fr, cool, duct, None,
                                              convection_factor=cf, lowflow=lowflow)
            except Exception as ex:
                ctx.count("oracle_unrodded_6node_build_failed")
                continue
        reg._update_coolant_params(650.0)
        dz, _ = RU.calculate_min_dz(reg, 650.0, 700.0, False)
        info['dz'] = float(dz)
        ctx.evals += 1
        W, Ww, bd = probe_unrodded(reg, dz)
        if not _check_weights(ctx, "low-fidelity %s" % model, W, Ww, info, bd):
            return
        if case < 2:
            ctx.sample(dict(kind="oracle-unrodded", **info))


def probe_gap(core, dz, n_asm_cells):
    """weights of the real gap update: Tnew_gap = W Tgap + Wd Tduct"""
    n = core.coolant_gap_temp.shape[0]
    keep = core.coolant_gap_temp.copy()
    shape = core._asm_sc_adj.shape
    W = np.zeros((n, n))
    Wd = np.zeros((n, shape[0] * shape[1]))
    try:
        zero_d = np.zeros(shape)
        for j in range(n):
            t = np.zeros(n)
            t[j] = 1.0
            core.coolant_gap_temp = t
            if core.model == 'flow':
                W[:, j] = t + core._flow_model(dz, zero_d)
            elif core.model == 'no_flow':
                W[:, j] = core._noflow_model(zero_d)
            else:
                W[:, j] = np.nan_to_num(core._duct_average_model(zero_d + 0.0))
        core.coolant_gap_temp = np.zeros(n)
        k = 0
        for a in range(shape[0]):
            for c in range(shape[1]):
                if core._asm_sc_adj[a, c] > 0:
                    d = np.zeros(shape)
                    d[a, c] = 1.0
                    if core.model == 'flow':
                        Wd[:, k] = core._flow_model(dz, d)
                    elif core.model == 'no_flow':
                        Wd[:, k] = core._noflow_model(d)
                    else:
                        # averaging model counts non-zero entries: probe around a base field of ones
                        base = core._duct_average_model(np.ones(shape))
                        Wd[:, k] = core._duct_average_model(np.ones(shape) + d) - base
                k += 1
    finally:
        core.coolant_gap_temp = keep
    return W, Wd


def oracle_core(ctx, rng, n_cases):
    from harness import gen_input as gi
    import dassh.core as C
    for case_i in range(n_cases):
        n_core_rings = rng.choice([1, 2, 2, 3] if ctx.thorough else [1, 2, 2])
        pos = gi.core_positions(n_core_rings)
        if n_core_rings > 1 and rng.random() < 0.4:
            pos = [p for p in pos if rng.random() < 0.75] or pos[:1]
        gm = rng.choice(['flow', 'flow', 'flow', 'no_flow', 'duct_average'])
        case = gi.random_case(rng, positions=pos, n_types=rng.choice([1, 2]), gap_model=gm, length=0.2,
                              flow_range=(0.05, 8.0))
        case['core']['bypass_fraction'] = round(10 ** rng.uniform(-4, -1), 6)
        d = str(ctx.work / ("core%d" % case_i))
        try:
            inp, r = gi.build_reactor(case, d)
        except SystemExit:
            ctx.count("oracle_core_rejected")
            continue
        ctx.evals += 1
        core = r.core
        info = dict(gap_model=gm, positions=pos, req_dz=float(r.req_dz), n_steps=len(r.z) - 1,
                    bypass_fraction=case['core']['bypass_fraction'])
        dzs = [float(r.dz.max())]
        if gm == 'flow':
            lim, _ = C.calculate_min_dz(core, r.inlet_temp, r.inlet_temp + 150.0)
            info['gap_limit'] = float(lim)
        for T in (r.inlet_temp, r.inlet_temp + 100.0):
            core._update_coolant_gap_params(T)
            W, Wd = probe_gap(core, dzs[0], None)
            if not _check_weights(ctx, "inter-assembly gap (%s model)" % gm, W, Wd, dict(info, T=T, case=case)):
                return
        # the step used must not exceed any assembly limit
        for a in r.assemblies:
            for reg in a.region:
                if reg.is_rodded:
                    W, Ww, bd = probe_rodded_int(reg, dzs[0], r.inlet_temp)
                    if not _check_weights(ctx, "rodded interior in reactor", W, Ww, dict(info, asm=a.id, case=case), bd):
                        return
        if case_i < 3:
            ctx.sample(dict(kind="oracle-core", **info))
        import shutil
        shutil.rmtree(d, ignore_errors=True)
