"""C14 - pressure drop non-negative, additive, step-size independent; grids counted once.

T1: the per-step friction / gravity increments of the rodded and low-fidelity regions
are traced symbolically (Gen/C14.lean); T3: the accumulation over steps is the fold
model lean/Dassh/Model/Pressure.lean; Props/C14.lean proves closed forms, additivity,
non-negativity and "exactly once" for the half-open grid test (and that the strict
test misses a grid lying on a plane).  Oracle: real single-assembly reactors swept with
different step sizes, incl. dyadic steps with grids on planes.
"""
import copy
import random
import types

import numpy as np

from harness import dasshutil as du
from harness import gen_input as gi
from harness.trace import GEN_HEADER, Trace, rebind, to_lean


def gen_text():
    from dassh.region_rodded import RoddedRegion
    from dassh.region_unrodded import SingleNodeHomogeneous
    out = [GEN_HEADER.replace("import Mathlib.Algebra.Field.Defs", "import Mathlib.Algebra.Field.Defs\nimport Dassh.Lemmas.Attr"),
           "/-! traced from RoddedRegion.calculate_friction_pressure_drop / calculate_gravity_pressure_drop and "
           "SingleNodeHomogeneous.calculate_friction_pressure_drop -/\n", "namespace Dassh.Gen.C14\n"]

    class O:
        pass
    tr = Trace()
    o = O()
    o.coolant_int_params = dict(ff=tr.var("ff", 0.02), vel=tr.var("vel", 3.0))
    o.coolant = O()
    o.coolant.density = tr.var("rho", 850.0)
    o.bundle_params = dict(de=tr.var("de", 0.004))
    dz = tr.var("dz", 0.001)
    e1 = rebind(RoddedRegion.calculate_friction_pressure_drop, tr)(o, dz)
    e2 = rebind(RoddedRegion.calculate_gravity_pressure_drop, tr)(o, dz)
    u = O()
    u.coolant_params = dict(ff=tr.var("ff", 0.02), vel=tr.var("vel", 3.0))
    u.coolant = o.coolant
    u._rr_equiv = None
    u._params = dict(de=tr.var("de", 0.004))
    e3 = rebind(SingleNodeHomogeneous.calculate_friction_pressure_drop, tr)(u, dz)
    for nm, e in (("rod_friction_step", e1), ("rod_gravity_step", e2), ("ur_friction_step", e3)):
        out.append("@[gen_defs] def %s {α : Type} [Field α] (ff dz rho vel de : α) : α :=\n  %s\n" % (nm, to_lean(e)))
    out.append("end Dassh.Gen.C14\n")
    return "\n".join(out)


def generate(ctx):
    ctx.gen("C14", gen_text())


def single_case(rng, grids=None, gravity=False, mesh=None, length=1.0, regions=False, n_ring=None, models=None):
    case = gi.random_case(rng, n_core_rings=1, n_types=1, gap_model='none', length=length, const_props=True,
                          flow_range=(2.0, 8.0), type_kw=dict(n_ring=n_ring or rng.choice([3, 4, 5]), n_duct=1))
    t = case['types']['t0']
    if grids:
        t['SpacerGrid'] = dict(loss_coeff=round(rng.uniform(0.5, 2.0), 3), axial_positions=list(grids))
    if gravity:
        case['setup']['include_gravity_head_loss'] = True
    if mesh:
        case['setup']['axial_mesh_size'] = mesh
    if regions:
        gi.add_axial_regions(rng, case, 't0', models=models or ('simple', '6node'))
        gi.random_power(rng, case)
    return case


def run_case(ctx, case, tag):
    d = str(ctx.work / tag)
    inp, r = gi.build_reactor(case, d)
    gi.sweep(r)
    a = r.assemblies[0]
    parts = dict(friction=0.0, spacer_grid=0.0, gravity=0.0)
    per_region = []
    for reg in a.region:
        for k, v in reg._pressure_drop.items():
            parts[k] = parts.get(k, 0.0) + float(v)
        per_region.append(float(reg.pressure_drop))
    total = float(a.pressure_drop)
    import shutil
    shutil.rmtree(d, ignore_errors=True)
    return r, a, parts, per_region, total


def oracle(ctx, rng, n):
    for ci in range(n):
        L = 1.0
        dyadic = rng.random() < 0.6
        ngrid = rng.choice([0, 1, 2, 3])
        if dyadic:
            grids = sorted(set(rng.choice([0.125, 0.25, 0.375, 0.5, 0.625, 0.75, 0.875]) for _ in range(ngrid)))
            mesh = rng.choice([2.0 ** -7, 2.0 ** -8, 2.0 ** -6])
        else:
            grids = sorted(set(round(rng.uniform(0.05, 0.95), 4) for _ in range(ngrid)))
            mesh = rng.choice([None, 0.003, 0.0071])
        if len(grids) > 1 and rng.random() < 0.5:
            rng.shuffle(grids)      # the input does not have to list the grids bottom-up
        forced = ci % 4 == 0          # every fourth case: six-node unrodded regions with the gravity head switched on
        gravity = rng.random() < 0.5 or forced
        regions = rng.random() < 0.3 or forced
        seed_case = rng.getrandbits(32)
        case = single_case(random.Random(seed_case), grids or None, gravity, mesh, L, regions, models=('6node',) if forced else None)
        if regions and grids:
            # keep grids inside the pin bundle
            lo = max([reg['z_hi'] for reg in case['types']['t0']['AxialRegion'] if reg['name'] == 'lower'] + [0.0])
            hi = min([reg['z_lo'] for reg in case['types']['t0']['AxialRegion'] if reg['name'] == 'upper'] + [L])
            grids = [g for g in grids if lo < g < hi]
            if grids:
                case['types']['t0']['SpacerGrid']['axial_positions'] = grids
            else:
                case['types']['t0']['SpacerGrid'] = None
        try:
            r, a, parts, per_region, total = run_case(ctx, case, "c%d" % ci)
        except SystemExit:
            ctx.count("rejected")
            continue
        ctx.evals += 1
        info = dict(grids=grids, mesh=mesh, gravity=gravity, regions=regions, steps=len(r.z) - 1, req_dz=float(r.req_dz))
        # additivity
        if abs(total - sum(parts.values())) > 1e-9 * max(total, 1.0) or abs(total - sum(per_region)) > 1e-9 * max(total, 1.0):
            ctx.violation("c14-additive", "assembly pressure drop %.9g is not the sum of its parts %.9g / regions %.9g"
                          % (total, sum(parts.values()), sum(per_region)), case=case, info=info)
        if min(parts.values()) < 0:
            ctx.violation("c14-negative", "a pressure-drop component is negative: %s" % parts, case=case)
        # gravity head of the whole assembly (constant density): rho g L whatever regions it is made of
        if gravity:
            rho_g = a.region[0].coolant.density * 9.80665 * L
            if abs(parts['gravity'] - rho_g) > 1e-9 * rho_g:
                ctx.violation("c14-gravity-closed-form", "gravity head %.9g Pa of the assembly differs from rho g L = %.9g Pa (regions: %s)"
                              % (parts['gravity'], rho_g, [type(x).__name__ + ":" + str(getattr(x, 'model', '')) for x in a.region]),
                              case=case, info=info)
        # closed forms (constant properties): rodded region only when no other regions
        rr = a.rodded if hasattr(a, 'rodded') else None
        if not regions:
            reg = a.region[0]
            rho = reg.coolant.density
            v = reg.coolant_int_params['vel']
            f = reg.coolant_int_params['ff']
            cf = f * L * rho * v ** 2 / 2 / reg.bundle_params['de']
            if abs(parts['friction'] - cf) > 1e-9 * cf:
                ctx.violation("c14-friction-closed-form", "friction loss %.9g differs from f L rho v^2/(2 De) = %.9g"
                              % (parts['friction'], cf), case=case, info=info)
            if grids:
                kloss = reg.coolant_int_params['grid_loss_coeff'] * rho * v ** 2 / 2
                counted = parts['spacer_grid'] / kloss
                on_plane = [g for g in grids if any(abs(g - z) < 1e-12 for z in r.z)]
                if abs(counted - len(grids)) > 1e-6:
                    ctx.violation("c14-grid-count" + (":on-plane" if on_plane else ""),
                                  "%d spacer grids inside the bundle but %.3f grid losses were accumulated "
                                  "(grids on a plane: %s)" % (len(grids), counted, on_plane), case=case, info=info)
        if ci < 3:
            ctx.sample(dict(kind="sweep", **info))
    # step-size independence: same problem, three step sizes
    for ci in range(max(2, n // 5)):
        seed_case = rng.getrandbits(32)
        tot = []
        for mesh in (None, 0.004, 0.0013):
            case = single_case(random.Random(seed_case), [0.31, 0.62], True, mesh, 1.0, False)
            try:
                r, a, parts, per_region, total = run_case(ctx, case, "s%d" % ci)
            except SystemExit:
                continue
            tot.append((mesh, len(r.z) - 1, total))
            ctx.evals += 1
        if len(tot) >= 2 and max(t[2] for t in tot) - min(t[2] for t in tot) > 1e-8 * tot[0][2]:
            ctx.violation("c14-step-dependent", "pressure drop depends on the step size: %s" % tot, case=case)


def oracle_decimal_planes(ctx, rng, n):
    """grids lying exactly on axial planes of a DECIMAL mesh (steps of 1, 2, 2.5 mm ... whose multiples are not exact in binary
    floating point, so a position accumulated step by step drifts off the plane), in the interior of the bundle and on its upper
    boundary: each is counted exactly once, whatever the step"""
    from harness import modelio
    from harness.checks.c10 import bits
    reqs, got = [], []
    for ci in range(n):
        L = 0.3
        mesh = rng.choice([0.001, 0.002, 0.0025, 0.0009, 0.0005])
        nplanes = int(round(L / mesh))
        ks = sorted(set([2, rng.randint(3, nplanes // 2), rng.randint(nplanes // 2, nplanes - 2)][:rng.choice([1, 2, 3])]))
        grids = [round(k * mesh, 12) for k in ks]
        regions = ci % 2 == 1
        seed_case = rng.getrandbits(32)
        case = single_case(random.Random(seed_case), grids, False, mesh, L, False, n_ring=rng.choice([2, 3]))
        if regions:
            # bundle [z_lo, z_hi] with a reflector above; one grid ON the upper bound of the bundle
            k_hi = rng.randint(int(0.6 * nplanes), int(0.9 * nplanes))
            z_hi = round(k_hi * mesh, 12)
            case['types']['t0']['AxialRegion'] = [dict(name='upper', z_lo=z_hi, z_hi=L, vf_coolant=0.3, model='simple')]
            grids = [g for g in grids if g < z_hi] + [z_hi]
            case['types']['t0']['SpacerGrid']['axial_positions'] = grids
            gi.random_power(rng, case)
        try:
            r, a, parts, per_region, total = run_case(ctx, case, "dp%d" % ci)
        except SystemExit:
            ctx.count("rejected")
            continue
        ctx.evals += 1
        if abs(float(r.req_dz) - mesh) > 1e-12:
            ctx.count("decimal_mesh_not_honoured")
            continue
        reg = a.region[0]
        kloss = reg.coolant_int_params['grid_loss_coeff'] * reg.coolant.density * reg.coolant_int_params['vel'] ** 2 / 2
        counted = parts['spacer_grid'] / kloss
        ctx.count("decimal_plane_cases" + (":grid-on-bundle-top" if regions else ""))
        # the planes the bundle is swept over, as the Reactor holds them
        zb_hi = (z_hi if regions else L)
        planes = [float(z) for z in r.z if float(z) <= zb_hi + 1e-13]
        reqs.append("dpp %s | %s" % (" ".join(str(bits(g)) for g in grids), " ".join(str(bits(z)) for z in planes)))
        got.append((counted, grids, mesh))
        if abs(counted - len(grids)) > 1e-6:
            ctx.violation("c14-grid-count:on-decimal-plane" + (":bundle-top" if regions else ""),
                          "%d spacer grids on planes of the %.4g m mesh (%s) but %.3f grid losses were accumulated"
                          % (len(grids), mesh, grids, counted), case=case, grids=grids, mesh=mesh)
    if reqs and modelio.build_driver(ctx):
        bad = 0
        for rep, (counted, grids, mesh) in zip(modelio.ask(reqs), got):
            p_ = rep.split()
            if p_[0] != "ok" or abs(int(p_[1]) - counted) > 1e-6:
                bad += 1
                if bad == 1:
                    ctx.problem("correspondence", "Model.Pressure.gridLosses vs the grid losses a real sweep accumulates",
                                "model %s, implementation %.6f (grids %s, mesh %g)" % (rep, counted, grids, mesh))
        ctx.obligation("correspondence: Model.Pressure.gridLosses (comparisons only, c14_planes_once) = grid losses accumulated by "
                       "real sweeps over %d decimal plane lists" % len(reqs), bad == 0, kind="correspondence",
                       detail="disagreements %d" % bad)


def oracle_thin_regions(ctx, rng, n):
    """step-size independence when two axial boundaries are closer together than one step: a plate region a few millimetres
    thick on top of the lower unrodded region, or a requested plane a few millimetres past a region boundary; every region must
    accumulate its loss over its own length - the same on the default (<= 1 cm) mesh and on a 1 mm mesh"""
    for ci in range(n):
        seed_case = rng.getrandbits(32)
        thick = rng.choice([0.002, 0.003, 0.0045])
        use_plane = ci % 2 == 1
        res = []
        for mesh in (None, 0.001):
            crng = random.Random(seed_case)
            case = single_case(crng, None, True, mesh, 0.4, True, models=('simple', '6node'))
            regs = case['types']['t0']['AxialRegion']
            lower = [r_ for r_ in regs if r_['name'] == 'lower']
            upper = [r_ for r_ in regs if r_['name'] == 'upper']
            if not lower:
                lower = [dict(name='lower', z_lo=0.0, z_hi=0.093, vf_coolant=0.4, model='simple', convection_factor=1.0)]
                regs.insert(0, lower[0])
            z1 = lower[0]['z_hi']
            if use_plane:
                case['setup']['axial_plane'] = [round(z1 + thick, 6)]
            else:
                regs.insert(regs.index(lower[0]) + 1, dict(name='plate', z_lo=z1, z_hi=round(z1 + thick, 6), vf_coolant=0.25,
                                                           model='simple', convection_factor=1.0))
            try:
                r, a, parts, per_region, total = run_case(ctx, case, "t%d" % ci)
            except SystemExit:
                ctx.count("thin_region_rejected")
                continue
            ctx.evals += 1
            res.append((mesh, len(r.z) - 1, per_region, total, [(type(x).__name__, [float(v) for v in x.z]) for x in a.region]))
        if len(res) == 2:
            ctx.count("thin_region_pairs:%s" % ("plane" if use_plane else "plate"))
            (m0, n0, pr0, t0, z0), (m1, n1, pr1, t1, z1_) = res
            dev = max(abs(x - y) for x, y in zip(pr0, pr1)) if len(pr0) == len(pr1) else float('inf')
            if dev > 1e-8 * max(t0, 1.0):
                ctx.violation("c14-step-dependent:thin-region", "two axial boundaries %.1f mm apart (%s): the regions' pressure drops are "
                              "%s Pa on the default mesh (%d steps) and %s Pa on a 1 mm mesh (%d steps)"
                              % (1e3 * thick, "requested plane past a region boundary" if use_plane else "thin plate region",
                                 [round(x, 3) for x in pr0], n0, [round(x, 3) for x in pr1], n1), case=case, regions=z0)


def correspondence(ctx, rng, n):
    """region-level: real RoddedRegion.calculate_pressure_drop step by step vs the fold model"""
    from harness import modelio
    from harness.checks.c10 import bits, unbits
    if not modelio.build_driver(ctx):
        return
    reqs, expect = [], []
    for k in range(n):
        dims = du.bundle_dims(rng, rng.choice([2, 3, 4]), 1)
        ngrid = rng.choice([0, 1, 2, 4])
        grids = sorted(set(rng.choice([rng.randint(1, 63) / 64.0, round(rng.uniform(0.02, 0.98), 3)]) for _ in range(ngrid)))
        if len(grids) > 1 and rng.random() < 0.5:
            rng.shuffle(grids)
        sg = dict(loss_coeff=rng.uniform(0.5, 2.0), axial_positions=grids, corr=None, corr_coeff=None, solidity=None) if grids else None
        rr = du.make_rr(dims, flow_rate=rng.uniform(1, 8), spacer_grid=sg, gravity=rng.random() < 0.5)
        rr._init_static_correlated_params(650.0)
        steps, z = [], 0.0
        while z < 1.0 - 1e-12:
            dz = rng.choice([2.0 ** -5, 2.0 ** -6, 2.0 ** -4]) if rng.random() < 0.7 else round(rng.uniform(0.005, 0.05), 4)
            dz = min(dz, 1.0 - z)
            z = z + dz
            steps.append((z, dz))
            rr.calculate_pressure_drop(z, dz)
        rho, v = rr.coolant.density, rr.coolant_int_params['vel']
        cf = rr.coolant_int_params['ff'] * rho * v ** 2 / rr.bundle_params['de'] / 2.0
        cg = rho * 9.80665 if rr._gravity else 0.0
        kl = rr.coolant_int_params['grid_loss_coeff'] * rho * v ** 2 / 2.0 if grids else 0.0
        reqs.append("dp 0 %d %d %d | %s | %s" % (bits(cf), bits(cg), bits(kl), " ".join(str(bits(g)) for g in grids),
                                                 " ".join("%d %d" % (bits(a), bits(b)) for a, b in steps)))
        expect.append((rr._pressure_drop['friction'], rr._pressure_drop['spacer_grid'], rr._pressure_drop['gravity']))
        ctx.evals += 1
    bad = 0
    for rep, exp, rq in zip(modelio.ask(reqs), expect, reqs):
        got = [unbits(x) for x in rep.split()[1:]]
        for g, e in zip(got, exp):
            if abs(g - e) > 1e-10 * max(abs(e), 1.0):
                bad += 1
                if bad == 1:
                    ctx.problem("correspondence", "Model.Pressure.sweep vs RoddedRegion.calculate_pressure_drop",
                                "model %s implementation %s" % (got, exp))
                break
    ctx.obligation("correspondence: Model.Pressure.sweep = RoddedRegion.calculate_pressure_drop on %d step histories" % len(reqs),
                   bad == 0, kind="correspondence", detail="disagreements %d" % bad)


def oracle_clones(ctx, rng, n):
    """several assemblies of ONE type in a core (clones of a template), unrodded regions of both models, gravity head on:
    every assembly accumulates its own pressure drop once - its gravity head is rho g L, its total the sum of its regions"""
    import shutil
    for ci in range(n):
        pos = [(1, 1)] + [p for p in gi.core_positions(2)[1:] if rng.random() < 0.5][:3]
        while len(pos) < 2:
            pos = [(1, 1)] + [p for p in gi.core_positions(2)[1:] if rng.random() < 0.5][:3]
        L = 0.5
        case = gi.random_case(rng, positions=pos, n_types=1, gap_model=rng.choice(['none', 'flow']), length=L, const_props=True,
                              flow_range=(1.0, 6.0), type_kw=dict(n_ring=rng.choice([2, 3]), n_duct=1))
        gi.add_axial_regions(rng, case, 't0', models=('6node',) if ci % 2 == 0 else ('simple', '6node'))
        gi.random_power(rng, case)
        case['setup']['include_gravity_head_loss'] = True
        d = str(ctx.work / ("cl%d" % ci))
        try:
            inp, r = gi.build_reactor(case, d)
            gi.sweep(r)
        except SystemExit:
            ctx.count("clones_rejected")
            continue
        ctx.evals += 1
        for a in r.assemblies:
            grav = sum(float(reg._pressure_drop.get('gravity', 0.0)) for reg in a.region)
            rho_g = a.region[0].coolant.density * 9.80665 * L
            tot = float(a.pressure_drop)
            per = sum(float(reg.pressure_drop) for reg in a.region)
            if abs(grav - rho_g) > 1e-9 * rho_g:
                ctx.violation("c14-gravity-closed-form:clones", "assembly %d of %d clones: gravity head %.9g Pa, rho g L = %.9g Pa"
                              % (a.id, len(r.assemblies), grav, rho_g), case=case)
                break
            if abs(tot - per) > 1e-9 * max(tot, 1.0):
                ctx.violation("c14-additive:clones", "assembly %d of %d clones: pressure drop %.9g Pa is not the sum of its regions %.9g Pa"
                              % (a.id, len(r.assemblies), tot, per), case=case)
                break
        ctx.count("clone_cores")
        shutil.rmtree(d, ignore_errors=True)


def run(ctx):
    rng = random.Random(14000 + ctx.seed)
    ctx.rule = ("oracle: single-assembly reactors with 0-3 spacer grids (dyadic steps with grids on planes, decimal steps), "
                "gravity on/off, with/without unrodded regions, three step sizes for the same problem")
    try:
        ctx.gen("C14", gen_text())
        ok = True
    except Exception:
        import traceback
        ctx.problem("trace-failed", "c14 tracer", traceback.format_exc()[-1500:])
        ok = False
    if ok:
        ctx.prove("Dassh.Props.C14")
    correspondence(ctx, rng, 200 if ctx.thorough else 40)
    oracle(ctx, rng, 60 if ctx.thorough else 16)
    oracle_clones(ctx, rng, 8 if ctx.thorough else 2)
    oracle_thin_regions(ctx, rng, 8 if ctx.thorough else 3)
    oracle_decimal_planes(ctx, rng, 24 if ctx.thorough else 6)
    ctx.nontrivial = ctx.evals
    ctx.traces = ctx.evals
    ctx.trusted += ["T1 trace of the per-step increments; hand fold model lean/Dassh/Model/Pressure.lean (its step rule is "
                    "the one the oracle checks on real sweeps)"]
    ctx.assumptions += ["constant coolant properties for the closed forms; c14_grid_once needs exact arithmetic for z - dz, "
                        "c14_planes_once (the rule of the corrected code: previous position < grid <= position) holds in any "
                        "linear order, floating point included",
                        "one loss is applied per step even if two grids fall into the same step (the model mirrors the "
                        "code's `any`); the oracle uses grids further apart than a step"]
