"""C09 - inter-assembly gap mesh well-formed for every core layout.

T2: for every non-empty subset of the 7-position core (exhaustive, as the property
states) and sampled subsets of the 19/37-position cores, with 1-3 assembly types of
different ring counts or without pins, the tables built by the real `Core.load` are
dumped and the Lean kernel decides `gapCert` (Lemmas/Table.lean).  Numeric oracle on the
real arrays: perimeter coverage, total gap area independent of the assemblies' meshes,
flow split proportional to area.
"""
import itertools
import math
import random

import numpy as np

from harness import gen_input as gi
from harness import tables as tb

W = 12


def layout_case(rng, positions, n_types=None, mixed=True, ring_choice=(2, 3, 4)):
    nt = n_types or rng.choice([1, 2, 3])
    case = gi.random_case(rng, positions=positions, n_types=1, gap_model='flow', length=0.2, with_power=False,
                          type_kw=dict(n_ring=rng.choice(ring_choice), n_duct=rng.choice([1, 1, 2])))
    base = case['types']['t0']
    outer = base['duct_ftf'][-2:]
    for k in range(1, nt):
        # another type with a different ring count inside the same outer duct
        nr = rng.choice([r for r in (2, 3, 4, 5) if r != base['num_rings']] or [3])
        if rng.random() < 0.3:
            nr = base['num_rings']       # same number of edge cells per side, other pin pitch: the finer pitch meshes the shared side
        t = gi.random_asm_type(rng, "t%d" % k, n_ring=nr, n_duct=1)
        f = (outer[0] * rng.uniform(0.93, 0.999)) / (math.sqrt(3) * (nr - 1) * t['pin_pitch'] + t['pin_diameter'] + 2 * t['wire_diameter'])
        for key in ('pin_pitch', 'pin_diameter', 'wire_diameter', 'clad_thickness'):
            t[key] *= f
        t['duct_ftf'] = list(outer)
        if rng.random() < 0.35:
            gi.make_low_fidelity(rng, dict(types={t['name']: t}), t['name'])   # an assembly without pins
        case['types'][t['name']] = t
    names = list(case['types'])
    for a in case['assignment']:
        a['type'] = rng.choice(names)
    gi.random_power(rng, case, n_terms=1, components=("pins",))
    return case


def own_counts(r):
    out = []
    for a in r.assemblies:
        out.append(int(a.rodded.n_ring - 1) if a.has_rodded else 0)
    return out


def dump_layout(r, name):
    core = r.core
    nasm, nsc = int(core.n_asm), int(core.n_sc)
    asm_tab = core._asm_sc_adj
    L = []
    L.append(tb.lean_nat("asm_%s" % name, tb.encode(asm_tab, W, offset=0), "_asm_sc_adj (1-based ids, 0 = none)"))
    L.append(tb.lean_nat("adj_%s" % name, tb.encode(core._sc_adj, W, offset=0), "_sc_adj (1-based ids, 0 = none)"))
    side = core._geom_params['sc_per_side'] + 1
    L.append(tb.lean_nat("side_%s" % name, tb.encode(side, W, offset=0), "cells per hex side (edge cells + trailing corner)"))
    nb = np.array(core.asm_adj)[:nasm, :6] if len(core.asm_adj) >= nasm else np.array(core.asm_adj)
    L.append(tb.lean_nat("nbr_%s" % name, tb.encode(nb, W, offset=0), "asm_adj (1-based assembly ids, 0 = none)"))
    own = np.array(own_counts(r)).reshape(-1, 1)
    L.append(tb.lean_nat("own_%s" % name, tb.encode(own, W, offset=0), "edge cells per side of each assembly's own duct mesh"))
    ncol = asm_tab.shape[1]
    L.append("def cert_%s : Bool := gapCert %d %d (fun a => row asm_%s %d %d a) (fun a s => ent side_%s %d 6 a s)\n"
             "  (fun a s => get? nbr_%s %d 6 a s) (fun a => ent own_%s %d 1 a 0) (fun c => row adj_%s %d 3 c)\n"
             % (name, nasm, nsc, name, W, ncol, name, W, name, W, name, W, name, W))
    # one kernel decision per layout: the memory of one evaluation is released before the next starts
    L.append("set_option maxRecDepth 1000000 in\ntheorem cert_%s_ok : cert_%s = true := by decide +kernel\n" % (name, name))
    # consequence for C02: conduction between adjacent gap cells (any antisymmetric pair exchange) cancels over this gap mesh
    L.append("theorem exch_%s {K : Type} [Field K] [LinearOrder K] [IsStrictOrderedRing K] (f : Nat → Nat → K)\n"
             "    (hf : ∀ i j, f j i = - f i j) :\n"
             "    ∑ c ∈ Finset.range %d, ((row adj_%s %d 3 c).map (f c)).sum = 0 :=\n"
             "  Dassh.Exchange.gap_exchange_zero cert_%s_ok f hf\n" % (name, nsc, name, W, name))
    ok = tb.roundtrip_ok(asm_tab, W, 0) and tb.roundtrip_ok(core._sc_adj, W, 0)
    return "\n".join(L), ok


def shared_cells_oracle(ctx, r, case, tag):
    """a gap cell shared by two assemblies is seen identically by both, with the finer of the two duct meshes: the finer mesh is
    decided here from the input (more edge cells per side; equal counts: the smaller pin pitch; an assembly without pins has none)"""
    core = r.core
    asms = r.assemblies
    seen = {}
    for a in range(core.n_asm):
        k = 0
        for s_ in range(6):
            n_edge = int(core._geom_params['sc_per_side'][a][s_])
            nb = int(np.array(core.asm_adj)[a][s_]) - 1
            cands = [x for x in (a, nb) if x >= 0 and asms[x].has_rodded]
            want = None
            if cands:
                best = max(cands, key=lambda x: (asms[x].rodded.n_ring - 1, -asms[x].rodded.pin_pitch))
                want = (asms[best].rodded.n_ring - 1, float(asms[best].rodded.pin_pitch))
            for e in range(n_edge):
                cell = int(core._asm_sc_adj[a][k]) - 1
                w = float(core.gap_params['asm wp'][a][k])
                seen.setdefault(cell, []).append((a, s_, w))
                if want is not None and (n_edge != want[0] or abs(w - want[1]) > 1e-12 * want[1]):
                    ctx.violation("c09-not-the-finer-mesh", "assembly %d side %d (neighbour %s): %d edge cells of width %.9g m, the finer "
                                  "of the two duct meshes has %d cells of width %.9g m" % (a, s_, nb if nb >= 0 else None, n_edge, w,
                                                                                         want[0], want[1]), case=case, layout=tag)
                    return
                k += 1
            k += 1       # the corner cell closing the side
    ctx.count("shared_cell_layouts")
    for cell, views in seen.items():
        ws = [v[2] for v in views]
        if max(ws) - min(ws) > 1e-12 * max(ws):
            ctx.violation("c09-shared-cell-differs", "gap cell %d is %s m wide for the assemblies %s" % (cell, ws, [v[0] for v in views]),
                          case=case, layout=tag)
            return


def numeric_oracle(ctx, r, case, tag):
    shared_cells_oracle(ctx, r, case, tag)
    core = r.core
    # gap adjacency is symmetric (the failing input for a broken gapCert)
    adj_ = [set(int(j) - 1 for j in row if j > 0) for row in core._sc_adj[:core.n_sc]]
    asym = [(i, j) for i, nb_ in enumerate(adj_) for j in nb_ if j >= len(adj_) or i not in adj_[j]]
    if asym:
        ctx.violation("c09-adjacency-asymmetric", "gap cell %d lists gap cell %d as a neighbour but not the other way round (%d such links)"
                      % (asym[0][0] + 1, asym[0][1] + 1, len(asym)), case=case, layout=tag, links=asym[:20])
        return
    hex_side = core.duct_oftf / math.sqrt(3)
    for a in range(core.n_asm):
        per = float(np.sum(core.gap_params['asm wp'][a]))
        if abs(per - 6 * hex_side) > 1e-9 * hex_side:
            ctx.violation("c09-perimeter", "gap cells around assembly %d cover %.9g m of its %.9g m duct perimeter" % (a, per, 6 * hex_side),
                          case=case, layout=tag)
            return
    if abs(float(np.sum(core._sc_mfr)) - core.gap_flow_rate) > 1e-9 * max(core.gap_flow_rate, 1e-12):
        ctx.violation("c09-flow-split", "gap cell flows do not sum to the gap flow", case=case)
    frac = core._sc_mfr / core.gap_flow_rate
    if np.abs(frac - core.gap_params['area'] / np.sum(core.gap_params['area'])).max() > 1e-12:
        ctx.violation("c09-flow-proportional", "gap flow is not split in proportion to the cell areas", case=case)
    if (core.gap_params['area'] <= 0).any() or (core.gap_params['wp'] <= 0).any():
        ctx.violation("c09-nonpositive", "a gap cell has non-positive area or wetted perimeter", case=case)


def core_signature(r):
    c = r.core
    return dict(n_sc=int(c.n_sc), asm_sc_adj=np.asarray(c._asm_sc_adj).tolist(), sc_adj=np.asarray(c._sc_adj).tolist(),
                asm_adj=np.asarray(c.asm_adj).tolist(), area=float(c.gap_params['total area']),
                wp=np.round(np.asarray(c.gap_params['asm wp'], dtype=float), 12).tolist())


def history_oracle(ctx, rng):
    """every arrangement - also one built after other cores have been built and looked at in the same process: a core is built,
    its read-only views are used (assembly coordinates as the core-map plot asks for them, gap averages, adjacent gap temperatures),
    then the same case is built again; the second core must have the tables of the first and pass the numeric clauses"""
    import shutil
    pos7 = gi.core_positions(2)
    pos19 = gi.core_positions(3)
    picks = [pos7, pos7[:2], [pos7[0], pos7[2], pos7[3]], [p for p in pos19 if rng.random() < 0.7] or pos19[:3]]
    for k, positions in enumerate(picks):
        case = layout_case(random.Random(9100 + k), positions)
        d = str(ctx.work / ("hist%d" % k))
        try:
            inp, r1 = gi.build_reactor(case, d)
        except SystemExit:
            continue
        except Exception as ex:
            ctx.violation("c09-build:%s" % type(ex).__name__, "Core.load fails for layout %s (built after other cores in the same "
                          "process): %r" % (positions, ex), case=case, positions=positions)
            continue
        sig1 = core_signature(r1)
        try:
            r1.core.map_assembly_xy()
            r1.core.avg_coolant_gap_temp
            for a in range(len(r1.assemblies)):
                r1.core.adjacent_coolant_gap_temp(a)
        except Exception as ex:
            ctx.count("history_view_raised:" + type(ex).__name__)
        try:
            inp2, r2 = gi.build_reactor(case, d)
            sig2 = core_signature(r2)
        except SystemExit:
            sig2 = None
        except Exception as ex:
            ctx.violation("c09-history-build:%s" % type(ex).__name__, "layout %s: building the same core a second time in one process, after "
                          "the first core's assembly coordinates were asked for (Core.map_assembly_xy), fails: %r" % (positions, ex),
                          case=case, positions=positions, sequence=["build", "core.map_assembly_xy()", "build"])
            continue
        ctx.count("history_pairs")
        if sig2 != sig1:
            diff = [k_ for k_ in sig1 if sig2 is None or sig1[k_] != sig2[k_]]
            ctx.violation("c09-history", "layout %s: the same core built a second time in one process, after the first core's assembly "
                          "coordinates were asked for (Core.map_assembly_xy), has other gap tables (%s differ; %d gap cells, then %s)"
                          % (positions, ", ".join(diff), sig1['n_sc'], sig2 and sig2['n_sc']), case=case, positions=positions,
                          sequence=["build", "core.map_assembly_xy()", "build"])
        elif sig2 is not None:
            numeric_oracle(ctx, r2, case, positions)
        shutil.rmtree(d, ignore_errors=True)


def run(ctx):
    rng = random.Random(9000 + ctx.seed)
    ctx.rule = ("exhaustive: all 127 non-empty subsets of the 7-position core (one random assignment of 1-3 assembly types each; "
                "more in the thorough tier); sampled subsets of 19- and 37-position cores; kernel-decided gapCert per layout")
    pos7 = gi.core_positions(2)
    subsets = []
    for k in range(1, 8):
        for sub in itertools.combinations(range(7), k):
            subsets.append([pos7[i] for i in sub])
    layouts = [("s7_%d" % i, s) for i, s in enumerate(subsets)]
    n_big = 12 if ctx.thorough else 3
    for j in range(n_big):
        nr = rng.choice([3, 3, 4])
        allp = gi.core_positions(nr)
        sub = [p for p in allp if rng.random() < rng.choice([0.6, 0.85, 1.0])] or allp[:1]
        layouts.append(("big%d" % j, sub))
    reps = 3 if ctx.thorough else 1
    NCHUNK = 16
    header = ["-- GENERATED by /verif/harness (T2 table dump of real dassh.Core objects).", "import Dassh.Lemmas.Exchange", ""]
    chunks = [[] for _ in range(NCHUNK)]
    chunk_names = [[] for _ in range(NCHUNK)]
    names = []
    full = None
    areas = {}
    gen_rng = random.Random(9000)        # table generation is seed independent (keeps the Lean build cached)
    for tag, positions in layouts:
        for rep in range(reps):
            name = "%s_%d" % (tag, rep)
            case = layout_case(gen_rng, positions)
            d = str(ctx.work / name)
            try:
                inp, r = gi.build_reactor(case, d)
            except SystemExit:
                ctx.count("rejected_layouts")
                continue
            except Exception as ex:
                ctx.violation("c09-build:%s" % type(ex).__name__, "Core.load fails for layout %s: %r" % (positions, ex), case=case)
                continue
            ctx.evals += 1
            txt, ok = dump_layout(r, name)
            if not ok:
                ctx.problem("table-encoder", name, "round trip failed")
            # big layouts first round-robin so that the expensive ones spread over the chunks
            k = min(range(NCHUNK), key=lambda i: sum(len(x) for x in chunks[i]))
            chunks[k].append(txt)
            chunk_names[k].append(name)
            names.append(name)
            if name == "s7_126_0":
                full = (k, name, int(r.core.n_sc))
            numeric_oracle(ctx, r, case, positions)
            if len(set(a['type'] for a in case['assignment'])) > 1:
                # the same layout, pitch and outer duct with ONE mesh everywhere must have the same total gap area
                import copy
                c2 = copy.deepcopy(case)
                c2['types'] = {'t0': c2['types']['t0']}
                for a in c2['assignment']:
                    a['type'] = 't0'
                gi.random_power(random.Random(1), c2, n_terms=1, components=("pins",))
                try:
                    inp2, r2 = gi.build_reactor(c2, d)
                    a1, a2 = float(r.core.gap_params['total area']), float(r2.core.gap_params['total area'])
                    ctx.count("mixed_vs_uniform_area_pairs")
                    if abs(a1 - a2) > 1e-10 * a2:
                        ctx.violation("c09-area-depends-on-mesh", "total gap flow area is %.9g m2 with the mixed meshes %s but %.9g m2 when "
                                      "every position holds the same assembly type" % (a1, [a['type'] for a in case['assignment']], a2),
                                      case=case, positions=positions)
                except SystemExit:
                    ctx.count("uniform_variant_rejected")
            key = (tuple(positions), round(case['core']['assembly_pitch'], 12), round(r.core.duct_oftf, 12))
            areas.setdefault(key, []).append(float(r.core.gap_params['total area']))
            if ctx.evals <= 3:
                ctx.sample(dict(kind="layout", positions=positions, types={k: (v['num_rings'], bool(v.get('use_low_fidelity_model')))
                                                                          for k, v in case['types'].items()},
                                n_gap_cells=int(r.core.n_sc)))
            import shutil
            shutil.rmtree(d, ignore_errors=True)
    history_oracle(ctx, rng)
    for k in range(NCHUNK):
        body = header + ["namespace Dassh.Gen.C09_%d" % k, "open Dassh.Table", ""] + chunks[k]
        body.append("def certs : List Bool := [%s]\n" % ", ".join("cert_%s" % n for n in chunk_names[k]))
        body.append("theorem certs_ok : certs.all (· = true) = true := by\n  simp only [certs, List.all_cons, List.all_nil, decide_true, Bool.and_self%s]\n"
                    % "".join(", cert_%s_ok" % n for n in chunk_names[k]))
        body.append("end Dassh.Gen.C09_%d\n" % k)
        ctx.gen("C09_%d" % k, "\n".join(body))
    agg = ["-- GENERATED: collects the per-chunk layout certificates."] + ["import Dassh.Gen.C09_%d" % k for k in range(NCHUNK)]
    agg += ["", "namespace Dassh.Gen.C09", "",
            "/-- number of layouts dumped in this run -/", "def nLayouts : Nat := %d" % len(names), "",
            "def allCerts : List Bool := %s" % " ++ ".join("Dassh.Gen.C09_%d.certs" % k for k in range(NCHUNK)), "",
            "/-- the full 7-assembly core (layout s7_126): number of gap cells, adjacency table, exchange instance -/",
            "def fullNsc : Nat := %d" % (full[2] if full else 0),
            "def fullAdj : Nat := %s" % ("Dassh.Gen.C09_%d.adj_%s" % (full[0], full[1]) if full else "0"),
            ("theorem full_exch {K : Type} [Field K] [LinearOrder K] [IsStrictOrderedRing K] (f : Nat → Nat → K) (hf : ∀ i j, f j i = - f i j) :\n"
             "    ∑ c ∈ Finset.range fullNsc, ((Dassh.Table.row fullAdj 12 3 c).map (f c)).sum = 0 :=\n  Dassh.Gen.C09_%d.exch_%s f hf"
             % (full[0], full[1])) if full else "", "",
            "theorem all_ok : allCerts.all (· = true) = true := by",
            "  simp only [allCerts, List.all_append, Bool.and_eq_true]",
            "  exact ⟨%s⟩" % ", ".join("Dassh.Gen.C09_%d.certs_ok" % k for k in range(NCHUNK)) if NCHUNK == 1 else
            "  refine ⟨%s⟩" % ", ".join(["?_"] * 1),
            "end Dassh.Gen.C09", ""]
    agg = [ln for ln in agg if not ln.startswith("  refine") and not ln.startswith("  exact") and not ln.startswith("  simp only")]
    agg.insert(agg.index("end Dassh.Gen.C09"), "  simp only [allCerts, List.all_append, Bool.and_self, %s]"
               % ", ".join("Dassh.Gen.C09_%d.certs_ok" % k for k in range(NCHUNK)))
    ctx.gen("C09", "\n".join(agg))
    ctx.stats["layouts"] = len(names)
    ctx.stats["exhaustive_7_position_subsets"] = len(subsets)
    ctx.prove("Dassh.Props.C09")
    # total gap area depends on layout, pitch and outer duct only: same layout & dims, different meshes
    for ci in range(6 if ctx.thorough else 2):
        positions = rng.choice(subsets[20:])
        seed = rng.getrandbits(32)
        tot = []
        for ring_choice in ((2,), (4,), (3,)):
            rr = random.Random(seed)
            case = layout_case(rr, positions, n_types=1, ring_choice=ring_choice)
            # identical pitch / outer duct across the three variants
            if tot:
                case['core']['assembly_pitch'] = pitch
                f = outer / case['types']['t0']['duct_ftf'][-1]
                t = case['types']['t0']
                for key in ('pin_pitch', 'pin_diameter', 'wire_diameter', 'clad_thickness'):
                    t[key] *= f
                t['duct_ftf'] = [x * f for x in t['duct_ftf']]
            else:
                pitch = case['core']['assembly_pitch']
                outer = case['types']['t0']['duct_ftf'][-1]
            d = str(ctx.work / ("area%d" % ci))
            try:
                inp, r = gi.build_reactor(case, d)
            except SystemExit:
                continue
            except Exception as ex:
                ctx.violation("c09-build:%s" % type(ex).__name__, "Core.load fails for layout %s: %r" % (positions, ex), case=case)
                continue
            tot.append(float(r.core.gap_params['total area']))
            ctx.evals += 1
            import shutil
            shutil.rmtree(d, ignore_errors=True)
        if len(tot) >= 2 and max(tot) - min(tot) > 1e-9 * max(tot):
            ctx.violation("c09-area-depends-on-mesh", "total gap flow area changes with the assemblies' ring count: %s" % tot,
                          positions=positions)
    ctx.nontrivial = ctx.evals
    ctx.traces = ctx.evals
    ctx.trusted += ["T2 dumper of Core tables (round trip tested); assemblies' own mesh counts are taken from the Assembly objects"]
    ctx.assumptions += ["19/37-position cores are sampled, not exhaustive", "areas and wetted lengths are checked numerically only"]
