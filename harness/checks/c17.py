"""C17 - results do not depend on the unit system of the input.

T1: every scalar converter of dassh.utils is traced into Lean (Gen/C17.lean);
Props/C17.lean proves round trips, mutual consistency of the length units, that
temperature differences convert consistently with absolute temperatures, and
that flow-rate conversion composes mass and time factors correctly.
T2 (dynamic taint): the three `convert_*` functions of read_input are run on a
maximal parsed input with tagged conversion factors; the set of (key path,
number of times converted) is emitted and Lean decides that every dimensional
key of a hand classification is converted exactly once and nothing else is.
Oracle: one physical problem written in every unit combination must give the
same internal data, mesh and temperatures.
"""
import copy
import math
import os
import random

import numpy as np

from harness import gen_input as gi
from harness.trace import GEN_HEADER, Trace, rebind, to_lean

LEN = {"m": 1.0, "cm": 0.01, "mm": 0.001, "in": 0.0254, "ft": 0.3048}
TEMP = ["K", "C", "F"]
MFR_M = {"kg": 1.0, "lb": 0.453592}
MFR_T = {"s": 1.0, "min": 60.0, "hr": 3600.0}

CONVERTERS = ["_centimeters_to_meters", "_meters_to_centimeters", "_millimeters_to_meters", "_meters_to_millimeters",
              "_inches_to_meters", "_meters_to_inches", "_feet_to_meters", "_meters_to_feet", "_celsius_to_kelvin",
              "_kelvin_to_celsius", "_fahrenheit_to_kelvin", "_kelvin_to_fahrenheit", "_pounds_to_kilograms",
              "_kilograms_to_pounds", "_minutes_to_seconds", "_seconds_to_minutes", "_hours_to_seconds", "_seconds_to_hours"]


def gen_converters():
    from dassh import utils
    out = [GEN_HEADER.replace("import Mathlib.Algebra.Field.Defs", "import Mathlib.Algebra.Field.Defs\nimport Dassh.Lemmas.Attr"),
           "/-! traced from dassh.utils (scalar unit converters) -/\n", "namespace Dassh.Gen.C17\n"]
    for name in CONVERTERS:
        tr = Trace(map_known_consts=False)
        x = tr.var("x", 3.7)
        e = rebind(getattr(utils, name), tr)(x)
        out.append("@[gen_defs] def %s {α : Type} [Field α] (x : α) : α :=\n  %s\n" % (name.lstrip("_"), to_lean(e)))
    return out


# ---- hand classification of the dimensional input keys (the specification side) ----
LENGTH_KEYS = [
    "Core.length", "Core.assembly_pitch",
    "Assembly.*.pin_pitch", "Assembly.*.pin_diameter", "Assembly.*.clad_thickness", "Assembly.*.wire_pitch",
    "Assembly.*.wire_diameter", "Assembly.*.duct_ftf[]",
    "Assembly.*.AxialRegion.*.z_lo", "Assembly.*.AxialRegion.*.z_hi", "Assembly.*.AxialRegion.*.hydraulic_diameter",
    "Assembly.*.AxialRegion.*.epsilon",
    "Assembly.*.FuelModel.gap_thickness", "Assembly.*.SpacerGrid.axial_positions[]",
    "Setup.axial_plane[]", "Setup.axial_mesh_size", "Setup.Dump.interval", "Setup.conv_approx_dz_cutoff",
]
TEMP_KEYS = ["Core.coolant_inlet_temp", "Assignment.outlet_temp"]
FLOW_KEYS = ["Assignment.flowrate"]


def leaves(d, prefix=""):
    out = {}
    if isinstance(d, dict):
        for k, v in d.items():
            out.update(leaves(v, prefix + "." + str(k) if prefix else str(k)))
    elif isinstance(d, (list, tuple)):
        for i, v in enumerate(d):
            out.update(leaves(v, "%s[%d]" % (prefix, i)))
    elif isinstance(d, (int, float, np.floating, np.integer)) and not isinstance(d, bool):
        out[prefix] = float(d)
    return out


def generalise(path):
    import re
    p = re.sub(r"^Assembly\.[^.]+\.", "Assembly.*.", path)
    p = re.sub(r"AxialRegion\.[^.]+\.", "AxialRegion.*.", p)
    p = re.sub(r"\[\d+\]", "[]", p)
    p = re.sub(r"^Assignment\.ByPosition\[\]\[\]\.", "Assignment.", p)
    return p


def maximal_case(rng):
    case = gi.random_case(rng, n_core_rings=2, positions=[(1, 1), (2, 1), (2, 2), (2, 3), (2, 4), (2, 5), (2, 6)], n_types=2,
                          gap_model='flow', length=0.5, flow_range=(1.0, 5.0))
    # runs of positions written as ONE input line each (ring, first, last): 2,1..2 flow rate; 2,3..4 outlet temperature;
    # 2,5..6 temperature rise
    case['merge_assignment'] = True
    asg = case['assignment']
    asg[2]['type'] = asg[1]['type']
    asg[2]['flowrate'] = asg[1]['flowrate']
    asg[4]['type'] = asg[3]['type']
    asg[6]['type'] = asg[5]['type']
    for k in (3, 4):
        asg[k].pop('flowrate')
        asg[k]['outlet_temp'] = case['core']['coolant_inlet_temp'] + 120.0
    for k in (5, 6):
        asg[k].pop('flowrate')
        asg[k]['delta_temp'] = 90.0
    case['core']['bypass_fraction'] = 0.05
    t0, t1 = case['types']['t0'], case['types']['t1']
    gi.add_axial_regions(rng, case, 't0')
    for r in t0['AxialRegion']:
        r['hydraulic_diameter'] = 0.004
        r['epsilon'] = 2.0e-6
    t0['SpacerGrid'] = dict(loss_coeff=1.2, axial_positions=[0.21, 0.3])
    t1['FuelModel'] = dict(gap_thickness=1.0e-4, gap_material='sodium', clad_material='ht9', r_frac=[0.0, 0.33333, 0.66667], pu_frac=[0.2, 0.2, 0.2],
                           zr_frac=[0.1, 0.1, 0.1], porosity=[0.25, 0.25, 0.25])
    gi.random_power(rng, case)
    case['setup']['axial_plane'] = [0.123, 0.37]
    case['setup']['axial_mesh_size'] = 0.002
    case['setup']['conv_approx_dz_cutoff'] = 0.0007
    case['setup']['Dump'] = dict(coolant=True, interval=0.05)
    return case


def to_units(case, lu, tu, mu):
    """render the same physical problem in another unit system (independent converter table)"""
    c = copy.deepcopy(case)
    f = 1.0 / LEN[lu]

    def T(x):
        return x if tu == "K" else (x - 273.15 if tu == "C" else (x - 273.15) * 9.0 / 5.0 + 32.0)

    def dT(x):
        return x if tu in ("K", "C") else x * 9.0 / 5.0
    m, t = mu.split("/")
    fm = (1.0 / MFR_M[m]) * MFR_T[t]
    c['setup']['Units'] = dict(temperature={"K": "Kelvin", "C": "Celsius", "F": "Fahrenheit"}[tu], length=lu, mass_flow_rate=mu)
    for k in ('axial_mesh_size', 'conv_approx_dz_cutoff'):
        if k in c['setup']:
            c['setup'][k] *= f
    if 'axial_plane' in c['setup']:
        c['setup']['axial_plane'] = [x * f for x in c['setup']['axial_plane']]
    if 'Dump' in c['setup'] and 'interval' in c['setup']['Dump']:
        c['setup']['Dump']['interval'] *= f
    c['core']['length'] *= f
    c['core']['assembly_pitch'] *= f
    c['core']['coolant_inlet_temp'] = T(c['core']['coolant_inlet_temp'])
    for t_ in c['types'].values():
        for k in ('pin_pitch', 'pin_diameter', 'clad_thickness', 'wire_pitch', 'wire_diameter'):
            t_[k] *= f
        t_['duct_ftf'] = [x * f for x in t_['duct_ftf']]
        for r in t_.get('AxialRegion') or []:
            for k in ('z_lo', 'z_hi', 'hydraulic_diameter', 'epsilon'):
                if k in r:
                    r[k] *= f
        if t_.get('SpacerGrid'):
            t_['SpacerGrid']['axial_positions'] = [x * f for x in t_['SpacerGrid']['axial_positions']]
        if t_.get('FuelModel'):
            t_['FuelModel']['gap_thickness'] *= f
    for a in c['assignment']:
        if 'flowrate' in a:
            a['flowrate'] *= fm
        if 'outlet_temp' in a:
            a['outlet_temp'] = T(a['outlet_temp'])
        if 'delta_temp' in a:
            a['delta_temp'] = dT(a['delta_temp'])
    return c


def load_input(case, d):
    import dassh
    path = gi.write_case(case, d)
    return dassh.DASSH_Input(path)


def taint_converted_keys(ctx, rng):
    """which leaves do convert_length / convert_temperature / convert_mass_flow_rate touch, and how often"""
    from dassh import read_input as RI, utils
    case = maximal_case(rng)
    d = str(ctx.work / "taint")
    base = load_input(case, d)          # SI: no conversion applied
    res = {}
    for kind, fn, getter in (("length", RI.convert_length, "get_length_conversion"),
                             ("temperature", RI.convert_temperature, "get_temperature_conversion"),
                             ("flow", RI.convert_mass_flow_rate, None)):
        data = copy.deepcopy(base.data)
        data['Setup']['Units'] = dict(temperature='celsius', length='cm', mass_flow_rate='lb/min')
        before = leaves({k: data[k] for k in ('Setup', 'Core', 'Assembly', 'Assignment', 'Orificing') if k in data and data[k]})
        saved = {}
        try:
            if getter:
                saved[getter] = getattr(utils, getter)
                setattr(utils, getter, lambda a, b: (lambda x: x * 7.0))
            else:
                saved['get_mass_conversion'] = utils.get_mass_conversion
                saved['get_time_conversion'] = utils.get_time_conversion
                utils.get_mass_conversion = lambda a, b: (lambda x: x * 7.0)
                utils.get_time_conversion = lambda a, b: (lambda x: x)
            out = fn(data)
        finally:
            for k, v in saved.items():
                setattr(utils, k, v)
        after = leaves({k: out[k] for k in ('Setup', 'Core', 'Assembly', 'Assignment', 'Orificing') if k in out and out[k]})
        touched = {}
        for p, v in after.items():
            if p in before and before[p] != 0 and v != before[p]:
                ratio = v / before[p]
                n = round(math.log(ratio) / math.log(7.0)) if ratio > 0 else -1
                touched.setdefault(generalise(p), set()).add(n if abs(7.0 ** n - ratio) < 1e-9 * ratio else -1)
        res[kind] = touched
    import shutil
    shutil.rmtree(d, ignore_errors=True)
    return res, sorted(set(generalise(p) for p in before))


def lean_strlist(name, xs, doc=""):
    d = "/-- %s -/\n" % doc if doc else ""
    return "%sdef %s : List String := [%s]\n" % (d, name, ", ".join('"%s"' % x for x in xs))


def generate_text(ctx, rng):
    out = gen_converters()
    res, allkeys = taint_converted_keys(ctx, rng)
    for kind in ("length", "temperature", "flow"):
        once = sorted(k for k, v in res[kind].items() if v == {1})
        other = sorted(k for k, v in res[kind].items() if v != {1})
        out.append(lean_strlist("converted_%s" % kind, once, "numeric leaves of the parsed input multiplied exactly once by "
                                "the %s conversion (observed by running the real convert_%s on a maximal input)" % (kind, kind)))
        out.append(lean_strlist("misconverted_%s" % kind, other, "leaves converted a different number of times"))
    out.append(lean_strlist("numeric_leaves", allkeys, "all numeric leaves present in the maximal parsed input"))
    out.append("end Dassh.Gen.C17\n")
    ctx.stats["converted"] = {k: {kk: sorted(vv) for kk, vv in v.items()} for k, v in res.items()}
    return "\n".join(out)


def generate(ctx):
    ctx.gen("C17", generate_text(ctx, random.Random(17000)))


def canon(data):
    d = copy.deepcopy({k: v for k, v in data.items() if k != 'Plot'})
    try:
        if d['Setup'].get('axial_plane') is not None:
            d['Setup']['axial_plane'] = sorted(d['Setup']['axial_plane'])     # the reader dedups through a set
        for k in ('dz', 'files', 'any', 'cols'):
            d['Setup']['Dump'].pop(k, None)                                   # run-time state added by Reactor
    except (KeyError, AttributeError):
        pass
    return d


def compare_inputs(ctx, la, b, label, case):
    lb = leaves(canon(b.data))
    bad = []
    for p, v in la.items():
        if p.startswith("Setup.Units") or p.startswith("Plot"):
            continue
        w = lb.get(p)
        if w is None or abs(v - w) > 1e-9 * max(abs(v), abs(w), 1e-300):
            bad.append((p, v, w))
    for p in lb:
        if p not in la and not p.startswith("Setup.Units"):
            bad.append((p, None, lb[p]))
    return bad


def oracle(ctx, rng, n):
    import dassh
    combos = [(l, t, m + "/" + tt) for l in LEN for t in TEMP for m in MFR_M for tt in MFR_T]
    for ci in range(n):
        case = maximal_case(rng)
        if ci % 2 == 1:
            # every other problem leaves the optional lengths of the [Setup] section to their defaults (step request, dump interval,
            # cut-off of the low-flow approximation with the approximation switched on): a default is a length, too, and must
            # come out the same whatever unit the rest of the input is written in
            case['setup'].pop('axial_mesh_size', None)
            case['setup'].pop('conv_approx_dz_cutoff', None)
            case['setup']['conv_approx'] = True
            if 'Dump' in case['setup']:
                case['setup']['Dump'].pop('interval', None)
            ctx.count("problems_with_default_setup_lengths")
        d0 = str(ctx.work / ("u%d_si" % ci))
        try:
            ref = load_input(case, d0)
        except SystemExit:
            ctx.count("rejected")
            continue
        rref = None
        ref_leaves = leaves(canon(ref.data))       # snapshot: building a Reactor later mutates the input (C16)
        picks = combos if (ctx.thorough and ci == 0) else rng.sample(combos, 8)
        for (lu, tu, mu) in picks:
            if (lu, tu, mu) == ("m", "K", "kg/s"):
                continue
            c2 = to_units(case, lu, tu, mu)
            d1 = str(ctx.work / ("u%d_x" % ci))
            ctx.evals += 1
            try:
                other = load_input(c2, d1)
            except SystemExit as ex:
                ctx.violation("c17-rejected:%s" % mu if mu not in ("kg/s",) else "c17-rejected:%s" % lu,
                              "the same problem written in (%s, %s, %s) is rejected by the input reader" % (lu, tu, mu),
                              units=(lu, tu, mu), case=c2)
                continue
            except (ValueError, KeyError, TypeError) as ex:
                ctx.violation("c17-unit-exception:%s" % mu, "reading the problem in (%s, %s, %s) raises %r" % (lu, tu, mu, ex),
                              units=(lu, tu, mu), case=c2)
                continue
            bad = compare_inputs(ctx, ref_leaves, other, (lu, tu, mu), c2)
            if bad:
                key = generalise(bad[0][0])
                ctx.violation("c17-data-differs:%s" % key, "internal data differ between SI and (%s, %s, %s) input: %s = %r vs %r"
                              % (lu, tu, mu, bad[0][0], bad[0][1], bad[0][2]), units=(lu, tu, mu), differing=bad[:8], case=c2)
                continue
            # every unit combination: the set-up built from it switches axial regions on mesh planes - a region bound that
            # is off by an ulp after conversion must not move the switch to a neighbouring step
            try:
                rq = dassh.Reactor(other, path=d1, write_output=False)
                planes = set(float(x) for x in rq.z)
                off = [(a.id, float(b)) for a in rq.assemblies for b in a.region_bnd[1:] if float(b) not in planes]
                ctx.count("setups_built")
                if off:
                    ctx.violation("c17-region-bound-off-plane", "input in (%s, %s, %s): region bound %.17g of assembly %d is not one of "
                                  "the axial planes (nearest %.17g): the region switch happens at a different step than with SI input"
                                  % (lu, tu, mu, off[0][1], off[0][0], min(planes, key=lambda x: abs(x - off[0][1]))),
                                  units=(lu, tu, mu), case=c2)
                    continue
            except SystemExit:
                ctx.count("setup_rejected")
            # same mesh and temperatures (one combination per case is swept)
            if (lu, tu, mu) == picks[0]:
                try:
                    if rref is None:
                        rref = dassh.Reactor(ref, path=d0, write_output=False)
                        gi.sweep(rref)
                    r2 = dassh.Reactor(other, path=d1, write_output=False)
                    gi.sweep(r2)
                    if len(rref.z) != len(r2.z) or np.abs(rref.z - r2.z).max() > 1e-9:
                        ctx.violation("c17-mesh-differs", "axial mesh differs between unit systems", units=(lu, tu, mu), case=c2)
                    else:
                        dev = max(np.abs(a.avg_coolant_temp - b.avg_coolant_temp) for a, b in zip(rref.assemblies, r2.assemblies))
                        if dev > 1e-6:
                            ctx.violation("c17-temps-differ", "outlet temperatures differ by %.3g K between unit systems" % dev,
                                          units=(lu, tu, mu), case=c2)
                    ctx.count("swept_pairs")
                except SystemExit:
                    ctx.count("sweep_rejected")
            import shutil
            shutil.rmtree(d1, ignore_errors=True)
        if ci < 2:
            ctx.sample(dict(kind="metamorphic", units_tried=picks[:4]))
        import shutil
        shutil.rmtree(d0, ignore_errors=True)


def run(ctx):
    rng = random.Random(17000 + ctx.seed)
    ctx.rule = ("metamorphic: one maximal problem (two assembly types, axial regions, spacer grid, fuel model, requested planes, "
                "step request, dump interval, all three boundary-condition kinds) written in 8 random (all 90 in thorough) "
                "unit combinations; non-trivial = a (problem, unit combination) pair")
    try:
        ctx.gen("C17", generate_text(ctx, random.Random(17000)))
        ok = True
    except BaseException:
        import traceback
        ctx.problem("trace-failed", "c17 generation", traceback.format_exc()[-2000:])
        ok = False
    if ok:
        ctx.prove("Dassh.Props.C17")
    oracle(ctx, rng, 6 if ctx.thorough else 2)
    ctx.nontrivial = ctx.evals
    ctx.traces = ctx.evals
    ctx.trusted += ["T1 trace of dassh.utils converters; dynamic-taint extraction of the converted keys; the hand classification "
                    "of dimensional keys in harness/checks/c17.py and Props/C17.lean is the specification"]
    ctx.assumptions += ["the literal 0.453592 kg/lb and 2.54 cm/in are taken as exact definitions of the units DASSH supports",
                        "ConfigObj parsing is exercised, not modelled"]
