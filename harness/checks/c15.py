"""C15 - reported peak temperatures are the maxima over the whole sweep.

T3: running-maximum fold model (lean/Dassh/Model/Peaks.lean) with theorems in
Props/C15.lean.  Trace validation: real reactors are driven plane by plane;
per-plane maxima recorded by the step driver are fed to the Lean model and the
result is compared (bit-exact: the bookkeeping only compares and copies) with
`Assembly._peak`; independently the recorded history is maximised in Python
(the property itself) and the summary tables are parsed and compared with state.
"""
import random
import re

import numpy as np

from harness import gen_input as gi
from harness import modelio
from harness.checks.c10 import bits, unbits

FUEL_MODEL = dict(fcgap_thickness=0.0, clad_material='ht9', r_frac=[0.0, 0.33333, 0.66667], pu_frac=[0.2, 0.2, 0.2],
                  zr_frac=[0.1, 0.1, 0.1], porosity=[0.25, 0.25, 0.25])


def shaped_power(rng, case, shape):
    """replace the generated power by one with a prescribed axial shape"""
    L = case['core']['length']
    zb = {"bottom": [0.0, round(0.2 * L, 4), L], "top": [0.0, round(0.8 * L, 4), L],
          "middle": [0.0, round(0.4 * L, 4), round(0.6 * L, 4), L], "flat": [0.0, L],
          "two-equal": [0.0, round(0.25 * L, 4), round(0.5 * L, 4), round(0.75 * L, 4), L]}[shape]
    amp = {"bottom": [1.0, 0.0], "top": [0.0, 1.0], "middle": [0.0, 1.0, 0.0], "flat": [1.0], "two-equal": [1.0, 0.0, 1.0, 0.0]}[shape]
    rows = []
    for asm in case['assignment']:
        a = gi.position_index(asm['ring'], asm['pos'])
        t = case['types'][asm['type']]
        base = rng.uniform(5e3, 3e4)
        tilt = [rng.uniform(0.7, 1.3) for _ in range(gi.n_pins(t['num_rings']))]
        for k in range(len(zb) - 1):
            for idx in range(gi.n_pins(t['num_rings'])):
                rows.append([a, 1, zb[k], zb[k + 1], idx + 1, base * amp[k] * tilt[idx]])
    case['power'] = dict(rows=rows, n_terms=1, zbnds=zb, total_power=None, scaling=1.0)


def parse_table_rows(txt):
    rows = []
    for line in txt.splitlines():
        m = re.match(r"^\s*(\d+)\s+(.*)$", line)
        if m:
            rows.append((int(m.group(1)), m.group(2).split()))
    return rows


def run(ctx):
    rng = random.Random(15000 + ctx.seed)
    ctx.rule = ("trace validation: real reactors (single and multi-region, 1-2 ducts, pin models, peak at bottom / middle / "
                "top / two equal maxima, heated and cooled by neighbours) driven plane by plane; non-trivial = one "
                "(assembly, tracked quantity) history")
    ctx.prove("Dassh.Props.C15")
    ok_driver = modelio.build_driver(ctx)
    n = 40 if ctx.thorough else 10
    reqs, expect, labels = [], [], []
    row_reqs, row_real = [], []
    for ci in range(n):
        shape = rng.choice(["bottom", "top", "middle", "flat", "two-equal"])
        n_rings_core = rng.choice([1, 1, 2])
        pos = gi.core_positions(n_rings_core)
        if n_rings_core == 2:
            pos = [p for p in pos if rng.random() < 0.5] or pos[:1]
        case = gi.random_case(rng, positions=pos, n_types=rng.choice([1, 2]), gap_model=rng.choice(['none', 'flow', 'no_flow']),
                              length=round(rng.uniform(0.1, 0.3), 3), with_power=False, flow_range=(0.3, 6.0))
        for tn in list(case['types']):
            t = case['types'][tn]
            if rng.random() < 0.5:
                gi.add_axial_regions(rng, case, tn, lower=rng.random() < 0.6, upper=rng.random() < 0.8)
            if rng.random() < 0.5:
                t['FuelModel'] = dict(FUEL_MODEL)
        shaped_power(rng, case, shape)
        if ci % 4 == 2:
            # a cold assembly with a long six-node region above a short bundle, heated through the gap by hot neighbours on some of
            # its sides only: its coolant peak occurs in the six-node region, and not in the node that happens to be listed first
            pos = [(1, 1)] + rng.sample([(2, 2), (2, 3), (2, 4), (2, 5), (2, 6)], rng.choice([1, 2]))
            case = gi.random_case(rng, positions=pos, n_types=2, gap_model=rng.choice(['flow', 'no_flow']),
                                  length=round(rng.uniform(0.15, 0.3), 3), with_power=False, flow_range=(0.5, 2.0))
            names_ = list(case['types'])
            for a_ in case['assignment']:
                a_['type'] = names_[0] if (a_['ring'], a_['pos']) == (1, 1) else names_[1]
            L_ = case['core']['length']
            case['types'][names_[0]]['AxialRegion'] = [dict(name='upper', z_lo=round(0.3 * L_, 4), z_hi=L_, vf_coolant=0.4, model='6node',
                                                            convection_factor=1.0)]
            case['types'][names_[1]].pop('AxialRegion', None)
            shaped_power(rng, case, 'flat')
            for row in case['power']['rows']:
                if int(row[0]) == 1:
                    row[5] *= 1e-3
            ctx.count("six_node_peak_cases")
        if ci % 4 == 1:
            # a core whose first position holds a type WITHOUT pin model and the others a type with one, all at different powers:
            # the pin rows of the summary tables belong to the assemblies they are labelled with
            pos = [(1, 1)] + rng.sample([(2, 1), (2, 2), (2, 3), (2, 4), (2, 5), (2, 6)], rng.choice([2, 3]))
            case = gi.random_case(rng, positions=pos, n_types=2, gap_model=rng.choice(['none', 'flow']),
                                  length=round(rng.uniform(0.1, 0.2), 3), with_power=False, flow_range=(0.5, 3.0))
            names_ = list(case['types'])
            for a_ in case['assignment']:
                a_['type'] = names_[0] if (a_['ring'], a_['pos']) == (1, 1) else names_[1]
            case['types'][names_[0]].pop('FuelModel', None)
            case['types'][names_[0]].pop('PinModel', None)
            case['types'][names_[1]]['FuelModel'] = dict(FUEL_MODEL)
            shaped_power(rng, case, shape)
            for row in case['power']['rows']:
                row[5] *= 1.0 + 0.15 * int(row[0])
            ctx.count("mixed_pin_model_cores")
        d = str(ctx.work / ("p%d" % ci))
        if ci % 2 == 1:
            gi.random_setup_options(rng, case)
        try:
            inp, r = gi.build_reactor(case, d)
        except SystemExit:
            ctx.count("rejected")
            continue
        hist = {}

        import dassh

        def record(a):
            # called right after Assembly.calculate: the fields of the plane just computed
            h = hist.setdefault(a.id, dict(cool=[], duct={}, pin={}))
            h['cool'].append((float(np.max(a.temp_coolant)), float(a.z)))
            md = np.max(a.temp_duct_mw, axis=1)
            nslot = len(a._peak['duct'])
            for k in range(md.shape[0]):
                slot = nslot - md.shape[0] + k       # outermost duct of a region is the assembly's outermost
                h['duct'].setdefault(slot, []).append((float(md[k]), float(a.z)))
            if hasattr(a.active_region, 'pin_model') and 'pin' in a._peak:
                tp = a.pin_temp_array
                for key, v in a._peak['pin'].items():
                    col = v[1]
                    j = int(np.argmax(tp[:, col]))
                    h['pin'].setdefault(key, []).append((float(tp[j, col]), list(map(float, tp[j]))))
        orig_calc = dassh.Assembly.calculate

        def wrapped(self, *args, **kw):
            out = orig_calc(self, *args, **kw)
            record(self)
            return out
        dassh.Assembly.calculate = wrapped
        try:
            gi.sweep(r)
        finally:
            dassh.Assembly.calculate = orig_calc
        ctx.evals += 1
        ctx.count("shape:" + shape)
        for a in r.assemblies:
            h = hist.get(a.id)
            if not h:
                continue
            items = [("cool", h['cool'], a._peak['cool'])]
            for slot, seq in h['duct'].items():
                items.append(("duct%d" % slot, seq, a._peak['duct'][slot]))
            for name, seq, stored in items:
                # the property, evaluated independently on the recorded history
                vmax = max(v for v, z in seq)
                zfirst = next(z for v, z in seq if v == vmax)
                if float(stored[0]) != vmax or abs(float(stored[1]) - zfirst) > 1e-9:
                    ctx.violation("c15-peak-%s" % name.rstrip("0123456789"),
                                  "assembly %d %s: stored peak (%.9g K at %.6g m) is not the maximum over the sweep "
                                  "(%.9g K first reached at %.6g m)" % (a.id, name, stored[0], stored[1], vmax, zfirst),
                                  case=case, asm=a.id, quantity=name)
                reqs.append("peak " + " ".join("%d %d" % (bits(v), bits(z)) for v, z in seq))
                expect.append((float(stored[0]), float(stored[1])))
                labels.append((ci, a.id, name, len(seq)))
            for key, seq in h['pin'].items():
                stored = a._peak['pin'][key]
                vmax = max(v for v, row in seq)
                rowfirst = next(row for v, row in seq if v == vmax)
                if float(stored[0]) != vmax or [float(x) for x in stored[2]] != rowfirst:
                    ctx.violation("c15-peak-pin", "assembly %d %s: stored pin peak / radial profile is not that of the pin and "
                                  "height where the maximum occurred" % (a.id, key), case=case, asm=a.id, quantity=key,
                                  stored=[float(stored[0])] + [float(x) for x in stored[2]], expected=[vmax] + rowfirst)
                ctx.count("pin_histories")
            # outlet / summary values are final-plane fields
        # summary tables against state
        try:
            from dassh import table as T
            ct = T.CoolantTempTable()
            ct.make(r)
            rows = parse_table_rows(ct.table)
            for i, a in enumerate(r.assemblies):
                cols = [c for (idx, c) in rows if idx == i + 1][0]
                # Name, Power, Flow, Bulk outlet, Peak outlet, Peak total, Peak+Unc, Peak height
                bulk, pk_out, pk_tot, pk_h = float(cols[3]), float(cols[4]), float(cols[5]), float(cols[7])
                exp = (float(a.avg_coolant_temp), float(np.max(a.region[-1].temp['coolant_int'])), float(a._peak['cool'][0]),
                       float(a._peak['cool'][1]))
                if max(abs(bulk - exp[0]), abs(pk_out - exp[1]), abs(pk_tot - exp[2])) > 0.0051 or abs(pk_h - exp[3]) > 0.0051:
                    ctx.violation("c15-table-coolant", "coolant summary table row %d does not show the final-plane / peak "
                                  "values of the state" % (i + 1), case=case, row=cols, expected=exp)
            ctx.count("tables_checked")
            dt = T.DuctTempTable()
            dt.make(r)
            drows = parse_table_rows(dt.table)
            for i, a in enumerate(r.assemblies):
                mine = [c for (idx, c) in drows if idx == i + 1]
                n_last = a.region[-1].temp['duct_mw'].shape[0]
                nslot = len(a._peak['duct'])
                for dnum, cols in enumerate(mine):
                    # Loc, Duct ID, 6 faces, Peak temp, Peak ht
                    shown = float(cols[-2])
                    # the row describes duct `dnum` of the last region = assembly slot nslot - n_last + dnum
                    want = float(a._peak['duct'][nslot - n_last + dnum][0])
                    if abs(shown - want) > 0.0051:
                        ctx.violation("c15-table-duct-slot", "duct summary table: the row of duct %d of assembly %d shows the peak "
                                      "%.2f K, but that duct's maximum over the sweep is %.2f K (the table pairs the outlet "
                                      "region's ducts with peak slots counted from the innermost)" % (dnum + 1, i + 1, shown, want),
                                      case=case, asm=i, row=cols)
            # pin summary tables: one row per assembly WITH pin temperatures, labelled with that assembly's number, showing the
            # radial profile stored with that assembly's peak
            for comp, regn in (('clad', 'od'), ('clad', 'mw'), ('clad', 'id'), ('fuel', 'od'), ('fuel', 'cl')):
                if not any('pin' in a._peak for a in r.assemblies):
                    break
                pt = T.PeakPinTempTable(comp, regn)
                pt.make(r)
                prow = {}
                for idx, cols in parse_table_rows(pt.table):
                    prow.setdefault(idx, cols)
                ctx.count("pin_tables_checked")
                # correspondence with Model.Peaks.pinRowLabels (c15_pin_rows_labels): the labels of the rows, in table order
                row_reqs.append("pinrows " + " ".join("1" if 'pin' in a._peak else "0" for a in r.assemblies))
                row_real.append(" ".join(str(idx) for idx, _ in parse_table_rows(pt.table)))
                for i, a in enumerate(r.assemblies):
                    has = 'pin' in a._peak
                    if has != ((i + 1) in prow):
                        ctx.violation("c15-table-pin-rows", "PEAK %s %s table: assembly %d %s pin temperatures, but the table %s a row "
                                      "labelled %d" % (comp.upper(), regn.upper(), i + 1, "has" if has else "has no",
                                                       "lacks" if has else "has", i + 1), case=case, asm=i, table=pt.table[-1500:])
                        break
                    if not has:
                        continue
                    prof = [float(x) for x in a._peak['pin'][comp + '_' + regn][2]]
                    cols = prow[i + 1]
                    # Name, Pin, Height, Power, then the nominal temperatures: coolant, clad OD/MW/ID, fuel OD/CL
                    shown = []
                    for c_ in cols[4:4 + len(prof) - 3]:
                        try:
                            shown.append(float(c_.strip('|')))
                        except ValueError:
                            pass
                    want = prof[3:3 + len(shown)]
                    if int(cols[1]) != int(prof[2]) or not shown or max(abs(x - y) for x, y in zip(shown, want)) > 0.051:
                        ctx.violation("c15-table-pin", "PEAK %s %s table: the row labelled assembly %d shows pin %s with %s, that assembly's "
                                      "stored peak profile is pin %d with %s" % (comp.upper(), regn.upper(), i + 1, cols[1], shown,
                                                                                 int(prof[2]), [round(x, 1) for x in want]),
                                      case=case, asm=i, row=cols)
                        break
        except SystemExit:
            pass
        if ci < 3:
            ctx.sample(dict(kind="sweep", shape=shape, positions=pos, steps=len(r.z) - 1,
                            regions=[len(a.region) for a in r.assemblies]))
        import shutil
        shutil.rmtree(d, ignore_errors=True)
    if ok_driver and reqs:
        bad = 0
        for rep, exp, lab in zip(modelio.ask(reqs), expect, labels):
            p = rep.split()
            got = (unbits(p[1]), unbits(p[2]))
            if got != exp:
                bad += 1
                if bad == 1:
                    ctx.problem("correspondence", "Model.Peaks.run vs Assembly._peak", "%s: model %r, implementation %r" % (lab, got, exp))
        ctx.obligation("trace validation: Model.Peaks.run reproduces Assembly._peak on %d recorded histories (bit-exact)" % len(reqs),
                       bad == 0, kind="correspondence", detail="disagreements: %d" % bad)
        ctx.traces = len(reqs)
    if ok_driver and row_reqs:
        bad = 0
        for rep, real in zip(modelio.ask(row_reqs), row_real):
            if rep.split()[1:] != real.split():
                bad += 1
                if bad == 1:
                    ctx.problem("correspondence", "Model.Peaks.pinRowLabels vs PeakPinTempTable", "model %r, table rows %r" % (rep, real))
        ctx.obligation("correspondence: Model.Peaks.pinRowLabels = row labels of %d real peak pin tables" % len(row_reqs), bad == 0,
                       kind="correspondence", detail="disagreements %d" % bad)
    ctx.nontrivial = len(reqs)
    ctx.trusted += ["hand model lean/Dassh/Model/Peaks.lean tied to Assembly._update_peak_* by trace validation"]
    ctx.assumptions += ["temperatures are in kelvin, so some plane value exceeds the initial 0.0 (hypothesis of c15_peak_is_max)",
                        "table numbers are compared with the state to print precision (0.005)"]
