"""C19 - hot-spot temperatures reduce to nominal and grow with uncertainty.

T1: `hotspot.calculate_temps` is executed on symbolic arrays (one assembly, two direct
and two statistical subfactor rows, three temperature terms) and the three cumulative
hot-spot temperatures are emitted (Gen/C19.lean, square root as an opaque function with
the usual order properties as hypotheses).  Props/C19.lean proves the property clauses.
Oracle: the real function on random tables / sigma levels, the built-in tables through
`_read_hcf_table` / `_split_clad_subfactors` / `_evaluate_hcf_expr`, and the profile clause
through `_get_peak_dt`.
"""
import os
import random

import numpy as np

from harness.trace import GEN_HEADER, Trace, rebind, symarray, to_lean

PARAMS = ["Tin", "dT_0_0", "dT_0_1", "dT_0_2"] + ["d_0_%d_%d" % (i, j) for i in range(2) for j in range(3)] \
    + ["s_0_%d_%d" % (i, j) for i in range(2) for j in range(3)] + ["INs", "OUTs"]


def gen_text():
    from dassh import hotspot
    tr = Trace()
    Tin = tr.var("Tin", 600.0)
    dT = symarray(tr, "dT", [[40.0, 15.0, 8.0]])
    direct = symarray(tr, "d", np.full((1, 2, 3), 1.05))
    stat = symarray(tr, "s", np.full((1, 2, 3), 1.1))
    INs = tr.var("INs", 3.0)
    OUTs = tr.var("OUTs", 2.0)
    T = rebind(hotspot.calculate_temps, tr)(Tin, dT, {'direct': direct, 'statistical': stat}, INs, OUTs)
    out = [GEN_HEADER.replace("import Mathlib.Algebra.Field.Defs", "import Mathlib.Algebra.Field.Defs\nimport Dassh.Lemmas.Attr"),
           "/-! traced from dassh.hotspot.calculate_temps (1 assembly, 2 direct + 2 statistical subfactor rows, 3 terms) -/\n",
           "namespace Dassh.Gen.C19\n"]
    for k in range(3):
        out.append("@[gen_defs] def hot_%d {α : Type} [Field α] (sqrtF : α → α) (%s : α) : α :=\n  %s\n"
                   % (k, " ".join(PARAMS), to_lean(T[0, k])))
    out.append("end Dassh.Gen.C19\n")
    return "\n".join(out)


def generate(ctx):
    ctx.gen("C19", gen_text())


def oracle(ctx, rng, n):
    from dassh import hotspot
    for ci in range(n):
        n_asm = rng.randint(1, 4)
        n_terms = rng.choice([1, 3, 5])
        nd, ns = rng.randint(1, 5), rng.randint(1, 6)
        dT = np.array([[rng.uniform(0, 120) for _ in range(n_terms)] for _ in range(n_asm)])
        direct = np.array([[[rng.choice([1.0, rng.uniform(1.0, 1.2)]) for _ in range(n_terms)] for _ in range(nd)] for _ in range(n_asm)])
        stat = np.array([[[rng.choice([1.0, rng.uniform(1.0, 1.3)]) for _ in range(n_terms)] for _ in range(ns)] for _ in range(n_asm)])
        Tin = rng.uniform(500, 700)
        IN, OUT = rng.randint(1, 4), rng.randint(0, 4)
        ctx.evals += 1
        nominal = Tin + np.cumsum(dT, axis=1)
        T1 = hotspot.calculate_temps(Tin, dT, {'direct': np.ones_like(direct), 'statistical': np.ones_like(stat)}, IN, OUT)
        if np.abs(T1 - nominal).max() > 1e-9:
            ctx.violation("c19-unity", "all subfactors one does not reproduce the nominal temperatures (dev %.3g)" % np.abs(T1 - nominal).max(),
                          dT=dT.tolist())
            return
        T = hotspot.calculate_temps(Tin, dT, {'direct': direct, 'statistical': stat}, IN, OUT)
        if (T < nominal - 1e-9).any():
            ctx.violation("c19-below-nominal", "hot-spot temperature below nominal", dT=dT.tolist(), direct=direct.tolist(), stat=stat.tolist())
            return
        T2 = hotspot.calculate_temps(Tin, dT, {'direct': direct, 'statistical': stat}, IN, OUT + 1)
        if (T2 < T - 1e-9).any():
            ctx.violation("c19-output-sigma", "hot-spot temperature decreases with the output confidence level", dT=dT.tolist())
            return
        zs = Tin + np.cumsum(dT * np.prod(direct, axis=1), axis=1)
        T3 = hotspot.calculate_temps(Tin, dT, {'direct': direct, 'statistical': stat}, 2 * IN, OUT)
        if np.abs((T3 - zs) * 2 - (T - zs)).max() > 1e-8 * max(1.0, np.abs(T - zs).max()):
            ctx.violation("c19-input-sigma", "statistical part does not scale inversely with the input confidence level", dT=dT.tolist())
            return
        if (np.diff(np.concatenate([np.full((n_asm, 1), Tin), T], axis=1), axis=1) < -1e-9).any():
            ctx.violation("c19-cumulative", "reported sequence is not cumulative (a later entry is below an earlier one)", dT=dT.tolist())
            return
        if ci < 3:
            ctx.sample(dict(kind="calculate_temps", n_asm=n_asm, n_terms=n_terms, n_direct=nd, n_stat=ns, IN=IN, OUT=OUT))
    # the smallest input confidence level the reader accepts must give finite temperatures
    import re
    tmpl = open(os.path.join(os.path.dirname(hotspot.__file__), 'input_template.txt')).read()
    m = re.search(r"input_sigma\s*=\s*integer\(min=(-?\d+)", tmpl)
    lo = int(m.group(1)) if m else 0
    with np.errstate(all='ignore'):
        Tlo = hotspot.calculate_temps(600.0, np.array([[30.0, 10.0, 5.0]]),
                                      {'direct': np.full((1, 2, 3), 1.05), 'statistical': np.full((1, 2, 3), 1.1)}, lo, 2)
    ctx.evals += 1
    if not np.isfinite(Tlo).all():
        ctx.violation("c19-input-sigma-zero", "input_sigma = %d is accepted by the input reader but makes the hot-spot "
                      "temperatures non-finite (division by the input confidence level)" % lo, accepted_minimum=lo)
    # built-in tables through the reading / splitting / expression pipeline
    root = os.path.join(os.path.dirname(hotspot.__file__), 'data')
    for name in hotspot._BUILTINS:
        path = os.path.join(root, 'hcf_' + name + '.csv')
        for region in hotspot._REGIONS:
            need = hotspot._COLS_NEEDED[region]
            try:
                subf, expr = hotspot._read_hcf_table(path, need)
            except SystemExit:
                continue
            n_terms = {'coolant': 1, 'clad_od': 2, 'clad_mw': 3, 'clad_id': 4, 'fuel_od': 5, 'fuel_cl': 6}[region]
            if region in ('clad_id', 'fuel_od', 'fuel_cl'):
                subf, expr = hotspot._split_clad_subfactors(subf, expr)
            dT = np.array([[rng.uniform(1, 100) for _ in range(n_terms)] for _ in range(2)])
            try:
                sf = hotspot._evaluate_hcf_expr(subf, expr, dT)
            except Exception as ex:
                ctx.violation("c19-builtin-table:%s" % name, "built-in table %s cannot be evaluated for %s: %r" % (name, region, ex))
                continue
            for typ in sf:
                sf[typ] = sf[typ][:, :, :dT.shape[1]]
            ctx.evals += 1
            T = hotspot.calculate_temps(600.0, dT, sf, 3, 2)
            nominal = 600.0 + np.cumsum(dT, axis=1)
            ok_factors = (sf['direct'] >= 1 - 1e-12).all() and (sf['statistical'] >= 1 - 1e-12).all()
            if ok_factors and (T < nominal - 1e-9).any():
                ctx.violation("c19-builtin-below-nominal", "built-in table %s gives a hot-spot temperature below nominal for %s" % (name, region))
            ctx.count("builtin_tables_evaluated")


EXPRS = ["1 + 6.0 / dT", "1.0 + 0.001 * dT", "1 + 2.0 / (dT + 10.0)", "1.02 + dT / 5000", "1 + 0.05", "1.0 + 0.1 * dT / dT"]


def oracle_expressions(ctx, rng, n):
    """user tables whose subfactors are expressions in dT - the SAME text in several columns and rows, in the cladding column (which
    is split into two rises), mixed with numbers: the factor applied to a column must be the expression evaluated with THAT
    column's temperature rise of THAT assembly.  Expected values: the same table with hand-evaluated numbers."""
    from dassh import hotspot
    d = ctx.work / "hcfexpr"
    os.makedirs(d, exist_ok=True)
    cols_all = ['Coolant', 'Film', 'Cladding', 'Gap', 'Fuel']
    for ci in range(n):
        region = rng.choice(['clad_od', 'clad_mw', 'clad_id', 'fuel_od', 'fuel_cl'])
        ncols = 5 if region.startswith('fuel') or rng.random() < 0.3 else 3
        nrows = rng.randint(2, 6)
        pool = rng.sample(EXPRS, rng.randint(1, 3))
        rows = []
        for r_ in range(nrows):
            typ = rng.choice(['Direct', 'Statistical'])
            vals = [rng.choice(pool) if rng.random() < 0.55 else repr(round(rng.uniform(1.0, 1.2), 4)) for _ in range(ncols)]
            rows.append(("sf%d" % r_, typ, vals))
        if not any(t == 'Direct' for _, t, _ in rows):
            rows[0] = (rows[0][0], 'Direct', rows[0][2])
        if not any(t == 'Statistical' for _, t, _ in rows):
            rows[-1] = (rows[-1][0], 'Statistical', rows[-1][2])
        path = str(d / ("t%d.csv" % ci))
        with open(path, "w") as f:
            f.write(",".join(['Subfactor', 'Type'] + cols_all[:ncols]) + "\n")
            for name, typ, vals in rows:
                f.write(",".join([name, typ] + vals) + "\n")
        n_terms = {'clad_od': 2, 'clad_mw': 3, 'clad_id': 4, 'fuel_od': 5, 'fuel_cl': 6}[region]
        split = region in ('clad_id', 'fuel_od', 'fuel_cl')
        n_asm = rng.randint(1, 4)
        dT = np.array([[rng.uniform(5, 150) for _ in range(n_terms)] for _ in range(n_asm)])
        if rng.random() < 0.3:
            dT[rng.randrange(n_asm), rng.randrange(n_terms)] = 0.0      # a rise of exactly zero (e.g. no fuel-clad gap)
        try:
            subf, expr = hotspot._read_hcf_table(path, hotspot._COLS_NEEDED[region])
            if split:
                subf, expr = hotspot._split_clad_subfactors(subf, expr)
            sf = hotspot._evaluate_hcf_expr(subf, expr, dT)
        except SystemExit:
            ctx.count("expression_tables_rejected")
            continue
        except Exception as ex:
            ctx.evals += 1
            ctx.violation("c19-expression-table-crash:%s" % type(ex).__name__, "a subfactor table with dT expressions cannot be used for "
                          "the hot-spot temperature %s (%d rises): %r - an expression stands in a column this location does not use"
                          % (region, n_terms, ex), table=open(path).read(), region=region,
                          call="hotspot._read_hcf_table / _split_clad_subfactors / _evaluate_hcf_expr as in hotspot.analyze")
            continue
        for typ_ in sf:
            sf[typ_] = sf[typ_][:, :, :dT.shape[1]]          # as hotspot.analyze does
        ctx.evals += 1
        ctx.count("expression_tables")
        # expected: column j of the (split) table belongs to rise j; its source column in the file
        src = (lambda j: j if j < 3 else j - 1) if split else (lambda j: j)
        for typ in ('Direct', 'Statistical'):
            mine = [vals for _, t, vals in rows if t == typ]
            got = np.asarray(sf[typ.lower()], dtype=float)
            for a in range(n_asm):
                for r_, vals in enumerate(mine):
                    for j in range(min(n_terms, got.shape[2])):
                        if src(j) >= len(vals):
                            continue
                        txt = vals[src(j)]
                        try:
                            want = float(txt)
                        except ValueError:
                            # (the reader's rule for a factor that cannot be evaluated - 1/0, 0/0 at a zero rise - is the neutral 1.0)
                            with np.errstate(all='ignore'):
                                want = float(eval(txt, {"__builtins__": {}}, {"dT": np.float64(dT[a, j])}))
                            if not np.isfinite(want):
                                want = 1.0
                        if abs(got[a, r_, j] - want) > 1e-12 * max(1.0, abs(want)):
                            ctx.violation("c19-expression-column", "subfactor table with expressions (%s): assembly %d, %s row %d, rise %d "
                                          "(file column %s, entry %r, rise %.6g K): factor %.9g applied, %.9g expected - the expression "
                                          "was evaluated with another rise" % (region, a, typ, r_, j, cols_all[src(j)], txt,
                                                                               dT[a, j], got[a, r_, j], want),
                                          table=open(path).read(), dT=dT.tolist(), region=region)
                            return


UNITY = "Subfactor,Type,Coolant,Film,Cladding,Gap,Fuel\nPower,Direct,1,1,1,1,1\nFlow,Direct,1.0,1,1,1,1\nProperties,Statistical,1,1,1,1,1\nFilm HTC,Statistical,1,1.0,1,1,1\n"
SKEWED = "Subfactor,Type,Coolant,Film,Cladding,Gap,Fuel\nPower,Direct,1.05,1.02,1.02,1.04,1.03\nFlow,Direct,1.03,1,1,1,1\nProperties,Statistical,1.02,1.1,1.05,1.2,1.1\nFilm HTC,Statistical,1,1.12,1,1,1\n"
_IDX = {'clad_od': 5, 'clad_mw': 6, 'clad_id': 7, 'fuel_od': 8, 'fuel_cl': 9}


def oracle_one_kind_tables(ctx, rng, n):
    """subfactor tables that hold only direct rows, or only statistical rows (the built-in EBR-II table has a single direct
    row; a table of statistical uncertainties alone is a legitimate request): read, evaluated and combined like any other -
    the result equals that of the same table with a neutral row (all ones) of the missing kind"""
    from dassh import hotspot
    for ci in range(n):
        ncol = rng.choice([3, 5])
        hdr = "Subfactor,Type,Coolant,Film,Cladding" + (",Gap,Fuel" if ncol == 5 else "")
        kind = rng.choice(['Direct', 'Statistical'])
        rows = ["f%d,%s,%s" % (k, kind, ",".join("%.4f" % rng.uniform(1.0, 1.3) for _ in range(ncol))) for k in range(rng.choice([1, 2, 3]))]
        other = 'Statistical' if kind == 'Direct' else 'Direct'
        neutral = "n,%s,%s" % (other, ",".join("1.0" for _ in range(ncol)))
        d = ctx.work / ("onekind%d" % ci)
        d.mkdir(parents=True, exist_ok=True)
        p1, p2 = str(d / "a.csv"), str(d / "b.csv")
        open(p1, "w").write(hdr + "\n" + "\n".join(rows) + "\n")
        open(p2, "w").write(hdr + "\n" + "\n".join(rows + [neutral]) + "\n")
        dT = np.array([[rng.uniform(50, 200)] + [rng.uniform(1, 40) for _ in range(ncol - 1)] for _ in range(2)])
        ctx.evals += 1
        ctx.count("one_kind_tables:" + kind)
        try:
            out = []
            for p_ in (p1, p2):
                hcf, expr = hotspot._read_hcf_table(p_)
                sf = hotspot._evaluate_hcf_expr(hcf, expr, dT)
                out.append(np.asarray(hotspot.calculate_temps(650.0, dT, sf, 3, 2), dtype=float))
        except SystemExit:
            ctx.violation("c19-one-kind-table:rejected", "a subfactor table with %s rows only is refused" % kind, table=open(p1).read())
            continue
        except Exception as ex:
            ctx.violation("c19-one-kind-table:%s" % type(ex).__name__, "a subfactor table with %s rows only cannot be evaluated: %r"
                          % (kind, ex), table=open(p1).read())
            continue
        nominal = 650.0 + np.cumsum(dT, axis=1)
        if np.abs(out[0] - out[1]).max() > 1e-9 or (out[0] < nominal - 1e-9).any() or not np.isfinite(out[0]).all():
            ctx.violation("c19-one-kind-table:value", "a subfactor table with %s rows only gives %s; with a neutral %s row added %s; nominal %s"
                          % (kind, out[0].tolist(), other, out[1].tolist(), nominal.tolist()), table=open(p1).read())


def oracle_analyze(ctx, rng, n):
    """end to end through hotspot.analyze on real swept reactors: several assembly types request a hot spot, their assemblies
    interleave in the core numbering; every assembly's reported hot-spot must be computed from ITS OWN nominal peak (unity table:
    equal to it; other tables: equal to calculate_temps of its own increments)"""
    import shutil
    from dassh import hotspot
    from harness import gen_input as gi
    fuel = dict(gap_thickness=0.0, clad_material='ht9', r_frac=[0.0, 0.33333, 0.66667], pu_frac=[0.2, 0.2, 0.2],
                zr_frac=[0.1, 0.1, 0.1], porosity=[0.25, 0.25, 0.25])
    for ci in range(n):
        d = str(ctx.work / ("hs%d" % ci))
        os.makedirs(d, exist_ok=True)
        table = UNITY if ci % 2 == 0 else SKEWED
        path = os.path.join(d, "hcf_user.csv")
        open(path, "w").write(table)
        pos = [(1, 1)] + [p for p in gi.core_positions(2)[1:] if rng.random() < 0.8]
        n_types = rng.choice([2, 2, 3])
        case = gi.random_case(rng, positions=pos, n_types=n_types, gap_model=rng.choice(['none', 'flow']), length=0.1, flow_range=(1.0, 5.0),
                              type_kw=dict(n_duct=1))
        names = list(case['types'])
        rng.shuffle(names)                         # the type listed first need not own the lowest assembly numbers
        case['types'] = {k: case['types'][k] for k in names}
        for i, a in enumerate(case['assignment']):
            a['type'] = names[i % n_types] if rng.random() < 0.8 else rng.choice(names)
        where = rng.choice(['clad_od', 'clad_mw', 'clad_id', 'fuel_od', 'fuel_cl']) if ci % 4 != 3 else 'coolant'
        for tn in names:
            if where != 'coolant' or rng.random() < 0.4:
                case['types'][tn]['FuelModel'] = dict(fuel)          # (a coolant hot spot needs no pin model)
            case['types'][tn]['Hotspot'] = {'hs': dict(temperature=where, input_sigma=3, output_sigma=2, subfactors=path)}
        gi.random_power(rng, case)
        if ci % 2 == 1 or where in ('clad_od', 'clad_id', 'fuel_od'):
            # axially peaked pin power (low - high - low) with a random tilt over the pins: the peaks of the different radial
            # locations then lie at different heights and in different pins (coolant-dominated ones near the top, power-dominated
            # ones in the high-power zone), so the rises must be those at the requested location's own peak
            L_ = case['core']['length']
            zb_ = [0.0, round(0.35 * L_, 4), round(0.6 * L_, 4), L_]
            amp_ = [rng.uniform(0.2, 0.5), 1.0, rng.uniform(0.05, 0.3)]
            rows_ = []
            for asm_ in case['assignment']:
                a_i = gi.position_index(asm_['ring'], asm_['pos'])
                npin_ = gi.n_pins(case['types'][asm_['type']]['num_rings'])
                base_ = rng.uniform(8e3, 3e4)
                for k_ in range(3):
                    tilt_ = [rng.uniform(0.6, 1.4) for _ in range(npin_)]
                    for idx_ in range(npin_):
                        rows_.append([a_i, 1, zb_[k_], zb_[k_ + 1], idx_ + 1, base_ * amp_[k_] * tilt_[idx_]])
            case['power'] = dict(rows=rows_, n_terms=1, zbnds=zb_, total_power=None, scaling=1.0)
            ctx.count("analyze_cases_axially_peaked")
        best = {}

        def cb(i, z, dz):
            # independent record of every assembly's nominal peak at the requested location: the pin row (coolant, clad, fuel
            # temperatures of one pin at one height) with the largest value so far, first occurrence
            for a in r.assemblies:
                tp = a.pin_temp_array if where != 'coolant' else None
                if tp is None:
                    continue
                col = _IDX[where] - 1
                k = int(np.argmax(tp[:, col]))
                if a.id not in best or tp[k, col] > best[a.id][col]:
                    best[a.id] = np.array(tp[k], dtype=float).copy()
        try:
            inp, r = gi.build_reactor(case, d)
            gi.sweep(r, cb)
        except SystemExit:
            ctx.count("analyze_case_rejected")
            shutil.rmtree(d, ignore_errors=True)
            continue
        ctx.evals += 1
        unused = [tn for tn in names if not any(a.name == tn for a in r.assemblies)]
        if unused:
            ctx.count("analyze_cases_with_an_unassigned_type")
        try:
            out = hotspot.analyze(r)
        except Exception as ex:
            ctx.violation("c19-analyze-crash:%s%s" % (type(ex).__name__, ":unassigned-type" if unused else ""),
                          "hotspot.analyze fails after the sweep with %r%s" % (ex, (" - the assembly type(s) %s request a hot spot but are "
                                                                                 "assigned to no position" % unused) if unused else ""),
                          case=case, unassigned_types=unused)
            shutil.rmtree(d, ignore_errors=True)
            continue
        if out is None or where not in out[0]:
            ctx.violation("c19-analyze-missing", "hotspot.analyze returns nothing for the requested location %s" % where, case=case)
            shutil.rmtree(d, ignore_errors=True)
            continue
        temps, ids = out
        ids = list(ids[where])
        for a in r.assemblies:
            if a.id not in best:
                continue
            own = np.array([r.inlet_temp] + list(best[a.id][3:_IDX[where]]), dtype=float)
            dT = (own[1:] - own[:-1])[None, :]
            if a.id not in ids:
                ctx.violation("c19-analyze-missing", "assembly %d requested a hot spot but is not in the result" % a.id, case=case)
                break
            got = np.asarray(temps[where][ids.index(a.id)], dtype=float)
            if table is UNITY:
                want = own[1:]
            else:
                subf, expr = hotspot._read_hcf_table(path, hotspot._COLS_NEEDED[where])
                if where in ('clad_id', 'fuel_od', 'fuel_cl'):
                    subf, expr = hotspot._split_clad_subfactors(subf, expr)
                sf = hotspot._evaluate_hcf_expr(subf, expr, dT)
                for typ in sf:
                    sf[typ] = sf[typ][:, :, :dT.shape[1]]
                want = hotspot.calculate_temps(r.inlet_temp, dT, sf, 3, 2)[0]
            ctx.count("analyze_assemblies_checked")
            if np.abs(got - want).max() > 1e-8:
                ctx.violation("c19-analyze-wrong-assembly" if table is not UNITY else "c19-analyze-unity",
                              "assembly %d (%s): hot-spot %s reported by hotspot.analyze is %s but the %s from its own nominal peak "
                              "temperatures %s is %s" % (a.id, a.name, where, got.tolist(), "value" if table is not UNITY else
                                                         "unity-table value", own[1:].tolist(), want.tolist()),
                              case=case, table=table, ids=ids, names=[b.name for b in r.assemblies])
                break
        if ci < 2:
            ctx.sample(dict(kind="analyze", positions=pos, types=[a.name for a in r.assemblies], where=where, unity=table is UNITY))
        shutil.rmtree(d, ignore_errors=True)


def sort_correspondence(ctx, rng, n):
    """Model/HotspotSort.lean vs the sorting block of the real hotspot.analyze: mock reactors (several types declared in random
    order, ids interleaved, every assembly with its own distinguishable nominal temperatures), unity table; which row ends up
    next to which id must be what the model says"""
    import types as _types
    from dassh import hotspot
    from harness import modelio
    if not modelio.build_driver(ctx):
        return
    d = str(ctx.work / "hssort")
    os.makedirs(d, exist_ok=True)
    path = os.path.join(d, "unity.csv")
    open(path, "w").write(UNITY)
    reqs, obs = [], []
    for k in range(n):
        n_asm = rng.randint(2, 9)
        n_typ = rng.randint(1, min(4, n_asm))
        names = ["ty%d" % i for i in range(n_typ)]
        owner = [rng.choice(names) for _ in range(n_asm)]
        for i, nm in enumerate(names):        # every type occurs
            owner[i % n_asm] = nm if nm not in owner else owner[i % n_asm]
        order = names[:]
        rng.shuffle(order)
        asms = []
        for aid in range(n_asm):
            tc = 700.0 + 13.0 * aid
            row = [0.0, 1.0, 100.0, tc, tc + 5.0 + aid, tc + 11.0 + 2 * aid, tc + 20.0, tc + 60.0, tc + 300.0]
            peak = {'cool': (tc + 2.0, 1.0), 'pin': {kk: [row[j + 4], j + 4, list(row)] for j, kk in
                                                    enumerate(['clad_od', 'clad_mw', 'clad_id', 'fuel_od', 'fuel_cl'])}}
            asms.append(_types.SimpleNamespace(id=aid, name=owner[aid], _peak=peak))
        present = [nm for nm in order if nm in owner]
        hs = {'clad_mw': {'input_sigma': 3, 'output_sigma': 2, 'subfactors': path}}
        r = _types.SimpleNamespace(inlet_temp=650.0, assemblies=asms, _options={'hotspot': {nm: dict(hs) for nm in present}})
        temps, ids = hotspot.analyze(r)
        concat = [a.id for nm in present for a in asms if a.name == nm]      # concatenation order of the per-type results
        # identify the row next to every id by its (unique) coolant temperature
        got = []
        for i, rid in zip(ids['clad_mw'], np.asarray(temps['clad_mw'], dtype=float)):
            src = int(round((rid[0] - 700.0) / 13.0))          # assembly whose nominal temperatures this row holds
            got.append("%d:%d" % (int(i), concat.index(src)))
        reqs.append("hssort " + " ".join(map(str, concat)))
        obs.append(got)
    bad = 0
    for rep, got, rq in zip(modelio.ask(reqs), obs, reqs):
        parts = rep.split()
        if parts[0] != "ok" or parts[1:] != got:
            bad += 1
            if bad == 1:
                ctx.problem("correspondence", "Model.HotspotSort.sortById vs hotspot.analyze",
                            "%s -> model %s, code %s" % (rq, parts[1:], got))
    ctx.obligation("correspondence: Model.HotspotSort.sortById = id/row pairing of hotspot.analyze on %d mock reactors" % n,
                   bad == 0, kind="correspondence", detail="disagreements %d" % bad)
    ctx.evals += n
    import shutil
    shutil.rmtree(d, ignore_errors=True)


def run(ctx):
    rng = random.Random(19000 + ctx.seed)
    ctx.rule = ("oracle: random subfactor tables (1-4 assemblies, 1/3/5 terms, 1-6 rows), sigma levels 0-4; all built-in tables x "
                "six temperature locations through the reading / splitting / expression pipeline")
    try:
        ctx.gen("C19", gen_text())
        ok = True
    except BaseException:
        import traceback
        ctx.problem("trace-failed", "c19 tracer", traceback.format_exc()[-1500:])
        ok = False
    if ok:
        ctx.prove("Dassh.Props.C19")
    oracle(ctx, rng, 400 if ctx.thorough else 80)
    oracle_expressions(ctx, rng, 200 if ctx.thorough else 40)
    oracle_one_kind_tables(ctx, rng, 60 if ctx.thorough else 12)
    oracle_analyze(ctx, rng, 12 if ctx.thorough else 4)
    ctx.prove("Dassh.Props.C19Sort")
    sort_correspondence(ctx, rng, 200 if ctx.thorough else 60)
    ctx.nontrivial = ctx.evals
    ctx.traces = ctx.evals
    ctx.trusted += ["T1 trace of hotspot.calculate_temps at a fixed small shape (2+2 subfactor rows, 3 terms); other shapes are "
                    "covered by the oracle"]
    ctx.assumptions += ["the square root is an opaque function assumed non-negative, monotone on non-negative arguments and zero "
                        "at zero (satisfied by Real.sqrt: see the example in Props/C19.lean)",
                        "input_sigma > 0 (input_sigma = 0 is accepted by the reader and divides by zero: recorded finding)"]
