"""C01 - every assembly coolant energy balance closes at every axial step.

T1b: the real interior update (`_calc_coolant_int_temp` + `_calc_int_sc_power` +
`update_ebal`, constants from the real `_setup_ht_constants` chain, mass flows from
`sc_mfr`) is executed symbolically on complete 7- and 19-pin bundles; the
enthalpy-flow change summed over all subchannels and the code's own energy
tallies are emitted as Lean definitions, and Props/C01.lean proves them equal
for all temperatures, powers, film coefficients, properties and step sizes.
The bypass update and the low-fidelity updates are treated the same way.
The implementation-level oracle drives real reactors plane by plane and checks
the per-step balance of every assembly.
"""
import random

import numpy as np

from harness import bundle_trace as bt
from harness import dasshutil as du
from harness import gen_input as gi
from harness.trace import GEN_HEADER, Sym, Trace, rename, substitute, to_lean, used_vars

ENV_FIELDS = ["L00", "L01", "P", "L12", "L22", "dpp", "dpw", "wc_0_0", "wc_0_1", "wc_1_0", "wc_1_1", "dwall_0", "dwall_1",
              "dbyp_0", "Lb56_0", "Lb66_0", "A_0", "A_1", "A_2", "Ab", "Abyp_0_0", "Abyp_0_1", "Abtot_0", "mdot", "mbyp_0",
              "fs_0", "fs_1", "fs_2", "h_1", "h_2", "hb_0_0", "hb_0_1", "eddy", "sw_1", "sw_2", "rho", "cp", "k", "sf",
              "kw", "sixth", "dz"]


def _total(xs):
    t = 0
    for x in xs:
        t = t + x
    return t


def trace_bundle(rng, n_ring, n_duct, wwdir, conv_approx):
    o, rr, tr = bt.sym_region(rng, n_ring, n_duct, wwdir=wwdir, conv_approx=conv_approx)
    dT, ep, ed, mfr, qp, qc, dz = bt.trace_int_step(o, tr)
    cp = o.coolant.heat_capacity
    lhs = _total(mfr[i] * cp * dT[i] for i in range(len(dT)))
    rhs = ep + _total(ed)
    out = dict(lhs=lhs, rhs=rhs, power=ep, qsum=dz * (_total(qp) + _total(qc)))
    if n_duct > 1:
        dTb, dzb = bt.trace_byp_step(o, tr)
        # bypass subchannel mass flow: m_byp * A_cell / A_tot  (RoddedRegion stores areas per type)
        sc = rr.subchannel
        nd = sc.n_sc['duct']['total']
        start = sc.n_sc['coolant']['total'] + nd
        ty = sc.type[start:start + nd] - 5
        mb = [o.byp_flow_rate[0] * o.bypass_params['area'][0, t] / o.bypass_params['total area'][0] for t in ty]
        out['byp_lhs'] = _total(mb[j] * cp * dTb[0][j] for j in range(nd))
        out['byp_rhs'] = _total(o.ebal['duct_byp_in'][0]) + _total(o.ebal['duct_byp_out'][0])
        out['byp_mass'] = (_total(mb), o.byp_flow_rate[0], n_bypass_cells(rr))
    return out, rr, tr


def n_bypass_cells(rr):
    return rr.subchannel.n_sc['duct']['total']


def state_fields(exprs):
    vs = []
    for v in used_vars(exprs):
        if v not in ENV_FIELDS and v not in vs:
            vs.append(v)
    return sorted(vs)


def _mapper(state_vars):
    sv = set(state_vars)

    def f(name):
        if name in ENV_FIELDS:
            return "e." + name
        if name in sv:
            return "s." + name
        return None
    return f


def generate_text(ctx, rng):
    out = [GEN_HEADER.replace("import Mathlib.Algebra.Field.Defs", "import Mathlib.Algebra.Field.Defs\nimport Dassh.Lemmas.Attr"),
           "/-! traced from dassh.region_rodded (interior and bypass coolant updates with their energy tallies) -/\n",
           "namespace Dassh.Gen.C01\n", "structure Env (α : Type) where"]
    out += ["  %s : α" % f for f in ENV_FIELDS]
    out.append("")
    info = {}
    configs = [("n2", 2, 1, "clockwise", False), ("n2ccw", 2, 1, "counterclockwise", False),
               ("n2ca", 2, 1, "clockwise", True), ("n3", 3, 1, "clockwise", False),
               ("n2d2", 2, 2, "clockwise", False), ("n2d2ca", 2, 2, "clockwise", True)]
    if ctx.thorough:
        configs += [("n3ccw", 3, 1, "counterclockwise", False), ("n3d2", 3, 2, "clockwise", False)]
    for tag, n_ring, n_duct, wwdir, ca in configs:
        ex, rr, tr = trace_bundle(rng, n_ring, n_duct, wwdir, ca)
        allx = [ex['lhs'], ex['rhs']] + ([ex['byp_lhs'], ex['byp_rhs']] if 'byp_lhs' in ex else [])
        sv = state_fields(allx)
        out.append("structure St_%s (α : Type) where" % tag)
        out += ["  %s : α" % v for v in sv]
        out.append("")
        mp = _mapper(sv)
        names = [("lhs", ex['lhs']), ("rhs", ex['rhs']), ("qsum", ex['qsum']), ("power", ex['power'])]
        # exchange-only part: no wall convection, no heat sources
        tr2 = Trace()
        zero = {v: 0 for v in sv if v.startswith("qp_") or v.startswith("qc_")}
        ni = int(rr.subchannel.n_sc['coolant']['interior'])
        for j in range(int(rr.subchannel.n_sc['duct']['total'])):
            # wall at the temperature of the adjacent coolant cell: no wall heat transfer
            zero["Ts_0_0_%d" % j] = tr2.var("T_%d" % (ni + j), 650.0)
            zero["Tmw_0_%d" % j] = tr2.var("T_%d" % (ni + j), 650.0)
        names.append(("exch", substitute(ex['lhs'], zero, tr2)))
        if 'byp_lhs' in ex:
            names += [("byp_lhs", ex['byp_lhs']), ("byp_rhs", ex['byp_rhs'])]
        for nm, x in names:
            trn = Trace()
            xr = rename(x, mp, trn) if isinstance(x, Sym) else Trace().const(x)
            out.append("@[gen_defs] def %s_%s {α : Type} [Field α] (e : Env α) (s : St_%s α) : α :=\n  %s\n"
                       % (nm, tag, tag, to_lean(xr)))
        info[tag] = dict(n_ring=n_ring, n_duct=n_duct, wire=wwdir, conv_approx=ca, cells=int(rr.subchannel.n_sc['coolant']['total']),
                         pins=int(rr.n_pin), lhs_size=ex['lhs'].size)
    out.append("end Dassh.Gen.C01\n")
    return "\n".join(out), info


GNAME = {(1, 1): "G00", (1, 2): "G01", (2, 2): "G11", (2, 3): "G12"}


def generate_general(ctx):
    """every ring count: (a) the traced per-class neighbour weights in energy form are the symmetric pair coefficients of
    Lemmas/BundleForm.lean (+ one swirl constant for the donor) - one generated theorem per (class, neighbour role);
    (b) instances of Lemmas/Exchange.lean for the real tables of every ring count 2..20"""
    import re
    from harness.checks import c04, c08
    defs = c04.generate(ctx)                      # Gen/C04.lean as of the current source
    c08.generate(ctx, c08.FULL_N)                 # Gen/C08T<n>.lean as of the current source
    L = ["-- GENERATED by /verif/harness (C01, every ring count): energy form of the traced class weights.",
         "import Dassh.Lemmas.BundleForm", "import Dassh.Lemmas.Attr", "import Mathlib.Tactic.FieldSimp", "import Mathlib.Tactic.Ring", "",
         "namespace Dassh.Gen.C01Roles", "open Dassh.Gen.C04 Dassh.BundleForm", "",
         "variable {K : Type} [Field K]", "", "set_option linter.unusedVariables false", "",
         "set_option hygiene false in",
         "macro \"role_tac\" : tactic => `(tactic| (",
         "  obtain ⟨n1, n2, n3, n4, n5, n6, n7, n8, n9, n10, n11, n12, n13⟩ := hn",
         "  simp only [gen_defs, mcp0, mcp1, mcp2, G00, G01, G11, G12, Csw, kappa, hsw]",
         "  field_simp",
         "  try ring))", ""]
    names = []
    roles = 0
    for key in sorted(k[len("Tnew_"):] for k in defs if k.startswith("Tnew_int_")):
        m = re.match(r"int_(\d)_(\d+)_(std|ca)(?:_d(\d))?$", key)
        a, nbt, donor = int(m.group(1)), [int(c) for c in m.group(2)], (int(m.group(4)) if m.group(4) else None)
        for k, b in enumerate(nbt):
            pair = (min(a, b), max(a, b))
            if pair not in GNAME:
                ctx.problem("trace-shape", "c01 roles", "class %s has a neighbour pair of types %s without energy-form coefficient" % (key, pair))
                continue
            rhs = "%s e" % GNAME[pair] + (" + Csw e" if donor == k else "")
            nm = "role_%s_n%d" % (key, k)
            L.append("theorem %s (e : Env K) (hn : NZ e) (hsw : e.sw_1 = e.sw_2) :\n    mcp%d e * WTn%d_%s e = (%s) * e.dz := by\n  role_tac\n"
                     % (nm, a - 1, k, key, rhs))
            names.append(nm)
            roles += 1
        for k in range(len(nbt), 5):
            nm = "role_%s_n%d" % (key, k)
            L.append("theorem %s (e : Env K) : WTn%d_%s e = 0 := by\n  simp only [gen_defs]\n" % (nm, k, key))
            names.append(nm)
    L.append("end Dassh.Gen.C01Roles\n")
    ctx.gen("C01Roles", "\n".join(L))
    ctx.count("role_identities", roles)
    # (b) per ring count
    ns = c08.FULL_N
    A = ["-- GENERATED by /verif/harness (C01, every ring count): exchange cancels on the real tables.",
         "import Dassh.Lemmas.Exchange"] + ["import Dassh.Gen.C08T%d" % n for n in ns] + ["", "namespace Dassh.Gen.C01All",
         "open Finset Dassh.Table Dassh.Exchange", ""]
    for n in ns:
        t = "Dassh.Gen.C08T%d" % n
        for tag, don in (("cw", "donorCW"), ("ccw", "donorCCW")):
            A.append("theorem exch_n%d_%s {K : Type} [Field K] [LinearOrder K] [IsStrictOrderedRing K] (g : Nat → Nat → K) (hg : ∀ a b, g a b = g b a)\n"
                     "    (c : K) (mcp : Nat → K) (hm : ∀ a, mcp a ≠ 0) (T q : Nat → K) :\n"
                     "    ∑ i ∈ range %s.ncool, mcp (%s.tyf i) * (bundleStep %s.tyf %s.nb (donorN %s.nint %s.%s) g c mcp T q i - T i)\n"
                     "      = ∑ i ∈ range %s.ncool, q i :=\n"
                     "  bundle_conservation %s.cert_sym (donorRingCert_sound %s.nint_le %s.cert_donor_ring_%s) g hg c mcp hm T q\n"
                     % (n, tag, t, t, t, t, t, t, don, t, t, t, t, tag))
    A.append("def ringCounts : List Nat := [%s]" % ", ".join(map(str, ns)))
    A.append("end Dassh.Gen.C01All\n")
    ctx.gen("C01All", "\n".join(A))
    return names


def generate_unrodded(ctx):
    """Low-fidelity regions (single-node and six-node, low-flow approximation on/off, coupled or adiabatic wall): the real
    `_calc_coolant_temp` is executed symbolically WITH its energy tallies (the real `update_ebal`); Gen/C01Ur.lean holds one
    theorem per variant: the enthalpy-flow change of all nodes equals the tallied power plus the tallied wall heat, the tallied
    power is q dz, and (six-node) the conduction between the nodes sums to zero - for all temperatures, powers, film
    coefficients, properties, flows and step sizes."""
    import re
    import dassh.region_unrodded as UR
    from harness.checks import c04
    from harness.trace import NpProxy, rebind
    L = ["-- GENERATED by /verif/harness (C01, low-fidelity regions): traced from dassh.region_unrodded._calc_coolant_temp + update_ebal.",
         "import Mathlib.Algebra.Order.Field.Basic", "import Mathlib.Tactic.FieldSimp", "import Mathlib.Tactic.Ring", "",
         "namespace Dassh.Gen.C01Ur", "", "variable {K : Type} [Field K] [LinearOrder K] [IsStrictOrderedRing K]", "",
         "set_option linter.unusedVariables false", ""]
    names = []
    fix = lambda t: re.sub(r"\((\d+) : α\)", r"(\1 : K)", t)
    for model, cls in (("simple", UR.SingleNodeHomogeneous), ("6node", UR.MultiNodeHomogeneous)):
        for conv_approx in (False, True):
            for adiabatic in (False, True):
                tag = "%s_%s%s" % ("simple" if model == "simple" else "six", "ca" if conv_approx else "std", "_adiab" if adiabatic else "")
                try:
                    o, tr, reg, nn, dz, q = c04.sym_unrodded(model, cls, conv_approx)
                    o.ebal = {'power': tr.const(0), 'duct': NpProxy(tr).zeros(6)}
                    dT = np.atleast_1d(rebind(cls._calc_coolant_temp, tr)(o, dz, {'refl': q}, adiabatic, True))
                except Exception:
                    import traceback
                    ctx.problem("trace-failed", "c01 unrodded " + tag, traceback.format_exc()[-800:])
                    continue
                msym = o.flow_rate if model == "simple" else o._scfr
                cp = o.coolant.heat_capacity
                lhs = _total(msym * cp * dT[i] for i in range(nn))
                ep = o.ebal['power']
                ed = _total(list(np.ravel(o.ebal['duct'])))
                if not isinstance(ed, Sym):
                    ed = tr.const(ed)
                vs = sorted(used_vars([lhs, ep, ed]))
                params = [v for v in vs if not re.match(r"T_\d+$|Tmw_\d+_\d+$|Ts_\d+_\d+_\d+$|q$", v)]
                hyps = " ".join("(h_%s : 0 < %s)" % (v, v) for v in params)
                tr2 = Trace()
                ident = lambda v: v
                txt = lambda e: fix(to_lean(rename(e, ident, tr2)))
                # exchange-only part: no power, wall at the coolant temperature of the node it faces
                zero = {'q': 0}
                for j in range(6):
                    own = tr2.var("T_%d" % (j if nn == 6 else 0), 650.0)
                    zero["Ts_0_0_%d" % j] = own
                    zero["Tmw_0_%d" % j] = own
                exch = fix(to_lean(substitute(rename(lhs, ident, tr2), zero, tr2)))
                nm = "ur_balance_" + tag
                L.append("/-- %s model%s%s: %d node(s) -/" % (model, ", low-flow approximation" if conv_approx else "",
                                                             ", adiabatic wall" if adiabatic else "", nn))
                L.append("theorem %s (%s : K) %s :\n    %s = %s + (%s)\n    ∧ %s = q * dz\n    ∧ %s = 0 := by"
                         % (nm, " ".join(vs), hyps, txt(lhs), txt(ep), txt(ed), txt(ep), exch))
                L.append("  refine ⟨by first | (field_simp; ring) | field_simp | ring, by first | ring | (field_simp; ring) | field_simp, "
                         "by first | ring | (field_simp; ring) | field_simp⟩\n")
                names.append("Dassh.Gen.C01Ur." + nm)
                ctx.count("unrodded_variants_traced")
    L.append("end Dassh.Gen.C01Ur\n")
    ctx.gen("C01Ur", "\n".join(L))
    return names


def generate_carryover(ctx):
    """Region change: the real `_activate_base` (new region's coolant nodes := mixed mean of the old region) and the real mixed-mean
    properties (`avg_coolant_temp` / `avg_coolant_int_temp` of the rodded and the low-fidelity regions) are executed symbolically on
    pairs of real regions.  Gen/C01Carry.lean: per pair a theorem - the mixed mean of the NEW region after activation equals the mixed
    mean of the OLD region, for all temperatures of the old region, provided the new region's own weights sum to one (for a bundle: its
    subchannel flows sum to its flow rate - C12's mass conservation; stated as hypothesis)."""
    import copy
    import re
    import dassh
    import dassh.region_unrodded as UR
    from harness.trace import NpProxy, rebind, symarray
    L = ["-- GENERATED by /verif/harness (C01, region change): traced from dassh.region.DASSH_Region._activate_base and the regions' mixed-mean properties.",
         "import Mathlib.Algebra.Order.Field.Basic", "import Mathlib.Tactic.FieldSimp", "import Mathlib.Tactic.Ring",
         "import Mathlib.Tactic.LinearCombination", "",
         "namespace Dassh.Gen.C01Carry", "", "variable {K : Type} [Field K] [LinearOrder K] [IsStrictOrderedRing K]", "",
         "set_option linter.unusedVariables false", ""]
    names = []
    fix = lambda t: re.sub(r"\((\d+) : α\)", r"(\1 : K)", t)
    rng = random.Random(3100)

    def sym_bundle(tr, tag, n_duct):
        """shadow of a real 7-pin bundle with symbolic temperatures, subchannel flows (area share x split) and areas"""
        dims = du.bundle_dims(rng, 2, n_duct)
        rr = du.activate_rr(du.make_rr(dims, flow_rate=5.0, byp_ff=0.1), 650.0)
        o = copy.copy(rr)
        o.temp = {k: v.copy() for k, v in rr.temp.items()}
        o.temp['coolant_int'] = symarray(tr, tag + "T", rr.temp['coolant_int'])
        o._mfrc = symarray(tr, tag + "mc", rr._mfrc)
        o.coolant_int_params = dict(rr.coolant_int_params)
        o.coolant_int_params['fs'] = symarray(tr, tag + "fs", rr.coolant_int_params['fs'])
        o.int_flow_rate = tr.var(tag + "Mint", float(rr.int_flow_rate))
        if n_duct > 1:
            o.temp['coolant_byp'] = symarray(tr, tag + "Tb", rr.temp['coolant_byp'])
            o.area = dict(rr.area)
            o.area['coolant_byp'] = symarray(tr, tag + "Ab", rr.area['coolant_byp'])
            o.total_area = dict(rr.total_area)
            o.total_area['coolant_byp'] = symarray(tr, tag + "Abt", rr.total_area['coolant_byp'])
            o.byp_flow_rate = symarray(tr, tag + "Mb", np.atleast_1d(rr.byp_flow_rate))
            o.total_flow_rate = tr.var(tag + "M", float(rr.total_flow_rate))
        return o, rr

    def sym_unrodded(tr, tag, cls):
        reg = cls('ur', 0.0, 1.0, [0.11, 0.116], 0.3, 5.0, du.const_material('cool'), du.const_material('duct', k=25.0), None,
                  convection_factor=0.7)
        o = copy.copy(reg)
        o.temp = {k: v.copy() for k, v in reg.temp.items()}
        n = reg.temp['coolant_int'].shape[0]
        o.temp['coolant_int'] = symarray(tr, tag + "T", np.full(n, 640.0))
        o.area = dict(reg.area)
        o.area['coolant_int'] = symarray(tr, tag + "A", np.atleast_1d(reg.area['coolant_int']))
        if o.area['coolant_int'].shape[0] != n:
            o.area['coolant_int'] = symarray(tr, tag + "A", np.full(n, float(np.ravel(reg.area['coolant_int'])[0])))
        o.total_area = dict(reg.total_area)
        o.total_area['coolant_int'] = tr.var(tag + "At", float(reg.total_area['coolant_int']))
        return o, reg

    class NP(NpProxy):
        def allclose(self, a, b, **kw):
            arr = np.asarray(a, dtype=object).ravel()
            return all(abs((x.val if isinstance(x, Sym) else float(x)) - b) < 1e-8 for x in arr)

    def fresh(o_new):
        """a region that has not been activated yet: every temperature is 1 (as the constructors leave it)"""
        o_new.temp = {k: NpProxy(o_new._tr).ones(np.shape(v)) for k, v in o_new.temp.items()}

    pairs = [("bundle_to_simple", ("bundle", 1), ("ur", UR.SingleNodeHomogeneous)),
             ("bundle2_to_six", ("bundle", 2), ("ur", UR.MultiNodeHomogeneous)),
             ("six_to_bundle", ("ur", UR.MultiNodeHomogeneous), ("bundle", 1)),
             ("simple_to_bundle2", ("ur", UR.SingleNodeHomogeneous), ("bundle", 2))]
    for tag, old_spec, new_spec in pairs:
        try:
            tr = Trace()
            old, old_real = sym_bundle(tr, "o", old_spec[1]) if old_spec[0] == "bundle" else sym_unrodded(tr, "o", old_spec[1])
            new, new_real = sym_bundle(tr, "n", new_spec[1]) if new_spec[0] == "bundle" else sym_unrodded(tr, "n", new_spec[1])
            t_old = type(old_real).avg_coolant_temp.fget(old)
            new._tr = tr
            fresh(new)
            prev = old      # the symbolic shadow of the real old region (its duct averages are plain numbers)
            rebind(dassh.DASSH_Region._activate_base, tr, {'np': NP(tr)})(new, prev)
            t_new = type(new_real).avg_coolant_temp.fget(new)
        except Exception:
            import traceback
            ctx.problem("trace-failed", "c01 carry-over " + tag, traceback.format_exc()[-900:])
            continue
        if not isinstance(t_new, Sym) or not isinstance(t_old, Sym):
            ctx.problem("trace-shape", "c01 carry-over " + tag, "mixed mean is not symbolic")
            continue
        vs = sorted(used_vars([t_old, t_new]))
        hyps = " ".join("(h_%s : 0 < %s)" % (v, v) for v in vs if not re.match(r"[on]Tb?_", v))
        # weights of the new region sum to one: substitute every new-region temperature by 1 in its own mixed-mean formula
        tr2 = Trace()
        tnew_probe = type(new_real).avg_coolant_temp.fget(_with_unit_temps(new, tr))
        wsum = fix(to_lean(rename(tnew_probe, lambda v: v, tr2))) if isinstance(tnew_probe, Sym) else "(1 : K)"
        pvs = sorted(set(vs) | set(used_vars([tnew_probe]) if isinstance(tnew_probe, Sym) else []))
        hyps = " ".join("(h_%s : 0 < %s)" % (v, v) for v in pvs if not re.match(r"[on]Tb?_", v))
        nm = "carry_" + tag
        L.append("/-- %s: mixed mean after activation = mixed mean before, given that the new region's weights sum to one -/" % tag.replace("_", " "))
        tn_txt, to_txt = fix(to_lean(rename(t_new, lambda v: v, tr2))), fix(to_lean(rename(t_old, lambda v: v, tr2)))
        L.append("theorem %s (%s : K) %s\n    (hw : %s = 1) :\n    %s = %s := by" % (nm, " ".join(pvs), hyps, wsum, tn_txt, to_txt))
        L.append("  have h : %s = (%s) * (%s) := by\n    first | (field_simp; ring) | field_simp | ring" % (tn_txt, wsum, to_txt))
        L.append("  rw [h, hw, one_mul]\n")
        names.append("Dassh.Gen.C01Carry." + nm)
        ctx.count("carry_over_pairs_traced")
    L.append("end Dassh.Gen.C01Carry\n")
    ctx.gen("C01Carry", "\n".join(L))
    return names


def _with_unit_temps(o, tr):
    """shallow copy of a symbolic region whose coolant temperatures are all the constant 1"""
    import copy
    from harness.trace import NpProxy
    c = copy.copy(o)
    c.temp = dict(o.temp)
    for k in ('coolant_int', 'coolant_byp'):
        if k in c.temp:
            c.temp[k] = NpProxy(tr).ones(np.shape(o.temp[k]))
    return c


def generate(ctx):
    txt, info = generate_text(ctx, random.Random(3000))
    ctx.gen("C01", txt)
    generate_general(ctx)
    generate_unrodded(ctx)
    generate_carryover(ctx)
    return info


# ---------------------------------------------------------------------------- oracle
def reg_state(reg):
    """what one step of a region works with: per-node (mass flow, temperature) groups, each with the heat capacity a step
    starting now evaluates (the coolant material at the group's own average temperature - bundle interior, each bypass gap,
    or the low-fidelity region), computed on a private copy of the material"""
    import copy
    mat = copy.deepcopy(reg.coolant)

    def cp_at(t):
        mat.update(float(t))
        return float(mat.heat_capacity)
    groups = []
    if reg.is_rodded:
        groups.append((np.array(reg.sc_mfr, dtype=float), reg.temp['coolant_int'].copy(), cp_at(reg.avg_coolant_int_temp)))
        if reg.n_bypass > 0 and np.sum(reg.byp_flow_rate) > 0:
            tb = reg.avg_coolant_byp_temp
            for b in range(reg.n_bypass):
                mb = reg.byp_flow_rate[b] * reg.area['coolant_byp'][b] / reg.total_area['coolant_byp'][b]
                groups.append((np.array(mb, dtype=float), reg.temp['coolant_byp'][b].copy(), cp_at(tb[b])))
    else:
        n = reg.temp['coolant_int'].shape[0]
        groups.append((np.full(n, reg.flow_rate / n), reg.temp['coolant_int'].copy(), cp_at(reg.avg_coolant_int_temp)))
    return groups


def reg_enthalpy(reg):
    """sum_i m_i T_i over interior + flowing-bypass nodes of a region (used by the core balance of C02)"""
    return sum(float(np.dot(m, t)) for (m, t, cp) in reg_state(reg))


def reg_tallies(reg):
    e = float(reg.ebal['power']) + float(np.sum(reg.ebal['duct']))
    if 'duct_byp_in' in reg.ebal and reg.is_rodded and np.sum(getattr(reg, 'byp_flow_rate', 0)) > 0:
        e += float(np.sum(reg.ebal['duct_byp_in']) + np.sum(reg.ebal['duct_byp_out']))
    return e


def oracle_reactor(ctx, rng, n_cases, max_steps=400):
    worst = 0.0
    for ci in range(n_cases):
        n_core_rings = rng.choice([1, 1, 2])
        pos = gi.core_positions(n_core_rings)
        if n_core_rings > 1:
            pos = [p for p in pos if rng.random() < 0.6] or pos[:1]
        gm = rng.choice(['flow', 'none', 'no_flow', 'flow'])
        const_props = ci % 2 == 0
        # every fourth reactor: one of the geometric flow-split correlations (SE2 / MIT / Novendstern) - the subchannel flows are
        # the area shares times the split, whatever correlation provides it
        alt_split = dict(corr_flowsplit=rng.choice(['SE2', 'MIT', 'NOV']), corr_mixing='MIT',
                         corr_friction=rng.choice(['CTD', 'UCTD'])) if ci % 4 == 2 else None
        case = gi.random_case(rng, positions=pos, n_types=rng.choice([1, 2]), gap_model=gm, length=rng.uniform(0.1, 0.4),
                              const_props=const_props, flow_range=(0.05, 6.0) if const_props else (0.3, 6.0), opts=alt_split)
        if alt_split:
            ctx.count("reactors_with_split:" + alt_split['corr_flowsplit'])
        if not const_props:
            # temperature-dependent coolant: the balance is taken with the heat capacity each step starts with (the property's
            # "property lag"); flows in the transition regime make the flow split depend on the local Reynolds number
            case['core']['coolant_material'] = rng.choice(['sodium', 'sodium', 'nak'])
            case['core']['coolant_inlet_temp'] = round(rng.uniform(600, 700), 2)
        case['core']['bypass_fraction'] = round(10 ** rng.uniform(-2.5, -1), 5)
        forced_six = ci % 5 == 3
        if forced_six:
            # every fifth reactor: a gap-coupled core of several assemblies whose types have a SIX-NODE region below (and above)
            # the bundle - its six nodes see different gap temperatures, so the hand-over to the next region must mix them
            pos = gi.core_positions(2)
            pos = [pos[0]] + [p for p in pos[1:] if rng.random() < 0.6][:4] or pos[:3]
            case = gi.random_case(rng, positions=pos, n_types=2, gap_model='flow', length=rng.uniform(0.1, 0.3),
                                  const_props=const_props, flow_range=(0.3, 6.0))
            case['core']['bypass_fraction'] = round(10 ** rng.uniform(-1.7, -1), 5)
            if not const_props:
                case['core']['coolant_material'] = 'sodium'
                case['core']['coolant_inlet_temp'] = round(rng.uniform(600, 700), 2)
            gm = 'flow'
        for tn in list(case['types']):
            u = rng.random()
            if forced_six:
                gi.add_axial_regions(rng, case, tn, lower=True, upper=rng.random() < 0.5, models=('6node',))
            elif u < 0.25:
                gi.add_axial_regions(rng, case, tn, lower=rng.random() < 0.7, upper=rng.random() < 0.7)
            elif u < 0.4:
                gi.make_low_fidelity(rng, case, tn)
        if case.get('power'):
            gi.random_power(rng, case)      # regenerate so that power cells exist for the final layout
        if rng.random() < 0.3:
            case['setup']['conv_approx'] = True
            case['setup']['conv_approx_dz_cutoff'] = 1.0
        if ci % 2 == 1:
            gi.random_setup_options(rng, case)
        d = str(ctx.work / ("r%d" % ci))
        try:
            inp, r = gi.build_reactor(case, d)
        except SystemExit:
            ctx.count("oracle_rejected_inputs")
            continue
        if len(r.z) - 1 > max_steps:
            # keep the run short: only the first max_steps planes are driven
            pass
        state = {}
        bad = []
        seen_kinds = {}

        active = {}

        def cb(i, z, dz):
            for a in r.assemblies:
                idx = a.active_region_idx
                if a.id in active and active[a.id] != idx:
                    # region change: mixed-mean coolant temperature carried over unchanged
                    old, new = a.region[active[a.id]], a.region[idx]
                    t_old, t_new = float(old.avg_coolant_temp), float(new.avg_coolant_temp)
                    ctx.count("region_changes")
                    if abs(t_old - t_new) > 1e-9 * abs(t_old) and not bad:
                        bad.append(dict(kind="carry-over", asm=a.id, step=i, z=z, t_before=t_old, t_after=t_new,
                                        frm=type(old).__name__, to=type(new).__name__))
                    state.pop((a.id, idx), None)
                active[a.id] = idx
                for k, reg in enumerate(a.region):
                    key = (a.id, k)
                    if k != idx:
                        state.pop(key, None)
                        continue
                    G = reg_state(reg)
                    E = reg_tallies(reg)
                    # the flows the balance is weighted with are the assembly's flow: subchannel (node) flows sum to the flow rate
                    # given to the assembly
                    mtot = sum(float(np.sum(m_)) for (m_, t_, cp_) in G)
                    if abs(mtot - float(a.flow_rate)) > 1e-9 * float(a.flow_rate) and not bad:
                        bad.append(dict(kind="mass", asm=a.id, step=i, z=z, flows=mtot, flow_rate=float(a.flow_rate),
                                        region=type(reg).__name__, split=str(getattr(reg, 'corr_names', {}).get('fs', ''))))
                    if key in state and i > 0:
                        G0, E0 = state[key]
                        # enthalpy-flow rise over the step: flows and heat capacity the step started with
                        dH = sum(cp0 * float(np.dot(m0, t1 - t0)) for (m0, t0, cp0), (m1, t1, cp1) in zip(G0, G))
                        # the flows the next step starts with carry the same enthalpy (no redistribution between steps)
                        jump = sum(cp0 * float(np.dot(m1 - m0, t1)) for (m0, t0, cp0), (m1, t1, cp1) in zip(G0, G))
                        dE = E - E0
                        scale = max(abs(dH), abs(dE), 1e-12)
                        res = abs(dH - dE) / scale
                        resj = abs(jump) / scale
                        nonlocal_w[0] = max(nonlocal_w[0], res, resj)
                        rk = type(reg).__name__ + (":6node" if getattr(reg, 'model', '') == '6node' else "") + (
                            ":conv_approx" if getattr(reg, '_conv_approx', False) else "") + ("" if const_props else ":Tdep")
                        seen_kinds[rk] = seen_kinds.get(rk, 0) + 1
                        floor = 1e-12 * abs(G[0][2] * float(np.dot(G[0][0], G[0][1])))      # round-off of the temperature itself
                        if res > 1e-7 and abs(dH - dE) > floor and not bad:
                            bad.append(dict(kind="step", asm=a.id, step=i, z=z, dz=dz, dH=dH, tallied=dE, rel_residual=res,
                                            region=rk, n_bypass=int(getattr(reg, 'n_bypass', 0))))
                        elif resj > 1e-7 and not bad:
                            bad.append(dict(kind="jump", asm=a.id, step=i, z=z, dz=dz, dH=dH, jump=jump, rel_residual=resj, region=rk))
                    state[key] = (G, E)
            if i >= max_steps or bad:
                raise StopIteration
        nonlocal_w = [0.0]
        try:
            gi.sweep(r, cb)
        except StopIteration:
            pass
        except SystemExit:
            ctx.count("oracle_sweep_stopped_by_dassh")       # e.g. coolant temperature left the property table
        worst = max(worst, nonlocal_w[0])
        ctx.evals += 1
        ctx.count("oracle_steps", min(len(r.z) - 1, max_steps))
        for k, v in seen_kinds.items():
            ctx.count("steps:" + k, v)
        if bad:
            b = bad[0]
            if b['kind'] == "carry-over":
                ctx.violation("c01-carry-over:%s->%s" % (b['frm'], b['to']),
                              "assembly %d: mixed-mean coolant temperature %.9g K before the region change, %.9g K after"
                              % (b['asm'], b['t_before'], b['t_after']), case=case, detail=b)
            elif b['kind'] == "mass":
                ctx.violation("c01-mass-weights:%s" % b['region'],
                              "assembly %d at step %d: the subchannel flows of the active region sum to %.9g kg/s, the assembly is given "
                              "%.9g kg/s: the mass-flow-weighted mean (and the mixed mean carried to the next region) is taken with "
                              "weights that do not sum to one" % (b['asm'], b['step'], b['flows'], b['flow_rate']), case=case, detail=b)
            elif b['kind'] == "jump":
                ctx.violation("c01-flow-redistributed:%s" % b['region'],
                              "assembly %d after step %d: the subchannel flows the next step starts with carry %.6g W more enthalpy than "
                              "the flows this step ended with (step heat %.6g W): flow is moved between subchannels without its "
                              "enthalpy" % (b['asm'], b['step'], b['jump'], b['dH']), case=case, detail=b)
            else:
                ctx.violation("c01-step-residual:%s" % b['region'],
                              "assembly %d step %d: enthalpy rise %.6g W vs tallied power+duct heat %.6g W (rel %.2g)" % (
                                  b['asm'], b['step'], b['dH'], b['tallied'], b['rel_residual']), case=case, detail=b)
        if ci < 3:
            ctx.sample(dict(kind="reactor-sweep", positions=pos, gap_model=gm, steps=len(r.z) - 1,
                            types={k: (v['num_rings'], len(v['duct_ftf']) // 2) for k, v in case['types'].items()}))
        import shutil
        shutil.rmtree(d, ignore_errors=True)
    ctx.stats["oracle_worst_rel_step_residual"] = worst
    return worst


def run(ctx):
    rng = random.Random(3000 + ctx.seed)
    ctx.rule = ("T1b: whole 7/19-pin bundles traced symbolically (1-2 ducts, both wire directions, low-flow approx on/off); "
                "oracle: real reactors (1-7 assemblies, all gap models, random power) driven plane by plane, per-step "
                "assembly balance; non-trivial = a reactor that was built and stepped")
    try:
        txt, info = generate_text(ctx, random.Random(3000))
        ctx.gen("C01", txt)
        ctx.stats["trace"] = info
        generate_general(ctx)
        generate_unrodded(ctx)
        generate_carryover(ctx)
        ok_line = bt.check_mfrc_line()
        ctx.obligation("source line `_mfrc = area * int_flow_rate / bundle area` unchanged in _setup_flowrate", ok_line,
                       kind="translator-validation")
        gen_ok = True
    except Exception:
        import traceback
        ctx.problem("trace-failed", "c01 tracer", traceback.format_exc()[-2000:])
        gen_ok = False
    if gen_ok:
        ctx.prove("Dassh.Props.C01", also=["Dassh.Gen.C01Ur", "Dassh.Gen.C01Carry"])
    oracle_reactor(ctx, rng, 40 if ctx.thorough else 10)
    ctx.nontrivial = ctx.evals
    ctx.traces = ctx.evals
