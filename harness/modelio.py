"""Runs the native Lean model driver (lean/Driver.lean -> dassh_model) on a batch of request lines."""
import subprocess

from harness.common import LEAN, lake_build

EXE = LEAN / ".lake" / "build" / "bin" / "dassh_model"


def build_driver(ctx):
    rc, out, dt = lake_build(["dassh_model"], 900)
    ctx.log("lake build dassh_model: rc=%d in %.1fs" % (rc, dt))
    if rc != 0:
        ctx.problem("lean-build", "dassh_model (Driver.lean + Dassh/Model)", out[-2000:])
        return False
    return True


def ask(lines, timeout=300):
    p = subprocess.run([str(EXE)], input="\n".join(lines) + "\n", stdout=subprocess.PIPE, stderr=subprocess.PIPE,
                       text=True, timeout=timeout)
    out = p.stdout.splitlines()
    if len(out) != len(lines):
        raise RuntimeError("model driver answered %d of %d requests: %s" % (len(out), len(lines), p.stderr[-500:]))
    return out
