"""T2: dump integer tables of real DASSH objects as big-Nat literals for Lean."""
import numpy as np


def encode(arr, width, offset=1):
    """rows x cols int array (entries >= -1) -> Python int with `width`-bit fields,
    stored value = entry + offset (so -1 -> 0)."""
    a = np.asarray(arr, dtype=np.int64)
    flat = a.reshape(-1) + offset
    if flat.min() < 0 or flat.max() >= (1 << width):
        raise ValueError("table entry out of range for %d-bit field: %d..%d" % (width, flat.min(), flat.max()))
    n = 0
    # build from the top so that entry 0 is in the lowest bits
    for v in flat[::-1]:
        n = (n << width) | int(v)
    return n


def decode(n, width, rows, cols, offset=1):
    out = np.zeros((rows, cols), dtype=np.int64)
    mask = (1 << width) - 1
    for i in range(rows):
        for k in range(cols):
            out[i, k] = ((n >> (width * (cols * i + k))) & mask) - offset
    return out


def lean_nat(name, n, doc=""):
    d = "/-- %s -/\n" % doc if doc else ""
    return "%sdef %s : Nat := 0x%x\n" % (d, name, n)


def roundtrip_ok(arr, width, offset=1):
    a = np.asarray(arr, dtype=np.int64)
    if a.ndim == 1:
        a = a.reshape(-1, 1)
    return np.array_equal(decode(encode(a, width, offset), width, a.shape[0], a.shape[1], offset), a)
