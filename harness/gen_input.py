"""Generator of complete DASSH problems (ConfigObj input + user-power CSV).

A *case* is a JSON-serialisable dict; `write_case` renders it, `build_reactor`
constructs the real `dassh.Reactor` from it.  All random choices come from the
`random.Random` passed in, so a case is reproducible from (seed, options) and
can be stored in a replay file verbatim.
"""
import copy
import json
import math
import os
import copy
import shutil

import harness.common  # noqa: F401
from harness import dasshutil as du

SQRT3 = math.sqrt(3)


SAFE_CORR = [('CTD', 'CTD', 'CTD'), ('CTD', 'CTD', 'CTD'), ('UCTD', 'UCTD', 'UCTD'), ('CTD', 'CTD', 'MIT')]


def n_pins(n_ring):
    return 3 * n_ring * (n_ring - 1) + 1


def n_sc(n_ring):
    return 6 * (n_ring - 1) ** 2 + 6 * (n_ring - 1) + 6


def n_duct_cells(n_ring):
    return 6 * (n_ring - 1) + 6


def position_index(ring, pos):
    """1-based DASSH index of core position (ring, pos), both 1-based"""
    return 1 if ring == 1 else 3 * (ring - 1) * (ring - 2) + 1 + pos


def core_positions(n_core_rings):
    out = [(1, 1)]
    for r in range(2, n_core_rings + 1):
        for p in range(1, 6 * (r - 1) + 1):
            out.append((r, p))
    return out


def random_asm_type(rng, name, pitch_limit=None, n_ring=None, n_duct=None, low_fidelity=False, opts=None):
    opts = opts or {}
    n_ring = n_ring or rng.choice([2, 2, 3, 3, 4])
    n_duct = n_duct or rng.choice([1, 1, 1, 2])
    for _ in range(200):
        dims = du.bundle_dims(rng, n_ring, n_duct)
        if pitch_limit is None or dims['duct_ftf'][-1] < pitch_limit:
            break
        # shrink
    else:
        raise RuntimeError("cannot fit")
    t = dict(name=name, **dims)
    t['duct_material'] = opts.get('duct_material', 'ss316')
    t['wire_direction'] = rng.choice(['clockwise', 'counterclockwise'])
    # correlation families that can be evaluated in every regime (other combinations are C12's subject)
    fam = rng.choice(SAFE_CORR)
    t['corr_friction'] = opts.get('corr_friction', fam[0])
    t['corr_flowsplit'] = opts.get('corr_flowsplit', fam[1])
    t['corr_mixing'] = opts.get('corr_mixing', fam[2])
    t['shape_factor'] = round(rng.uniform(1.0, 1.5), 3)
    if n_duct > 1:
        t['bypass_gap_flow_fraction'] = opts.get('bypass_gap_flow_fraction', round(rng.uniform(0.02, 0.15), 4))
    if low_fidelity:
        t['use_low_fidelity_model'] = True
        t['low_fidelity_model'] = low_fidelity if isinstance(low_fidelity, str) else 'simple'
        t['convection_factor'] = opts.get('convection_factor', 'calculate')
    t['AxialRegion'] = []
    t['SpacerGrid'] = None
    return t


def scale_type_to_pitch(t, asm_pitch, rng):
    """Scale all bundle lengths so that the outer duct fits the assembly pitch."""
    outer = t['duct_ftf'][-1]
    target = asm_pitch * rng.uniform(0.90, 0.985)
    f = target / outer
    for k in ('pin_pitch', 'pin_diameter', 'wire_diameter', 'clad_thickness'):
        t[k] *= f
    t['duct_ftf'] = [x * f for x in t['duct_ftf']]
    return t


def poly_rows(asm_id, comp, zbnds, n_items, coeff_fn):
    rows = []
    for k in range(len(zbnds) - 1):
        for idx in range(n_items):
            rows.append([asm_id, comp, zbnds[k], zbnds[k + 1], idx + 1] + list(coeff_fn(k, idx)))
    return rows


def random_power(rng, case, n_terms=None, zero_cells=False, components=("pins", "duct", "cool"), total=None, per_asm_mesh=False):
    """Adds a user power description: for every assembly, per component, per
    axial cell, per item a polynomial in the cell-relative coordinate."""
    L = case['core']['length']
    n_terms = n_terms or rng.choice([1, 2, 3])
    ncell = rng.choice([1, 2, 3, 4])
    cuts = sorted(round(rng.uniform(0.1, 0.9) * L, 4) for _ in range(ncell - 1))
    zb = [0.0] + cuts + [L]
    zb = sorted(set(zb))
    zb_common = zb
    all_zb = set(zb)
    rows = []
    for asm in case['assignment']:
        if per_asm_mesh:
            # every assembly its own axial power mesh: same number of cells, other interior boundaries
            cuts = sorted(round(rng.uniform(0.1, 0.9) * L, 4) for _ in range(len(zb_common) - 2))
            zb = sorted(set([0.0] + cuts + [L]))
            all_zb |= set(zb)
        a = position_index(asm['ring'], asm['pos']) - 1      # DASSH position index (counts empty positions)
        t = case['types'][asm['type']]
        nr = t['num_rings']
        nd = len(t['duct_ftf']) // 2
        base = rng.uniform(2e3, 2e4)   # W/m per pin

        def coeffs(scale):
            def f(k, idx):
                if zero_cells and rng.random() < 0.15:
                    return [0.0] * n_terms
                c0 = scale * rng.uniform(0.3, 1.0)
                cs = [c0]
                for j in range(1, n_terms):
                    cs.append(c0 * rng.uniform(-0.4, 0.4))   # keeps the profile positive on [-1/2, 1/2]
                return cs
            return f
        if "pins" in components:
            rows += poly_rows(a + 1, 1, zb, n_pins(nr), coeffs(base))
        if "duct" in components:
            rows += poly_rows(a + 1, 2, zb, n_duct_cells(nr) * nd, coeffs(base * 0.01))
        if "cool" in components:
            rows += poly_rows(a + 1, 3, zb, n_sc(nr), coeffs(base * 0.02))
    case['power'] = dict(rows=rows, n_terms=n_terms, zbnds=(sorted(all_zb) if per_asm_mesh else zb), total_power=total, scaling=1.0)
    return case


def random_case(rng, n_core_rings=1, positions=None, n_types=1, gap_model=None, const_props=True,
                length=None, with_power=True, opts=None, type_kw=None, flow_range=(0.5, 8.0),
                axial_mesh_size=None):
    opts = opts or {}
    asm_pitch = rng.uniform(0.05, 0.16)
    case = dict(
        setup=dict(calc_energy_balance=True),
        core=dict(length=length or round(rng.uniform(0.3, 1.2), 3),
                  coolant_inlet_temp=round(rng.uniform(550, 700), 2),
                  assembly_pitch=asm_pitch,
                  gap_model=gap_model or rng.choice(['flow', 'flow', 'no_flow', 'duct_average', 'none']),
                  bypass_fraction=round(10 ** rng.uniform(-3, -1.3), 5)),
        materials={}, types={}, assignment=[])
    if axial_mesh_size:
        case['setup']['axial_mesh_size'] = axial_mesh_size
    if const_props:
        case['materials']['cool_fixed'] = dict(thermal_conductivity=round(rng.uniform(20, 80), 2),
                                               heat_capacity=round(rng.uniform(900, 1400), 1),
                                               density=round(rng.uniform(750, 900), 1),
                                               viscosity=round(rng.uniform(1.5e-4, 4e-4), 7))
        case['core']['coolant_material'] = 'cool_fixed'
    else:
        case['core']['coolant_material'] = rng.choice(['sodium', 'sodium', 'nak', 'lead'])
    names = ["t%d" % i for i in range(n_types)]
    for nm in names:
        kw = dict(type_kw or {})
        t = random_asm_type(rng, nm, opts=opts, **kw)
        case['types'][nm] = scale_type_to_pitch(t, asm_pitch, rng)
    # all outer ducts must be equal: copy the outer duct of the first type, rescale the others inside
    ref = case['types'][names[0]]['duct_ftf'][-2:]
    for nm in names[1:]:
        t = case['types'][nm]
        f = ref[0] / t['duct_ftf'][-2]
        for k in ('pin_pitch', 'pin_diameter', 'wire_diameter', 'clad_thickness'):
            t[k] *= f
        t['duct_ftf'] = [x * f for x in t['duct_ftf'][:-2]] + list(ref)
        t['duct_ftf'][-2] = ref[0]
    pos = positions if positions is not None else core_positions(n_core_rings)
    for (r, p) in pos:
        case['assignment'].append(dict(type=rng.choice(names), ring=r, pos=p,
                                       flowrate=round(10 ** rng.uniform(math.log10(flow_range[0]),
                                                                        math.log10(flow_range[1])), 4)))
    if with_power:
        random_power(rng, case)
    return case


def fmt(x):
    if isinstance(x, bool):
        return "True" if x else "False"
    if isinstance(x, float):
        return repr(x)
    if isinstance(x, (list, tuple)):
        return ", ".join(fmt(v) for v in x)
    return str(x)


def render_input(case, power_file="power.csv"):
    L = []
    s = case.get('setup', {})
    L.append("[Setup]")
    for k, v in s.items():
        if k in ("Units", "Dump", "AssemblyTables"):
            continue
        L.append("    %s = %s" % (k, fmt(v)))
    for sub in ("Units", "Dump"):
        if sub in s:
            L.append("    [[%s]]" % sub)
            for k, v in s[sub].items():
                L.append("        %s = %s" % (k, fmt(v)))
    if s.get('AssemblyTables'):
        L.append("    [[AssemblyTables]]")
        for nm, tb in s['AssemblyTables'].items():
            L.append("        [[[%s]]]" % nm)
            for k, v in tb.items():
                L.append("            %s = %s" % (k, fmt(v) + ("," if isinstance(v, list) and len(v) == 1 else "")))
    if case.get('materials'):
        L.append("[Materials]")
        for nm, m in case['materials'].items():
            L.append("    [[%s]]" % nm)
            for k, v in m.items():
                L.append("        %s = %s" % (k, fmt(v)))
    L.append("[Power]")
    p = case.get('power')
    if p:
        L.append("    user_power = %s" % power_file)
        if p.get('total_power') is not None:
            L.append("    total_power = %s" % fmt(float(p['total_power'])))
        if p.get('scaling', 1.0) != 1.0:
            L.append("    power_scaling_factor = %s" % fmt(float(p['scaling'])))
    L.append("[Core]")
    for k, v in case['core'].items():
        L.append("    %s = %s" % (k, fmt(v)))
    L.append("[Assembly]")
    for nm, t in case['types'].items():
        L.append("    [[%s]]" % nm)
        for k, v in t.items():
            if k in ("name", "AxialRegion", "SpacerGrid", "PinModel", "FuelModel", "Hotspot"):
                continue
            L.append("        %s = %s" % (k, fmt(v)))
        if t.get('AxialRegion'):
            L.append("        [[[AxialRegion]]]")
            for reg in t['AxialRegion']:
                L.append("            [[[[%s]]]]" % reg['name'])
                for k, v in reg.items():
                    if k != 'name':
                        L.append("                %s = %s" % (k, fmt(v)))
        for sub in ("SpacerGrid", "PinModel", "FuelModel"):
            if t.get(sub):
                L.append("        [[[%s]]]" % sub)
                for k, v in t[sub].items():
                    L.append("            %s = %s" % (k, fmt(v)))
        if t.get('Hotspot'):
            L.append("        [[[Hotspot]]]")
            for hn, h in t['Hotspot'].items():
                L.append("            [[[[%s]]]]" % hn)
                for k, v in h.items():
                    L.append("                %s = %s" % (k, fmt(v)))
    if case.get('orificing'):
        L.append("[Orificing]")
        for k, v in case['orificing'].items():
            L.append("    %s = %s" % (k, fmt(v)))
    L.append("[Assignment]")
    L.append("    [[ByPosition]]")
    runs = []
    for a in case['assignment']:
        if 'flowrate' in a:
            bc = "FLOWRATE=%s" % fmt(float(a['flowrate']))
        elif 'outlet_temp' in a:
            bc = "OUTLET_TEMP=%s" % fmt(float(a['outlet_temp']))
        else:
            bc = "DELTA_TEMP=%s" % fmt(float(a['delta_temp']))
        extra = ""
        if 'group' in a:
            extra = ", GROUP=%s" % fmt(float(a['group']))
        key = (a['type'], a['ring'], bc, extra)
        if case.get('merge_assignment') and runs and runs[-1][0] == key and runs[-1][2] + 1 == a['pos']:
            runs[-1][2] = a['pos']       # one input line for a run of positions (ring, first, last)
        else:
            runs.append([key, a['pos'], a['pos']])
    for (typ, ring, bc, extra), p0, p1 in runs:
        L.append("        %s = %d, %d, %d, %s%s" % (typ, ring, p0, p1, bc, extra))
    return "\n".join(L) + "\n"


def ordered_rows(rows, order, seed=0):
    """the same labelled rows written in another order: every row carries its assembly, component, axial cell and item index"""
    rows = list(rows)
    if order == 'item-major':
        rows.sort(key=lambda r: (r[0], r[1], r[4], r[2]))
    elif order == 'cell-reversed':
        rows.sort(key=lambda r: (r[0], r[1], -r[2], r[4]))
    elif order == 'shuffled':
        import random as _random
        _random.Random(seed).shuffle(rows)
    return rows


def render_power(case):
    rows = ordered_rows(case['power']['rows'], case['power'].get('row_order'), case['power'].get('row_seed', 0))
    return "\n".join(",".join(repr(float(v)) if i > 1 and i != 4 else str(int(v)) for i, v in enumerate(r))
                     for r in rows) + "\n"


def write_case(case, d):
    os.makedirs(d, exist_ok=True)
    inp = os.path.join(d, "input.txt")
    with open(inp, "w") as f:
        f.write(render_input(case))
    if case.get('power'):
        with open(os.path.join(d, "power.csv"), "w") as f:
            f.write(render_power(case))
    return inp


def build_reactor(case, d, quiet=True, **kw):
    """Returns (inp, reactor).  Raises SystemExit when DASSH rejects the input."""
    import dassh
    import logging
    inp_path = write_case(case, d)
    if quiet:
        logging.getLogger('dassh').setLevel(logging.CRITICAL)
    inp = dassh.DASSH_Input(inp_path)
    r = dassh.Reactor(inp, path=d, write_output=False, **kw)
    return inp, r


def sweep(r, callback=None):
    """Drive the real reactor plane by plane (what temperature_sweep does)."""
    dumping = bool(r._options['dump']['any'])
    if dumping:
        r._data_setup()
        r._data_open()
    try:
        r.axial_step0()
        if callback:
            callback(0, 0.0, 0.0)
        for i in range(1, len(r.z)):
            z, dz = r.z[i], r.dz[i - 1]
            r.axial_step(z, dz, i)
            if callback:
                callback(i, z, dz)
    finally:
        if dumping:
            try:
                r._data_close()
            except (AttributeError, KeyError):
                pass


def random_setup_options(rng, case, p=0.3):
    """optional [Setup] switches a user may combine with anything: SE2ANL geometry, tolerance on the re-evaluation of
    correlated parameters, low-flow convection approximation, gravity head"""
    s = case['setup']
    if rng.random() < p:
        s['se2geo'] = True
    if rng.random() < p:
        s['param_update_tol'] = rng.choice([0.001, 0.01, 0.05])
    if rng.random() < p and 'conv_approx' not in s:
        s['conv_approx'] = True
        s['conv_approx_dz_cutoff'] = rng.choice([0.001, 0.01, 1.0])
    if rng.random() < p:
        s['include_gravity_head_loss'] = True
    return case


def add_axial_regions(rng, case, tname, lower=True, upper=True, models=('simple', '6node')):
    """Unrodded regions below / above the pin bundle of assembly type `tname`."""
    L = case['core']['length']
    t = case['types'][tname]
    regs = []
    z1 = round(L * rng.uniform(0.15, 0.35), 4)
    z2 = round(L * rng.uniform(0.65, 0.85), 4)
    if lower:
        regs.append(dict(name='lower', z_lo=0.0, z_hi=z1, vf_coolant=round(rng.uniform(0.2, 0.6), 3),
                         model=rng.choice(models), convection_factor=round(rng.choice([1.0, rng.uniform(0.2, 1.0)]), 4)))
    if upper:
        regs.append(dict(name='upper', z_lo=z2, z_hi=L, vf_coolant=round(rng.uniform(0.2, 0.6), 3),
                         model=rng.choice(models), convection_factor=round(rng.choice([1.0, rng.uniform(0.2, 1.0)]), 4)))
    t['AxialRegion'] = regs
    return (z1 if lower else 0.0, z2 if upper else L)


def make_low_fidelity(rng, case, tname, model=None, factor=None):
    t = case['types'][tname]
    t['use_low_fidelity_model'] = True
    t['low_fidelity_model'] = model or rng.choice(['simple', '6node'])
    t['convection_factor'] = factor if factor is not None else rng.choice(['calculate', round(rng.uniform(0.2, 1.0), 4), 1.0])
