"""Helpers to construct real DASSH objects for the checks."""
import copy
import math
import os
import random

import numpy as np

import harness.common  # noqa: F401  (sets sys.path to /repo)
import dassh
from dassh import region_rodded

SQRT3 = math.sqrt(3)


def const_material(name, k=70.0, cp=1270.0, rho=850.0, mu=2.5e-4):
    return dassh.Material(name, coeff_dict={
        'thermal_conductivity': [k], 'heat_capacity': [cp], 'density': [rho], 'viscosity': [mu]})


def temp_material(name="sodium"):
    return dassh.Material(name)


def bundle_dims(rng, n_ring, n_duct=1, tight=False):
    """Random admissible bundle dimensions (metres)."""
    D = rng.uniform(0.004, 0.012)
    pd = rng.uniform(1.05, 1.35)
    P = D * pd
    Dw = (P - D) * rng.uniform(0.6, 0.98)
    Pw = rng.uniform(0.1, 0.4)
    clr = rng.uniform(0.0, 0.3) * (P - D) if not tight else 0.0
    ftf_in = SQRT3 * (n_ring - 1) * P + D + 2 * Dw + clr + 1e-7
    ftf = [ftf_in]
    for i in range(n_duct):
        t = rng.uniform(0.001, 0.004)
        ftf.append(ftf[-1] + 2 * t)
        if i + 1 < n_duct:
            g = rng.uniform(0.001, 0.004)
            ftf.append(ftf[-1] + 2 * g)
    return dict(num_rings=n_ring, pin_pitch=P, pin_diameter=D, wire_pitch=Pw, wire_diameter=Dw,
                clad_thickness=D * 0.08, duct_ftf=ftf)


DEFAULT_CORR = dict(corr_friction='CTD', corr_flowsplit='CTD', corr_mixing='CTD',
                    corr_nusselt='DB', corr_shapefactor=None)


def make_rr(dims, flow_rate=5.0, coolant=None, duct=None, byp_ff=0.05, wwdir='clockwise',
            sf=1.0, se2=False, corr=None, htc_params_duct=None, spacer_grid=None,
            param_update_tol=0.0, gravity=False, name='rr'):
    c = dict(DEFAULT_CORR)
    if corr:
        c.update(corr)
    coolant = coolant or const_material('cool')
    duct = duct or const_material('duct', k=25.0, cp=500.0, rho=7800.0, mu=1.0)
    n_duct = len(dims['duct_ftf']) // 2
    return dassh.RoddedRegion(
        name, dims['num_rings'], dims['pin_pitch'], dims['pin_diameter'], dims['wire_pitch'],
        dims['wire_diameter'], dims['clad_thickness'], list(dims['duct_ftf']), flow_rate,
        coolant, duct, htc_params_duct, c['corr_friction'], c['corr_flowsplit'], c['corr_mixing'],
        c['corr_nusselt'], c['corr_shapefactor'], spacer_grid,
        byp_ff if n_duct > 1 else None, None, wwdir, sf, se2, param_update_tol, gravity)


def activate_rr(rr, t_avg=623.15):
    """Give a region a uniform temperature state and evaluated correlations."""
    n_node_duct = rr.subchannel.n_sc['duct']['total']
    generic = dassh.DASSH_Region(1, np.ones(1), n_node_duct, np.ones((1, n_node_duct)))
    generic.x_pts = rr.x_pts
    for key in generic.temp:
        generic.temp[key] = generic.temp[key] * t_avg
    r = rr.clone()
    r._activate_base(generic)
    r._update_coolant_int_params(t_avg, use_mat_tracker=False)
    if r.n_bypass > 0:
        r._update_coolant_byp_params([t_avg] * r.n_bypass)
    return r


class Shadow:
    """Attribute overlay on a real object: reads fall through to the real
    object unless overridden; writes stay in the overlay.  Methods of the real
    class can be re-bound onto it (see `bind`)."""

    def __init__(self, real, **over):
        object.__setattr__(self, "_real", real)
        object.__setattr__(self, "_over", dict(over))

    def __getattr__(self, k):
        o = object.__getattribute__(self, "_over")
        if k in o:
            return o[k]
        return getattr(object.__getattribute__(self, "_real"), k)

    def __setattr__(self, k, v):
        object.__getattribute__(self, "_over")[k] = v
