"""T1 tracing translator: run real DASSH functions on symbolic scalars and emit
the recorded expression as a Lean definition over an arbitrary field.

Every `Sym` carries a concrete float value (concolic execution): comparisons
are decided on the concrete value and recorded as path conditions, so real
control flow (`if`, `np.where`, `min`) just works and the conditions under
which the trace is valid are known.
"""
import math
import types
from fractions import Fraction

import numpy as _np

# known irrational module-level constants -> symbol names
_S3 = math.sqrt(3)
KNOWN_CONST = [
    (_S3, "s3", None),
    (math.pi, "pi", None),
]


def _known_const(x):
    """Map a float that is (bit-)equal to a recognised expression of sqrt(3) / pi
    to a symbolic expression builder."""
    for f, name, _ in KNOWN_CONST:
        if x == f:
            return lambda tr: tr.var(name, f)
    table = [
        (_S3 / 3, lambda tr: tr.var("s3", _S3) / 3),
        (1 / _S3, lambda tr: 1 / tr.var("s3", _S3)),
        (_S3 / 2, lambda tr: tr.var("s3", _S3) / 2),
        (_S3 / 4, lambda tr: tr.var("s3", _S3) / 4),
        (_S3 / 6, lambda tr: tr.var("s3", _S3) / 6),
        (2 * _S3, lambda tr: 2 * tr.var("s3", _S3)),
        (2 / _S3, lambda tr: 2 / tr.var("s3", _S3)),
        (6 / _S3, lambda tr: 6 / tr.var("s3", _S3)),
        (math.pi / 4, lambda tr: tr.var("pi", math.pi) / 4),
        (math.pi / 2, lambda tr: tr.var("pi", math.pi) / 2),
        (math.pi / 6, lambda tr: tr.var("pi", math.pi) / 6),
        (math.pi / 3, lambda tr: tr.var("pi", math.pi) / 3),
        (2 * math.pi, lambda tr: 2 * tr.var("pi", math.pi)),
    ]
    for f, b in table:
        if x == f:
            return b
    return None


class Trace:
    def __init__(self, map_known_consts=True):
        self.vars = {}          # name -> Sym
        self.conds = []         # (lean-ish string, outcome)
        self.map_known = map_known_consts
        self.funs = set()       # opaque unary functions used (sqrt, ...)
        self.literals = {}      # float literal -> symbol name (e.g. 0.166666666666667 -> sixth)
        self._n = 0

    def var(self, name, val):
        if name not in self.vars:
            self.vars[name] = Sym("var", (name,), float(val), self)
        return self.vars[name]

    def const(self, x):
        if isinstance(x, Sym):
            return x
        if isinstance(x, (bool, _np.bool_)):
            x = int(x)
        if isinstance(x, (int, _np.integer)):
            return Sym("const", (Fraction(int(x)),), float(x), self)
        if isinstance(x, Fraction):
            return Sym("const", (x,), float(x), self)
        if isinstance(x, (float, _np.floating)):
            x = float(x)
            if x in self.literals:
                return self.var(self.literals[x], x)
            if self.map_known:
                b = _known_const(x)
                if b is not None:
                    return b(self)
            if x != x or x in (float("inf"), float("-inf")):
                raise TraceError("non-finite constant %r" % x)
            return Sym("const", (Fraction(repr(x)),), x, self)
        raise TraceError("cannot lift %r (%s)" % (x, type(x)))


class TraceError(Exception):
    pass


def _fold(op, a, b):
    if op == "add":
        return a + b
    if op == "sub":
        return a - b
    if op == "mul":
        return a * b
    if op == "div":
        if b == 0:
            raise ZeroDivisionError
        return a / b


class Sym:
    __slots__ = ("op", "args", "val", "tr", "_sz")

    def __init__(self, op, args, val, tr):
        self.op, self.args, self.val, self.tr = op, args, val, tr
        self._sz = None

    # ------------------------------------------------------------ structure
    def is_const(self, c=None):
        return self.op == "const" and (c is None or self.args[0] == c)

    @property
    def size(self):
        if self._sz is None:
            self._sz = 1 + sum(a.size for a in self.args if isinstance(a, Sym))
        return self._sz

    def _bin(self, op, other, rev=False):
        if isinstance(other, _np.ndarray):
            return NotImplemented
        try:
            o = self.tr.const(other)
        except TraceError:
            return NotImplemented
        a, b = (o, self) if rev else (self, o)
        if a.op == "const" and b.op == "const":
            return Sym("const", (_fold(op, a.args[0], b.args[0]),), _fold(op, a.val, b.val), self.tr)
        if op == "add":
            if a.is_const(0):
                return b
            if b.is_const(0):
                return a
            v = a.val + b.val
        elif op == "sub":
            if b.is_const(0):
                return a
            if a.is_const(0):
                return -b
            v = a.val - b.val
        elif op == "mul":
            if a.is_const(0) or b.is_const(0):
                return Sym("const", (Fraction(0),), 0.0, self.tr)
            if a.is_const(1):
                return b
            if b.is_const(1):
                return a
            v = a.val * b.val
        elif op == "div":
            if b.is_const(1):
                return a
            if a.is_const(0):
                return a
            if b.val == 0:
                raise ZeroDivisionError("symbolic division by a value that is concretely 0")
            v = a.val / b.val
        return Sym(op, (a, b), v, self.tr)

    def __add__(self, o): return self._bin("add", o)
    def __radd__(self, o): return self._bin("add", o, True)
    def __sub__(self, o): return self._bin("sub", o)
    def __rsub__(self, o): return self._bin("sub", o, True)
    def __mul__(self, o): return self._bin("mul", o)
    def __rmul__(self, o): return self._bin("mul", o, True)
    def __truediv__(self, o): return self._bin("div", o)
    def __rtruediv__(self, o): return self._bin("div", o, True)

    def __neg__(self):
        if self.op == "const":
            return Sym("const", (-self.args[0],), -self.val, self.tr)
        if self.op == "neg":
            return self.args[0]
        return Sym("neg", (self,), -self.val, self.tr)

    def __pos__(self):
        return self

    def __abs__(self):
        self.tr.conds.append(("0 <= " + to_lean(self), self.val >= 0))
        return self if self.val >= 0 else -self

    def __pow__(self, e):
        if isinstance(e, Sym):
            if e.op == "const":
                e = e.args[0]
            else:
                self.tr.funs.add("rpow")
                return Sym("rpow", (self, e), self.val ** e.val, self.tr)
        if isinstance(e, (float, _np.floating)) and float(e) == int(e):
            e = int(e)
        if isinstance(e, Fraction) and e.denominator == 1:
            e = int(e)
        if isinstance(e, (int, _np.integer)):
            e = int(e)
            if e == 0:
                return self.tr.const(1)
            if e < 0:
                return 1 / (self ** (-e))
            if e == 1:
                return self
            if self.op == "const":
                return Sym("const", (self.args[0] ** e,), self.val ** e, self.tr)
            return Sym("npow", (self, e), self.val ** e, self.tr)
        if isinstance(e, (float, _np.floating, Fraction)):
            if float(e) == 0.5:
                return self.sqrt()
            self.tr.funs.add("rpow")
            return Sym("rpow", (self, self.tr.const(e)), self.val ** float(e), self.tr)
        return NotImplemented

    def __rpow__(self, b):
        self.tr.funs.add("rpow")
        b = self.tr.const(b)
        return Sym("rpow", (b, self), b.val ** self.val, self.tr)

    # opaque unary functions (NumPy ufuncs on object arrays call these methods)
    def _un(self, name, f):
        self.tr.funs.add(name)
        return Sym("fun", (name, self), f(self.val), self.tr)

    def sqrt(self): return self._un("sqrt", math.sqrt)
    def exp(self): return self._un("exp", math.exp)
    def log(self): return self._un("log", math.log)
    def log10(self): return self._un("log10", math.log10)
    def tan(self): return self._un("tan", math.tan)
    def cos(self): return self._un("cos", math.cos)
    def sin(self): return self._un("sin", math.sin)
    def arccos(self): return self._un("arccos", math.acos)
    def arctan(self): return self._un("arctan", math.atan)
    def tanh(self): return self._un("tanh", math.tanh)

    # comparisons: decided concretely, recorded
    def _cmp(self, o, sym, f):
        if isinstance(o, _np.ndarray):
            return NotImplemented
        o = self.tr.const(o)
        r = f(self.val, o.val)
        self.tr.conds.append(("%s %s %s" % (to_lean(self, short=True), sym, to_lean(o, short=True)), bool(r)))
        return bool(r)

    def __lt__(self, o): return self._cmp(o, "<", lambda a, b: a < b)
    def __le__(self, o): return self._cmp(o, "<=", lambda a, b: a <= b)
    def __gt__(self, o): return self._cmp(o, ">", lambda a, b: a > b)
    def __ge__(self, o): return self._cmp(o, ">=", lambda a, b: a >= b)

    def __eq__(self, o):
        if isinstance(o, _np.ndarray):
            return NotImplemented
        if isinstance(o, Sym) and o is self:
            return True
        try:
            return self._cmp(o, "==", lambda a, b: a == b)
        except TraceError:
            return False

    def __ne__(self, o):
        r = self.__eq__(o)
        return r if r is NotImplemented else not r

    __hash__ = object.__hash__

    def __float__(self):
        raise TypeError("Sym leaked into a float context")

    def __repr__(self):
        return "Sym<%s=%g>" % (to_lean(self, short=True)[:60], self.val)

    # exact / float evaluation of the DAG
    def eval(self, env, funs=None, _memo=None):
        memo = {} if _memo is None else _memo
        k = id(self)
        if k in memo:
            return memo[k]
        op, a = self.op, self.args
        if op == "var":
            r = env[a[0]]
        elif op == "const":
            r = a[0] if not isinstance(next(iter(env.values()), 0.0), float) else float(a[0])
        elif op == "neg":
            r = -a[0].eval(env, funs, memo)
        elif op == "npow":
            r = a[0].eval(env, funs, memo) ** a[1]
        elif op == "fun":
            r = funs[a[0]](a[1].eval(env, funs, memo))
        elif op == "rpow":
            r = funs["rpow"](a[0].eval(env, funs, memo), a[1].eval(env, funs, memo))
        else:
            x, y = a[0].eval(env, funs, memo), a[1].eval(env, funs, memo)
            r = _fold(op, x, y)
        memo[k] = r
        return r


def _num(fr, ty):
    n, d = fr.numerator, fr.denominator
    s = "(%d : %s)" % (abs(n), ty)
    if d != 1:
        s = "(%s / (%d : %s))" % (s, d, ty)
    if n < 0:
        s = "(-%s)" % s
    return s


def to_lean(e, ty="α", short=False, _depth=0):
    if not isinstance(e, Sym):
        return str(e)
    if short and e.size > 12:
        return "<expr:%d>" % e.size
    op, a = e.op, e.args
    if op == "var":
        return a[0]
    if op == "const":
        return _num(a[0], ty)
    if op == "neg":
        return "(-%s)" % to_lean(a[0], ty, short)
    if op == "npow":
        return "(%s ^ %d)" % (to_lean(a[0], ty, short), a[1])
    if op == "fun":
        return "(%sF %s)" % (a[0], to_lean(a[1], ty, short))
    if op == "rpow":
        return "(rpowF %s %s)" % (to_lean(a[0], ty, short), to_lean(a[1], ty, short))
    sym = {"add": "+", "sub": "-", "mul": "*", "div": "/"}[op]
    return "(%s %s %s)" % (to_lean(a[0], ty, short), sym, to_lean(a[1], ty, short))


def used_vars(exprs):
    seen, out = set(), []

    def go(e):
        if id(e) in seen:
            return
        seen.add(id(e))
        if e.op == "var":
            out.append(e.args[0])
        for x in e.args:
            if isinstance(x, Sym):
                go(x)
    for e in exprs:
        if isinstance(e, Sym):
            go(e)
    return out


def used_funs(exprs):
    seen, out = set(), set()

    def go(e):
        if id(e) in seen:
            return
        seen.add(id(e))
        if e.op == "fun":
            out.add(e.args[0])
        if e.op == "rpow":
            out.add("rpow")
        for x in e.args:
            if isinstance(x, Sym):
                go(x)
    for e in exprs:
        if isinstance(e, Sym):
            go(e)
    return sorted(out)


def lean_def(name, params, expr, tr, doc="", funs=None):
    """`params`: ordered list of variable names (all become explicit args of type α).
    Opaque functions used by the expression become explicit function arguments
    placed first."""
    if not isinstance(expr, Sym):
        expr = tr.const(expr)
    fs = used_funs([expr]) if funs is None else funs
    fargs = "".join(" (%sF : α → α → α)" % f if f == "rpow" else " (%sF : α → α)" % f for f in fs)
    extra = [v for v in used_vars([expr]) if v not in params]
    if extra:
        raise TraceError("def %s uses variables not among its parameters: %s" % (name, extra))
    pa = (" (" + " ".join(params) + " : α)") if params else ""
    d = ("/-- %s -/\n" % doc.replace("-/", "- /")) if doc else ""
    return "%sdef %s {α : Type} [Field α]%s%s : α :=\n  %s\n" % (d, name, fargs, pa, to_lean(expr))


GEN_HEADER = """-- GENERATED by /verif/harness (T1 tracing translator) from /repo on every check run.
-- Do not edit: the file is overwritten; a snapshot is committed only for reference.
import Mathlib.Algebra.Field.Defs

set_option maxRecDepth 100000
set_option linter.unusedVariables false
"""


# ---------------------------------------------------------------- numpy proxy
class NpProxy:
    """Stands in for the `np` global of a traced function: array constructors
    build object arrays, everything else is real NumPy."""

    def __init__(self, tr):
        self._tr = tr

    def __getattr__(self, k):
        return getattr(_np, k)

    @property
    def pi(self):
        return self._tr.var("pi", math.pi) if self._tr.map_known else math.pi

    def zeros(self, shape, dtype=None, **kw):
        if dtype in (int, bool, _np.int64, _np.int32, 'int', 'bool'):
            return _np.zeros(shape, dtype=dtype)
        a = _np.empty(shape, dtype=object)
        a.fill(self._tr.const(0))
        return a

    def ones(self, shape, dtype=None, **kw):
        if dtype in (int, bool, _np.int64, _np.int32, 'int', 'bool'):
            return _np.ones(shape, dtype=dtype)
        a = _np.empty(shape, dtype=object)
        a.fill(self._tr.const(1))
        return a

    def empty(self, shape, dtype=None, **kw):
        return self.zeros(shape, dtype)

    def zeros_like(self, a, dtype=None, **kw):
        return self.zeros(_np.shape(a), dtype)

    def ones_like(self, a, dtype=None, **kw):
        return self.ones(_np.shape(a), dtype)

    def array(self, obj, dtype=None, **kw):
        if dtype in (int, bool, 'int', 'bool'):
            return _np.array(obj, dtype=dtype)
        r = _np.array(obj, dtype=object) if _contains_sym(obj) else _np.array(obj, **kw)
        return r

    def sqrt(self, x):
        if isinstance(x, Sym):
            return x.sqrt()
        return _np.sqrt(x)

    def abs(self, x):
        if isinstance(x, Sym):
            return abs(x)
        return _np.abs(x)

    def average(self, a, weights=None, **kw):
        if weights is None:
            return _np.sum(a, **kw) / _np.size(a)
        return _np.sum(a * weights, **kw) / _np.sum(weights, **kw)

    def isclose(self, a, b, **kw):
        av = a.val if isinstance(a, Sym) else a
        bv = b.val if isinstance(b, Sym) else b
        return _np.isclose(av, bv, **kw)


def _contains_sym(o):
    if isinstance(o, Sym):
        return True
    if isinstance(o, _np.ndarray):
        return o.dtype == object
    if isinstance(o, (list, tuple)):
        return any(_contains_sym(x) for x in o)
    return False


def rebind(fn, tr, extra_globals=None):
    """Copy of a Python function whose global `np` is the proxy and whose
    float module-level globals that are known constants are symbols."""
    g = dict(fn.__globals__)
    g["np"] = NpProxy(tr)
    if tr.map_known:
        for k, v in list(g.items()):
            if isinstance(v, float):
                b = _known_const(v)
                if b is not None:
                    g[k] = b(tr)
    if extra_globals:
        g.update(extra_globals)
    nf = types.FunctionType(fn.__code__, g, fn.__name__, fn.__defaults__, fn.__closure__)
    nf.__kwdefaults__ = fn.__kwdefaults__
    return nf


def symarray(tr, prefix, vals):
    vals = _np.asarray(vals, dtype=float)
    out = _np.empty(vals.shape, dtype=object)
    for idx in _np.ndindex(vals.shape):
        nm = prefix + "_" + "_".join(str(i) for i in idx)
        out[idx] = tr.var(nm, vals[idx])
    return out


def rename(e, mapping, tr2, _memo=None):
    """Copy of expression `e` in trace `tr2` with variables renamed by `mapping`
    (a dict or a function old-name -> new-name).  An unmapped variable raises
    TraceError: that is how an unexpected dependency of a cell is noticed."""
    memo = {} if _memo is None else _memo
    k = id(e)
    if k in memo:
        return memo[k]
    if e.op == "var":
        nm = mapping(e.args[0]) if callable(mapping) else mapping.get(e.args[0])
        if nm is None:
            raise TraceError("unexpected dependency on variable %s" % e.args[0])
        r = tr2.var(nm, e.val)
    elif e.op == "const":
        r = Sym("const", e.args, e.val, tr2)
    else:
        args = tuple(rename(a, mapping, tr2, memo) if isinstance(a, Sym) else a for a in e.args)
        r = Sym(e.op, args, e.val, tr2)
    memo[k] = r
    return r


def eval_float(e, env, funs=None):
    return _eval(e, env, funs or FLOAT_FUNS, False, {})


def eval_exact(e, env, funs=None):
    """Exact rational evaluation (only for expressions without opaque functions
    unless `funs` supplies exact versions)."""
    return _eval(e, env, funs or {}, True, {})


FLOAT_FUNS = dict(sqrt=math.sqrt, exp=math.exp, log=math.log, log10=math.log10, tan=math.tan,
                  cos=math.cos, sin=math.sin, arccos=math.acos, arctan=math.atan, tanh=math.tanh,
                  rpow=lambda a, b: a ** b)


def _eval(e, env, funs, exact, memo):
    k = id(e)
    if k in memo:
        return memo[k]
    op, a = e.op, e.args
    if op == "var":
        r = env[a[0]]
    elif op == "const":
        r = a[0] if exact else float(a[0])
    elif op == "neg":
        r = -_eval(a[0], env, funs, exact, memo)
    elif op == "npow":
        r = _eval(a[0], env, funs, exact, memo) ** a[1]
    elif op == "fun":
        r = funs[a[0]](_eval(a[1], env, funs, exact, memo))
    elif op == "rpow":
        r = funs["rpow"](_eval(a[0], env, funs, exact, memo), _eval(a[1], env, funs, exact, memo))
    else:
        r = _fold(op, _eval(a[0], env, funs, exact, memo), _eval(a[1], env, funs, exact, memo))
    memo[k] = r
    return r


class GenFile:
    """Collects traced definitions and renders one Lean file."""

    def __init__(self, namespace, source_note):
        self.ns = namespace
        self.note = source_note
        self.defs = []       # (name, params, expr, doc)
        self.tr = Trace()
        self.extra = []

    def add(self, name, params, expr, doc=""):
        self.defs.append((name, list(params), expr, doc))

    def raw(self, text):
        self.extra.append(text)

    def render(self):
        out = [GEN_HEADER, "/-! %s -/\n" % self.note, "namespace %s\n" % self.ns]
        for name, params, expr, doc in self.defs:
            tr = expr.tr if isinstance(expr, Sym) else self.tr
            out.append(lean_def(name, params, expr, tr, doc))
        out.extend(self.extra)
        out.append("end %s\n" % self.ns)
        return "\n".join(out)

    def eval_script(self, points, module):
        """Lean text that evaluates every def at the given rational points
        (list of dict var->Fraction) and prints `name|k|num/den` lines; only
        for defs without opaque functions."""
        lines = ["import %s" % module, "import Mathlib.Algebra.Order.Field.Rat", "open %s" % self.ns]
        idx = []
        for name, params, expr, _ in self.defs:
            if not isinstance(expr, Sym) or used_funs([expr]):
                continue
            for k, pt in enumerate(points):
                try:
                    args = " ".join("(%d/%d : ℚ)" % (pt[p].numerator, pt[p].denominator)
                                    if pt[p] >= 0 else "(-%d/%d : ℚ)" % (-pt[p].numerator, pt[p].denominator)
                                    for p in params)
                except KeyError:
                    continue
                lines.append('#eval IO.println s!"%s|%d|{(%s (α := ℚ) %s).num}/{(%s (α := ℚ) %s).den}"'
                             % (name, k, name, args, name, args))
                idx.append((name, k))
        return "\n".join(lines) + "\n", idx


def substitute(e, mapping, tr2, default=None, _memo=None):
    """Rebuild `e` in trace tr2 through the Sym operators (so constant folding
    and 0/1 simplifications apply), replacing variables by `mapping[name]`
    (a Sym of tr2 or a number); other variables are kept (renamed identically)
    unless `default` is given, in which case they are replaced by `default`."""
    memo = {} if _memo is None else _memo
    k = id(e)
    if k in memo:
        return memo[k]
    op, a = e.op, e.args
    if op == "var":
        if a[0] in mapping:
            r = tr2.const(mapping[a[0]])
        elif default is not None:
            r = tr2.const(default)
        else:
            r = tr2.var(a[0], e.val)
    elif op == "const":
        r = Sym("const", a, e.val, tr2)
    elif op == "neg":
        r = -substitute(a[0], mapping, tr2, default, memo)
    elif op == "npow":
        r = substitute(a[0], mapping, tr2, default, memo) ** a[1]
    elif op == "fun":
        r = getattr(substitute(a[1], mapping, tr2, default, memo), a[0])()
    elif op == "rpow":
        r = substitute(a[0], mapping, tr2, default, memo) ** substitute(a[1], mapping, tr2, default, memo)
    else:
        x = substitute(a[0], mapping, tr2, default, memo)
        y = substitute(a[1], mapping, tr2, default, memo)
        r = {"add": lambda: x + y, "sub": lambda: x - y, "mul": lambda: x * y, "div": lambda: x / y}[op]()
    memo[k] = r
    return r
