"""T1b: symbolic execution of the real RoddedRegion array-level methods.

A real region (real Subchannel / index tables) is shallow-copied and every
*numeric* attribute the coolant update reads is replaced by symbols; then the
real methods (`_setup_ht_constants` -> `calculate_ht_constants`,
`_setup_conduction_constants`, `_setup_convection_constants`;
`_calc_duct_temp`; `_calc_coolant_int_temp` (+ `_calc_int_sc_power`,
`update_ebal`); `_calc_coolant_byp_temp`; `sc_mfr`; `_calculate_int_dz`,
`_calculate_byp_dz` with the `_cons*` calls recorded) are executed.
"""
import copy
import types

import numpy as np

from harness import dasshutil as du
from harness.trace import NpProxy, Sym, Trace, TraceError, rebind, symarray

import dassh.region_rodded as RRmod
from dassh.region_rodded import RoddedRegion

SIXTH_LITERAL = 0.166666666666667


class Stub:
    pass


def _lsym(tr, name, val):
    return tr.var(name, val) if val != 0.0 else 0.0


def sym_region(rng, n_ring, n_duct, wwdir='clockwise', conv_approx=False, flow_rate=5.0, byp_ff=0.05):
    """Returns (o, rr, tr): o is the symbolic shadow of the real region rr."""
    dims = du.bundle_dims(rng, n_ring, n_duct)
    rr = du.activate_rr(du.make_rr(dims, wwdir=wwdir, flow_rate=flow_rate, byp_ff=byp_ff), 650.0)
    tr = Trace()
    tr.literals = {SIXTH_LITERAL: "sixth"}
    o = copy.copy(rr)
    nb = n_duct - 1
    # ---- geometry symbols (shared symbol for entries that are one quantity in calculate_geometry)
    L = [[0.0] * 7 for _ in range(7)]
    names = {(0, 0): "L00", (0, 1): "L01", (1, 0): "L01", (1, 1): "P", (1, 2): "L12", (2, 1): "L12", (2, 2): "L22"}
    for (i, j), nm in names.items():
        L[i][j] = _lsym(tr, nm, rr.L[i][j])
    if nb > 0:
        L[5][5] = [tr.var("P", rr.L[5][5][b]) for b in range(nb)]
        L[5][6] = [tr.var("Lb56_%d" % b, rr.L[5][6][b]) for b in range(nb)]
        L[6][5] = L[5][6]
        L[6][6] = [tr.var("Lb66_%d" % b, rr.L[6][6][b]) for b in range(nb)]
    o.L = L
    d = {}
    d['pin-pin'] = tr.var("dpp", rr.d['pin-pin'])
    d['pin-wall'] = tr.var("dpw", rr.d['pin-wall'])
    d['wall'] = symarray(tr, "dwall", rr.d['wall'])
    d['wcorner'] = symarray(tr, "wc", rr.d['wcorner'])
    if nb > 0:
        d['bypass'] = symarray(tr, "dbyp", rr.d['bypass'])
    o.d = d
    o.pin_pitch = tr.var("P", rr.pin_pitch)
    o.params = dict(rr.params)
    o.params['area'] = symarray(tr, "A", rr.params['area'])
    o.bundle_params = dict(rr.bundle_params)
    o.bundle_params['area'] = tr.var("Ab", rr.bundle_params['area'])
    if nb > 0:
        o.bypass_params = dict(rr.bypass_params)
        o.bypass_params['area'] = symarray(tr, "Abyp", rr.bypass_params['area'])
        o.bypass_params['total area'] = symarray(tr, "Abtot", rr.bypass_params['total area'])
        o.byp_flow_rate = symarray(tr, "mbyp", rr.byp_flow_rate)
    o.int_flow_rate = tr.var("mdot", rr.int_flow_rate)
    # ---- materials / correlated parameters
    c = Stub()
    c.heat_capacity = tr.var("cp", rr.coolant.heat_capacity)
    c.density = tr.var("rho", rr.coolant.density)
    c.thermal_conductivity = tr.var("k", rr.coolant.thermal_conductivity)
    c.viscosity = tr.var("mu", rr.coolant.viscosity)
    c.temperature = 650.0
    o.coolant = c
    dm = Stub()
    dm.thermal_conductivity = tr.var("kw", rr.duct.thermal_conductivity)
    o.duct = dm
    o._update_duct = lambda T: None
    o._update_coolant = lambda T: None
    o._sf = tr.var("sf", 1.1)
    o._conv_approx = conv_approx
    cip = dict(rr.coolant_int_params)
    cip['fs'] = symarray(tr, "fs", rr.coolant_int_params['fs'])
    hv = np.array(rr.coolant_int_params['htc'], dtype=float)
    cip['htc'] = symarray(tr, "h", np.where(hv > 0, hv, 1.0e4))
    cip['eddy'] = tr.var("eddy", float(rr.coolant_int_params['eddy']) or 1e-3)
    sw = np.array(rr.coolant_int_params['swirl'], dtype=float)
    cip['swirl'] = symarray(tr, "sw", np.where(sw > 0, sw, 0.1))
    o.coolant_int_params = cip
    if nb > 0:
        cbp = dict(rr.coolant_byp_params)
        cbp['htc'] = symarray(tr, "hb", np.where(rr.coolant_byp_params['htc'] > 0, rr.coolant_byp_params['htc'], 1e4))
        o.coolant_byp_params = cbp
    # ---- state
    sc = rr.subchannel
    nc = sc.n_sc['coolant']['total']
    nd = sc.n_sc['duct']['total']
    r = lambda shape, lo, hi: np.array([rng.uniform(lo, hi) for _ in range(int(np.prod(shape)))]).reshape(shape)
    o.temp = {}
    o.temp['coolant_int'] = symarray(tr, "T", r((nc,), 600, 700))
    o.temp['duct_mw'] = symarray(tr, "Tmw", r((n_duct, nd), 600, 700))
    o.temp['duct_surf'] = symarray(tr, "Ts", r((n_duct, 2, nd), 600, 700))
    if nb > 0:
        o.temp['coolant_byp'] = symarray(tr, "Tb", r((nb, nd), 600, 700))
    o.ebal = {'power': 0, 'duct': NpProxy(tr).zeros(nd)}
    if nb > 0:
        o.ebal['duct_byp_in'] = NpProxy(tr).zeros((nb, nd))
        o.ebal['duct_byp_out'] = NpProxy(tr).zeros((nb, nd))
    # ---- rebuild the heat-transfer constants with the REAL setup code on the symbols
    g = {}
    for fn in ("calculate_ht_constants", "_setup_conduction_constants", "_setup_convection_constants"):
        g[fn] = rebind(getattr(RRmod, fn), tr)
    rebind(RoddedRegion._setup_ht_constants, tr, g)(o)
    o._mfrc = o.params['area'] * o.int_flow_rate / o.bundle_params['area']   # as in _setup_flowrate
    return o, rr, tr


def check_mfrc_line():
    """`_mfrc` above is a transcription of one line of `_setup_flowrate`; make
    sure that line is still what the source says."""
    import inspect
    src = inspect.getsource(RoddedRegion._setup_flowrate)
    norm = "".join(src.split())
    return "self._mfrc=(self.params['area']*self.int_flow_rate/self.bundle_params['area'])" in norm


def trace_int_step(o, tr, with_pins=True, with_cool=True):
    """Run the real interior coolant update symbolically.  Returns
    (dT[nc], ebal_power, ebal_duct[nd], mfr[nc], qp, qc)."""
    sc = o.subchannel
    nc = sc.n_sc['coolant']['total']
    npin = o.n_pin
    qp = symarray(tr, "qp", np.full(npin, 1.0e4)) if with_pins else None
    qc = symarray(tr, "qc", np.full(nc, 1.0e2)) if with_cool else None
    dz = tr.var("dz", 1.0e-3)
    o._calc_int_sc_power = types.MethodType(rebind(RoddedRegion._calc_int_sc_power, tr), o)
    dT = rebind(RoddedRegion._calc_coolant_int_temp, tr)(o, dz, qp, qc, True)
    mfr = RoddedRegion.sc_mfr.fget(o)
    return dT, o.ebal['power'], o.ebal['duct'], mfr, qp, qc, dz


def trace_byp_step(o, tr):
    dz = tr.var("dz", 1.0e-3)
    dT = rebind(RoddedRegion._calc_coolant_byp_temp, tr)(o, dz, True)
    return dT, dz


def trace_limits(o, tr, adiabatic=None):
    """Run the real _calculate_int_dz / _calculate_byp_dz; every _cons* call is
    recorded as code -> Sym."""
    rec = {}

    def wrap(name):
        f = rebind(getattr(RRmod, name), tr)

        def w(*a, **k):
            v = f(*a, **k)
            rec.setdefault(name.replace("_cons", "").replace("_", "-", 1), []).append(v)
            return v
        return w
    g = {n: wrap(n) for n in dir(RRmod) if n.startswith("_cons")}
    res_int = rebind(RRmod._calculate_int_dz, tr, g)(o, adiabatic)
    res_byp = None
    if o.n_bypass > 0:
        res_byp = rebind(RRmod._calculate_byp_dz, tr, g)(o, adiabatic)
    return rec, res_int, res_byp


def class_code(rr, i):
    """'a-bcd' class of coolant subchannel i from the real tables (1-based types)."""
    sc = rr.subchannel
    nc = sc.n_sc['coolant']['total']
    ty = sc.type[:nc]
    nbrs = [j for j in sc.sc_adj[i][:5] if j >= 0]
    return "%d-%s" % (ty[i] + 1, "".join(str(t) for t in sorted(ty[j] + 1 for j in nbrs)))


def byp_class_code(rr, b, j):
    sc = rr.subchannel
    start = (sc.n_sc['coolant']['total'] + sc.n_sc['duct']['total']
             + b * sc.n_sc['bypass']['total'] + b * sc.n_sc['duct']['total'])
    own = sc.type[start + j]
    nb = [sc.type[a] for a in sc.sc_adj[start + j] if a >= 0 and not (3 <= sc.type[a] <= 4)]
    return "%d-%s" % (own + 1, "".join(str(t + 1) for t in sorted(nb)))
