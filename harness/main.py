import argparse
import importlib
import os
import sys
import traceback

from harness.common import Ctx


def main():
    ap = argparse.ArgumentParser()
    ap.add_argument("pid")
    ap.add_argument("--tier", default=os.environ.get("VERIF_TIER", "quick"), choices=["quick", "thorough"])
    ap.add_argument("--replay", default=None)
    a = ap.parse_args()
    seed = int(os.environ.get("VERIF_SEED", "0") or 0)
    pid = a.pid.upper()
    try:
        mod = importlib.import_module("harness.checks.%s" % pid.lower())
    except BaseException:
        traceback.print_exc()
        print("ERROR property=%s infrastructure failure: the check module does not load" % pid, flush=True)
        sys.exit(2)
    if a.replay:
        sys.exit(mod.replay(a.replay))
    ctx = Ctx(pid, a.tier, seed)
    try:
        mod.run(ctx)
    except BaseException:
        traceback.print_exc()
        print("ERROR property=%s infrastructure failure in the check itself" % pid, flush=True)
        import shutil
        shutil.rmtree(ctx.work, ignore_errors=True)
        sys.exit(2)
    sys.exit(ctx.finish())


if __name__ == "__main__":
    main()
